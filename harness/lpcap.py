"""Shared machinery for C03 / C02: capture every LP that `shed_energy` builds and solves during
real runs (scipy's linprog is wrapped at the module attribute of relsad.energy.shedding), rebuild
the instance independently from the island's state with the model (`Relsad.Model.LP.build`),
compare exactly, and run the verified certificate / feasibility checkers on the solver's output.
"""
import random
import sys
from fractions import Fraction

import numpy as np

from .common import fr, flist, run_driver
from . import net, acct

F = Fraction
INF = F(10 ** 8)
ALPHA = F(1e-4)        # the documented slack, as the float the implementation uses


def fx(v):
    return F(float(v))


def gen_spec(rng, small=None, binding=False):
    spec = net.rand_feeder_spec(rng, max_lines=6, allow_mg=rng.random() < 0.4, nfeed=rng.choice([1, 1, 2]))
    spec["s_ref"] = str(rng.choice([F(1), F(1), F(10), F(1, 10), F(100)]))
    small = (rng.random() < 0.3) if small is None else small
    for fd in spec["feeders"]:
        n = len(fd["parent"])
        fd["cost"] = [rng.choice([1, 1, 2, 3, 5, 8]) for _ in range(n)]          # ties in cost included
        fd["load"] = [str(rng.choice([F(0), F(1, 100), F(1, 50), F(1, 20), F(1, 10)])) for _ in range(n)]
        if small:                    # small specific interruption costs (another currency / energy unit) and small load points
            fd["cost"] = [str(rng.choice([F(1, 100), F(1, 50), F(1, 1000), F(1, 10)])) for _ in range(n)]
            fd["costB"] = "0"
            fd["load"] = [str(rng.choice([F(0), F(1, 500), F(1, 1000), F(1, 250), F(1, 100)])) for _ in range(n)]
        if binding:                  # targeted: base power != 1 MVA together with capacities that bind
            spec["s_ref"] = str(rng.choice([F(10), F(1, 10), F(100)]))
            fd["load"] = [str(rng.choice([F(1, 50), F(1, 20), F(1, 10)])) for _ in range(n)]
            fd["cap"] = [str(rng.choice([F(1, 100), F(1, 50), F(1, 20)])) if rng.random() < 0.7 else None for _ in range(n)]
        elif rng.random() < 0.5:       # binding line capacities
            fd["cap"] = [None if rng.random() < 0.6 else str(rng.choice([F(1, 100), F(1, 50), F(1, 20), F(0), F(1, 10)])) for _ in range(n)]
        if rng.random() < 0.5:       # distributed production, also net exporters
            fd["prod"] = {str(rng.randrange(n)): {"p": str(rng.choice([F(1, 100), F(1, 20), F(3, 10), F(1)])), "q": str(rng.choice([F(0), F(1, 50)]))}
                          for _ in range(rng.choice([1, 1, 2]))}
    return spec


def junction_spec(rng):
    """targeted: one feeder with a bus that feeds three or more lines (several laterals at one junction), every load point
    with demand, no production, no binding capacity: the island that stays energised when a lateral end is faulted must be
    supplied in full (the line flows of the load flow have to add up all laterals)"""
    k = rng.choice([3, 3, 4])
    parent = [-1] + [0] * k + [rng.randint(1, k) for _ in range(rng.choice([0, 1, 2]))]
    n = len(parent)
    fd = {"parent": parent, "sw": [rng.choice([1, 2, 3]) for _ in range(n)], "cust": [1] * n,
          "load": [str(rng.choice([F(1, 50), F(1, 20), F(1, 10)])) for _ in range(n)], "cost": [rng.choice([1, 2, 3, 5]) for _ in range(n)]}
    return {"ctrl": {"type": "manual", "T": str(rng.choice([F(1, 2), F(1)]))}, "feeders": [fd], "tie": None, "mg": None, "rep": "2", "exact": True,
            "s_ref": str(rng.choice([F(1), F(10)]))}


def gen(rng, n):
    cases = []
    # corpus: the witness of fix e34a2b9 (line limits of ~1e-8 from an almost idle load flow: presolve declared the always-feasible
    # reactive problem infeasible and the run ended in a TypeError) runs first
    import json as _json, os as _os
    _wp = _os.path.join(_os.path.dirname(__file__), "corpus", "lp_presolve_witness.json")
    if _os.path.exists(_wp):
        cases.append(_json.load(open(_wp)))
    for j in range(n):
        targeted = j % 5 == 2
        spec = junction_spec(rng) if targeted else gen_spec(rng, small=True if j % 5 == 4 else None, binding=(j % 5 == 1))   # every fifth: small costs / small load points
        n_inc = rng.choice([6, 8])
        case = {"kind": "lp-run", "spec": spec, "n_inc": n_inc, "dt": str(rng.choice([F(1), F(1, 2)]))}
        if j % 8 == 6:
            case["dt"] = str(rng.choice([F(1, 3600), F(1, 3600), F(1, 1800)]))       # steps of seconds / a minute: the energy at stake per increment is tiny, the power is not
        ps = net.build(dict(spec, exact=False))
        if j % 5 == 3:
            # targeted: a load point at the end of a lateral with a small production unit of its own; a fault on its line leaves
            # it as a one-bus island whose supply covers only part of its demand
            spec["mg"] = None
            fd = spec["feeders"][0]
            while len(fd["parent"]) < 2:
                fd["parent"].append(0); fd["sw"].append(1); fd["cust"].append(1); fd["load"].append("1/20"); fd["cost"].append(2)
                if fd.get("cap"):
                    fd["cap"].append(None)
            leaf = max(i for i in range(len(fd["parent"])) if i not in set(fd["parent"]))
            fd["sw"][leaf] = rng.choice([1, 3])
            fd["load"][leaf] = "1/20"
            fd["prod"] = {str(leaf): {"p": str(rng.choice([F(1, 100), F(1, 50)])), "q": "0"}}
            ps = net.build(dict(spec, exact=False))
            case["faults"] = {str(rng.randint(1, 2)): [["line", f"F0L{leaf}", "3"]]}
        elif j % 5 == 4:
            # targeted: no production, cheapest costs, smallest load points, the whole feeder cut off from the feed
            spec["mg"] = None
            for fd in spec["feeders"]:
                fd.pop("prod", None)
                fd["cost"] = ["1/1000"] * len(fd["parent"])
                fd["load"] = [str(rng.choice([F(1, 1000), F(1, 500), F(1, 250)])) for _ in fd["parent"]]
            ps = net.build(dict(spec, exact=False))
            case["faults"] = {"1": [["line", "F0L0", "2"]]}
        elif targeted:
            # a fault at the end of one lateral: the junction and the other laterals stay energised behind the reclosed breaker
            leaves = [l.name for i, l in enumerate(ps.lines) if i not in set(spec["feeders"][0]["parent"])]
            case["faults"] = {str(rng.randint(1, 2)): [["line", rng.choice(leaves), str(rng.choice([F(2), F(3)]))]]}
        elif j % 10 == 5:
            # targeted: a load point whose transformer is failed (its demand is booked when the failure is handled) sits in an island
            # in which the shedding routine sheds something in the same increment (the whole feeder cut off from the feed)
            spec["mg"] = None
            for fd_ in spec["feeders"]:
                fd_.pop("prod", None)
            # a chain whose second line has disconnectors at both ends and whose tail has none: a fault on the second line leaves the
            # tail as one dead island of several buses
            nb0 = rng.choice([4, 5])
            fd0 = spec["feeders"][0]
            fd0["parent"] = [-1] + list(range(nb0 - 1)); fd0["sw"] = [3, 3] + [0] * (nb0 - 2)
            fd0["cust"] = [1] * nb0; fd0["cost"] = [rng.choice([1, 2, 5]) for _ in range(nb0)]
            fd0["load"] = [str(rng.choice([F(1, 50), F(1, 20)])) for _ in range(nb0)]
            fd0.pop("cap", None); fd0.pop("qload", None)
            spec["tie"] = None; spec["ties"] = []
            ps = net.build(dict(spec, exact=False))
            k1 = rng.randint(1, 2)
            case["faults"] = {str(k1): [["trafo", f"F0B{rng.randrange(2, nb0)}", "4"]], str(k1 + 1): [["line", "F0L1", "2"]]}
        elif j % 10 == 0:
            # targeted: storage as the only source of an island - a microgrid with a battery, cut off from the feed together with
            # (part of) its feeder, or on its own
            while not spec.get("mg"):
                spec = gen_spec(rng)
            spec["mg"]["mode"] = rng.choice(["full", "limited", "survival"])
            spec["mg"]["battery"] = spec["mg"].get("battery") or {"p": "1", "q": "1", "e": "2", "smin": "1/10", "smax": "1", "eta": "1"}
            host_f = spec["mg"]["host"][0]
            if (j // 10) % 2 == 0:
                # ... next to a unit that produces hardly any active but plenty of reactive power (an inverter), loads without
                # reactive demand: the island has an active deficit and a reactive surplus
                fdh = spec["feeders"][host_f]
                fdh["qload"] = ["0"] * len(fdh["parent"])
                hb = spec["mg"]["host"][1]
                fdh["prod"] = {str(hb): {"p": "1/100", "q": str(rng.choice([F(1, 5), F(1, 2)])), "qmax": "1"}}       # on the bus that hosts the microgrid
                fdh["sw"][hb] = 3                                   # the host's own line can be isolated: host bus and microgrid form an island
                spec["mg"]["mode"] = "limited"                      # (no start level is drawn: the battery is as empty as it starts)
                spec["mg"]["battery"] = dict(spec["mg"]["battery"], soc_start="1/10")
                case["_host_line"] = f"F{host_f}L{hb}"
            case["spec"] = spec
            ps = net.build(dict(spec, exact=False))
            case["faults"] = {str(rng.randint(1, 2)): [["line", case.pop("_host_line", None) or rng.choice([f"F{host_f}L0", "ML0"]), "3"]]}
        else:
            case["faults"] = acct.rand_faults(rng, ps, n_inc, ("line", "trafo"), nmax=3)
        cases.append(case)
    for q in range(max(3, n // 6)):
        # stand-alone use of shed_energy on a whole system with open lines in the middle of its line list
        spec = gen_spec(rng, small=False)
        spec["mg"] = None; spec["tie"] = None; spec["ties"] = []
        fd = spec["feeders"][0]
        while len(fd["parent"]) < 4:
            fd["parent"].append(rng.randrange(len(fd["parent"])))
            for key, v in (("sw", 1), ("cust", 1), ("load", "1/20"), ("cost", 2)):
                fd[key].append(v)
            if fd.get("cap"):
                fd["cap"].append(None)
        nb = len(fd["parent"])
        fd["sw"] = [rng.choice([1, 3]) for _ in range(nb)]
        fd.pop("prod", None)
        for other in spec["feeders"][1:]:
            other.pop("prod", None)
        # open a line that is not the last one of the feeder's list (and not the first)
        k = rng.randrange(1, nb - 1)
        loads = [[str(rng.choice([F(1, 50), F(1, 20), F(1, 10)])), str(rng.choice([F(0), F(1, 100)])), str(rng.choice([1, 2, 5, 10]))] for _ in range(nb + 6)]
        # interruption costs are stated by hand here: some load points cost nothing to shed (every third case: all of them)
        for ld in loads:
            if q % 3 == 2 or rng.random() < 0.3:
                ld[2] = "0"
        loads[q % nb][2] = "0"
        fd["cap"] = [str(F(3, 50))] + [None] * (nb - 1)          # the feed cannot carry everything: something is shed among the connected buses
        cases.append({"kind": "lp-run", "spec": spec, "n_inc": 1, "dt": str(rng.choice([F(1), F(1, 2)])), "faults": {},
                      "direct": {"open": [f"F0L{k}a"], "loads": loads}})
    return cases


def island_desc(sub, reactive):
    """independent reading of the island's state (the documented problem data)"""
    from relsad.network.systems import Transmission
    buses = list(sub.buses)
    lines = [l for l in sub.lines if l.connected]
    idx = {b.name: i for i, b in enumerate(buses)}
    loads = [max(F(0), fx(b.qload if reactive else b.pload)) for b in buses]
    stated = getattr(sub, "_verif_stated_costs", None) or {}       # costs stated by hand (stand-alone use), else what the bus says
    costs = [stated[b.name] if b.name in stated else fx(b.get_cost()) for b in buses]
    gens = []
    for b in buses:
        is_trafo = any(isinstance(n, Transmission) and b == n.get_trafo_bus() for n in sub.child_network_list)
        gens.append(INF if is_trafo else max(F(0), fx(b.qprod if reactive else b.pprod)))
    ls = []
    for l in lines:
        flow = l.get_line_load()[1 if reactive else 0] * l.s_ref       # MW / MVar
        ls.append((idx[l.fbus.name], idx[l.tbus.name], min(fx(l.capacity), abs(fx(flow)))))
    return buses, lines, loads, costs, gens, ls


def island_op(loads, costs, gens, ls):
    return (f"lp island {fr(ALPHA)} {flist(loads)} {flist(costs)} {flist(gens)} "
            + (",".join(f"{a}:{b}:{fr(c)}" for a, b, c in ls) or "-"))


def dump_instance(c, A, b, bounds):
    n = len(c)
    rows = ";".join(flist([fx(v) for v in row]) for row in A)
    return f"{n} {rows} {flist([fx(v) for v in b])} {flist([fx(v) for v in c])} {flist([fx(lo) for lo, hi in bounds])} {flist([fx(hi) for lo, hi in bounds])}"


def run_and_capture(case, observe=None):
    """Runs the real simulation; returns one record per linprog call with the island it came from."""
    import relsad.energy.shedding as shed
    import relsad.simulation.Simulation  # noqa: F401
    simmod = sys.modules["relsad.simulation.Simulation"]
    records = []
    cur = {}
    orig_lin = shed.linprog
    orig_shed = simmod.shed_energy

    def lin(c, A_eq=None, b_eq=None, bounds=None, **kw):
        res = orig_lin(c, A_eq=A_eq, b_eq=b_eq, bounds=bounds, **kw)
        if not kw:
            cur["calls"].append({"c": list(c), "A": np.array(A_eq), "b": list(b_eq), "bounds": list(bounds), "res": res})
        elif cur.get("calls") and not cur["calls"][-1]["res"].success:
            # the re-solve after a failed solve (same instance, solver output on, no presolve): its result is the one the code uses
            cur["calls"][-1]["res"] = res
            cur["calls"][-1]["retried"] = True
        return res

    def shed_energy(power_system, dt, **kw):
        cur.clear()
        cur["calls"] = []
        cur["sub"] = power_system
        pre = {}
        for reactive in (False, True):
            pre[reactive] = island_desc(power_system, reactive)
        stacks0 = [(b.p_energy_shed_stack, b.q_energy_shed_stack) for b in power_system.buses]
        orig_shed(power_system=power_system, dt=dt, **kw)
        stacks1 = [(b.p_energy_shed_stack, b.q_energy_shed_stack) for b in power_system.buses]
        # which problem each call solved: active first (if sum(p_b) > alpha), then reactive
        calls = list(cur["calls"])
        sp = sum(pre[False][2]) > ALPHA
        sq = sum(pre[True][2]) > ALPHA
        k = 0
        for reactive, present in ((False, sp), (True, sq)):
            rec = {"reactive": reactive, "pre": pre[reactive], "dt": dt.get_hours(), "solved": present, "call": None,
                   "stack_delta": [s1[1 if reactive else 0] - s0[1 if reactive else 0] for s0, s1 in zip(stacks0, stacks1)],
                   "has_slack": power_system.slack is not None, "names": [b.name for b in power_system.buses]}
            if present and k < len(calls):
                rec["call"] = calls[k]
                k += 1
            records.append(rec)

    shed.linprog = lin
    simmod.shed_energy = shed_energy
    try:
        if case.get("direct"):
            # the documented stand-alone use (as the repository's own shedding tests do): a whole PowerSystem, some of its lines
            # open, loads and costs set by hand, one load flow from the feed, then shed_energy on the system itself
            from relsad.loadflow.ac import run_bfs_load_flow
            from relsad.Time import Time, TimeUnit
            ps = net.build(dict(case["spec"], exact=False))
            sim = None
            k = 0
            stated = ps._verif_stated_costs = {"B0": F(1)}
            for b in ps.buses:
                if b.name == "B0":
                    b.add_load(pload=0, qload=0); b.set_cost(1)
                    continue
                ld = case["direct"]["loads"][k % len(case["direct"]["loads"])]; k += 1
                b.add_load(pload=float(F(ld[0])), qload=float(F(ld[1])))
                b.set_cost(float(F(ld[2])))
                stated[b.name] = F(ld[2])
            for name in case["direct"]["open"]:
                ps.get_comp(name).open()
            ps.get_comp("B0").set_slack()
            run_bfs_load_flow(ps, maxit=5)
            shed_energy(power_system=ps, dt=Time(float(F(case["dt"])), TimeUnit.HOUR))
        else:
            ps, sim = acct.e2e_run(dict(case, save=False), observe=observe)
    finally:
        shed.linprog = orig_lin
        simmod.shed_energy = orig_shed
    return ps, records


def cert_lines(rec):
    """driver ops for one solved LP: instance, certificate, always-feasible point"""
    buses, lines, loads, costs, gens, ls = rec["pre"]
    call = rec["call"]
    res = call["res"]
    x = [fx(v) for v in res.x]
    y = [fx(v) for v in res.eqlin.marginals]
    fun = fx(res.fun)
    cmax = max([c for c, l in zip(costs, loads) if l > 0] + [F(1)])     # costs of buses that can shed at all
    # HiGHS works with primal/dual feasibility tolerances of 1e-7
    tol = F(1, 10 ** 6) * (1 + max(loads + [F(0)]))
    gap = F(1, 10 ** 6) * (1 + abs(fun)) + 4 * tol * cmax
    return [island_op(loads, costs, gens, ls), f"lp cert {flist(x)} {flist(y)} {fr(gap)} {fr(tol)}"], x, fun


def zero_shed_point(rec):
    """if the island is a tree containing the feed: the point that sheds nothing and routes every load
    from the feed bus along the tree (None when the island has no feed / is not a tree)."""
    buses, lines, loads, costs, gens, ls = rec["pre"]
    n = len(buses)
    feed = [i for i, g in enumerate(gens) if g >= INF]
    if len(feed) != 1 or len(ls) != n - 1:
        return None
    root = feed[0]
    adj = {i: [] for i in range(n)}
    for k, (a, b, c) in enumerate(ls):
        adj[a].append((b, k, +1)); adj[b].append((a, k, -1))
    order, parent = [root], {root: None}
    for v in order:
        for (w, k, sgn) in adj[v]:
            if w not in parent:
                parent[w] = (v, k, sgn)
                order.append(w)
    if len(order) != n:
        return None
    need = list(loads)
    flow = [F(0)] * len(ls)
    for v in reversed(order[1:]):
        p, k, sgn = parent[v]
        flow[k] = sgn * need[v]          # positive along fbus -> tbus
        need[p] += need[v]
    gen = [F(0)] * n
    gen[root] = need[root]
    return [F(0)] * n + flow + gen + [F(0)]
