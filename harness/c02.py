"""C02  Load is shed only for a reason; unsupplied islands shed everything.

On every island of every increment of generated real fault runs: the LP instance is rebuilt by the
model and compared exactly; a zero-shed routing from the feed is constructed and checked feasible
by the verified checker (if it is, theorem `C02.fed_zero_shed` + the certificate bound the shed
cost by the gap, so nothing may be recorded as shed); an island without slack and generation must
shed every load; every island must shed at least demand minus internal supply.  Failure-free runs
must leave all indices at zero and availability at one.
"""
import random
from fractions import Fraction

from .common import fr, flist, run_cases, run_driver
from . import lpcap, acct, net

PROP = "C02"
LEVEL = "proof"
ASSUMPTIONS = [
    "adequacy of the line limits (taken from the implementation's 5-sweep load flow) is decided per island by the verified feasibility checker on a zero-shed routing; it is a numeric fact, not a theorem",
    "the solver is not modelled; its output is certified per instance (see C03)",
]
F = Fraction
ALPHA = lpcap.ALPHA


def handler(case):
    if case["kind"] == "quiet":
        return quiet_case(case)
    ops, impl, viols = [], [], []
    st = {}

    def observe(ps, phase, info):
        # independent of which islands the simulator passed to the shedding routine: at the end of every logged increment,
        # every island found by the simulator that does not contain the feed has shed at least its demand minus the
        # production available inside it (demand from the load profiles, supply and shed energy read from the buses)
        from relsad.network.systems import Transmission
        if phase == "after_set_load":
            i_ = info["inc"]
            st["p0"] = {b.name: sum(float(d[i_]) for d in b.pload_data) * b.n_customers for b in ps.buses}
            # what every battery holds above its minimum before the increment (the supply it can give is bounded by it, whatever it reports)
            st["e0"] = {bt.name: (float(bt.E_battery), float(bt.SOC_min) * float(bt.E_max)) for bt in ps.batteries}
            st["drawn"] = {}
            if not st.get("wrapped"):
                st["wrapped"] = True
                for bt in ps.batteries:           # a start level may be drawn at the first increment of an outage: then that is what was there
                    def draw(_b=bt, _orig=bt.draw_SOC_state):
                        _orig()
                        st["drawn"][_b.name] = float(_b.E_battery)
                    bt.draw_SOC_state = draw
        elif phase == "before_log":
            dt = (info["curr"] - info["prev"]).get_hours()
            if dt <= 0 or not (ps.failed_comp() or not ps.full_batteries()):
                return          # the closing record of an outage: islands were not formed in this increment
            for sub in ps.sub_systems:
                if any(isinstance(n, Transmission) and n.get_trafo_bus() in sub.buses for n in ps.child_network_list):
                    continue
                dem = sum(st["p0"].get(b.name, 0.0) for b in sub.buses)
                sup = 0.0
                for b in sub.buses:
                    sb = max(0.0, float(b.pprod))
                    if b.battery is not None and b.battery.name in st.get("e0", {}) and b.ev_park is None:
                        e0, emin = st["e0"][b.battery.name]
                        avail = st.get("drawn", {}).get(b.battery.name, e0) - emin
                        cap = max(0.0, avail) * float(b.battery.n_battery) / dt
                        unit = float(b.prod.pprod) if b.prod is not None else 0.0
                        sb = min(sb, max(0.0, unit) + min(float(b.battery.inj_p_max), cap) + 1e-9)
                    sup += sb
                shd = sum(float(b.p_energy_shed_stack) for b in sub.buses) / dt
                nb = len(sub.buses)
                if dem > float(ALPHA) * (nb + 1) and shd < dem - sup - 2 * nb * float(ALPHA) - 1e-9:
                    viols.append(("island.balance-end", f"increment ending at {info['curr'].get_hours()} h: island {[b.name for b in sub.buses]} without the feed demands {dem} MW, "
                                                        f"holds {sup} MW of supply and has shed {shd} MW"))

    ps, records = lpcap.run_and_capture(case, observe=observe)
    sig = set()
    q_ops, q_meta = [], []
    for r in records:
        buses, lns, loads, costs, gens, ls = r["pre"]
        names = r["names"]
        dt = F(float(r["dt"]))
        shed = [F(float(d)) / dt if dt else F(0) for d in r["stack_delta"]]
        kind = "reactive" if r["reactive"] else "active"
        tag = f"{kind} demand of island {names}"
        n = len(buses)
        supply = sum(g for g in gens)
        fed = any(g >= lpcap.INF for g in gens)
        if r["call"] is not None:
            call = r["call"]
            ops.append(lpcap.island_op(loads, costs, gens, ls))
            impl.append(lpcap.dump_instance(call["c"], call["A"], call["b"], call["bounds"]) + " pattern=T shedAllFeasible=T")
        # (a) island without any source sheds its entire demand
        # (the slack variable is shared by the N bus rows and line variables may shift it between buses, so a
        #  single bus may fall short by up to N*alpha; the total by N*alpha as well: theorem C02.sourceless_sheds_all)
        if not fed and supply == 0:
            for j, (l, s) in enumerate(zip(loads, shed)):
                if l > (n + 1) * ALPHA and s < l - n * ALPHA - F(1, 10 ** 9):
                    viols.append(("island.sourceless", f"{tag}: no source in the island but {names[j]} sheds {float(s)} of its demand {float(l)}"))
        # (b) at least demand minus the supply available inside the island
        if not fed and sum(loads) > ALPHA:
            low = sum(loads) - supply - 2 * n * ALPHA
            if sum(shed) < low - F(1, 10 ** 9):
                viols.append(("island.balance", f"{tag}: sheds {float(sum(shed))} < demand {float(sum(loads))} - supply {float(supply)} - slack"))
        # (c) fed tree whose limits suffice: supplied in full
        z = lpcap.zero_shed_point(r) if r["call"] is not None else None
        # (c') independent of the implementation's load flow: a fed tree without internal production in which every line's
        # nominal capacity exceeds the demand behind it has no reason to shed (the line limits of the documented problem,
        # min(capacity, |flow|), can only bind there if the load flow under-reports a flow, which includes all losses)
        if z is not None and fed and all(g == 0 or g >= lpcap.INF for g in gens):
            flows = z[n:n + len(ls)]
            if all(abs(f) <= lpcap.fx(l.capacity) - F(1, 10 ** 9) for f, l in zip(flows, lns)):
                for j, sj in enumerate(shed):
                    if sj > (n + 1) * ALPHA + F(1, 10 ** 9):
                        viols.append(("island.fed-shed-capacity", f"{tag}: every line's capacity exceeds the demand behind it and the island is fed, yet {names[j]} sheds {float(sj)} "
                                                                  f"(line limits used: {[float(c) for a, b, c in ls]}, demand behind the lines: {[float(abs(f)) for f in flows]})"))
                        break
        if z is not None:
            q_ops += [lpcap.island_op(loads, costs, gens, ls), f"lp feas {flist(z)}"]
            q_meta.append((r, shed, tag))
        sig.add((r["reactive"], fed, supply > 0 and not fed, n, r["call"] is not None, any(s > 0 for s in shed)))
    if q_ops:
        out = run_driver(q_ops)
        for k, (r, shed, tag) in enumerate(q_meta):
            feas = out[2 * k + 1].split()[0] == "T"
            if feas and any(s > 0 for s in shed):
                j = next(i for i, s in enumerate(shed) if s > 0)
                viols.append(("island.fed-shed", f"{tag}: every load can be routed from the feed within the line limits, yet {r['names'][j]} sheds {float(shed[j])}"))
            sig.add(("zero-shed-feasible", feas))
    return dict(ops=ops, impl=impl, viols=viols[:3], nontrivial=tuple(sorted(sig, key=str)) if sig else None, tag="lp-run")


def quiet_case(case):
    """grid-fed system, no component ever fails: indices stay at zero, availability at one"""
    viols = []
    ps, sim = acct.e2e_run(dict(case, faults={}, save=True))
    logged = len(ps.history["ENS"])
    for obj in [ps] + list(ps.child_network_list):
        for t, v in obj.history["ENS"].items():
            for name, want in (("ENS", 0), ("SAIDI", 0), ("SAIFI", 0), ("ASAI", 1)):
                if abs(obj.history[name][t] - want) > 1e-12:
                    viols.append(("quiet.index", f"no component failed but {obj.name} {name} = {obj.history[name][t]} at t={t}"))
    for b in ps.buses:
        if b.acc_p_energy_shed != 0 or b.acc_q_energy_shed != 0 or b.acc_interruptions != 0:
            viols.append(("quiet.bus", f"no component failed but {b.name} has energy not supplied {b.acc_p_energy_shed}"))
    return dict(ops=[], impl=[], viols=viols[:3], nontrivial=("quiet", logged > 0, len(ps.batteries) > 0, len(ps.productions) > 0), tag=f"quiet:logged={logged}")


def gen(rng, n, nq):
    cases = lpcap.gen(rng, n)
    for q in range(nq):
        spec = lpcap.gen_spec(rng)
        if q % 2 == 0:
            # targeted: base power above 1 MVA, a small production unit among larger loads, and a microgrid battery that charges
            # (the shedding routine is evaluated in failure-free increments while a battery is not full)
            while not spec.get("mg"):
                spec = lpcap.gen_spec(rng)
            spec["s_ref"] = str(rng.choice([F(10), F(100)]))
            spec["mg"]["battery"] = {"p": "1/2", "q": "1/2", "e": "4", "smin": "1/10", "smax": "1", "eta": "1", "soc_start": "1/5"}
            for fd in spec["feeders"]:
                nb = len(fd["parent"])
                fd["load"] = [str(rng.choice([F(1, 10), F(1, 5)])) for _ in range(nb)]
                fd["prod"] = {str(rng.randrange(nb)): {"p": str(rng.choice([F(1, 100), F(1, 50)])), "q": "0"}}
        for fd in spec["feeders"]:
            fd.pop("cap", None)           # capacity not exceeded (the property's premise)
        cases.append({"kind": "quiet", "spec": spec, "n_inc": rng.choice([6, 12]), "dt": str(rng.choice([F(1), F(1, 2)]))})
    return cases


def run(res):
    rng = random.Random(res.seed * 9973 + 61)
    n, nq = (25, 10) if res.tier == "quick" else (400, 100)
    res.rule = ("islands of real fault runs (as C03: production, batteries, binding/zero capacities, s_ref variants, line and transformer faults) and failure-free runs "
                "of the same kind of systems (with and without batteries that are not full, so that increments are logged); "
                "non-trivial = distinct (reactive?, fed?, internal supply only?, size, LP solved?, anything shed?, zero-shed routing feasible?)")
    run_cases(res, gen(rng, n, nq), handler)


def search(res):
    rng = random.Random(res.seed * 17 + 12)
    found = []
    for case in gen(rng, 60, 20):
        h = handler(case)
        for key, what in h["viols"]:
            found.append({"key": key, "what": what, "case": case})
        if len(found) > 6:
            break
    return found


def replay(obj):
    case = obj.get("case")
    if case is None:
        print("no failing input in this replay file:", obj.get("broken_proof_obligations"), str(obj.get("broken_correspondence", [])[:1])[:1500])
        return 1
    h = handler(case)
    for key, what in h["viols"]:
        print("FAILS:", key, what)
    return 1 if h["viols"] else 0
