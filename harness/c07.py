"""C07  Load-point outage durations follow the RELRAD rule for each contingency.

For single line faults (and non-overlapping sequences of them) in manually operated radial
feeders of the classes the property names, the classification of every load point by the model
(`Relsad.Model.Relrad.classify`: reachability from the feed once the faulted section is isolated,
proved correct via the reachability theorem) is compared with the outage actually recorded by a
real exact-rational run: unaffected -> 0, sectioning only -> ceil(T/dt)*dt, until repair -> the
time the fault persists.  Energy not supplied and interruption counts are checked against
duration x demand / one interruption per contingency, within one time step.
"""
import itertools
import math
import random
from fractions import Fraction

from .common import fr, run_cases, run_driver
from . import ctl, net

PROP = "C07"
LEVEL = "proof"
ASSUMPTIONS = [
    "PARTIAL: proved are the reachability characterisation of the classification and the ceil(T/dt) duration of the sectioning phase (C06.timer_out_iff); that the implementation's trace realises the classification is decided per generated contingency (exhaustive up to the stated bound in the thorough tier), not proved for all feeders",
    "a fault injected through the callback loses one step of its repair time in the injection increment; 'as long as the fault persists' is measured on the run (increments in which the line is failed at the end of the control step) and compared with repair + sectioning time within one step",
]
F = Fraction
ALPHA = 1e-4


def handler(case):
    spec = case["spec"]
    T = F(spec["ctrl"]["T"]); dt = F(case["dt"])
    need = math.ceil(T / dt)
    v, _, _, info = ctl.run_scenario(case)
    ps = v.ps
    viols = []
    buses = list(ps.buses)
    bi = {b.name: i for i, b in enumerate(buses)}
    lines = v.lines
    V = ",".join(str(i) for i in range(len(buses)))
    ls = ",".join(f"{bi[l.fbus.name]}:{bi[l.tbus.name]}:{v.sec_index(l.section)}:{v.ni[l.parent_network.name]}" for l in lines)
    backups = [l for l in ps.lines if l.is_backup]
    bs = ",".join(f"{bi[l.fbus.name]}-{bi[l.tbus.name]}" for l in backups) or "-"
    bnets = ",".join(str(v.ni[b.parent_network.name]) if b.parent_network is not None else "999" for b in buses)
    ops, expect_meta = [], []
    persists = {}
    for k, fl in sorted(case["faults"].items(), key=lambda kv: int(kv[0])):
        for name, rep in fl:
            l = ps.get_comp(name)
            ops.append(f"graph relrad {V} {ls} {bs} 0 {v.sec_index(l.section)} {v.ni[l.parent_network.name]} {bnets}")
            # how long the fault persisted: increments with the line failed at the end of the control step
            # (counted from its injection until it first clears)
            steps = [r for r in info if r["phase"] == "step" and r["k"] >= int(k)]
            P = 0
            for r in steps:
                if name in r["failed"]:
                    P += 1
                else:
                    break
            persists[(k, name)] = P
            expect_meta.append((int(k), name, F(rep), P))
            if abs(P * dt - (F(rep) + (T if P > 0 else 0))) > dt:
                viols.append(("relrad.persist", f"fault on {name} (repair {rep} h, sectioning {T} h, step {dt} h) persisted {P * dt} h"))
    outage = [b.acc_outage_time.get_hours() for b in buses]
    impl = [",".join(fr(x) for x in outage)] * len(ops) if ops else []
    case["_expect"] = {"need": need, "dt": str(dt), "meta": [(k, n, str(r), P) for k, n, r, P in expect_meta]}
    # the RELRAD rule (model classification) against the recorded outage of every load point
    if ops:
        labels = run_driver(ops)
        total = [F(0)] * len(buses)
        for labs, (k, n, r, P) in zip(labels, expect_meta):
            for j, c in enumerate(labs.split(",")):
                if P > 0:
                    total[j] += F(0) if c == "u" else (need * dt if c == "s" else max(P, need) * dt)
        tol = dt * len(expect_meta)
        for j, b in enumerate(buses):
            if abs(total[j] - outage[j]) > tol:
                cls = "/".join(l.split(",")[j] for l in labels)
                viols.append(("relrad.duration", f"{b.name}: RELRAD class {cls} (u unaffected, s sectioning time only, r until repair) prescribes {total[j]} h outage, recorded {outage[j]} h (sectioning {T} h, step {dt} h, faults {case['faults']})"))
    # one interruption per contingency that interrupts the load point (non-overlapping contingencies add up)
    if ops:
        want_int = [0] * len(buses)
        for labs, (k, n_, r, P) in zip(labels, expect_meta):
            for j, c in enumerate(labs.split(",")):
                if P > 0 and c != "u":
                    want_int[j] += 1
        for j, b in enumerate(buses):
            if b.name == "B0" or b.n_customers == 0:
                continue
            got = float(b.acc_interruptions)
            if outage[j] > 0 and abs(got - want_int[j]) > 0.02 * max(1, want_int[j]) and abs(total[j] - outage[j]) <= tol:
                viols.append(("relrad.interruptions", f"{b.name}: {want_int[j]} contingencies interrupt this load point, {got} interruptions counted (faults {case['faults']})"))
    # energy and interruption counts against the recorded durations
    nlog = sum(1 for r in info if r["phase"] == "step")
    for b, o in zip(buses, outage):
        if b.name == "B0":
            continue
        load = sum(F(x[0]) for x in [b.pload_data[0]]) * b.n_customers if b.pload_data else F(0)
        ens = float(b.acc_p_energy_shed)
        if abs(ens - float(load * o)) > float(load * dt) + ALPHA * float(dt) * nlog + 1e-9:
            viols.append(("relrad.energy", f"{b.name}: energy not supplied {ens} MWh, outage {o} h x demand {load} MW = {float(load * o)}"))
        if o == 0 and (ens > 1e-9 or b.acc_interruptions != 0):
            viols.append(("relrad.unaffected", f"{b.name}: no outage time but energy {ens} / interruptions {b.acc_interruptions}"))
    sig = (len(lines), need, tuple(sorted(set(P for *_, P in expect_meta))), bool(backups), len(case["faults"]))
    return dict(ops=ops, impl=impl, viols=viols[:3], nontrivial=sig, tag=f"relrad:{case.get('cls')}")


def compare(case, m, i):
    e = case.get("_expect")
    if not m:
        return True
    need = e["need"]; dt = F(e["dt"])
    total = None
    for labels, (k, n, r, P) in zip(m, e["meta"]):
        labs = labels.split(",")
        dur = [F(0) if c == "u" else (need * dt if c == "s" else max(P, need if P > 0 else 0) * dt) for c in labs]
        if P == 0:      # transient: repaired before the first control step, nobody is isolated; breaker recloses at once
            dur = [F(0) if c == "u" else F(0) for c in labs]
        total = dur if total is None else [a + b for a, b in zip(total, dur)]
    got = [F(x) for x in i[0].split(",")]
    # a fault that is repaired before detection still costs the tripped feeder the injection increment
    return all(abs(a - b) <= dt * len(e["meta"]) for a, b in zip(total, got))


def feeder_spec(parent_list, sw, T, ties=None, sw0=None):
    # sw0: switch class of the breaker line (None: as the other lines; 0: the breaker only)
    feeders = [{"parent": p, "sw": [sw if sw0 is None else sw0] + [sw] * (len(p) - 1), "cust": [1] * len(p), "load": ["1/20"] * len(p), "cost": [1] * len(p)} for p in parent_list]
    return {"ctrl": {"type": "manual", "T": str(T)}, "feeders": feeders, "tie": None, "ties": ties or [], "mg": None, "rep": "2", "exact": True}


def all_trees(n):
    if n == 1:
        yield [-1]
        return
    for rest in itertools.product(*[range(i) for i in range(1, n)]):
        yield [-1] + list(rest)


def make_case(spec, faults, dt, cls):
    T = F(spec["ctrl"]["T"])
    last = max(int(k) for k in faults)
    maxrep = max(F(r) for fl in faults.values() for _, r in fl)
    n_inc = last + int((T + maxrep) / dt) + int(T / dt) + 8
    return {"kind": "relrad", "spec": spec, "faults": faults, "n_inc": n_inc, "dt": str(dt), "cls": cls}


def gen(rng, n, exhaustive_upto):
    cases = []
    Ts = [F(1, 2), F(1), F(3, 2), F(3, 4)]
    reps = [F(1, 2), F(1), F(2), F(5, 2), F(4, 3)]
    # exhaustive small: one feeder, every tree, every faulted line, the three switch classes
    for nl in range(1, exhaustive_upto + 1):
        for parent in all_trees(nl):
            for sw in (3, 1, 0):
                for fl in range(nl):
                    T = rng.choice(Ts); rep = rng.choice(reps); dt = rng.choice([F(1), F(1, 2)])
                    spec = feeder_spec([parent], sw, T)
                    cases.append(make_case(spec, {str(rng.randint(1, 3)): [[f"F0L{fl}", str(rep)]]}, dt, f"one-feeder-sw{sw}"))
    for j in range(max(4, n // 10)):
        # targeted: two non-overlapping contingencies on different lines of the same section (lines without disconnectors, or
        # disconnectors at the upstream end only with a switch-less tail), sectioning time of at least two steps
        nl = rng.randint(3, 5)
        parent = [-1] + [rng.randint(0, i - 1) for i in range(1, nl)]
        sw = rng.choice([0, 0, 1])
        dt = rng.choice([F(1, 2), F(1, 4)]); T = rng.choice([F(1), F(3, 2)])
        spec = feeder_spec([parent], sw, T)
        if sw == 1:          # make the last two lines switch-less so that they share the section of their upstream line
            fd = spec["feeders"][0]
            fd["sw"][-1] = 0; fd["sw"][-2] = 0 if nl > 3 else fd["sw"][-2]
        a, b = rng.sample(range(1, nl), 2) if sw == 0 else (nl - 1, parent[nl - 1] if parent[nl - 1] > 0 else nl - 2)
        k1 = rng.randint(1, 3)
        k2 = k1 + int((T + F(5, 2)) / dt) + int(T / dt) + 6
        cases.append(make_case(spec, {str(k1): [[f"F0L{a}", str(rng.choice(reps))]], str(k2): [[f"F0L{b}", str(rng.choice(reps))]]}, dt, f"same-section-pair-sw{sw}"))
    for j in range(max(6, n // 8)):
        # targeted: mixed feeder - some lines carry a disconnector at the upstream end, others none: sections of several lines
        # (the breaker's own section among them) with further sections hanging off them; the fault lies on the head line of
        # such a lower section (j even) or anywhere
        nl = rng.randint(3, 6)
        parent = [-1] + [rng.randint(0, i - 1) for i in range(1, nl)]
        dt = rng.choice([F(1), F(1, 2), F(1, 4)]); T = rng.choice(Ts)
        spec = feeder_spec([parent], 1, T)
        fd = spec["feeders"][0]
        for i in range(nl):
            fd["sw"][i] = rng.choice([0, 1])
        fd["sw"][1] = 0                                   # the breaker's section has at least two lines
        heads = [i for i in range(2, nl) if fd["sw"][i] == 1]
        if not heads:
            fd["sw"][nl - 1] = 1; heads = [nl - 1]
        fl = rng.choice(heads) if j % 2 == 0 else rng.randrange(nl)
        cases.append(make_case(spec, {str(rng.randint(1, 3)): [[f"F0L{fl}", str(rng.choice(reps))]]}, dt, "mixed-upstream-or-none"))
    for _ in range(n):
        nfeed = rng.choice([1, 2, 2, 2])
        parents = []
        for f in range(nfeed):
            nl = rng.randint(1, 6)
            parents.append([-1] + [rng.randint(0, i - 1) for i in range(1, nl)])
        sw = rng.choice([3, 3, 3, 1, 0])
        ties = []
        if sw == 3 and nfeed == 2 and rng.random() < 0.85:
            fa, fb_ = rng.choice([(0, 1), (1, 0)])        # the tie is registered in either feeder
            ties = [{"a": [fa, rng.randrange(len(parents[fa]))], "b": [fb_, rng.randrange(len(parents[fb_]))]}]
        T = rng.choice(Ts); dt = rng.choice([F(1), F(1, 2), F(1, 4)])
        sw0 = 0 if (sw == 3 and rng.random() < 0.4) else None       # breaker line carrying the breaker only
        spec = feeder_spec(parents, sw, T, ties, sw0)
        f = rng.randrange(nfeed); fl = rng.randrange(len(parents[f])) if rng.random() < 0.7 else 0
        faults = {str(rng.randint(1, 4)): [[f"F{f}L{fl}", str(rng.choice(reps))]]}
        if rng.random() < 0.3:      # a second, non-overlapping contingency: effects add up
            f2 = rng.randrange(nfeed); fl2 = rng.randrange(len(parents[f2]))
            faults[str(int(list(faults)[0]) + int((T + F(5, 2)) / dt) + int(T / dt) + 6)] = [[f"F{f2}L{fl2}", str(rng.choice(reps))]]
        cases.append(make_case(spec, faults, dt, f"{nfeed}-feeders-sw{sw}{'' if sw0 is None else '-bare-breaker-line'}-ties{len(ties)}"))
        if len(cases) % 5 == 0:
            # units: the run's time unit is seconds / minutes / days, or the sectioning time is written in minutes / seconds / days
            if rng.random() < 0.5:
                cases[-1]["unit"] = rng.choice([1, 2, 2, 4])
            else:
                spec["ctrl"]["T_unit"] = rng.choice([1, 2, 2, 4])
    return cases


def run(res):
    rng = random.Random(res.seed * 8191 + 71)
    n, ex = (150, 3) if res.tier == "quick" else (3000, 5)
    res.rule = (f"exhaustive: every rooted feeder tree with <= {ex} lines x switch class (both ends / upstream end / none) x every faulted line; "
                "random: 1-2 feeders of up to 6 lines, both-end disconnectors with a backup tie (40% with a breaker line that carries the breaker only; 30% of the faults on the breaker line), upstream-only or none without ties, fault instants 1..4, "
                "repair in {1/2,1,4/3,2,5/2} h, sectioning in {1/2,3/4,1,3/2} h, steps 1, 1/2, 1/4 h, 30% with a second non-overlapping contingency. "
                "every fifth random case runs in seconds / minutes / days or has its sectioning time written in such a unit; non-trivial = distinct (lines, passes of sectioning, persistence, ties, number of contingencies)")
    res.exhaustive = True
    run_cases(res, gen(rng, n, ex), handler, compare)


def search(res):
    rng = random.Random(res.seed * 29 + 15)
    found = []
    for case in gen(rng, 150, 3):
        h = handler(case)
        for key, what in h["viols"]:
            found.append({"key": key, "what": what, "case": case})
        if len(found) > 6:
            break
    return found


def replay(obj):
    case = obj.get("case")
    if case is None:
        print("no failing input in this replay file:", obj.get("broken_proof_obligations"), str(obj.get("broken_correspondence", [])[:1])[:2000])
        return 1
    h = handler(case)
    print(h["ops"][:1], h["impl"][:1], case.get("_expect"))
    for key, what in h["viols"]:
        print("FAILS:", key, what)
    return 1 if h["viols"] else 0
