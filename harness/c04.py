"""C04  Islands are exactly the connected pieces of the energised, radial network.

Correspondence: `find_sub_systems` (with its recursive backup closing) on real built power
systems put into generated switch / failure / timer states, and on every call made during
real sequential runs with injected faults, against `Relsad.Model.Graph/Islands` (order-independent
observations: the partition into islands, the number of backups closed, radiality).
Oracle: an independent union-find over the in-service lines of the implementation.
"""
import random
from fractions import Fraction

from .common import fb, run_cases
from . import net, acct

PROP = "C04"
LEVEL = "proof"
ASSUMPTIONS = [
    "which of several eligible backups between the same two islands is closed depends on list order in the implementation; the comparison uses order-independent observations (partition, number closed, radiality)",
    "eligibility of a backup (open, healthy, no sectioning timer running in the networks of the lines at its two ends) is recomputed by the harness from the implementation's state and passed to the model",
]
F = Fraction


def snapshot(ps):
    """graph view of the implementation's state (ids = index in ps.buses)"""
    from relsad.Time import Time
    idx = {b.name: i for i, b in enumerate(ps.buses)}
    V = list(range(len(ps.buses)))
    es, backups = [], []
    for l in ps.lines:
        a, b = idx[l.fbus.name], idx[l.tbus.name]
        if l.connected:
            es.append((a, b))
        elif l.is_backup:
            guard = all(x.parent_network.controller.sectioning_time <= Time(0) for x in l.tbus.connected_lines + l.fbus.connected_lines)
            backups.append((len(backups), a, b, (not l.failed) and guard, l.name))
    return V, es, backups


def uf_components(V, es):
    par = {v: v for v in V}

    def find(x):
        while par[x] != x:
            par[x] = par[par[x]]
            x = par[x]
        return x
    cyc = False
    for a, b in es:
        ra, rb = find(a), find(b)
        if ra == rb:
            cyc = True
        else:
            par[ra] = rb
    comps = {}
    for v in V:
        comps.setdefault(find(v), []).append(v)
    return sorted(sorted(c) for c in comps.values()), cyc


def canon(comps):
    return "|".join(",".join(str(x) for x in c) for c in sorted((sorted(c) for c in comps), key=lambda c: c[0]))


def observe_call(ps, call, viols, tagp):
    """Run `call()` (= find_sub_systems) and return (op, impl line); appends oracle failures."""
    V, es, backups = snapshot(ps)
    nb_before = sum(1 for l in ps.lines if l.is_backup and l.connected)
    op = ("graph islands " + ",".join(map(str, V)) + " " + (",".join(f"{a}-{b}" for a, b in es) or "-") + " "
          + (",".join(f"{i}:{a}:{b}:{fb(e)}" for i, a, b, e, _ in backups) or "-"))
    call()
    idx = {b.name: i for i, b in enumerate(ps.buses)}
    islands = [[idx[b.name] for b in s.buses] for s in ps.sub_systems]
    nb_after = sum(1 for l in ps.lines if l.is_backup and l.connected)
    forest = all(len(s.lines) == len(s.buses) - 1 for s in ps.sub_systems)
    impl = f"{canon(islands)} {nb_after - nb_before} {fb(forest)}"
    # ---- independent oracle on the implementation's result
    V2, es2, _ = snapshot(ps)
    comps, cyc = uf_components(V2, es2)
    flat = [v for c in islands for v in c]
    if sorted(flat) != V2:
        viols.append(("islands.partition", f"{tagp}: buses do not belong to exactly one island each: {islands}"))
    elif sorted(sorted(c) for c in islands) != comps:
        viols.append(("islands.components", f"{tagp}: islands {sorted(sorted(c) for c in islands)} are not the connected pieces {comps} of the in-service lines"))
    if cyc:
        viols.append(("islands.loop", f"{tagp}: the energised network contains a loop (in-service lines {[l.name for l in ps.lines if l.connected]})"))
    lines_in = [l.name for s in ps.sub_systems for l in s.lines]
    conn = sorted(l.name for l in ps.lines if l.connected)
    if sorted(lines_in) != conn:
        viols.append(("islands.lines", f"{tagp}: in-service lines {conn} vs lines assigned to islands {sorted(lines_in)}"))
    for s in ps.sub_systems:
        names = {b.name for b in s.buses}
        for l in s.lines:
            if l.fbus.name not in names or l.tbus.name not in names:
                viols.append(("islands.line-ends", f"{tagp}: line {l.name} assigned to an island that does not contain both its ends"))
    for l in ps.lines:
        if l.is_backup and l.connected and l.failed:
            viols.append(("islands.failed-backup", f"{tagp}: failed backup line {l.name} is closed"))
    # a backup that was not eligible must not have been closed
    for i, a, b, e, name in backups:
        if not e and ps.get_comp(name).connected:
            viols.append(("islands.ineligible-backup", f"{tagp}: backup {name}, failed or next to a running sectioning timer, was closed"))
    return op, impl, (len(comps), nb_after - nb_before, len(backups))


def handler(case):
    if case["kind"] == "state":
        return state_case(case)
    return e2e_case(case)


def state_case(case):
    from relsad.simulation.system_config import find_sub_systems
    from relsad.Time import Time
    ps = net.build(case["spec"])
    ps.create_sections()
    viols = []
    for name in case["open"]:
        c = ps.get_comp(name)
        if hasattr(c, "is_open"):
            c.open()
        else:
            c.disconnect()
    for name in case["failed"]:
        ps.get_comp(name).failed = True
    for cname, t in case["timers"].items():
        for n in ps.child_network_list:
            if hasattr(n, "controller") and n.name == cname:
                n.controller.sectioning_time = Time(F(t))
    for name in case.get("closed_backups", []):
        l = ps.get_comp(name)
        for d in l.disconnectors:
            d.close()
    op, impl, sig = observe_call(ps, lambda: find_sub_systems(ps, Time(0)), viols, "state")
    return dict(ops=[op], impl=[impl], viols=viols[:3], nontrivial=("state",) + sig, tag=f"state:backups={sig[2]}")


def e2e_case(case):
    import sys
    import relsad.simulation.Simulation  # noqa: F401 (module, not the class re-exported by the package)
    simmod = sys.modules["relsad.simulation.Simulation"]
    viols, ops, impl, sigs = [], [], [], set()
    orig = simmod.find_sub_systems

    last = {}

    def still_partition(tagp):
        # the islands formed by the previous call are the ones the increment solved (load flow, balance, shedding): they must
        # still hold every bus exactly once when the increment is over
        p_s, want = last.get("ps"), last.get("part")
        if p_s is None or want is None:
            return
        got = sorted(sorted(b.name for b in ss.buses) for ss in p_s.sub_systems)
        if got != want:
            miss = sorted({b for isl in want for b in isl} - {b for isl in got for b in isl})
            viols.append(("islands.changed-while-solved", f"{tagp}: the islands formed for the previous increment were {want}, after it was solved they hold {got}" + (f" (buses in no island: {miss})" if miss else "")))

    def wrapped(p_s, curr_time):
        still_partition(f"t={curr_time}")
        # entry: all backups must have been opened again at the start of the increment
        for l in p_s.lines:
            if l.is_backup and l.connected:
                viols.append(("islands.backup-not-reopened", f"backup {l.name} still closed when islands are formed at t={curr_time}"))
        o, i, sig = observe_call(p_s, lambda: orig(p_s=p_s, curr_time=curr_time), viols, f"t={curr_time}")
        ops.append(o); impl.append(i); sigs.add(sig)
        last["ps"] = p_s; last["part"] = sorted(sorted(b.name for b in ss.buses) for ss in p_s.sub_systems)
    orig_reset = simmod.reset_system

    def wrapped_reset(*a, **kw):
        still_partition("end of iteration")
        last.clear()                      # reset_system forms the islands of the intact network itself
        return orig_reset(*a, **kw)
    simmod.find_sub_systems = wrapped
    simmod.reset_system = wrapped_reset
    try:
        acct.e2e_run(dict(case, save=False))
        still_partition("end of run")
    finally:
        simmod.find_sub_systems = orig
        simmod.reset_system = orig_reset
    return dict(ops=ops, impl=impl, viols=viols[:3], nontrivial=("e2e", tuple(sorted(sigs))) if ops else None, tag=f"e2e:calls={len(ops)}")


def gen_spec(rng):
    spec = net.rand_feeder_spec(rng, max_lines=6, allow_mg=rng.random() < 0.3, nfeed=rng.choice([1, 2, 2, 3]))
    # several backup ties, also two between the same pair of feeders
    feeders = spec["feeders"]
    ties = []
    if len(feeders) >= 2:
        for _ in range(rng.choice([1, 2, 2, 3])):
            fa, fb_ = rng.sample(range(len(feeders)), 2)
            ties.append({"a": [fa, rng.randrange(len(feeders[fa]["parent"]))], "b": [fb_, rng.randrange(len(feeders[fb_]["parent"]))]})
            if len(ties) % 2 == 1 or rng.random() < 0.3:
                ties[-1]["open_at_build"] = True       # described as normally open when its disconnectors are built
    spec["tie"] = None
    spec["ties"] = ties
    return spec


def gen(rng, n_state, n_e2e):
    cases = []
    for _ in range(n_state):
        spec = gen_spec(rng)
        ps = net.build(spec)
        lines = [l.name for l in ps.lines if not l.is_backup]
        switches = [d.name for d in ps.disconnectors if not d.line.is_backup] + [c.name for c in ps.circuitbreakers]
        opened = [x for x in lines + switches if rng.random() < 0.2]
        backups = [l.name for l in ps.lines if l.is_backup]
        failed = [b for b in backups if rng.random() < 0.2]
        # (a timer that is not a whole number of steps passes zero and is negative in the pass in which it runs out)
        timers = {n.name: str(rng.choice([F(0), F(0), F(0), F(1, 2), F(1), F(-3, 4), F(-1, 2), F(1, 4)])) for n in ps.child_network_list if hasattr(n, "controller")}
        closed = []   # backups are open whenever islands are formed (asserted on every real call in the e2e cases)
        cases.append({"kind": "state", "spec": spec, "open": opened, "failed": failed, "timers": timers, "closed_backups": closed})
    nt = 0
    for _ in range(n_e2e):
        spec = gen_spec(rng)
        n_inc = rng.choice([8, 10])
        case = {"kind": "e2e", "spec": spec, "n_inc": n_inc, "dt": str(rng.choice([F(1), F(1, 2)]))}
        ps = net.build(dict(spec, exact=False))
        case["faults"] = acct.rand_faults(rng, ps, n_inc, ("line",), nmax=4)
        ties = [l for l in ps.lines if l.is_backup]
        nt += 1 if ties else 0
        if ties and nt % 3 != 0:
            # a backup that fails while it is in service: a long primary fault next to the tie, then a fault on the tie itself in one
            # of the increments right after the sectioning time has run out (when the tie has been closed)
            import math
            tl = rng.choice(ties)
            prim = [l for l in ps.lines if not l.is_backup and l.parent_network is not None and (tl.fbus in (l.fbus, l.tbus) or tl.tbus in (l.fbus, l.tbus) or rng.random() < 0.3)]
            if prim:
                T = F(spec["ctrl"]["T"]); dt = F(case["dt"])
                k0 = rng.randint(1, 2)
                kt = k0 + math.ceil(T / dt) + rng.choice([0, 1, 1, 2])
                case["n_inc"] = max(n_inc, kt + 4)
                case["faults"] = {str(k0): [["line", rng.choice(prim).name, "6"]], str(kt): [["line", tl.name, str(rng.choice([F(1), F(2)]))]]}
                # dry run of the primary fault alone (on the current tree): if some backup is in service at the end of an increment,
                # the backup fault is placed on that very line in the next increment
                rng.shuffle(prim)
                for pl in prim[:4]:
                    closed = []
                    def obs(ps_, phase, info, _c=closed):
                        if phase == "before_log":
                            _c.append([l.name for l in ps_.lines if l.is_backup and l.connected])
                    try:
                        acct.e2e_run({"spec": spec, "n_inc": case["n_inc"], "dt": case["dt"], "faults": {str(k0): [["line", pl.name, "6"]]}, "save": False}, observe=obs)
                    except Exception:
                        break
                    hit = [(k + 1, names) for k, names in enumerate(closed) if names and k + 2 <= case["n_inc"] - 2]
                    if hit:
                        k, names = hit[min(len(hit) - 1, rng.choice([0, 0, 1]))]
                        case["faults"] = {str(k0): [["line", pl.name, "6"]], str(k + 1): [["line", rng.choice(names), str(rng.choice([F(1), F(2)]))]]}
                        break
        if ties and nt % 3 == 0:
            # two iterations on the same objects (the simulator's own run_iteration): the first one ends in the middle of an outage,
            # with a backup line closed; the second one starts from reset_system
            import math
            T = F(spec["ctrl"]["T"]); dt = F(case["dt"])
            tl = rng.choice(ties)
            prim = [l for l in ps.lines if not l.is_backup and l.parent_network is not None and not l.circuitbreaker and (tl.fbus in (l.fbus, l.tbus) or tl.tbus in (l.fbus, l.tbus))] \
                or [l for l in ps.lines if not l.is_backup and l.parent_network is not None]
            k0 = rng.randint(2, 3)
            case["n_inc"] = k0 + math.ceil(T / dt) + rng.choice([2, 3])
            case["faults"] = {str(k0): [["line", rng.choice(prim).name, "30"]]}
            case["iters"] = 2
        cases.append(case)
    for q in range(max(4, n_e2e // 4)):
        # targeted: a source (generation unit or battery) deep in a feeder and a fault upstream of it that is sectioned out: the part
        # below runs as an island of its own whose reference bus is the source's bus, not the bus the island search started from
        spec = gen_spec(rng)
        f = rng.randrange(len(spec["feeders"]))
        fd = spec["feeders"][f]
        while len(fd["parent"]) < 4:
            fd["parent"].append(len(fd["parent"]) - 1)
            for key, v in (("sw", 3), ("cust", 1), ("load", "1/50"), ("cost", 1)):
                fd[key].append(v)
        nl = len(fd["parent"])
        deep = max(range(nl), key=lambda i: (depth(fd["parent"], i), i))
        fd["prod" if q % 2 == 0 else "battery"] = {str(deep): ({"p": "1/20", "q": "1/100"} if q % 2 == 0 else {"p": "1", "q": "1", "e": "2", "smin": "1/10", "smax": "1", "eta": "1"})}
        path = []
        i = deep
        while i != -1:
            path.append(i); i = fd["parent"][i]
        up = rng.choice(path[2:]) if len(path) > 2 else path[-1]       # a line at least two above the source
        for i in path:
            fd["sw"][i] = 3
        n_inc = 8
        cases.append({"kind": "e2e", "spec": spec, "n_inc": n_inc, "dt": str(rng.choice([F(1), F(1, 2)])),
                      "faults": {str(rng.randint(1, 2)): [["line", f"F{f}L{up}", "3"]]}})
    return cases


def depth(parent, i):
    d = 0
    while parent[i] != -1:
        i = parent[i]; d += 1
    return d


def run(res):
    rng = random.Random(res.seed * 5323 + 43)
    ns, ne = (150, 20) if res.tier == "quick" else (3000, 300)
    res.rule = ("1-3 feeders (laterals, 0-2 disconnectors per line), 1-3 backup ties (also two between the same pair of feeders), optional microgrid; "
                "state cases: random lines/switches opened, failed backups, running sectioning timers, then find_sub_systems; "
                "e2e: every find_sub_systems call of real runs with 1-4 injected overlapping line faults (ties included); two of three systems with ties instead get a long primary fault followed by a fault on the tie in the increments right after it has been closed, every third is run for two iterations (Simulation.run_iteration) the first of which ends mid-outage with a backup closed; a quarter more have a generation unit / battery deep in a feeder and a fault upstream of it (island with its own reference bus); the islands formed are compared again when the increment has been solved. "
                "non-trivial = distinct (number of islands, backups closed, backups available)")
    run_cases(res, gen(rng, ns, ne), handler)


def search(res):
    rng = random.Random(res.seed * 389 + 6)
    found = []
    for case in gen(rng, 600, 40):
        h = handler(case)
        for key, what in h["viols"]:
            found.append({"key": key, "what": what, "case": case})
        if len(found) > 10:
            break
    return found


def replay(obj):
    case = obj.get("case")
    if case is None:
        print("no failing input in this replay file:", obj.get("broken_proof_obligations"), obj.get("broken_correspondence", [])[:2])
        return 1
    h = handler(case)
    for o, i in zip(h["ops"], h["impl"]):
        print("  ", o, "=>", i)
    for key, what in h["viols"]:
        print("FAILS:", key, what)
    return 1 if h["viols"] else 0
