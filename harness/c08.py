"""C08  Monte Carlo results are reproducible and iterations are independent.

(a) reset correspondence: the hypothesis of the scheduling theorem (`reset` forgets the state it
    is applied to) is checked on the real objects: a system that has been run into the middle of
    an outage and then `reset_system` is compared field by field (every public dynamic attribute
    of every component, network, controller and section) with a freshly built system after
    `reset_system`.
(b) end-to-end: `run_monte_carlo` with the same seed in debug mode, with pools of 1/2/3 workers
    (different chunkings) and twice on freshly built systems: the written result files must be
    byte-identical; `run_sequential` twice with a seed likewise.
"""
import filecmp
import hashlib
import io
import os
import random
import contextlib
from fractions import Fraction

import numpy as np

from .common import run_cases, OUT
from . import net, acct, statesnap

PROP = "C08"
LEVEL = "proof"
ASSUMPTIONS = [
    "numpy SeedSequence.spawn / default_rng and multiprocessing.Pool are trusted (pickling gives every task a copy of the parent's state; the theorem covers arbitrary starting states of workers)",
    "line orientation (fbus/tbus, the flag direction_changed and the buses' from/to lists, re-derived by every load flow and restored to the as-built orientation by create_sections) is not part of the compared reset state; its irrelevance for the results is covered by the byte-identity of the result files in (b) - which include a second Monte Carlo run on the same Simulation object -, by C15 and by the re-preparation class of C20",
]
F = Fraction
ORIENTATION = {"fromline", "toline", "repair_time_dist"}       # the two single-line pointers of a bus are not restored by a reset (the orientation pass of every load flow sets them again)


def fresh(spec, n_inc, seed=0):
    from relsad.simulation import Simulation
    ps = net.build(dict(spec, exact=False, nprof=n_inc))
    sim = Simulation(ps, random_seed=seed)
    return ps, sim


def handler(case):
    if case["kind"] == "reset":
        return reset_case(case)
    return mc_case(case)


def reset_case(case):
    from relsad.simulation.system_config import reset_system
    from relsad.Time import Time
    viols = []
    spec, n_inc = case["spec"], case["n_inc"]
    ps, sim = acct.e2e_run(dict(case, save=False))          # dirty: ends in the middle of an outage
    dirty_before = statesnap.snapshot(ps, sim)
    reset_system(ps, False)
    sim.fail_duration = Time(0)                             # what run_iteration does right after reset_system
    a = statesnap.snapshot(ps, sim)
    psf, simf = fresh(spec, n_inc)
    simf.distribute_random_instance(np.random.default_rng(0))
    psf.create_sections(); idx = np.arange(n_inc); psf.prepare_load_data(idx); psf.prepare_prod_data(idx); psf.initialize_sequence_history()
    reset_system(psf, False)
    b = statesnap.snapshot(psf, simf)
    d = [x for x in statesnap.diff(a, b) if x[1] not in ORIENTATION]
    for (obj, field, va, vb) in d[:4]:
        viols.append((f"reset.{field}", f"after reset_system {obj}.{field} = {va} on a system that ended an iteration mid-outage, {vb} on a fresh system"))
    ndirty = len([x for x in statesnap.diff(dirty_before, b) if x[1] not in ORIENTATION])
    return dict(ops=[], impl=[], viols=viols, nontrivial=("reset", min(ndirty, 40), case["spec"]["ctrl"]["type"], bool(case["spec"].get("mg"))), tag=f"reset:dirty-fields={min(ndirty // 10 * 10, 100)}")


def tree_digest(root):
    h = {}
    for dp, _, fns in os.walk(root):
        for fn in fns:
            p = os.path.join(dp, fn)
            h[os.path.relpath(p, root)] = hashlib.sha1(open(p, "rb").read()).hexdigest()
    return h


def mc_run(case, mode, tag):
    from relsad.Time import Time, TimeStamp, TimeUnit
    spec = case["spec"]; n_inc = case["n_inc"]
    ps, sim = fresh(spec, n_inc, seed=case["seed"])
    from relsad.StatDist import StatDist, StatDistType, UniformParameters, NormalParameters, GammaParameters
    rep = float(case["rep"])
    kinds = [lambda: StatDist(StatDistType.TRUNCNORMAL, NormalParameters(loc=rep, scale=1.0, min_val=0.5, max_val=2 * rep)),
             lambda: StatDist(StatDistType.UNIFORM_FLOAT, UniformParameters(min_val=rep / 2, max_val=rep)),
             lambda: StatDist(StatDistType.GAMMA, GammaParameters(shape=2.0, scale=rep / 2)),
             lambda: net.FixedDist(rep)]
    for il in getattr(ps, "ict_lines", []):
        il.fail_rate_per_year = case["rate"]
        il.repair_time_dist = net.FixedDist(rep)
    for k, l in enumerate(ps.lines):
        l.fail_rate_per_year = case["rate"]
        l.repair_time_dist = kinds[(k + case.get("dist0", 0)) % len(kinds)]()     # every documented distribution type is drawn from
    d = acct.tmpdir(f"c08_{tag}")
    kw = dict(iterations=case["iters"], start_time=TimeStamp(), stop_time=TimeStamp(hour=n_inc), time_step=Time(1, TimeUnit.HOUR),
              time_unit=TimeUnit.HOUR, save_dir=d, save_iterations=[1, case["iters"]])
    with contextlib.redirect_stdout(io.StringIO()):
        if mode == "debug":
            sim.run_monte_carlo(debug=True, **kw)
        elif mode == "debug-twice":
            # the whole Monte Carlo run a second time on the same Simulation object (the first one usually ends mid-outage): the
            # second run's results are the ones kept
            sim.run_monte_carlo(debug=True, **dict(kw, save_dir=acct.tmpdir(f"c08_{tag}_first")))
            sim.run_monte_carlo(debug=True, **kw)
        else:
            sim.run_monte_carlo(n_procs=mode, **kw)
    return tree_digest(d)


def mc_case(case):
    viols = []
    ref = mc_run(case, "debug", "debug")
    runs = {"debug-again-fresh": mc_run(case, "debug", "debug2"), "a second run on the same Simulation object": mc_run(case, "debug-twice", "debug3")}
    for n in case["procs"]:
        runs[f"n_procs={n}"] = mc_run(case, n, f"p{n}")
    nfiles = len(ref)
    for name, dg in runs.items():
        if set(dg) != set(ref):
            viols.append(("mc.files", f"{name}: different set of result files than debug mode"))
            continue
        bad = sorted(k for k in ref if ref[k] != dg[k])
        if bad:
            viols.append(("mc.differs", f"same seed {case['seed']}, {case['iters']} iterations: {len(bad)} of {nfiles} result files differ between debug=True and {name} (e.g. {bad[0]})"))
    # something must actually have happened
    import csv
    return dict(ops=[], impl=[], viols=viols[:3], nontrivial=("mc", case["iters"], tuple(case["procs"]), nfiles), tag="mc")


def gen(rng, n_reset, n_mc):
    cases = []
    for j in range(n_reset):
        spec = net.rand_feeder_spec(rng, max_lines=5, ctrl=rng.choice(["manual", "manual", "main"]))
        if spec.get("mg") and rng.random() < 0.5:
            spec["mg"]["mode"] = rng.choice(["limited", "survival"])
        feeder_fault = False
        if j % 5 == 3:
            # targeted: a microgrid whose hosting feeder is still sectioning when the run ends (the timers the feeder hands to the
            # microgrid are running)
            while not spec.get("mg"):
                spec = net.rand_feeder_spec(rng, max_lines=5, ctrl=rng.choice(["manual", "manual", "main"]))
            spec["mg"]["mode"] = rng.choice(["limited", "survival", "full"])
            spec["ctrl"]["T"] = str(rng.choice([2, 3]))
            if spec["ctrl"].get("type") == "main":
                spec["ctrl"]["nodev"] = [f"SF0L{i}" for i in range(len(spec["feeders"][0]["parent"]))]     # no sensors: the sectioning takes the manual time
            feeder_fault = True
        n_inc = rng.choice([5, 7, 9])
        case = {"kind": "reset", "spec": spec, "n_inc": n_inc, "dt": "1"}
        quiet_bus = None
        if j % 5 == 0:          # targeted: a load point without demand whose transformer is still failed when the run ends
            fd = spec["feeders"][0]
            i0 = rng.randrange(len(fd["parent"]))
            fd["load"][i0] = "0"
            quiet_bus = i0
        ps0 = net.build(dict(spec, exact=False))
        names = [l.name for l in ps0.lines if not l.is_backup]
        buses = [b.name for b in ps0.buses if b.name != "B0"]
        faults = {}
        for _ in range(rng.randint(1, 3)):          # late faults with long repairs: the iteration ends mid-outage
            k = rng.randint(max(1, n_inc - 3), n_inc)
            if rng.random() < 0.25:
                faults.setdefault(str(k), []).append(["trafo", rng.choice(buses), "6"])
            else:
                faults.setdefault(str(k), []).append(["line", rng.choice(names), str(rng.choice([4, 6, 8]))])
        if feeder_fault:
            faults = {str(n_inc - rng.choice([0, 1])): [["line", rng.choice([nm for nm in names if nm.startswith("F0L")]), "8"]]}
        if quiet_bus is not None:
            faults.setdefault(str(rng.randint(max(1, n_inc - 2), n_inc)), []).append(["trafo", ps0.get_comp(f"F0L{quiet_bus}").tbus.name, "6"])
        case["faults"] = faults
        cases.append(case)
    # corpus: minimised past failures run first (the witness of fix "a reset turns the lines back ...")
    import json as _json, os as _os
    for wn in ("c08_orientation_witness.json", "c08_lineorder_witness.json"):
        wp = _os.path.join(_os.path.dirname(__file__), "corpus", wn)
        if _os.path.exists(wp):
            cases.append(_json.load(open(wp)))
    for j in range(n_mc):
        # alternately manual control and an ICT-based main controller
        spec = net.rand_feeder_spec(rng, max_lines=4, ctrl=["main", "manual"][j % 2], allow_tie=False)
        # two EV parks on different load points (their cars' state of charge is drawn from the shared stream at the first step of
        # an outage, island by island: the order in which islands are visited is part of the result)
        fd = spec["feeders"][0]
        while len(fd["parent"]) < 3:
            fd["parent"].append(0); fd["sw"].append(rng.choice([1, 2, 3])); fd["cust"].append(1); fd["load"].append("1/50"); fd["cost"].append(2)
        fd["parent"][1] = 0; fd["parent"][2] = 0          # two laterals at the first bus, one park on each
        fd["sw"][1] = rng.choice([1, 3]); fd["sw"][2] = rng.choice([1, 3])
        a, b = 1, 2
        fd["ev"] = {str(k): {"hours": list(range(24)), "table": [str(rng.choice([2, 3, 5, 8])) for _ in range(24)], "v2g": True} for k in (a, b)}
        if spec["ctrl"]["type"] == "main":        # a main controller that fails (hardware / software) and is repaired: its draws are part of the stream
            spec["ctrl"]["hw_rate"] = rng.choice([400, 900]); spec["ctrl"]["sw_rate"] = rng.choice([800, 2000])
            # a communication network whose lines fail too; in every other such case they are numbered like the power lines
            from . import c06
            spec["ctrl"]["ict"] = c06.fallible_ict(rng, spec)
            if (j // 2) % 2 == 0:
                spec["ctrl"]["ict"]["line_names"] = [f"F0L{k}" for k in range(len(spec["ctrl"]["ict"]["lines"]))]
        cases.append({"kind": "mc", "spec": spec, "n_inc": 10, "iters": rng.choice([6, 7]), "seed": rng.randint(1, 10 ** 6) if j else 0,      # the first one runs with seed 0
                      "rate": rng.choice([800.0, 2000.0]), "rep": rng.choice([3.0, 5.0]), "dist0": 0 if j % 2 == 0 else rng.randrange(4), "procs": [1, rng.choice([2, 3])]})   # dist0 = 0: the first line draws from the truncated normal
    return cases


def run(res):
    rng = random.Random(res.seed * 10037 + 83)
    nr, nm = (30, 3) if res.tier == "quick" else (600, 25)
    res.rule = ("reset: built systems (manual / MainController, microgrids in all modes, ties) run with late line / transformer faults so that the run ends mid-outage, "
                "then reset_system, compared field by field with a fresh system; mc: run_monte_carlo (manual control, or an ICT-based main controller with hardware / software failure rates of 400-2000 /year) with line failure rates 800-2000 /year, repair times drawn from truncated-normal / uniform / gamma / fixed distributions (one type per line, cyclically) (most iterations end mid-outage), "
                "5-6 iterations x 10 increments, debug vs fresh debug vs pools of 1 and 2-3 workers, all result files hashed. "
                "non-trivial = distinct (number of fields that were dirty before the reset, controller type, microgrid)")
    run_cases(res, gen(rng, nr, nm), handler)


def search(res):
    rng = random.Random(res.seed * 41 + 20)
    found = []
    for case in gen(rng, 150, 3):
        h = handler(case)
        for key, what in h["viols"]:
            found.append({"key": key, "what": what, "case": case})
        if len(found) > 6:
            break
    return found


def replay(obj):
    case = obj.get("case")
    if case is None:
        print("no failing input in this replay file:", obj.get("broken_proof_obligations"), str(obj.get("broken_correspondence", [])[:1])[:2000])
        return 1
    h = handler(case)
    for key, what in h["viols"]:
        print("FAILS:", key, what)
    return 1 if h["viols"] else 0
