"""C16, timing part: automatic isolation within one step when the controller can reach the devices,
at least the manual sectioning time when it cannot.

A feeder under a MainController with sensors on all lines, intelligent switches on all
disconnectors and an ICT network in which the controller (node 0) reaches every device through a
dedicated ICT line.  One line fault; four variants that differ only in the ICT / controller state:
  healthy        everything in service                          -> fed load points lose <= 1 step
  ctrl-repair    the main controller is under manual repair     -> >= manual sectioning time
  sensor-cut     the ICT line to the faulted line's sensor out  -> >= manual sectioning time
  switch-cut     the ICT line to an intelligent switch of the faulted section's boundary out -> >= T
  overlap        as sensor-cut, and a second ICT line (on the redundant backbone) fails at the same time and is
                 repaired before the power fault: the sensor is still cut off                      -> >= T
  sensor-cut-other-repair  as sensor-cut, and another line (other section), failed two increments earlier, is back in service
                 while the manual sectioning time of the main fault is running                      -> >= T
  pair-cut       two lines of one section fail in the same increment; the sensor of the line listed first answers, the ICT line to
                 the other one's sensor is out of service                                            -> >= T
  sensor-cut-swfail  as sensor-cut, and the main controller has a software failure (cured by a new signal within
                 seconds) one increment after the fault, while the section is being isolated by hand  -> >= T
"""
import random
from fractions import Fraction

from . import net, c17

F = Fraction


def build_case_spec(rng):
    nl = rng.randint(2, 5)
    parent = [-1] + [rng.randint(0, i - 1) for i in range(1, nl)]
    T = rng.choice([F(1), F(3, 2), F(2)])
    sw = [rng.choice([3, 3, 0, 1]) for _ in range(nl)]
    if nl >= 3:
        # a line with a disconnector at its upstream end followed by a line without switch: a two-line section away from the breaker
        k = rng.randrange(1, nl - 1)
        kids = [i for i in range(nl) if parent[i] == k]
        if not kids:
            parent[nl - 1] = k; kids = [nl - 1]
        sw[k] = rng.choice([1, 3]); sw[kids[0]] = 0
    spec = {"ctrl": {"type": "main", "T": str(T)}, "feeders": [{"parent": parent, "sw": sw, "cust": [1] * nl, "load": ["1/20"] * nl, "cost": [1] * nl}],
            "tie": None, "ties": [], "mg": None, "rep": "6", "exact": True}
    ps = net.build(spec)
    devices = [f"S{l.name}" for l in ps.lines] + [f"I{d.name}" for d in ps.disconnectors]
    attach = {nm: i + 1 for i, nm in enumerate(devices)}
    lines = [[0, i + 1] for i in range(len(devices))]
    # redundant backbone: the controller sits on a ring of three ICT nodes, the access lines start at ring nodes
    nb = len(devices) + 1
    lines += [[0, nb], [nb, nb + 1], [nb + 1, 0]]
    if rng.random() < 0.5:
        lines = [[rng.choice([0, nb, nb + 1]), b] if b <= len(devices) else [a, b] for a, b in lines]
    spec["ctrl"]["ict"] = {"n": len(devices) + 3, "lines": lines, "attach": attach}
    return spec, devices


def gen(rng, n):
    cases = []
    for _ in range(n):
        spec, devices = build_case_spec(rng)
        nl = len(spec["feeders"][0]["parent"])
        fl = rng.randrange(1, nl) if nl > 1 else 0
        dt = rng.choice([F(1, 2), F(1, 4)])
        cases.append({"kind": "timing", "spec": spec, "devices": devices, "fault": [rng.randint(2, 4), f"F0L{fl}", "5"], "dt": str(dt),
                      "other": rng.randrange(8),
                      "variants": ["healthy", "ctrl-repair", "sensor-cut", "switch-cut", "overlap", "sensor-cut-swfail", "sensor-cut-other-repair", "pair-cut"]})
    return cases


def fed_after_isolation(ps, v_lines, faulted):
    """buses still reachable from the feed once the faulted line's section is out"""
    sec = faulted.section
    adj = {}
    sw = set(sec.switches)
    for l in ps.lines:
        # out of service once the section is isolated: its own lines, and every line that carries one of its
        # boundary switches (a disconnector at the far end of the upstream line takes that line out with it)
        if l.is_backup or l in sec.lines or any(d in sw for d in l.disconnectors):
            continue
        adj.setdefault(l.fbus.name, []).append(l.tbus.name)
        adj.setdefault(l.tbus.name, []).append(l.fbus.name)
    seen, todo = {"B0"}, ["B0"]
    while todo:
        x = todo.pop()
        for y in adj.get(x, []):
            if y not in seen:
                seen.add(y); todo.append(y)
    return seen


def run_variant(case, variant):
    from relsad.simulation import Simulation
    from relsad.Time import Time, TimeStamp, TimeUnit
    from relsad.network.components import ControllerState
    spec = case["spec"]
    dt = F(case["dt"]); T = F(spec["ctrl"]["T"])
    k0, lname, rep = case["fault"]
    if variant == "overlap":
        k0 = max(k0, 4)
    n_inc = k0 + int((T + 2) / dt) + 4
    ps = net.build(spec)
    sim = Simulation(ps, random_seed=0)
    sim.distribute_random_instance(net.NoFailRng())
    net.prepare_exact(ps, n_inc)
    faulted = ps.get_comp(lname)
    devices = case["devices"]
    cut = None
    twin = None
    if variant == "pair-cut":
        # two lines of one section (no switch between them) fail in the same increment; the sensor of the one listed first answers,
        # the communication line to the sensor of the other one is out of service: the section needs the crew
        secs = [sc for sc in {id(l.section): l.section for l in ps.lines if l.section is not None}.values() if len(sc.lines) >= 2]
        if not secs:
            return None
        away = [sc for sc in secs if all(l.circuitbreaker is None for l in sc.lines)]       # prefer sections away from the breaker: something stays fed
        secs = away or secs
        sc = secs[case.get("other", 0) % len(secs)]
        first, later = sc.lines[0], sc.lines[-1]
        if f"S{later.name}" not in devices or f"S{first.name}" not in devices:
            return None
        faulted = later; lname = later.name; twin = first
        cut = devices.index(f"S{later.name}")
    if variant in ("sensor-cut", "overlap", "sensor-cut-swfail", "sensor-cut-other-repair"):
        cut = devices.index(f"S{lname}")

    elif variant == "switch-cut":
        sw = [x for x in faulted.section.switches if x in ps.disconnectors]
        if not sw:
            return None
        cut = devices.index(f"I{sw[0].name}")
    if variant == "ctrl-repair":
        ps.controller.state = ControllerState.REPAIR
        ps.controller.remaining_repair_time = Time(F(100))

    saved = {}
    other = None
    if variant == "sensor-cut-other-repair":
        cands = [l for l in ps.lines if l is not faulted and not l.is_backup and l.section is not faulted.section]
        if not cands or T < 2 * dt:
            return None
        other = cands[case.get("other", 0) % len(cands)]
        k_other = max(1, k0 - 2)
        # back in service one or two increments after the main fault, strictly inside its manual sectioning time
        other_rep = (k0 - k_other + 2) * dt      # (the increment of the fault already counts one step down)

    def cb(ps, prev_time, curr_time):
        k = int(round(curr_time.get_hours() / dt))
        if k == 1 and cut is not None:
            il = ps.get_comp(f"IL{cut}")
            il.repair_time_dist = net.FixedDist(F(100))
            il.fail(curr_time - prev_time)
            if variant == "overlap":       # a backbone line fails together with it and is back in service before the power fault
                ring = ps.get_comp(f"IL{len(spec['ctrl']['ict']['lines']) - 1}")
                ring.repair_time_dist = net.FixedDist(dt)
                ring.fail(curr_time - prev_time)
        if k == k0:
            saved["energised"] = bool(faulted.connected)      # (a fault on a line that is already out of service trips nothing)
            faulted.repair_time_dist = net.FixedDist(F(rep))
            faulted.fail(curr_time - prev_time)
        if variant == "pair-cut" and k == k0 and twin is not None:
            twin.repair_time_dist = net.FixedDist(F(rep))
            twin.fail(curr_time - prev_time)
        if variant == "sensor-cut-other-repair" and other is not None and k == k_other:
            # another line, failed earlier, whose repair is completed while the manual sectioning time of the main fault is running:
            # the poll its repair triggers must not shorten that time
            other.repair_time_dist = net.FixedDist(other_rep)
            other.fail(curr_time - prev_time)
        if variant == "sensor-cut-swfail":
            # while the fault is being sectioned by hand, the main controller has a software failure (real draw: rate raised for
            # one increment, generator answering "no hardware failure, software failure, cured by the new signal"); its short
            # recovery time must not replace the manual sectioning time the sub-controllers are counting down
            c_ = ps.controller
            if k == k0 + 1:
                saved["ctrl"] = (c_.software_fail_rate_per_year, c_.ps_random)
                c_.software_fail_rate_per_year = 1e15
                c_.ps_random = net.SeqRng([1, 0, 1])
            elif k == k0 + 2 and "ctrl" in saved:
                c_.software_fail_rate_per_year, c_.ps_random = saved.pop("ctrl")
    times = [dt * k for k in range(1, n_inc + 1)]
    with c17._Exact():
        sim.run_sequence(TimeStamp(), times, TimeUnit.HOUR, cb, False)
    if not saved.get("energised", True):
        return None          # the earlier contingency had taken the line out of service: the main fault interrupted nobody
    fed = fed_after_isolation(ps, None, faulted)
    out = {b.name: b.acc_outage_time.get_hours() for b in ps.buses if b.name != "B0"}
    return {"fed": fed, "outage": out}


def timing_case(case):
    viols = []
    dt = F(case["dt"]); T = F(case["spec"]["ctrl"]["T"])
    sig = []
    for variant in case["variants"]:
        r = run_variant(case, variant)
        if r is None:
            continue
        fed = [b for b in r["outage"] if b in r["fed"]]
        for b in fed:
            o = r["outage"][b]
            if variant == "healthy" and o > dt:
                viols.append(("timing.automatic-slow", f"healthy controller / sensors / switches / ICT, fault on {case['fault'][1]}: load point {b} that remains fed was interrupted {o} h (> one step of {dt} h)"))
            if variant != "healthy" and o < T:
                viols.append((f"timing.{variant}-fast", f"{variant}, fault on {case['fault'][1]}: load point {b} that remains fed was interrupted only {o} h, less than the manual sectioning time {T} h"))
        sig.append((variant, len(fed), max([r["outage"][b] for b in fed] + [F(0)]) > 0))
    return dict(ops=[], impl=[], viols=viols[:3], nontrivial=("timing", len(case["spec"]["feeders"][0]["parent"]), tuple(sig)), tag="timing")
