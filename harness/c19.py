"""C19  Load and production profiles are applied faithfully.

Correspondence: `interpolate` (numpy, floats) against the exact-rational model at 1e-12 relative
(exactness claims with ==), `Bus.set_load_and_cost` and `Production.set_prod` on exact rationals,
and `prepare_load_data`/`prepare_prod_data` followed by per-increment reads on real objects.
"""
import random
from fractions import Fraction

import numpy as np

from .common import fr, flist, rand_frac, run_cases

PROP = "C19"
LEVEL = "proof"
ASSUMPTIONS = [
    "numpy.linspace / numpy.interp are compared numerically with the rational model (tolerance 1e-12 * max|y|), not proved; profile values in the generated cases are dyadic or small decimals",
]
F = Fraction


def handler(case):
    k = case["kind"]
    viols = []
    if k == "interp":
        from relsad.utils import interpolate
        arr = [F(x) for x in case["arr"]]
        m = case["m"]
        # whole-numbered profiles may be given as integer arrays (numpy keeps the integer type)
        a = np.array([int(x) for x in arr]) if case.get("int_dtype") and all(x.denominator == 1 for x in arr) else np.array([float(x) for x in arr])
        out = [float(x) for x in interpolate(a, np.arange(m))]
        ops = [f"prof interp {flist(arr)} {m}"]
        lo, hi = float(min(arr)), float(max(arr))
        scale = max(1.0, abs(lo), abs(hi))
        tag = f"profile of {len(arr)} values onto {m} increments"
        if len(out) != m:
            viols.append(("interp.length", f"{tag}: {len(out)} values returned"))
        if m >= 2 and out and (out[0] != float(arr[0]) or out[-1] != float(arr[-1])):
            viols.append(("interp.first-last", f"{tag}: first/last {out[0]}, {out[-1]} instead of {float(arr[0])}, {float(arr[-1])}"))
        if any(v < lo - 1e-12 * scale or v > hi + 1e-12 * scale for v in out):
            viols.append(("interp.range", f"{tag}: a resampled value leaves [{lo}, {hi}]"))
        if lo == hi and any(v != lo for v in out):
            viols.append(("interp.const", f"{tag}: constant profile changed"))
        if m == len(arr) and out != [float(x) for x in arr]:
            viols.append(("interp.same-length", f"{tag}: already-matching profile changed"))
        if case.get("linear") and m >= 2:
            a0, b0 = F(case["linear"][0]), F(case["linear"][1])
            for kk, v in enumerate(out):
                w = float(a0 + b0 * F(kk) * (len(arr) - 1) / (m - 1))
                if abs(v - w) > 1e-12 * scale:
                    viols.append(("interp.linear", f"{tag}: linear profile not reproduced at increment {kk}: {v} vs {w}"))
                    break
        return dict(ops=ops, impl=[out], viols=viols, nontrivial=("interp", len(arr) > m, len(arr) == m, m == 1, len(arr) % max(m, 1) == 0, lo == hi), tag="interp")
    if k == "load":
        from relsad.network.components import Bus
        from relsad.load.bus import CostFunction
        n, i = case["n"], case["i"]
        b = Bus("B", n_customers=n)
        cats = []
        shared = case.get("shared_cost")       # "object": one tariff object for all categories; "default": no cost function passed at all
        tariff = CostFunction(A=F(case["cats"][0]["A"]), B=F(case["cats"][0]["B"])) if shared == "object" and case["cats"] else None
        for c in case["cats"]:
            p = [F(x) for x in c["p"]]; q = [F(x) for x in c["q"]]
            if shared == "default":
                b.add_load_data(pload_data=p, qload_data=q)
                cats.append((p, q, F(1), F(0)))            # the documented default cost function
            elif shared == "object":
                b.add_load_data(pload_data=p, qload_data=q, cost_function=tariff)
                cats.append((p, q, F(case["cats"][0]["A"]), F(case["cats"][0]["B"])))
            else:
                b.add_load_data(pload_data=p, qload_data=q, cost_function=CostFunction(A=F(c["A"]), B=F(c["B"])))
                cats.append((p, q, F(c["A"]), F(c["B"])))
        b.set_load_and_cost(i)
        ops = ["prof load " + f"{n} {i} " + " ".join(f"{flist(p)} {flist(q)} {fr(A)} {fr(B)}" for p, q, A, B in cats)]
        cost_now = b.get_cost()          # the shedding cost is what the accessor used by the shedding problem returns
        impl = [f"{fr(b.pload)} {fr(b.qload)} {fr(F(cost_now) if isinstance(cost_now, float) else cost_now)}"]
        want_p = sum(p[i] * n for p, q, A, B in cats)
        if b.pload != want_p or b.qload != sum(q[i] * n for p, q, A, B in cats):
            viols.append(("load.sum", f"demand {b.pload} != sum over categories of profile x customers = {want_p}"))
        costs = [A + B for p, q, A, B in cats]
        want_c = max(costs) if costs and max(costs) > 0 else 10 ** 8
        if cost_now != want_c:
            viols.append(("load.cost", f"shedding cost {cost_now}, expected {want_c} (highest category cost / default)"))
        return dict(ops=ops, impl=impl, viols=viols, nontrivial=("load", len(cats), n == 0, want_c == 10 ** 8), tag="load")
    if k == "prod":
        from relsad.network.components import Bus, Production
        b = Bus("B")
        pr = Production("P", b, pmax=F(case["pmax"]), qmax=F(case["qmax"]))
        pp = [F(x) for x in case["pp"]]; qp = [F(x) for x in case["qp"]]
        pr.add_prod_data(pprod_data=pp, qprod_data=qp)
        i = case["i"]
        pr.set_prod(i)
        ops = [f"prof prod {flist(pp)} {flist(qp)} {fr(F(case['pmax']))} {fr(F(case['qmax']))} {i}"]
        impl = [f"{fr(b.pprod)} {fr(b.qprod)}"]
        if b.pprod != min(pp[i], F(case["pmax"])) or b.qprod != min(qp[i], F(case["qmax"])):
            viols.append(("prod.cap", f"production ({b.pprod},{b.qprod}) is not the profile value capped at the rating"))
        return dict(ops=ops, impl=impl, viols=viols, nontrivial=("prod", pp[i] > F(case["pmax"]), qp[i] > F(case["qmax"])), tag="prod")
    if k == "prepare":
        # prepare_load_data once, then every increment reads index i of the resampled profile
        from relsad.network.components import Bus
        from relsad.load.bus import CostFunction
        arr = [F(x) for x in case["arr"]]; m = case["m"]; n = case["n"]
        b = Bus("B", n_customers=n)
        b.add_load_data(pload_data=np.array([float(x) for x in arr]), cost_function=CostFunction(A=1, B=1))
        b.prepare_load_data(np.arange(m))
        got = []
        for i in range(m):
            b.set_load_and_cost(i)
            got.append(float(b.pload))
        ops = [f"prof interp {flist(arr)} {m}"]
        return dict(ops=ops, impl=[[g / n if n else 0.0 for g in got]] if n else [None], viols=viols,
                    nontrivial=("prepare", len(arr) > m, n), tag="prepare")
    if k == "prepare-multi":
        # several customer categories with profiles of different resolutions (active and reactive separately), prepared once:
        # in every increment active / reactive demand = sum over the categories of the resampled profile value x customers
        from relsad.network.components import Bus
        from relsad.load.bus import CostFunction
        m = case["m"]; n = case["n"]
        b = Bus("B", n_customers=n)
        for c in case["cats"]:
            b.add_load_data(pload_data=np.array([float(F(x)) for x in c["p"]]),
                            qload_data=None if c["q"] is None else np.array([float(F(x)) for x in c["q"]]), cost_function=CostFunction(A=1, B=1))
        try:
            b.prepare_load_data(np.arange(m))
            gotp, gotq = [], []
            for i in range(m):
                b.set_load_and_cost(i)
                gotp.append(float(b.pload)); gotq.append(float(b.qload))
        except IndexError as e:
            viols.append(("prepare.raise", f"{len(case['cats'])} categories with profile lengths {[(len(c['p']), None if c['q'] is None else len(c['q'])) for c in case['cats']]} on {m} increments: {e!r}"))
            return dict(ops=[], impl=[], viols=viols, nontrivial=("prepare-multi", m, len(case["cats"])), tag="prepare-multi")
        ops = []
        for c in case["cats"]:
            ops.append(f"prof interp {flist([F(x) for x in c['p']])} {m}")
            ops.append(f"prof interp {flist([F(x) for x in (c['q'] if c['q'] is not None else ['0'] * len(c['p']))])} {m}")
        from .common import run_driver
        outs = run_driver(ops)
        rows = [[F(x) for x in o.split(",")] if o != "-" else [] for o in outs]
        wantp = [sum(rows[2 * j][i] for j in range(len(case["cats"]))) * n for i in range(m)]
        wantq = [sum(rows[2 * j + 1][i] for j in range(len(case["cats"]))) * n for i in range(m)]
        scale = max([1.0] + [abs(float(v)) for v in wantp + wantq])
        for i in range(m):
            if abs(float(wantp[i]) - gotp[i]) > 1e-9 * scale or abs(float(wantq[i]) - gotq[i]) > 1e-9 * scale:
                viols.append(("prepare.multi", f"{len(case['cats'])} categories, profile lengths {[(len(c['p']), None if c['q'] is None else len(c['q'])) for c in case['cats']]}, {m} increments, {n} customers: "
                                               f"demand in increment {i} is ({gotp[i]}, {gotq[i]}), sum of the resampled profiles x customers is ({float(wantp[i])}, {float(wantq[i])})"))
                break
        return dict(ops=ops, impl=[o for o in outs], viols=viols, nontrivial=("prepare-multi", m, len(case["cats"]), any(len(c["p"]) == m for c in case["cats"])), tag="prepare-multi")
    if k == "prepare-system":
        # the entry point the simulations use: prepare_system(start, stop, step) on a built system whose load points and production
        # unit carry non-constant profiles; also for periods that are not a whole number of steps.  Every profile is resampled to
        # exactly one value per increment of the returned time array, with the values the resampling rule prescribes.
        from relsad.simulation.system_config import prepare_system
        from relsad.Time import Time, TimeStamp
        from . import net, c17
        ps = net.build(dict(case["spec"], exact=False, nprof=len(case["prof"][0])))
        loads = [b for b in ps.buses if b.pload_data]
        for j, b in enumerate(loads):
            pr = case["prof"][j % len(case["prof"])]
            b.pload_data = [np.array([float(F(x)) for x in pr])]
            b.qload_data = [np.array([float(F(x)) / 2 for x in pr])]
        prods = [b.prod for b in ps.buses if getattr(b, "prod", None) is not None]      # the units themselves, not the system's registry of them
        for P in prods:
            P.pprod_data = np.array([float(F(x)) for x in case["prof"][-1]]); P.qprod_data = np.array([float(F(x)) / 4 for x in case["prof"][-1]])
        st = case["start"]; total = st[0] * 1440 + st[1] * 60 + st[2] + case["period_min"]
        start = TimeStamp(day=st[0], hour=st[1], minute=st[2])
        stop = TimeStamp(day=total // 1440, hour=(total % 1440) // 60, minute=total % 60)
        u = case["unit"]
        step = Time(float(F(case["step_min"]) * 60 / c17.FACT[u]), c17.U(u))
        ta = prepare_system(ps, start, stop, step, c17.U(u))
        n = len(ta)
        if n != case["period_min"] // case["step_min"]:
            viols.append(("prepare.increments", f"period {case['period_min']} min, step {case['step_min']} min: {n} increments"))
        ops = [f"prof interp {flist([F(x) for x in pr])} {n}" for pr in case["prof"]]
        from .common import run_driver
        outs = run_driver(ops) if n else []
        rows = [[F(x) for x in o.split(",")] if o != "-" else [] for o in outs]
        what = f"period {case['period_min']} min from {st}, step {case['step_min']} min written in {c17.U(u).name} ({n} increments), profiles of {len(case['prof'][0])} values"
        for j, b in enumerate(loads):
            got = [float(x) for x in b.pload_data[0]]
            want = [float(x) for x in rows[j % len(case["prof"])]] if n else []
            if len(got) != n:
                viols.append(("prepare.system-length", f"{what}: load profile of {b.name} resampled to {len(got)} values"))
            elif any(abs(a - w) > 1e-9 * max(1, abs(w)) for a, w in zip(got, want)):
                viols.append(("prepare.system-values", f"{what}: load profile of {b.name} is {got[:6]}..., the resampling rule gives {want[:6]}..."))
            if viols:
                break
        for P in prods:
            got = [float(x) for x in P.pprod_data]
            want = [float(x) for x in rows[-1]] if n else []
            if len(got) != n or any(abs(a - w) > 1e-9 * max(1, abs(w)) for a, w in zip(got, want)):
                viols.append(("prepare.system-prod", f"{what}: production profile of {P.name} is {got[:6]}... ({len(got)} values), the resampling rule gives {want[:6]}..."))
            elif n:
                # ... and the system dispatches the unit in every increment: profile value capped at the rating
                for i in sorted({0, n // 2, n - 1}):
                    ps.set_prod(inc_idx=i)
                    wantp = min(want[i], float(P.pmax))
                    if abs(float(P.pprod) - wantp) > 1e-9 * max(1, abs(wantp)):
                        viols.append(("prepare.system-dispatch", f"{what}: in increment {i} the system sets the production of {P.name} to {P.pprod}, profile value capped at the rating is {wantp}"))
                        break
        # correspondence with the model's prepare_system (C19.prepare_one_value_per_increment): the model decides the number of
        # increments itself; compared: that number and the length of every resampled profile (values: oracle above, floats)
        pops = ["prof prepare " + f"{fr(F(case['period_min'], 60))} {fr(F(case['step_min'], 60))} 1 " + " ".join(flist([F(x) for x in pr]) for pr in case["prof"])]
        lens = [len(b.pload_data[0]) for b in loads[:2]] + [len(P.pprod_data) for P in prods[:1]]
        pimpl = [f"{n} " + " ".join(str(x) for x in lens)]
        case["_nprof"] = len(lens)
        return dict(ops=pops, impl=pimpl, viols=viols[:3],
                    nontrivial=("prepare-system", case["period_min"] % case["step_min"] == 0, u, min(n, 30), bool(prods)), tag="prepare-system")
    if k == "prepare-prod":
        # the whole production path: add_prod_data, prepare_prod_data (resampling), then set_prod in every increment:
        # production = min(resampled profile value, rating)  -  capping and resampling do not commute
        from relsad.network.components import Bus, Production
        arr = [F(x) for x in case["arr"]]; m = case["m"]; pmax = F(case["pmax"])
        b = Bus("B")
        pr = Production("P", b, pmax=float(pmax), qmax=float(pmax) / 2)
        pr.add_prod_data(pprod_data=np.array([float(x) for x in arr]), qprod_data=np.array([float(x) / 2 for x in arr]))
        pr.prepare_prod_data(np.arange(m))
        got, gotq = [], []
        for i in range(m):
            pr.set_prod(i)
            got.append(float(b.pprod)); gotq.append(float(b.qprod))
        case["_got"] = (got, gotq)
        ops = [f"prof interp {flist(arr)} {m}"]
        from .common import run_driver
        out = run_driver(ops)[0]
        vals = [] if out == "-" else [F(x) for x in out.split(",")]
        scale = max([1.0] + [abs(float(v)) for v in vals])
        for i, (v, g, gq) in enumerate(zip(vals, got, gotq)):
            if abs(float(min(v, pmax)) - g) > 1e-12 * scale or abs(float(min(v / 2, pmax / 2)) - gq) > 1e-12 * scale:
                viols.append(("prod.resampled-cap", f"profile {[float(x) for x in arr]} over {m} increments, rating {float(pmax)}: production in increment {i} is {g} (reactive {gq}), "
                                                    f"the resampled profile value capped at the rating is {float(min(v, pmax))} ({float(min(v / 2, pmax / 2))})"))
                break
        return dict(ops=ops, impl=[[float(pmax)]], viols=viols, nontrivial=("prepare-prod", len(arr) > m, max(arr) > pmax, min(arr) > pmax), tag="prepare-prod")
    raise ValueError(k)


def compare(case, m, i):
    if case["kind"] == "prepare-prod":
        vals = [] if m[0] == "-" else [F(x) for x in m[0].split(",")]
        got, gotq = case["_got"]
        pmax = F(case["pmax"])
        if len(vals) != len(got):
            return False
        scale = max([1.0] + [abs(float(v)) for v in vals])
        return all(abs(float(min(v, pmax)) - g) <= 1e-12 * scale and abs(float(min(v / 2, pmax / 2)) - gq) <= 1e-12 * scale
                   for v, g, gq in zip(vals, got, gotq))
    if case["kind"] == "prepare-multi":
        return m == i
    if case["kind"] == "prepare-system":
        if not m:
            return True
        parts = m[0].split(" ")
        got = i[0].split(" ")
        # model: n and the resampled profiles; implementation: n and the lengths of (up to) two load profiles and the production profile
        ml = [parts[0]] + [str(0 if p == "-" else len(p.split(","))) for p in parts[1:]]
        k = len(got) - 1
        sel = ml[1:3][:max(0, k - 1)] + ml[-1:] if k >= 1 else []
        return ml[0] == got[0] and all(x == got[0] for x in got[1:]) and all(x == ml[0] for x in ml[1:])
    if case["kind"] in ("interp", "prepare"):
        if i[0] is None:
            return True
        vals = [] if m[0] == "-" else [F(x) for x in m[0].split(",")]
        if len(vals) != len(i[0]):
            return False
        scale = max([1.0] + [abs(float(v)) for v in vals])
        return all(abs(float(v) - w) <= 1e-12 * scale for v, w in zip(vals, i[0]))
    return m == i


def dyadic(rng, lo=0, hi=4):
    return F(rng.randint(lo * 64, hi * 64), 64)


def gen(rng, n):
    cases = []
    lens = [1, 2, 3, 5, 8, 12, 24, 48, 96, 365, 400]
    for _ in range(n):
        L = rng.choice(lens + [rng.randint(1, 400)])
        m = rng.choice([1, 2, 3, 6, 8, 12, 24, L, L, rng.randint(1, 400), max(1, L // 2), max(1, L // 3), L * 2])
        c = rng.random()
        lin = None
        if c < 0.2:
            v = dyadic(rng); arr = [v] * L
        elif c < 0.45:
            a0, b0 = dyadic(rng), F(rng.randint(-8, 8), 8)
            arr = [a0 + b0 * j for j in range(L)]; lin = [str(a0), str(b0)]
        else:
            arr = [dyadic(rng) for _ in range(L)]
        cases.append({"kind": "interp", "arr": [str(x) for x in arr], "m": m, "linear": lin})
        if len(cases) % 5 == 0:
            # whole megawatts, handed over as an integer array
            ai = [F(rng.randint(0, 6)) for _ in range(L)]
            if len(cases) % 10 == 0:
                a0i, b0i = rng.randint(0, 3), rng.randint(1, 3)
                ai = [F(a0i + b0i * j) for j in range(L)]
            cases[-1] = {"kind": "interp", "arr": [str(x) for x in ai], "m": m, "linear": ([str(a0i), str(b0i)] if len(cases) % 10 == 0 else None), "int_dtype": True}
    for _ in range(n):
        ncat = rng.choice([0, 1, 1, 2, 3, 4]); L = rng.randint(1, 6)
        cats = [{"p": [str(rand_frac(rng, 0, 2)) for _ in range(L)], "q": [str(rand_frac(rng, 0, 1)) for _ in range(L)],
                 "A": str(rng.choice([F(0), F(1), F(2), rand_frac(rng, 0, 50)])), "B": str(rng.choice([F(0), F(1), rand_frac(rng, 0, 5)]))} for _ in range(ncat)]
        cases.append({"kind": "load", "n": rng.choice([0, 1, 3, 17, 500]), "i": rng.randrange(L), "cats": cats})
        if len(cases) % 4 == 0 and ncat >= 2:
            cases[-1]["shared_cost"] = rng.choice(["object", "default"])     # several categories under one tariff object / the default one
    for _ in range(n // 2):
        L = rng.randint(1, 6)
        cases.append({"kind": "prod", "pp": [str(rand_frac(rng, 0, 3)) for _ in range(L)], "qp": [str(rand_frac(rng, 0, 3)) for _ in range(L)],
                      "pmax": str(rng.choice([F(1), F(10), rand_frac(rng, 0, 3)])), "qmax": str(rng.choice([F(1), F(0), rand_frac(rng, 0, 3)])), "i": rng.randrange(L)})
    for _ in range(n // 2):
        L = rng.choice([2, 3, 6, 12, 24, 48]); m = rng.choice([1, 2, 4, 5, 6, 8, 12, 24, 30])
        arr = [dyadic(rng, 0, 4) for _ in range(L)]
        cases.append({"kind": "prepare-prod", "arr": [str(x) for x in arr], "m": m, "pmax": str(rng.choice([F(1), F(2), F(5, 2), F(10), max(arr) / 2 or F(1)]))})
    for _ in range(n // 2):
        L = rng.choice([2, 6, 12, 24, 48]); m = rng.choice([1, 2, 4, 6, 8, 12, 24, 30])
        cases.append({"kind": "prepare", "arr": [str(dyadic(rng)) for _ in range(L)], "m": m, "n": rng.choice([1, 4, 8])})
    for j in range(max(6, n // 4)):
        # several categories / active and reactive profiles at different resolutions; in half of the cases the first active
        # profile already has exactly one value per increment
        m = rng.choice([2, 4, 6, 12, 24])
        cats = []
        for c in range(rng.choice([1, 2, 2, 3])):
            Lp = m if (c == 0 and j % 2 == 0) else rng.choice([2, 3, 6, 12, 24, 48])
            Lq = rng.choice([None, Lp, Lp, 2 * Lp, rng.choice([2, 6, 12, 48])])
            cats.append({"p": [str(dyadic(rng)) for _ in range(Lp)], "q": None if Lq is None else [str(dyadic(rng, 0, 2)) for _ in range(Lq)]})
        cases.append({"kind": "prepare-multi", "m": m, "n": rng.choice([1, 3, 10]), "cats": cats})
    for j in range(max(8, n // 10)):
        # through prepare_system: periods that are / are not a whole number of steps, steps written in several units
        from . import net
        spec = net.rand_feeder_spec(rng, max_lines=3, allow_tie=False, allow_mg=False, nfeed=1)
        spec["feeders"][0]["prod"] = {"0": {"p": "1", "q": "1/4"}}
        step_min = rng.choice([60, 60, 30, 120, 90])
        k = rng.randint(2, 12)
        period = k * step_min + (rng.choice([step_min // 2, step_min // 4, step_min // 3]) if j % 2 == 0 else 0)
        L = rng.choice([k, k + 1, 24, 6])
        profs = [[str(dyadic(rng)) for _ in range(L)] for _ in range(2)]
        a0, b0 = dyadic(rng), F(rng.randint(1, 8), 8)
        profs.append([str(a0 + b0 * q) for q in range(L)])          # production: a linear ramp
        cases.append({"kind": "prepare-system", "spec": spec, "prof": profs, "start": [rng.choice([0, 3]), rng.randint(0, 23), rng.choice([0, 30])],
                      "period_min": period, "step_min": step_min, "unit": rng.choice([3, 3, 2, 1])})
    return cases


def run(res):
    rng = random.Random(res.seed * 1013 + 37)
    n = 150 if res.tier == "quick" else 2500
    res.rule = ("profiles of length 1..400 onto 1..400 increments (constant, linear, random dyadic values; equal, divisible and non-divisible ratios), "
                "set_load_and_cost with 0-4 categories and 0..500 customers, set_prod around the rating, prepare+read per increment for loads and for production profiles that cross the rating (add, resample, read every increment: min(resampled, rating)); "
                "prepare-system: built feeders with non-constant load and production profiles through prepare_system(start, stop, step) for periods that are / are not a whole number of steps (steps of 30-120 min written in s / min / h): one value per increment, values by the resampling rule; "
                "non-trivial = distinct (kind, downsampling?, equal length?, single increment?, divisible?, constant?) signatures")
    run_cases(res, gen(rng, n), handler, compare)


def search(res):
    rng = random.Random(res.seed * 59 + 2)
    found = []
    for case in gen(rng, 800):
        h = handler(case)
        for key, what in h["viols"]:
            found.append({"key": key, "what": what, "case": case})
        if len(found) > 10:
            break
    return found


def replay(obj):
    case = obj.get("case")
    if case is None:
        print("no failing input in this replay file:", obj.get("broken_proof_obligations"), obj.get("broken_correspondence", [])[:2])
        return 1
    h = handler(case)
    print(h["ops"], h["impl"])
    for key, what in h["viols"]:
        print("FAILS:", key, what)
    return 1 if h["viols"] else 0
