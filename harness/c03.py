"""C03  Load shedding is a minimum-cost solution of the documented problem.

Every LP that the real `shed_energy` builds and solves during generated fault runs is (a) rebuilt
by the model from an independent reading of the island's state and compared exactly, and
(b) certified by the verified checker: the solver's solution is feasible (to 1e-9) and its cost
is within the gap of the Lagrangian bound of the solver's own multipliers, hence (theorem
`C03.checkCert_sound`) within the gap of the true minimum.  The amounts actually put on the
energy-shed stacks are compared with the model's `reported`.  Independently of whether the
implementation called the solver at all, the documented problem of every island with demand is
solved by the harness, certified by the same checker, and the cost of what was actually recorded
must not be below that certified minimum.
"""
import random
from fractions import Fraction

from .common import fr, flist, run_cases, run_driver
from . import lpcap

PROP = "C03"
LEVEL = "proof"
ASSUMPTIONS = [
    "HiGHS is not modelled: optimality is decided per solved instance by the verified certificate checker (feasibility tolerance 1e-6*(1+max load); gap 1e-6*(1+|cost|) + 4*tol*max cost, i.e. far below the documented 1e-4 MW slack)",
    "floats are converted to exact rationals before they reach the checker; line limits are recomputed by the harness as min(capacity, |load-flow line flow in MW|)",
]
F = Fraction


def handler(case):
    ps, records = lpcap.run_and_capture(case)
    ops, impl, viols = [], [], []
    sig = set()
    cert_ops, cert_meta = [], []
    for r in records:
        if r["call"] is None:
            continue
        call = r["call"]
        lines2, x, fun = lpcap.cert_lines(r)
        ops.append(lines2[0])
        impl.append(lpcap.dump_instance(call["c"], call["A"], call["b"], call["bounds"]) + " pattern=T shedAllFeasible=T")
        cert_ops += lines2
        buses, lns, loads, costs, gens, ls = r["pre"]
        nd = len(buses)
        cert_ops.append(f"lp reported {flist(x)} {fr(fun)}")
        cert_meta.append((r, x, fun))
        sig.add((r["reactive"], nd > 1, len(ls), call["res"].status, fun > 0, any(c == 0 for a, b, c in ls), len(set(costs)) < len(costs)))
        if call["res"].status != 0:
            viols.append(("lp.status", f"linprog status {call['res'].status} ({call['res'].message}) on an always-feasible problem"))
    if cert_ops:
        out = run_driver(cert_ops)
        for k, (r, x, fun) in enumerate(cert_meta):
            o_cert = out[3 * k + 1].split()
            o_rep = out[3 * k + 2]
            tag = f"{'reactive' if r['reactive'] else 'active'} problem of island {r['names']}"
            if o_cert[0] != "T":
                viols.append(("lp.certificate", f"{tag}: the solver's solution is not certified (feasible within tolerance and cost {float(F(o_cert[1])):.9g} within the gap of the dual bound {float(F(o_cert[2])):.9g})"))
            rep = [] if o_rep == "-" else [F(v) for v in o_rep.split(",")]
            got = [F(float(d)) / F(float(r["dt"])) if r["dt"] else F(0) for d in r["stack_delta"]]
            if len(rep) == len(got) and any(abs(a - b) > F(1, 10 ** 9) for a, b in zip(rep, got)):
                viols.append(("lp.reported", f"{tag}: amounts put on the energy-shed stacks {[float(g) for g in got]} differ from the thresholded solution {[float(v) for v in rep]}"))
    viols += independent_minimum(records, sig)
    return dict(ops=ops, impl=impl, viols=viols[:3], nontrivial=tuple(sorted(sig, key=str)) if sig else None, tag=f"lp-run:solved={len(cert_meta)}")


def independent_minimum(records, sig):
    """Whether or not the implementation called the solver: the documented problem of every island with demand is built by
    the model, solved here, the solution certified by the verified checker, and the cost of what the implementation actually
    recorded as shed is compared with that certified minimum (a recorded shed that is cheaper than the minimum cannot be
    feasible: some limit or balance is violated)."""
    import numpy as np
    from scipy.optimize import linprog
    viols = []
    todo = []
    for r in records:
        buses, lns, loads, costs, gens, ls = r["pre"]
        if sum(loads) <= lpcap.ALPHA or not r["dt"]:
            continue
        todo.append(r)
    if not todo:
        return viols
    dumps = run_driver([lpcap.island_op(*[r["pre"][k] for k in (2, 3, 4, 5)]) for r in todo])
    cert_ops, meta = [], []
    for r, dmp in zip(todo, dumps):
        parts = dmp.split(" ")
        try:
            n = int(parts[0])
            A = [[float(F(v)) for v in row.split(",")] for row in parts[1].split(";")]
            b = [float(F(v)) for v in parts[2].split(",")]
            c = [float(F(v)) for v in parts[3].split(",")]
            lo = [float(F(v)) for v in parts[4].split(",")]
            hi = [float(F(v)) for v in parts[5].split(",")]
        except Exception:
            continue
        res = linprog(c, A_eq=np.array(A), b_eq=np.array(b), bounds=list(zip(lo, hi)))
        if res.status != 0:
            continue
        buses, lns, loads, costs, gens, ls = r["pre"]
        cmax = max([cc for cc, l in zip(costs, loads) if l > 0] + [F(1)])
        tol = F(1, 10 ** 6) * (1 + max(loads + [F(0)]))
        gap = F(1, 10 ** 6) * (1 + abs(lpcap.fx(res.fun))) + 4 * tol * cmax
        cert_ops += [lpcap.island_op(loads, costs, gens, ls),
                     f"lp cert {flist([lpcap.fx(v) for v in res.x])} {flist([lpcap.fx(v) for v in res.eqlin.marginals])} {fr(gap)} {fr(tol)}"]
        meta.append((r, gap, cmax))
    if not cert_ops:
        return viols
    out = run_driver(cert_ops)
    for k, (r, gap, cmax) in enumerate(meta):
        o = out[2 * k + 1].split()
        if o[0] != "T":
            continue                       # this harness-side solve is not certified: no claim
        dual = F(o[2])
        buses, lns, loads, costs, gens, ls = r["pre"]
        dt = F(float(r["dt"]))
        shed = [F(float(d)) / dt for d in r["stack_delta"]]
        rec_cost = sum(cc * sh for cc, sh in zip(costs, shed))
        slack = gap + len(buses) * lpcap.ALPHA * cmax + F(1, 10 ** 9)      # amounts below alpha are not recorded
        sig.add(("independent", r["reactive"], r["call"] is None, dual > slack))
        primal = F(o[1])
        if rec_cost > primal + slack:
            tag = f"{'reactive' if r['reactive'] else 'active'} problem of island {r['names']}"
            viols.append(("lp.above-minimum", f"{tag}: the recorded shed {[float(x) for x in shed]} costs {float(rec_cost):.9g}, a certified feasible solution of the documented problem costs "
                                              f"{float(primal):.9g} (loads {[float(x) for x in loads]}, generation {[float(g) if g < lpcap.INF else 'inf' for g in gens]}): what was recorded is not a minimum-cost solution"
                                              + (" - the solver was not called for this island" if r["call"] is None else "")))
        if rec_cost < dual - slack:
            tag = f"{'reactive' if r['reactive'] else 'active'} problem of island {r['names']}"
            viols.append(("lp.below-minimum", f"{tag}: the recorded shed {[float(x) for x in shed]} costs {float(rec_cost):.9g}, the certified minimum of the documented problem is "
                                              f">= {float(dual):.9g} (loads {[float(x) for x in loads]}, line limits {[float(cap) for _, _, cap in ls]}): what was recorded is not feasible"
                                              + (" - the solver was not called for this island" if r["call"] is None else "")))
    return viols


def run(res):
    rng = random.Random(res.seed * 9001 + 59)
    n = 25 if res.tier == "quick" else 400
    res.rule = ("real fault runs of built feeders (1-2 feeders, laterals, microgrids with batteries, distributed production incl. net exporters, binding and zero "
                "line capacities, cost ties, zero demands, s_ref in {1/10,1,10,100}, injected line and transformer faults): every LP solved by shed_energy "
                "(active and reactive). non-trivial = distinct (reactive?, size, status, cost>0, zero-capacity line, cost ties)")
    run_cases(res, lpcap.gen(rng, n), handler)


def search(res):
    rng = random.Random(res.seed * 13 + 10)
    found = []
    for case in lpcap.gen(rng, 80):
        h = handler(case)
        for key, what in h["viols"]:
            found.append({"key": key, "what": what, "case": case})
        if len(found) > 6:
            break
    return found


def replay(obj):
    case = obj.get("case")
    if case is None:
        print("no failing input in this replay file:", obj.get("broken_proof_obligations"), str(obj.get("broken_correspondence", [])[:1])[:1500])
        return 1
    h = handler(case)
    for key, what in h["viols"]:
        print("FAILS:", key, what)
    return 1 if h["viols"] else 0
