"""Builds real relsad power systems from a small JSON-serialisable spec, through the public
constructors in the documented order (Bus -> Line -> CircuitBreaker -> Disconnector ->
Sensor/IntelligentSwitch -> [ICT network] -> Transmission -> Distribution -> Microgrid).

spec = {
  "ctrl":   {"type": "manual", "T": "1"}                       # ManualMainController, sectioning time [h]
          | {"type": "main", "T": "1", "ict": {...} | None},   # MainController (automatic), optional ICT network
  "feeders": [ {"parent": [-1, 0, 1, ...],   # line i goes from bus parent[i] (-1 = trafo bus B0) to bus i
                "sw":     [0..3, ...],       # disconnectors on line i: 0 none, 1 upstream end, 2 downstream end, 3 both
                "cust":   [n, ...],          # customers per bus
                "load":   ["1/20", ...]} ],  # constant active load per customer [MW]
  "tie":  {"a": [f, b], "b": [f, b], "open_at_build": bool} | None, # backup line between two buses, disconnectors at both ends
  feeders[f]["battery"]: {bus index: {"p","q","e","smin","smax","eta","soc_start"}}   # batteries on distribution buses
  "mg":   {"host": [f, b], "mode": "survival|full|limited", "discon": bool, "n": 2, "battery": {...} | None} | None,
  "rep":  "2",                               # default repair time of every line [h]
  "exact": bool                              # build with Fractions (exact-rational runs) or floats
}
Names: trafo bus B0; feeder f: buses F{f}B{i}, lines F{f}L{i}, breaker F{f}E, disconnectors F{f}L{i}a / F{f}L{i}b;
tie lines T{k} (T{k}a, T{k}b); microgrid buses M{i}, lines ML{i}, breaker ME, disconnector ML1a.
"""
from fractions import Fraction

import numpy as np


class FixedDist:
    """Repair-time 'distribution' returning a settable value (duck-typed StatDist)."""

    def __init__(self, v):
        self.v = v

    def draw(self, random_instance=None, size=1):
        return [self.v]


class SeqRng:
    """random() returns the listed values first, then 1 (never below a probability)"""

    def __init__(self, values):
        self.values = list(values)

    def random(self):
        return self.values.pop(0) if self.values else 1

    def uniform(self, low=0, high=1, size=None):
        return low + Fraction(1, 2) * (high - low)

    def integers(self, low=0, high=1, size=None):
        return low


class NoFailRng:
    """random() always 1 (never below a probability), uniform() returns low + u*(high-low)."""

    def __init__(self, u=Fraction(1, 2)):
        self.u = u
        self.n = 0

    def random(self):
        self.n += 1
        return 1

    def uniform(self, low=0, high=1, size=None):
        return low + self.u * (high - low)

    def integers(self, low=0, high=1, size=None):
        return low


def reset_counters():
    from relsad.network.systems import PowerSystem, Distribution, Microgrid, Transmission, SubSystem
    PowerSystem.counter = 0
    Distribution.counter = 0
    Microgrid.counter = 0
    Transmission.counter = 0
    SubSystem.counter = 0


def num(x, exact):
    f = Fraction(x)
    return f if exact else float(f)


def build(spec):
    from relsad.network.components import (Bus, Line, CircuitBreaker, Disconnector, Sensor, IntelligentSwitch,
                                           ManualMainController, MainController, MicrogridMode, Battery, ICTNode, ICTLine)
    from relsad.network.systems import PowerSystem, Transmission, Distribution, Microgrid, ICTNetwork
    from relsad.Time import Time, TimeUnit
    from relsad.load.bus import CostFunction
    reset_counters()
    exact = spec.get("exact", True)
    N = lambda x: num(x, exact)
    c = spec["ctrl"]
    automatic = c["type"] == "main"

    def TT(hours):
        # the sectioning time may be written in another unit than hours (ctrl["T_unit"]: 1 s, 2 min, 3 h, 4 d)
        tu = c.get("T_unit", 3)
        fact = {1: Fraction(1, 3600), 2: Fraction(1, 60), 3: Fraction(1), 4: Fraction(24)}[tu]
        q = Fraction(str(hours)) / fact if not isinstance(hours, float) else hours / float(fact)
        return Time(q if exact else float(q), TimeUnit(tu))
    ict = c.get("ict") if automatic else None
    ict_nodes = {}
    if ict is not None:
        for i in range(ict["n"]):
            ict_nodes[i] = ICTNode(f"N{i}")
    if automatic:
        C = MainController(name="C1", ict_node=ict_nodes.get(0) if ict else None,
                           hardware_fail_rate_per_year=float(c.get("hw_rate", 0)), software_fail_rate_per_year=float(c.get("sw_rate", 0)),
                           manual_sectioning_time=TT(c["T"]),
                           **({"new_signal_time": Time(N(c["new_signal"]), TimeUnit.HOUR)} if c.get("new_signal") else {}),
                           **({"p_fail_repair_new_signal": float(c["p_new"])} if c.get("p_new") is not None else {}),
                           **({"p_fail_repair_reboot": float(c["p_reboot"])} if c.get("p_reboot") is not None else {}))
    else:
        C = ManualMainController(name="C1", sectioning_time=TT(c["T"]))
    ps = PowerSystem(C)
    rep = N(spec.get("rep", "2"))
    B0 = Bus("B0", n_customers=0, s_ref=N(spec.get("s_ref", "1")))
    fb, fl = [], []
    prods = []
    node_of = {}     # component name -> ict node index (from spec)
    if ict is not None:
        node_of = ict.get("attach", {})

    s_ref = N(spec.get("s_ref", "1"))

    def mk_line(name, a, b, cap=None):
        l = Line(name, a, b, r=N("1/20"), x=N("1/20"), capacity=(100 if cap is None else N(cap)), s_ref=s_ref)
        l.repair_time_dist = FixedDist(rep)
        return l

    def equip(l, ds):
        if automatic:
            nodev = c.get("nodev", [])       # devices that are not installed at all (line without sensor, plain disconnector)
            if f"S{l.name}" not in nodev:
                Sensor(f"S{l.name}", l, ict_node=ict_nodes.get(node_of.get(f"S{l.name}")), fail_rate_per_year=0)
            for d in ds:
                if f"I{d.name}" not in nodev:
                    IntelligentSwitch(f"I{d.name}", d, ict_node=ict_nodes.get(node_of.get(f"I{d.name}")), fail_rate_per_year=0)

    for f, fd in enumerate(spec["feeders"]):
        n = len(fd["parent"])
        Bs = [Bus(f"F{f}B{i}", n_customers=fd["cust"][i], s_ref=s_ref) for i in range(n)]
        Ls = []
        for i in range(n):
            a = B0 if fd["parent"][i] < 0 else Bs[fd["parent"][i]]
            Ls.append(mk_line(f"F{f}L{i}", a, Bs[i], (fd.get("cap") or [None] * n)[i]))
        for k, ev in (fd.get("ev") or {}).items():
            from relsad.network.components import EVPark
            from relsad.Table import Table
            hours = ev.get("hours", list(range(24)))       # rows in any order
            EVPark(f"F{f}EV{k}", Bs[int(k)], num_ev_dist=Table(x=np.array(hours), y=np.array([float(Fraction(v)) for v in ev["table"]])),
                   v2g_flag=ev.get("v2g", True))
        for k, bt in (fd.get("battery") or {}).items():
            # a battery on a bus of the distribution network itself (no microgrid mode)
            Battery(f"F{f}Bat{k}", Bs[int(k)], inj_p_max=N(bt.get("p", "1")), inj_q_max=N(bt.get("q", "1")), E_max=N(bt.get("e", "2")),
                    SOC_min=N(bt.get("smin", "1/10")), SOC_max=N(bt.get("smax", "1")), n_battery=N(bt.get("eta", "1")),
                    **({"SOC_start": N(bt["soc_start"])} if bt.get("soc_start") is not None else {}))
        for k, pr in (fd.get("prod") or {}).items():
            from relsad.network.components import Production
            P = Production(f"F{f}P{k}", Bs[int(k)], pmax=N(pr.get("pmax", "10")), qmax=N(pr.get("qmax", "10")))
            prods.append((P, pr))
        CircuitBreaker(f"F{f}E", Ls[0])
        for i in range(n):
            ds = []
            if fd["sw"][i] in (1, 3) and i > 0:
                ds.append(Disconnector(f"F{f}L{i}a", Ls[i], Ls[i].fbus))
            if fd["sw"][i] in (2, 3):
                ds.append(Disconnector(f"F{f}L{i}b", Ls[i], Ls[i].tbus))
            equip(Ls[i], ds)
        fb.append(Bs); fl.append(Ls)
    tie_specs = list(spec.get("ties") or ([spec["tie"]] if spec.get("tie") else []))
    ties = []
    for k, t in enumerate(tie_specs):
        a = fb[t["a"][0]][t["a"][1]]; b = fb[t["b"][0]][t["b"][1]]
        tl = mk_line(f"T{k}", a, b)
        # a normally-open tie may be described as such when its disconnectors are built (documented constructor argument)
        kw = {"is_open": True} if t.get("open_at_build") else {}
        ds = [Disconnector(f"T{k}a", tl, a, **kw), Disconnector(f"T{k}b", tl, b, **kw)]
        equip(tl, ds)
        ties.append((t, tl))
    mg = spec.get("mg")
    MB, ML = [], []
    if mg:
        host = fb[mg["host"][0]][mg["host"][1]]
        nm = mg.get("n", 2)
        MB = [Bus(f"M{i}", n_customers=1, s_ref=s_ref) for i in range(nm)]
        for i in range(nm):
            ML.append(mk_line(f"ML{i}", host if i == 0 else MB[i - 1], MB[i]))
        CircuitBreaker("ME", ML[0])
        for i in range(nm):
            ds = []
            if i > 0 and mg.get("discon"):
                ds.append(Disconnector(f"ML{i}a", ML[i], ML[i].fbus))
            equip(ML[i], ds)
        if mg.get("battery"):
            bt = mg["battery"]
            Battery("Bat", MB[0], inj_p_max=N(bt.get("p", "1")), inj_q_max=N(bt.get("q", "1")), E_max=N(bt.get("e", "2")),
                    SOC_min=N(bt.get("smin", "1/10")), SOC_max=N(bt.get("smax", "1")), n_battery=N(bt.get("eta", "1")),
                    **({"SOC_start": N(bt["soc_start"])} if bt.get("soc_start") is not None else {}))
        for k, ev in (mg.get("ev") or {}).items():
            # an EV park on a load point inside the microgrid
            from relsad.Table import Table
            hours = ev.get("hours", list(range(24)))
            from relsad.network.components import EVPark as _EVP
            _EVP(f"MEV{k}", MB[int(k)], num_ev_dist=Table(x=np.array(hours), y=np.array([float(Fraction(v)) for v in ev["table"]])),
                   v2g_flag=ev.get("v2g", True))
    if ict is not None:
        inet = ICTNetwork(ps)
        inet.add_nodes(list(ict_nodes.values()))
        ilines = []
        for k, (a, b) in enumerate(ict["lines"]):
            # (communication lines may be numbered like the power lines: names are unique per kind of component only)
            il = ICTLine((ict.get("line_names") or [])[k] if k < len(ict.get("line_names") or []) else f"IL{k}", ict_nodes[a], ict_nodes[b])
            il.repair_time_dist = FixedDist(rep)
            ilines.append(il)
        inet.add_lines(ilines)
    tn = Transmission(ps, trafo_bus=B0)
    dns = []
    for f in range(len(spec["feeders"])):
        dn = Distribution(parent_network=tn, connected_line=fl[f][0])
        dn.add_buses(fb[f])
        dn.add_lines(fl[f][1:])
        dns.append(dn)
    for t, tl in ties:
        dns[t["a"][0]].add_lines([tl])
        tl.set_backup()
    mgn = None
    if mg:
        mode = {"survival": MicrogridMode.SURVIVAL, "full": MicrogridMode.FULL_SUPPORT, "limited": MicrogridMode.LIMITED_SUPPORT}[mg["mode"]]
        if mg.get("listed_twice"):
            # the microgrid's lines are also listed among the lines of the hosting network first (as the repository's own
            # microgrid test does): registering a component twice must not change anything
            dns[mg["host"][0]].add_lines(ML)
        mgn = Microgrid(distribution_network=dns[mg["host"][0]], connected_line=ML[0], mode=mode)
        mgn.add_buses(MB)
        mgn.add_lines(ML[1:])
    nprof = spec.get("nprof", 4)
    for f, fd in enumerate(spec["feeders"]):
        for i, b in enumerate(fb[f]):
            if i in (fd.get("noload") or []):
                continue        # a bus without load profile (junction / storage bus)
            ld = N(fd.get("load", ["1/20"] * len(fb[f]))[i])
            arr = np.array([ld] * nprof, dtype=object) if exact else np.ones(nprof) * ld
            ql = N(fd["qload"][i]) if fd.get("qload") else ld / 2          # reactive demand: given per bus, else half the active one
            b.add_load_data(pload_data=arr, qload_data=(np.ones(nprof) * ql if not exact else np.array([ql] * nprof, dtype=object)),
                            cost_function=CostFunction(A=N(str(fd.get("cost", [1] * len(fb[f]))[i])), B=N(str(fd.get("costB", 1)))))
    for P, pr in prods:
        v = N(pr["p"]); w = N(pr.get("q", "0"))
        P.add_prod_data(pprod_data=(np.array([v] * nprof, dtype=object) if exact else np.ones(nprof) * v),
                        qprod_data=(np.array([w] * nprof, dtype=object) if exact else np.ones(nprof) * w))
    for b in MB:
        if mg.get("storage_only") and b is MB[0] and mg.get("battery"):
            continue            # a pure storage bus: the battery's bus has no load profile of its own
        ld = N("1/50")
        arr = np.array([ld] * nprof, dtype=object) if exact else np.ones(nprof) * ld
        b.add_load_data(pload_data=arr, cost_function=CostFunction(A=2, B=1))
    ps._spec = spec
    return ps


def rand_feeder_spec(rng, max_lines=6, ctrl="manual", allow_tie=True, allow_mg=True, nfeed=None, sw_choices=(0, 0, 1, 2, 3, 3)):
    """Random structured spec (mostly valid, laterals, 0/1/2 disconnectors per line)."""
    nfeed = nfeed or rng.choice([1, 1, 2])
    feeders = []
    for f in range(nfeed):
        n = rng.randint(1, max_lines)
        parent = [-1] + [rng.randint(0, i - 1) for i in range(1, n)]
        feeders.append({"parent": parent, "sw": [rng.choice(sw_choices) for _ in range(n)],
                        "cust": [rng.choice([0, 1, 3, 10]) for _ in range(n)],
                        "load": [str(rng.choice([Fraction(1, 100), Fraction(1, 50), Fraction(1, 20)])) for _ in range(n)],
                        "cost": [rng.choice([1, 2, 3]) for _ in range(n)]})
    tie = None
    if allow_tie and nfeed == 2 and rng.random() < 0.7:
        tie = {"a": [0, rng.randrange(len(feeders[0]["parent"]))], "b": [1, rng.randrange(len(feeders[1]["parent"]))]}
    elif allow_tie and nfeed == 1 and len(feeders[0]["parent"]) >= 3 and rng.random() < 0.25:
        a, b = rng.sample(range(len(feeders[0]["parent"])), 2)
        p = feeders[0]["parent"]
        if p[a] != b and p[b] != a:
            tie = {"a": [0, a], "b": [0, b]}
    if tie is not None and rng.random() < 0.5:
        tie["open_at_build"] = True
    mg = None
    if allow_mg and rng.random() < 0.5:
        mg = {"host": [0, rng.randrange(len(feeders[0]["parent"]))], "mode": rng.choice(["survival", "full", "limited"]),
              "discon": rng.random() < 0.5, "n": 2, "battery": {"p": "1", "q": "1", "e": "2", "smin": "1/10", "smax": "1", "eta": "1"}}
    T = rng.choice([Fraction(0), Fraction(1, 2), Fraction(1), Fraction(3, 2), Fraction(2)])
    return {"ctrl": {"type": ctrl, "T": str(T)}, "feeders": feeders, "tie": tie, "mg": mg, "rep": "2", "exact": True}


def prepare_exact(ps, n_inc):
    """What prepare_system does, for exact-rational runs: sections + profiles of length n_inc.
    (np.interp cannot carry Fractions; profiles are tiled to the number of increments instead.)"""
    ps.create_sections()
    for bus in ps.buses:
        for k in range(len(bus.pload_data)):
            for data in (bus.pload_data, bus.qload_data):
                a = list(data[k])
                data[k] = np.array([a[i % len(a)] for i in range(n_inc)], dtype=object)
    for prod in ps.productions:
        for name in ("pprod_data", "qprod_data"):
            a = list(getattr(prod, name))
            setattr(prod, name, np.array([a[i % len(a)] for i in range(n_inc)], dtype=object))
    ps.initialize_sequence_history()


def run_exact(ps, n_inc, dt, callback=None, save_flag=False, unit=None, rng=None):
    """run_sequence on exact rationals with a stub RNG (no random failures)."""
    from relsad.simulation import Simulation
    from relsad.Time import TimeStamp, TimeUnit
    sim = Simulation(ps, random_seed=0)
    sim.distribute_random_instance(rng or NoFailRng())
    prepare_exact(ps, n_inc)
    times = [Fraction(dt) * k for k in range(1, n_inc + 1)]
    sim.run_sequence(TimeStamp(), times, unit or TimeUnit.HOUR, callback, save_flag)
    return sim
