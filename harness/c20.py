"""C20  Sectioning partitions each network into contiguous switch-bounded sections.

Correspondence: `create_sections` on real built networks (laterals, 0/1/2 disconnectors per line,
nested microgrids, backup ties) against the closed-form specification `Relsad.Model.Sections.secId`.
Oracle: the statements of the property on the implementation's section objects, including
disconnect / reconnect of every section on the intact network.
"""
import itertools
import random
from fractions import Fraction

from .common import run_cases
from . import net

PROP = "C20"
LEVEL = "proof"
ASSUMPTIONS = [
    "Model/Sections.lean describes the partition of lines into sections; the switch lists of the real sections enter the switching model (Model/Control.lean) as part of the extracted configuration, whose Section.disconnect / put-back functions are compared state by state with the real objects and about which the restore theorem is proved (hypotheses wfB, wfB2 evaluated on every extracted configuration)",
]
F = Fraction


def network_lines(n):
    """lines of a network in topological order with parent indices, as the implementation walks them"""
    order, parent = [n.connected_line], {n.connected_line.name: None}
    i = 0
    while i < len(order):
        l = order[i]
        for x in l.tbus.fromline_list:
            if x in n.lines and x.name not in parent:
                parent[x.name] = i
                order.append(x)
        i += 1
    return order, parent


def canon_groups(labels):
    first = {}
    out = []
    for i, lab in enumerate(labels):
        if isinstance(lab, tuple) and len(lab) != 1:
            out.append("x")              # line in no section / in several sections
            continue
        first.setdefault(lab, i)
        out.append(first[lab])
    return ",".join(map(str, out))


def handler(case):
    if case.get("run_between"):
        # the network is prepared by a real run (prepare_system inside run_sequential), the run islands parts of it (load flows from
        # other reference buses), and afterwards - all components repaired, reset - it is prepared again, as a second run would do
        import contextlib, io
        from relsad.simulation import Simulation
        from relsad.simulation.system_config import reset_system
        from relsad.Time import Time, TimeStamp, TimeUnit
        from . import acct
        rb = case["run_between"]
        ps = net.build(dict(case["spec"], exact=False, nprof=rb["n_inc"]))
        sim = Simulation(ps, random_seed=1)
        with contextlib.redirect_stdout(io.StringIO()):
            sim.run_sequential(start_time=TimeStamp(), stop_time=TimeStamp(hour=rb["n_inc"]), time_step=Time(1, TimeUnit.HOUR), time_unit=TimeUnit.HOUR,
                               callback=acct.make_callback(rb["faults"], F(1)), save_dir=acct.tmpdir("c20_run"), save_flag=False)
        reset_system(ps, False)
        ps.create_sections()
    else:
        ps = net.build(case["spec"])
        ps.create_sections()
    if case.get("extend"):
        # the network is extended after it has been prepared once (more laterals, with or without switches) and prepared again:
        # the second preparation has to section the network as it is now
        from relsad.network.components import Bus, Line, Disconnector
        first = ps.get_comp("F0L0")
        dn = first.parent_network
        for k, e in enumerate(case["extend"]):
            at = ps.get_comp(f"F0B{e['at']}") if isinstance(e["at"], int) else ps.get_comp(e["at"])
            nb = Bus(f"F0X{k}", n_customers=1, s_ref=first.s_ref)
            nl = Line(f"F0XL{k}", at, nb, r=first.r, x=first.x, capacity=100, s_ref=first.s_ref)
            nl.repair_time_dist = first.repair_time_dist
            if e["sw"] in (1, 3):
                Disconnector(f"F0XL{k}a", nl, at)
            if e["sw"] in (2, 3):
                Disconnector(f"F0XL{k}b", nl, nb)
            dn.add_buses([nb]); dn.add_lines([nl])
        ps.create_sections()
    ops, impl, viols, sig = [], [], [], set()
    for n in ps.child_network_list:
        if not hasattr(n, "connected_line") or n.connected_line is None:
            continue
        order, parent = network_lines(n)
        ops.append("graph sections " + ",".join(f"{'r' if parent[l.name] is None else parent[l.name]}:{len(l.get_switches())}" for l in order))
        sec_of = {}
        for k, s in enumerate(n.sections):
            for l in s.lines:
                sec_of.setdefault(l.name, []).append(k)
        impl.append(canon_groups([tuple(sec_of.get(l.name, [])) for l in order]))
        tag = f"{n.name} (lines {[l.name for l in order]}, switches {[len(l.get_switches()) for l in order]})"
        # ---- oracle on the implementation's sections
        for l in n.lines:
            k = sec_of.get(l.name, [])
            if l.is_backup:
                if k:
                    viols.append(("sections.backup", f"{tag}: backup line {l.name} belongs to a section"))
            elif len(k) != 1:
                viols.append(("sections.partition", f"{tag}: line {l.name} belongs to {len(k)} sections"))
        for l in order:
            if l.section is None or l not in l.section.lines:
                viols.append(("sections.backpointer", f"{tag}: line {l.name} is not attached to its section"))
        for s in n.sections:
            names = [l.name for l in s.lines]
            if not names:
                viols.append(("sections.empty", f"{tag}: empty section"))
                continue
            # contiguity through shared buses
            comp = {names[0]}
            grow = True
            while grow:
                grow = False
                for l in s.lines:
                    if l.name in comp:
                        continue
                    for m in s.lines:
                        if m.name in comp and ({l.fbus.name, l.tbus.name} & {m.fbus.name, m.tbus.name}):
                            comp.add(l.name); grow = True
                            break
            if len(comp) != len(names):
                viols.append(("sections.contiguous", f"{tag}: section {names} is not a connected part of the feeder"))
        for a, b in itertools.combinations(order, 2):
            if ({a.fbus.name, a.tbus.name} & {b.fbus.name, b.tbus.name}) and sec_of.get(a.name) != sec_of.get(b.name):
                if len(a.get_switches()) == 0 and len(b.get_switches()) == 0:
                    viols.append(("sections.boundary", f"{tag}: sections meet between {a.name} and {b.name} but neither carries a switch"))
        sig.add((len(order), len(n.sections), max(len(l.get_switches()) for l in order)))
    # ---- across networks: a section holds lines of its own network only, and no line is in sections of two networks
    owner = {}
    for n in ps.child_network_list:
        own = {l.name for l in (getattr(n, "lines", None) or [])} | ({n.connected_line.name} if getattr(n, "connected_line", None) is not None else set())
        for sct in getattr(n, "sections", None) or []:
            for l in sct.lines:
                if l.name not in own:
                    viols.append(("sections.foreign-line", f"{n.name}: section {[x.name for x in sct.lines]} holds line {l.name}, which belongs to another network"))
                owner.setdefault(l.name, []).append(n.name)
    for ln, ns in owner.items():
        if len(ns) > 1:
            viols.append(("sections.partition", f"line {ln} belongs to {len(ns)} sections (networks {ns})"))
    # ---- disconnect / reconnect every section on the intact network
    def state():
        return ({l.name: l.connected for l in ps.lines}, {s.name: s.is_open for s in ps.disconnectors + ps.circuitbreakers})
    s0 = state()
    automatic = type(ps.controller).__name__ == "MainController"
    if case.get("run_between"):
        return dict(ops=ops, impl=impl, viols=viols[:3], nontrivial=tuple(sorted(sig)) + ("after-run",), tag="sections-after-run")
    # the same on the switching model (C20.section_out_takes_lines_out / disconnect_reconnect_restores are about these functions):
    # full state after Section.disconnect and after putting the section back, manual control
    v = None
    if not automatic:
        from . import ctl
        v = ctl.View(ps)
        ops.append(v.cfg_op(F(case["spec"]["ctrl"]["T"])))
        impl.append(ctl.show(v.snapshot()))
    for n in ps.child_network_list:
        for s in getattr(n, "sections", None) or []:
            s.disconnect()
            if v is not None and n.name in v.ni:
                ops.append(f"ctl secout {v.sec_index(s)}")
                impl.append(ctl.show(v.snapshot()))
            out = [l.name for l in s.lines if l.connected]
            if out:
                viols.append(("sections.disconnect", f"{n.name}: section {[l.name for l in s.lines]} taken out of service but {out} still in service"))
            # putting it back the way the controllers do: the breaker (if the section's disconnect opened it)
            # is reclosed by the controller, then the section is reconnected
            for sw in s.switches:
                if sw in ps.circuitbreakers and sw.is_open:
                    sw.close()
            ctrl = getattr(n, "controller", None)
            if automatic and ctrl is not None:
                # the way the ICT-based controllers put a section back (intelligent switches with / without ICT node,
                # reachable or not, plain disconnectors)
                from relsad.Time import Time as _T
                s.connect(_T(1), ctrl)
            else:
                s.connect_manually()
            if v is not None and n.name in v.ni:
                ops.append(f"ctl putback {v.ni[n.name]} {v.sec_index(s)}")
                impl.append(ctl.show(v.snapshot()))
            s1 = state()
            if s1 != s0:
                diff = [k for k in s0[0] if s0[0][k] != s1[0][k]] + [k for k in s0[1] if s0[1][k] != s1[1][k]]
                viols.append(("sections.restore", f"{n.name}: disconnect + reconnect of section {[l.name for l in s.lines]} does not restore {diff}"))
                return dict(ops=ops, impl=impl, viols=viols[:3], nontrivial=tuple(sorted(sig)), tag="sections")
    return dict(ops=ops, impl=impl, viols=viols[:3], nontrivial=tuple(sorted(sig)), tag="sections")


def compare(case, m, i):
    def canon_model(s):
        return canon_groups(s.split(",")) if s != "-" else ""
    from . import ctl
    if len(m) != len(i):
        return False
    for x, y in zip(m, i):
        if y.startswith("F="):
            # switching model: full state, and the hypotheses wfB / wfB2 of the theorems hold for the extracted configuration
            if ctl.strip_ok(x) != y or ctl.model_flags(x)[3] != "1" or ctl.model_flags(x)[5] != "1":
                return False
        elif canon_model(x) != y:
            return False
    return True


def all_trees(n):
    """all parent arrays of rooted trees on n lines (line 0 root, parent index < child index)"""
    if n == 1:
        yield [-1]
        return
    for rest in itertools.product(*[range(i) for i in range(1, n)]):
        yield [-1] + list(rest)


def gen(rng, n, exhaustive_upto):
    cases = []
    for nl in range(1, exhaustive_upto + 1):
        for parent in all_trees(nl):
            for sw in itertools.product([0, 1, 2, 3], repeat=nl):
                spec = {"ctrl": {"type": "manual", "T": "1"}, "feeders": [{"parent": parent, "sw": list(sw), "cust": [1] * nl}], "tie": None, "mg": None, "exact": True}
                cases.append({"spec": spec})
    for _ in range(n):
        spec = net.rand_feeder_spec(rng, max_lines=rng.choice([4, 7, 12, 25]), allow_mg=True, allow_tie=True)
        if spec.get("mg"):
            spec["mg"]["n"] = rng.choice([1, 2, 3, 4]); spec["mg"]["discon"] = rng.random() < 0.6
        if rng.random() < 0.35 and sum(len(fd["parent"]) for fd in spec["feeders"]) <= 12:
            # ICT-based control: sections are put back through Section.connect; some devices missing / without ICT node
            from . import c06
            spec["ctrl"] = {"type": "main", "T": spec["ctrl"]["T"]}
            if rng.random() < 0.5:
                spec["ctrl"]["nodev"] = c06.missing_devices(rng, spec)
            if rng.random() < 0.8:
                spec["ctrl"]["ict"] = c06.fallible_ict(rng, spec)
        cases.append({"spec": spec})
        if len(cases) % 4 == 0 and spec["ctrl"]["type"] == "manual":
            # prepared, extended by 1-3 laterals (hung on the old network or on each other), prepared again
            nb0 = len(spec["feeders"][0]["parent"])
            ext = []
            for k in range(rng.choice([1, 2, 3])):
                ext.append({"at": rng.choice(list(range(nb0)) + [f"F0X{q}" for q in range(k)]), "sw": rng.choice([0, 1, 2, 3, 1])})
            cases[-1]["extend"] = ext
        elif len(cases) % 4 == 2 and spec["ctrl"]["type"] == "manual":
            # prepared and used by a real run with faults (parts are islanded; with a microgrid / production, solved from another
            # reference bus), then prepared again
            ps_ = net.build(dict(spec, exact=False))
            names = [l.name for l in ps_.lines if not l.is_backup]
            faults = {}
            for _k in range(rng.randint(1, 3)):
                faults.setdefault(str(rng.randint(1, 6)), []).append(["line", rng.choice(names), str(rng.choice([F(1), F(2), F(3)]))])
            cases[-1]["run_between"] = {"n_inc": 12, "faults": faults}
    for q in range(max(2, n // 40)):
        # targeted: two feeders with a backup line, every line with switches at both ends; the first line of a feeder fails, the rest of
        # the feeder is fed backwards through the backup line (its lines are turned), the line is repaired within the run (they are
        # turned back); then the network is prepared again
        spec = net.rand_feeder_spec(rng, max_lines=4, ctrl="manual", allow_tie=True, allow_mg=False, nfeed=2, sw_choices=(3,))
        while not spec.get("tie"):
            spec = net.rand_feeder_spec(rng, max_lines=4, ctrl="manual", allow_tie=True, allow_mg=False, nfeed=2, sw_choices=(3,))
        for fd in spec["feeders"]:
            while len(fd["parent"]) < 3:
                fd["parent"].append(len(fd["parent"]) - 1)
                for key, v in (("sw", 3), ("cust", 1), ("load", "1/50"), ("cost", 1)):
                    fd[key].append(v)
        spec["tie"] = {"a": [0, len(spec["feeders"][0]["parent"]) - 1], "b": [1, len(spec["feeders"][1]["parent"]) - 1]}
        spec["ctrl"]["T"] = "1"
        f = q % 2
        cases.append({"spec": spec, "run_between": {"n_inc": 12, "faults": {"2": [["line", f"F{f}L0", "3"]]}}})
    return cases


def run(res):
    rng = random.Random(res.seed * 6007 + 47)
    n, ex = (150, 3) if res.tier == "quick" else (3000, 5)
    res.rule = (f"exhaustive: all rooted trees with <= {ex} lines x all placements of 0/1(up)/1(down)/2 disconnectors per line; "
                "random: 1-2 feeders up to 25 lines with laterals, backup ties, microgrids of 1-4 lines nested at a random bus, 35% under ICT-based control (sections put back through Section.connect; missing devices, devices without ICT node); "
                "every fourth manually controlled network is prepared, extended by 1-3 laterals through the public API and prepared again (checked as it is then); "
                "non-trivial = distinct (lines, sections, max switches on a line) per network")
    res.exhaustive = True
    run_cases(res, gen(rng, n, ex), handler, compare)


def search(res):
    rng = random.Random(res.seed * 101 + 8)
    found = []
    for case in gen(rng, 1500, 4):
        h = handler(case)
        for key, what in h["viols"]:
            found.append({"key": key, "what": what, "case": case})
        if len(found) > 10:
            break
    return found


def replay(obj):
    case = obj.get("case")
    if case is None:
        print("no failing input in this replay file:", obj.get("broken_proof_obligations"), obj.get("broken_correspondence", [])[:2])
        return 1
    h = handler(case)
    for o, i in zip(h["ops"], h["impl"]):
        print("  ", o, "=>", i)
    for key, what in h["viols"]:
        print("FAILS:", key, what)
    return 1 if h["viols"] else 0
