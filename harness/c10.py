"""C10  Reliability indices obey their definitions and agree across levels/outputs."""
import os
import random
from fractions import Fraction

from .common import run_cases, fr
from . import acct

PROP = "C10"
LEVEL = "proof"
ASSUMPTIONS = [
    "kernel correspondence on exact rationals (real Bus objects, real SAIFI/SAIDI/CAIDI/ASUI/ASAI/ENS functions)",
    "end-to-end runs use the float code with the LP inside; indices are recomputed from the logged per-bus values and compared at 1e-9 relative; pandas CSV writing is trusted to round-trip floats (values read back are compared with the in-memory numbers at 1e-12 relative)",
]
F = Fraction


def close(a, b, tol=1e-9):
    return abs(a - b) <= tol * max(1.0, abs(a), abs(b))


def handler(case):
    if case["kind"] == "kernel":
        h = acct.kernel_handler(case)
        return dict(ops=h["ops"], impl=h["impl"], viols=h["v10"], nontrivial=h["sig"], tag="kernel")
    if case["kind"] == "mc":
        return mc_case(case)
    return e2e(case)


def mc_case(case):
    """run_monte_carlo: every saved Monte Carlo file (systems, networks, load points, EV parks) holds, for every iteration,
    the number that iteration produced in memory"""
    import contextlib, io
    from relsad.simulation import Simulation
    from relsad.Time import Time, TimeStamp, TimeUnit
    from . import net
    viols = []
    ps = net.build(dict(case["spec"], exact=False, nprof=case["n_inc"]))
    for l in ps.lines:
        l.fail_rate_per_year = case["rate"]
        l.repair_time_dist = net.FixedDist(case["rep"])
    sim = Simulation(ps, random_seed=case["seed"])
    rets = []
    orig = sim.run_iteration
    def wrapped(*a, **k):
        r = orig(*a, **k)
        rets.append(r)
        return r
    sim.run_iteration = wrapped
    d = acct.tmpdir("c10_mc")
    with contextlib.redirect_stdout(io.StringIO()):
        # the step is not always one unit long (2 h, 1/2 h, 30 min / 90 min written in minutes)
        from . import c17
        step_min = case.get("step_min", 60); u = case.get("unit", 3)
        tot = case["n_inc"] * step_min
        sim.run_monte_carlo(iterations=case["iters"], start_time=TimeStamp(), stop_time=TimeStamp(day=tot // 1440, hour=(tot % 1440) // 60, minute=tot % 60),
                            time_step=Time(float(Fraction(step_min * 60) / c17.FACT[u]), c17.U(u)),
                            time_unit=c17.U(u), save_dir=d, save_iterations=[], debug=True)
    files = {}
    for dp, _, fns in os.walk(os.path.join(d, "monte_carlo")):
        for fn in fns:
            files[(os.path.basename(dp), fn[:-4])] = os.path.join(dp, fn)
    ncmp = 0
    for r in rets:
        for name, attrs in r.items():
            for attr, byit in attrs.items():
                p = files.get((name, attr))
                if p is None:
                    viols.append(("mc.file-missing", f"no Monte Carlo file for {name}/{attr}"))
                    continue
                col = acct.read_csv_col(p)
                for it, v in byit.items():
                    ncmp += 1
                    if float(it) not in col:
                        viols.append(("mc.file-row", f"monte_carlo/.../{name}/{attr}.csv has no row for iteration {it} (rows {sorted(col)}), in-memory value {v}"))
                    else:
                        try:
                            fv, mv = float(col[float(it)]), float(v.get_hours() if hasattr(v, "get_hours") else v)
                        except (TypeError, ValueError):
                            continue
                        if not close(fv, mv, 1e-9):
                            viols.append(("mc.file-value", f"monte_carlo/.../{name}/{attr}.csv iteration {it}: file {fv}, memory {mv}"))
        if len(viols) > 8:
            break
    # levels agree in every iteration: network value = ENS = sum over its load points; system value = sum over its networks
    for r in rets:
        def val(name, attr):
            byit = r.get(name, {}).get(attr)
            if not byit:
                return None
            v = list(byit.values())[0]
            return float(v.get_hours() if hasattr(v, "get_hours") else v)
        it = list(r[ps.name]["ENS"].keys())[0]
        tot = {"acc_p_energy_shed": 0.0, "acc_q_energy_shed": 0.0}
        for nw in ps.child_network_list:
            for attr in ("acc_p_energy_shed", "acc_q_energy_shed"):
                nv = val(nw.name, attr)
                if nv is None:
                    continue
                bs = sum(val(b.name, attr) or 0.0 for b in nw.buses)
                tot[attr] += nv
                if not close(nv, bs, 1e-9):
                    viols.append(("mc.levels", f"iteration {it}: {attr} of network {nw.name} is {nv} but its load points sum to {bs}"))
            ens = val(nw.name, "ENS")
            if ens is not None and not close(ens, val(nw.name, "acc_p_energy_shed"), 1e-9):
                viols.append(("mc.levels", f"iteration {it}: ENS of network {nw.name} is {ens} but its acc_p_energy_shed is {val(nw.name, 'acc_p_energy_shed')}"))
        # the availability indices of every level: ASUI = SAIDI / simulated period, ASAI + ASUI = 1, both in [0, 1]
        period = case["n_inc"] * Fraction(case.get("step_min", 60), 60)       # in hours, like SAIDI
        for name in [ps.name] + [nw.name for nw in ps.child_network_list]:
            asui, asai, saidi = val(name, "ASUI"), val(name, "ASAI"), val(name, "SAIDI")
            if asui is None or saidi is None:
                continue
            if not close(asui, saidi / float(period), 1e-9) or not close(asai + asui, 1.0, 1e-9) or not (-1e-12 <= asui <= 1 + 1e-12):
                viols.append(("mc.asui", f"iteration {it}, {name}: ASUI {asui}, ASAI {asai}, SAIDI {saidi} h over a period of {float(period)} h (step {case.get('step_min', 60)} min, unit {c17.U(case.get('unit', 3)).name}): ASUI must be SAIDI / period = {saidi / float(period)}"))
        # SAIFI / SAIDI / CAIDI of every level from what the same iteration reports for the load points
        for nw in [ps] + list(ps.child_network_list):
            bl = list(nw.buses)
            N = sum(b.n_customers for b in bl)
            saifi_r, saidi_r, caidi_r = val(nw.name, "SAIFI"), val(nw.name, "SAIDI"), val(nw.name, "CAIDI")
            if saifi_r is None or not N or any(val(b.name, "acc_interruptions") is None for b in bl):
                continue
            saifi_w = sum(val(b.name, "acc_interruptions") * b.n_customers for b in bl) / N
            saidi_w = sum(val(b.name, "acc_outage_time") * b.n_customers for b in bl) / N
            if not close(saifi_r, saifi_w, 1e-9) or not close(saidi_r, saidi_w, 1e-9):
                viols.append(("mc.saifi", f"iteration {it}, {nw.name}: SAIFI {saifi_r} / SAIDI {saidi_r} h, the load points of the same iteration give {saifi_w} / {saidi_w}"))
            elif abs(saifi_r) >= 1e-6 and caidi_r is not None and not close(caidi_r, saidi_r / saifi_r, 1e-9):
                viols.append(("mc.caidi", f"iteration {it}, {nw.name}: CAIDI {caidi_r} is not SAIDI / SAIFI = {saidi_r / saifi_r}"))
        for attr in tot:
            sv = val(ps.name, attr)
            if sv is not None and not close(sv, tot[attr], 1e-9):
                viols.append(("mc.levels", f"iteration {it}: {attr} of the system is {sv} but its networks sum to {tot[attr]}"))
    nev = len(ps.ev_parks)
    return dict(ops=[], impl=[], viols=viols[:4], nontrivial=("mc", nev, bool(case["spec"].get("mg")), min(ncmp // 100, 20)), tag=f"mc:ev={nev}")


def e2e(case):
    """Logged histories of a real sequential run vs the definitions; files vs memory."""
    viols = []
    d = acct.tmpdir("c10")
    ps, sim = acct.e2e_run(case, save_dir=d)
    nets = list(ps.child_network_list)
    times = sorted(ps.history["SAIDI"].keys())
    buses = ps.buses

    def bus_at(b, attr, t):
        return b.history[attr][t]
    # the load points' outage times and the time axis are logged in the run's unit, the indices (SAIDI, CAIDI) in hours
    from . import c17
    to_h = float(c17.FACT[case.get("unit", 3)]) / 3600.0

    for t in times:
        for obj, bl in [(ps, buses)] + [(n, n.buses) for n in nets]:
            N = sum(b.n_customers for b in bl)
            saifi = sum(bus_at(b, "acc_interruptions", t) * b.n_customers for b in bl) / N if N else 0
            saidi = sum(bus_at(b, "acc_outage_time", t) * to_h * b.n_customers for b in bl) / N if N else 0
            ens = sum(bus_at(b, "acc_p_energy_shed", t) for b in bl)
            accq = sum(bus_at(b, "acc_q_energy_shed", t) for b in bl)
            H = obj.history
            chk = [("SAIFI", saifi), ("SAIDI", saidi), ("ENS", ens), ("acc_p_energy_shed", ens), ("acc_q_energy_shed", accq),
                   ("ASUI", saidi / (t * to_h)), ("ASAI", 1 - saidi / (t * to_h)), ("CAIDI", saidi / saifi if abs(saifi) >= 1e-6 else 0)]
            for name, want in chk:
                got = H[name][t]
                if not close(got, want):
                    viols.append((f"e2e.{name}", f"{obj.name} {name} at t={t}: reported {got}, definition from the per-load-point log gives {want}"))
            if not (-1e-12 <= H["ASUI"][t] <= 1 + 1e-12):
                viols.append(("e2e.asui-range", f"{obj.name} ASUI at t={t} = {H['ASUI'][t]}"))
            for b in bl:
                if bus_at(b, "acc_outage_time", t) > t + 1e-9:
                    viols.append(("e2e.outage-elapsed", f"{b.name} outage time {bus_at(b, 'acc_outage_time', t)} h at t={t}"))
        # system = combination of networks
        Ns = [sum(b.n_customers for b in n.buses) for n in nets]
        if sum(Ns):
            for name in ("SAIDI", "SAIFI"):
                comb = sum(N * n.history[name][t] for N, n in zip(Ns, nets)) / sum(Ns)
                if not close(ps.history[name][t], comb):
                    viols.append((f"e2e.levels-{name}", f"system {name} {ps.history[name][t]} != customer-weighted network values {comb} at t={t}"))
        for name in ("ENS", "acc_p_energy_shed", "acc_q_energy_shed", "p_energy_shed", "q_energy_shed"):
            tot = sum(n.history[name][t] for n in nets)
            if not close(ps.history[name][t], tot):
                viols.append((f"e2e.levels-{name}", f"system {name} {ps.history[name][t]} != sum over networks {tot} at t={t}"))
    # the EV indices at the last logged instant against their definitions, from the parks themselves
    if times:
        tl = times[-1]
        for obj in [ps] + nets:
            parks = [b.ev_park for b in obj.buses if getattr(b, "ev_park", None) is not None]      # the parks on the object's own load points
            if not parks or "EV_Interruption" not in obj.history:
                continue
            # EV_Interruption / EV_Duration as the model defines them (C10.evInterruption_append: every park counts), computed by the
            # model driver from the parks' own accumulators
            from .common import run_driver
            from fractions import Fraction as _F
            op = "ev idx " + ",".join(f"{fr(_F(p_.num_cars))}:{fr(_F(float(p_.acc_exp_interruptions)))}:{fr(_F(p_.acc_num_interruptions))}:{fr(_F(float(p_.acc_interruption_duration.get_hours())))}" for p_ in parks)
            mo = run_driver([op])[0].split(" ")
            want_int, want_dur = float(_F(mo[0])), float(_F(mo[1]))
            want_idx = sum(p_.get_ev_index() for p_ in parks)
            for name, want in (("EV_Interruption", want_int), ("EV_Duration", want_dur), ("EV_Index", want_idx)):
                got = obj.history[name][tl]
                if not close(float(got), float(want)):
                    viols.append((f"e2e.{name}", f"{obj.name} {name} at t={tl}: reported {got}, its definition over the {len(parks)} parks gives {want}"))
    # files vs memory
    nfiles = 0
    for obj in [ps] + nets:
        for attr, data in obj.history.items():
            p = os.path.join(d, obj.name, attr + ".csv")
            if not os.path.exists(p):
                viols.append(("e2e.file-missing", f"{p} not written"))
                continue
            col = acct.read_csv_col(p)
            nfiles += 1
            if len(col) != len(data):
                viols.append(("e2e.file-rows", f"{obj.name}/{attr}.csv has {len(col)} rows, memory has {len(data)}"))
                continue
            for t, v in data.items():
                if not close(float(col[float(t)]), float(v), 1e-12):
                    viols.append(("e2e.file-value", f"{obj.name}/{attr}.csv at t={t}: file {col[float(t)]} memory {v}"))
                    break
    for b in buses:
        for attr in ("acc_p_energy_shed", "acc_outage_time", "acc_interruptions"):
            p = os.path.join(d, "bus", attr + ".csv")
            if not os.path.exists(p):
                viols.append(("e2e.file-missing", f"{p} not written"))
    nt = (len(times), sum(1 for b in buses if b.acc_p_energy_shed > 0), len(nets))
    return dict(ops=[], impl=[], viols=viols[:4], nontrivial=("e2e",) + nt if times else None, tag=f"e2e:logged={len(times)}")


def gen_mc(rng, n):
    from . import net
    cases = []
    for j in range(n):
        spec = net.rand_feeder_spec(rng, max_lines=4, ctrl="manual", allow_tie=False, allow_mg=False)
        while j % 3 != 0 and not spec.get("mg") and (j % 3 == 1 or rng.random() < 0.5):     # every third configuration has a microgrid for sure
            spec = net.rand_feeder_spec(rng, max_lines=4, ctrl="manual", allow_tie=False, allow_mg=True)
        for fd in spec["feeders"]:       # EV parks on buses that are not the last bus of the system, sometimes several
            nb = len(fd["parent"])
            fd["ev"] = {str(k): {"hours": list(range(24)), "table": [str(rng.choice([2, 3, 5])) for _ in range(24)], "v2g": rng.random() < 0.6}
                        for k in rng.sample(range(nb), rng.choice([1, 1, min(2, nb)]))}
        if spec.get("mg") and j % 2 == 1:     # an EV park on a load point inside the microgrid as well
            spec["mg"]["ev"] = {str(rng.randrange(spec["mg"].get("n", 2))): {"hours": list(range(24)), "table": [str(rng.choice([2, 3, 5])) for _ in range(24)], "v2g": True}}
        if j % 3 == 0:                   # targeted: one EV park, on the first load point of a feeder with at least two (never the last bus)
            fd = spec["feeders"][0]
            if len(fd["parent"]) < 2:
                fd["parent"].append(0); fd["sw"].append(1); fd["cust"].append(1); fd["load"].append("1/50"); fd["cost"].append(2)
            fd["ev"] = {"0": {"hours": list(range(24)), "table": [str(rng.choice([2, 3, 5])) for _ in range(24)], "v2g": True}}
        cases.append({"kind": "mc", "spec": spec, "n_inc": 10, "iters": rng.choice([3, 4]), "seed": rng.randint(0, 10 ** 6),
                      "rate": rng.choice([800.0, 2000.0]), "rep": rng.choice([2.0, 4.0])})
        if j % 3 != 2:      # steps that are not one unit long
            cases[-1]["step_min"], cases[-1]["unit"] = [(120, 3), (30, 2), (30, 3), (90, 2), (180, 3)][(j // 3 + j) % 5]
            cases[-1]["rep"] = 4.0
    return cases


def run(res):
    rng = random.Random(res.seed * 3571 + 29)
    nk, ne = (120, 25) if res.tier == "quick" else (2500, 300)
    res.rule = ("kernel: op sequences (set/add/trafo shed/LP shed/log/index) on 1-5 real Bus objects with customer counts 0..500 (incl. all zero), "
                "indices over sub-ranges (network) and the whole list (system), elapsed 0 included; end-to-end: random built feeders (1-2 feeders, ties) "
                "with injected line and transformer faults, logged histories and CSV files vs definitions; Monte Carlo runs (3-4 iterations, EV parks, microgrids): every saved Monte Carlo file vs the numbers each iteration returned in memory. non-trivial = distinct signature of "
                "(stack>0, interruption in progress, zero customers, index kinds)")
    cases = acct.gen_kernel(rng, nk) + acct.gen_e2e(rng, ne) + gen_mc(rng, 3 if res.tier == "quick" else 40)
    q = 0
    for c in cases:
        # every other end-to-end system with a microgrid has an EV park on a load point inside the microgrid as well
        mg = (c.get("spec") or {}).get("mg") if c.get("kind") not in ("mc",) else None
        if mg:
            q += 1
            if q % 2 == 1:
                mg["ev"] = {str(q % mg.get("n", 2)): {"hours": list(range(24)), "table": [str(2 + (q + h_) % 4) for h_ in range(24)], "v2g": True}}
    run_cases(res, cases, handler)


def search(res):
    rng = random.Random(res.seed * 977 + 1)
    found = []
    for case in acct.gen_kernel(rng, 600) + acct.gen_e2e(rng, 60) + gen_mc(rng, 10):
        h = handler(case)
        for key, what in h["viols"]:
            found.append({"key": key, "what": what, "case": case})
        if len(found) > 10:
            break
    return found


def replay(obj):
    case = obj.get("case")
    if case is None:
        print("no failing input in this replay file:", obj.get("broken_proof_obligations"), obj.get("broken_correspondence", [])[:2])
        return 1
    h = handler(case)
    for o, i in list(zip(h["ops"], h["impl"]))[:40]:
        print("  ", o, "=>", i)
    for key, what in h["viols"]:
        print("FAILS:", key, what)
    return 1 if h["viols"] else 0
