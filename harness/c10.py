"""C10  Reliability indices obey their definitions and agree across levels/outputs."""
import os
import random
from fractions import Fraction

from .common import run_cases, fr
from . import acct

PROP = "C10"
LEVEL = "proof"
ASSUMPTIONS = [
    "kernel correspondence on exact rationals (real Bus objects, real SAIFI/SAIDI/CAIDI/ASUI/ASAI/ENS functions)",
    "end-to-end runs use the float code with the LP inside; indices are recomputed from the logged per-bus values and compared at 1e-9 relative; pandas CSV writing is trusted to round-trip floats (values read back are compared with the in-memory numbers at 1e-12 relative)",
]
F = Fraction


def close(a, b, tol=1e-9):
    return abs(a - b) <= tol * max(1.0, abs(a), abs(b))


def handler(case):
    if case["kind"] == "kernel":
        h = acct.kernel_handler(case)
        return dict(ops=h["ops"], impl=h["impl"], viols=h["v10"], nontrivial=h["sig"], tag="kernel")
    return e2e(case)


def e2e(case):
    """Logged histories of a real sequential run vs the definitions; files vs memory."""
    viols = []
    d = acct.tmpdir("c10")
    ps, sim = acct.e2e_run(case, save_dir=d)
    nets = list(ps.child_network_list)
    times = sorted(ps.history["SAIDI"].keys())
    buses = ps.buses

    def bus_at(b, attr, t):
        return b.history[attr][t]

    for t in times:
        for obj, bl in [(ps, buses)] + [(n, n.buses) for n in nets]:
            N = sum(b.n_customers for b in bl)
            saifi = sum(bus_at(b, "acc_interruptions", t) * b.n_customers for b in bl) / N if N else 0
            saidi = sum(bus_at(b, "acc_outage_time", t) * b.n_customers for b in bl) / N if N else 0
            ens = sum(bus_at(b, "acc_p_energy_shed", t) for b in bl)
            accq = sum(bus_at(b, "acc_q_energy_shed", t) for b in bl)
            H = obj.history
            chk = [("SAIFI", saifi), ("SAIDI", saidi), ("ENS", ens), ("acc_p_energy_shed", ens), ("acc_q_energy_shed", accq),
                   ("ASUI", saidi / t), ("ASAI", 1 - saidi / t), ("CAIDI", saidi / saifi if abs(saifi) >= 1e-6 else 0)]
            for name, want in chk:
                got = H[name][t]
                if not close(got, want):
                    viols.append((f"e2e.{name}", f"{obj.name} {name} at t={t}: reported {got}, definition from the per-load-point log gives {want}"))
            if not (-1e-12 <= H["ASUI"][t] <= 1 + 1e-12):
                viols.append(("e2e.asui-range", f"{obj.name} ASUI at t={t} = {H['ASUI'][t]}"))
            for b in bl:
                if bus_at(b, "acc_outage_time", t) > t + 1e-9:
                    viols.append(("e2e.outage-elapsed", f"{b.name} outage time {bus_at(b, 'acc_outage_time', t)} h at t={t}"))
        # system = combination of networks
        Ns = [sum(b.n_customers for b in n.buses) for n in nets]
        if sum(Ns):
            for name in ("SAIDI", "SAIFI"):
                comb = sum(N * n.history[name][t] for N, n in zip(Ns, nets)) / sum(Ns)
                if not close(ps.history[name][t], comb):
                    viols.append((f"e2e.levels-{name}", f"system {name} {ps.history[name][t]} != customer-weighted network values {comb} at t={t}"))
        for name in ("ENS", "acc_p_energy_shed", "acc_q_energy_shed", "p_energy_shed", "q_energy_shed"):
            tot = sum(n.history[name][t] for n in nets)
            if not close(ps.history[name][t], tot):
                viols.append((f"e2e.levels-{name}", f"system {name} {ps.history[name][t]} != sum over networks {tot} at t={t}"))
    # files vs memory
    nfiles = 0
    for obj in [ps] + nets:
        for attr, data in obj.history.items():
            p = os.path.join(d, obj.name, attr + ".csv")
            if not os.path.exists(p):
                viols.append(("e2e.file-missing", f"{p} not written"))
                continue
            col = acct.read_csv_col(p)
            nfiles += 1
            if len(col) != len(data):
                viols.append(("e2e.file-rows", f"{obj.name}/{attr}.csv has {len(col)} rows, memory has {len(data)}"))
                continue
            for t, v in data.items():
                if not close(float(col[float(t)]), float(v), 1e-12):
                    viols.append(("e2e.file-value", f"{obj.name}/{attr}.csv at t={t}: file {col[float(t)]} memory {v}"))
                    break
    for b in buses:
        for attr in ("acc_p_energy_shed", "acc_outage_time", "acc_interruptions"):
            p = os.path.join(d, "bus", attr + ".csv")
            if not os.path.exists(p):
                viols.append(("e2e.file-missing", f"{p} not written"))
    nt = (len(times), sum(1 for b in buses if b.acc_p_energy_shed > 0), len(nets))
    return dict(ops=[], impl=[], viols=viols[:4], nontrivial=("e2e",) + nt if times else None, tag=f"e2e:logged={len(times)}")


def run(res):
    rng = random.Random(res.seed * 3571 + 29)
    nk, ne = (120, 25) if res.tier == "quick" else (2500, 300)
    res.rule = ("kernel: op sequences (set/add/trafo shed/LP shed/log/index) on 1-5 real Bus objects with customer counts 0..500 (incl. all zero), "
                "indices over sub-ranges (network) and the whole list (system), elapsed 0 included; end-to-end: random built feeders (1-2 feeders, ties) "
                "with injected line and transformer faults, logged histories and CSV files vs definitions. non-trivial = distinct signature of "
                "(stack>0, interruption in progress, zero customers, index kinds)")
    cases = acct.gen_kernel(rng, nk) + acct.gen_e2e(rng, ne)
    run_cases(res, cases, handler)


def search(res):
    rng = random.Random(res.seed * 977 + 1)
    found = []
    for case in acct.gen_kernel(rng, 600) + acct.gen_e2e(rng, 60):
        h = handler(case)
        for key, what in h["viols"]:
            found.append({"key": key, "what": what, "case": case})
        if len(found) > 10:
            break
    return found


def replay(obj):
    case = obj.get("case")
    if case is None:
        print("no failing input in this replay file:", obj.get("broken_proof_obligations"), obj.get("broken_correspondence", [])[:2])
        return 1
    h = handler(case)
    for o, i in list(zip(h["ops"], h["impl"]))[:40]:
        print("  ", o, "=>", i)
    for key, what in h["viols"]:
        print("FAILS:", key, what)
    return 1 if h["viols"] else 0
