"""C01  Energy not supplied is bounded by demand and accumulates exactly."""
import random
from fractions import Fraction

from .common import run_cases
from . import acct

PROP = "C01"
LEVEL = "proof"
ASSUMPTIONS = [
    "the bound 0 <= shed <= load for the solver's output is checked on every LP call of the end-to-end runs (C03 proves it of every feasible point of the model LP, not of HiGHS)",
    "end-to-end runs are float; bounds are checked with the documented 1e-4 MW slack per bus and 1e-9 relative tolerance on sums",
]
F = Fraction
ALPHA = 1e-4


def handler(case):
    if case["kind"] == "kernel":
        h = acct.kernel_handler(case)
        return dict(ops=h["ops"], impl=h["impl"], viols=h["v01"], nontrivial=h["sig"], tag="kernel")
    return e2e(case)


def e2e(case):
    viols = []
    st = {"p0": {}, "acc": {}, "sum": {}, "dem": {}, "netacc": {}, "n_logged": 0, "shed_incs": 0}

    dt_h = float(F(case["dt"]))
    injected = {(f[1], float(k) * dt_h) for k, fl in case["faults"].items() for f in fl if f[0] == "trafo"}

    consumed = set()

    def known_suffix(bus, t, consume=False):
        # the recorded finding: a transformer fault injected through the callback at this very bus sheds the stale
        # load of the previous increment at injection time; that entry is logged with the first increment that is
        # logged at or after the injection (the injection increment itself unless the fault is repaired before
        # anything is logged) - and only there (and, for the cumulative bound, at this bus)
        if t is None:
            return ":trafo-callback" if any(b == bus for b, _ in injected) else ""
        hit = [(b, ti) for b, ti in injected if b == bus and ti <= t + 1e-12 and (b, ti) not in consumed]
        if consume:
            consumed.update(hit)
        return ":trafo-callback" if hit else ""

    def observe(ps, phase, info):
        if phase == "iteration_start":
            # a new Monte Carlo iteration on the same object: every cumulative quantity starts from zero
            for k in ("acc", "sum", "dem", "netacc"):
                st[k] = {}
            consumed.clear()
            for obj in list(ps.buses) + list(ps.child_network_list) + [ps]:
                if obj.acc_p_energy_shed != 0 or obj.acc_q_energy_shed != 0:
                    viols.append(("e2e.iteration-start", f"iteration {info['it']} starts with {obj.name} holding cumulative energy not supplied {obj.acc_p_energy_shed} / {obj.acc_q_energy_shed} (nothing demanded yet)"))
        elif phase == "after_set_load":
            # the demand of the increment, from the load profiles themselves (not from the bus's load attribute, which could
            # carry something over from an earlier increment)
            i_ = info["inc"]
            st["p0"] = {b.name: (sum(float(d[i_]) for d in b.pload_data) * b.n_customers, sum(float(d[i_]) for d in b.qload_data) * b.n_customers) for b in ps.buses}
            for b in ps.buses:
                if abs(b.pload - st["p0"][b.name][0]) > 1e-9 * max(1.0, abs(b.pload)):
                    viols.append(("e2e.load-set", f"{b.name}, increment {i_}: load after set_load_and_cost is {b.pload}, the profiles give {st['p0'][b.name][0]}"))
            st["trafo_before"] = {b.name: b.trafo_failed for b in ps.buses}
        elif phase == "before_log":
            # the length of the increment is the step the run was asked for (not what the simulator's own clock says)
            dt = dt_h
            dt_impl = (info["curr"] - info["prev"]).get_hours() if info["prev"] is not None else info["curr"].get_hours()
            if abs(dt_impl - dt_h) > 1e-9 * max(1.0, dt_h):
                viols.append(("e2e.step-length", f"increment ending at t={info['curr'].get_hours()} h: the simulator's clock advanced by {dt_impl} h, the step is {dt_h} h"))
            st["stacks"] = {}
            for b in ps.buses:
                p0, q0 = st["p0"].get(b.name, (0, 0))
                base = 0 if b.trafo_failed else p0     # a failed transformer has shed and zeroed the profile load
                # charging load added by storage on the bus, read from the storage units themselves (not from the bus, whose
                # load could hold a stale amount)
                extra = sum(max(0.0, float(x.p_inj)) for x in ps.batteries if x.bus is b) + \
                        sum(max(0.0, float(x.curr_p_charge)) for x in ps.ev_parks if x.bus is b)
                demand = (p0 + extra + ALPHA) * dt
                s = b.p_energy_shed_stack
                st["stacks"][b.name] = s
                if s < -1e-12 or s > demand + 1e-12:
                    viols.append(("e2e.stack-bound" + known_suffix(b.name, info["curr"].get_hours()), f"{b.name} at t={info['curr'].get_hours()}: energy not supplied {s} MWh in the increment, demand {p0 + extra} MW x {dt} h"))
                st["dem"][b.name] = st["dem"].get(b.name, 0.0) + (p0 + extra + ALPHA) * dt
                qs = b.q_energy_shed_stack
                if qs < -1e-12 or qs > (q0 + max(0.0, b.qload - (0 if b.trafo_failed else q0)) + ALPHA) * dt + 1e-12:
                    viols.append(("e2e.qstack-bound" + known_suffix(b.name, info["curr"].get_hours()), f"{b.name} at t={info['curr'].get_hours()}: reactive energy not supplied {qs} exceeds demand"))
                known_suffix(b.name, info["curr"].get_hours(), consume=True)
            if any(v > 0 for v in st["stacks"].values()):
                st["shed_incs"] += 1
        elif phase == "after_log":
            st["n_logged"] += 1
            for b in ps.buses:
                prev = st["acc"].get(b.name, 0.0)
                if b.acc_p_energy_shed < prev - 1e-15:
                    viols.append(("e2e.acc-decreases", f"{b.name}: cumulative energy not supplied fell from {prev} to {b.acc_p_energy_shed}"))
                st["sum"][b.name] = st["sum"].get(b.name, 0.0) + st["stacks"][b.name]
                if abs(b.acc_p_energy_shed - st["sum"][b.name]) > 1e-9:
                    viols.append(("e2e.acc-sum", f"{b.name}: cumulative {b.acc_p_energy_shed} != sum of per-increment amounts {st['sum'][b.name]}"))
                if b.acc_p_energy_shed > st["dem"].get(b.name, 0.0) + 1e-9:
                    viols.append(("e2e.acc-demand" + known_suffix(b.name, None), f"{b.name}: cumulative {b.acc_p_energy_shed} exceeds energy demanded {st['dem'].get(b.name)}"))
                st["acc"][b.name] = b.acc_p_energy_shed
            for n in ps.child_network_list:
                tot = sum(b.acc_p_energy_shed for b in n.buses)
                if abs(n.acc_p_energy_shed - tot) > 1e-9:
                    viols.append(("e2e.network-sum", f"{n.name}: accumulated {n.acc_p_energy_shed} != sum over its load points {tot}"))
                if n.acc_p_energy_shed < st["netacc"].get(n.name, 0.0) - 1e-15:
                    viols.append(("e2e.network-decreases", f"{n.name}: accumulated energy fell"))
                st["netacc"][n.name] = n.acc_p_energy_shed
            tot = sum(b.acc_p_energy_shed for b in ps.buses)
            if abs(ps.acc_p_energy_shed - tot) > 1e-9:
                viols.append(("e2e.system-sum", f"system accumulated {ps.acc_p_energy_shed} != sum over all load points {tot}"))

    ps, sim = acct.e2e_run(dict(case, save=False), observe=observe)
    trafo_inj = bool(injected)
    keyed = [("trafo.callback-double-shed", w) if k.endswith(":trafo-callback") else (k, w) for k, w in viols]
    nt = ("e2e", st["n_logged"] > 0, st["shed_incs"], trafo_inj)
    return dict(ops=[], impl=[], viols=keyed[:4], nontrivial=nt if st["n_logged"] else None, tag=f"e2e:trafo={trafo_inj}")


def run(res):
    rng = random.Random(res.seed * 8629 + 31)
    nk, ne = (120, 30) if res.tier == "quick" else (2500, 400)
    res.rule = ("kernel: op sequences on real Bus objects (exact); end-to-end: built feeders (ties, microgrids with batteries) with injected line and "
                "transformer faults, stacks/accumulators observed before and after update_sequence_history of every logged increment. "
                "non-trivial = distinct (logged, number of increments with shedding, transformer fault injected) / kernel signatures")
    cases = acct.gen_kernel(rng, nk) + acct.gen_e2e(rng, ne, repeat=True)
    run_cases(res, cases, handler)


def search(res):
    rng = random.Random(res.seed * 4441 + 7)
    found = []
    for case in acct.gen_kernel(rng, 600) + acct.gen_e2e(rng, 80):
        h = handler(case)
        for key, what in h["viols"]:
            found.append({"key": key, "what": what, "case": case})
        if len(found) > 10:
            break
    return found


def replay(obj):
    case = obj.get("case")
    if case is None:
        print("no failing input in this replay file:", obj.get("broken_proof_obligations"), obj.get("broken_correspondence", [])[:2])
        return 1
    h = handler(case)
    for key, what in h["viols"]:
        print("FAILS:", key, what)
    return 1 if h["viols"] else 0
