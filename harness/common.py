"""Shared machinery of the relsad verification checks.

build + audit of the Lean development, the line-protocol driver, the generic
correspondence engine (model vs implementation on the same cases), the decision rule
(violation / known finding / no-failing-input-found) and the evidence writer.
"""
import fcntl
import hashlib
import json
import os
import random
import re
import subprocess
import sys
import time
import traceback
from fractions import Fraction

VERIF = os.path.dirname(os.path.dirname(os.path.abspath(__file__)))
LEAN = os.path.join(VERIF, "lean")
OUT = os.environ.get("VERIF_OUT") or os.path.join(VERIF, "out")            # overridden only by tools/seed_survey.py (parallel runs)
EVID = os.environ.get("VERIF_EVID") or os.path.join(VERIF, "evidence")
REPO = os.environ.get("RELSAD_REPO", "/repo")
GUARD = "STINEFM_RELSAD_VERIF"
DRIVER_EXE = os.path.join(LEAN, ".lake", "build", "bin", "relsad_driver")

ALLOWED_AXIOMS = {"propext", "Classical.choice", "Quot.sound"}
FORBIDDEN = re.compile(
    r"\bsorry\b|\badmit\b|^\s*axiom\s|native_decide|bv_decide|implemented_by|\bunsafe\s|maxHeartbeats\s+0"
)

TRUSTED_BASE = [
    "Lean 4.33.0 kernel; axioms propext, Classical.choice, Quot.sound only (audited with #print axioms on every run)",
    "Mathlib v4.33.0 modules imported by lemma/property files",
    "the hand-written executable model in /verif/lean/Relsad/Model (tied to /repo by the correspondence run of this check)",
    "the correspondence harness in /verif/harness (generators, canonicalisation, exact-rational execution of the real classes)",
    "CPython, fractions.Fraction, numpy/scipy where the implementation calls them",
]


class ImplBroken(Exception):
    """the implementation's objects are in a shape the harness cannot describe to the model (reported as a failing input)"""


class InternalError(Exception):
    pass


def ensure_dirs():
    for d in (OUT, EVID, os.path.join(OUT, "replay"), os.path.join(OUT, "audit")):
        os.makedirs(d, exist_ok=True)


class BuildLock:
    def __enter__(self):
        ensure_dirs()
        self.f = open(os.path.join(OUT, ".build.lock"), "w")
        fcntl.flock(self.f, fcntl.LOCK_EX)
        return self

    def __exit__(self, *a):
        fcntl.flock(self.f, fcntl.LOCK_UN)
        self.f.close()


def _env():
    e = dict(os.environ)
    e.pop("LEAN_PATH", None)
    return e


def lean_build(targets=None, timeout=3000):
    """`lake build` of the library, the driver and the compiled driver executable."""
    with BuildLock():
        cmd = ["lake", "build"] + (targets or [])
        p = subprocess.run(cmd, cwd=LEAN, capture_output=True, text=True, timeout=timeout, env=_env())
        log = p.stdout + p.stderr
        return p.returncode == 0, log


def strip_comments(src):
    src = re.sub(r"/-.*?-/", "", src, flags=re.S)
    src = re.sub(r"--.*", "", src)
    return src


def grep_forbidden():
    hits = []
    for root, _, files in os.walk(LEAN):
        if ".lake" in root:
            continue
        for fn in files:
            if fn.endswith(".lean"):
                p = os.path.join(root, fn)
                for i, line in enumerate(strip_comments(open(p).read()).splitlines(), 1):
                    if FORBIDDEN.search(line):
                        hits.append(f"{os.path.relpath(p, LEAN)}:{i}: {line.strip()}")
    return hits


def theorem_names(prop):
    """All theorems declared in Relsad/Props/<prop>.lean (namespace Relsad.<prop>)."""
    p = os.path.join(LEAN, "Relsad", "Props", f"{prop}.lean")
    src = strip_comments(open(p).read())
    names = re.findall(r"^\s*theorem\s+([A-Za-z_][A-Za-z0-9_'.]*)", src, flags=re.M)
    return [f"Relsad.{prop}.{n}" for n in names]


def audit(prop):
    """#print axioms for every property theorem; returns (obligations, discharged, detail, problems)."""
    names = theorem_names(prop)
    ensure_dirs()
    f = os.path.join(OUT, "audit", f"{prop}.lean")
    with open(f, "w") as fh:
        fh.write(f"import Relsad.Props.{prop}\n")
        for n in names:
            fh.write(f"#print axioms {n}\n")
    p = subprocess.run(["lake", "env", "lean", f], cwd=LEAN, capture_output=True, text=True, timeout=1200, env=_env())
    out = p.stdout + p.stderr
    detail = {}
    problems = []
    for m in re.finditer(r"'([^']+)' depends on axioms: \[([^\]]*)\]", out, flags=re.S):
        axs = [a.strip() for a in m.group(2).replace("\n", " ").split(",") if a.strip()]
        detail[m.group(1)] = axs
    for m in re.finditer(r"'([^']+)' does not depend on any axioms", out):
        detail[m.group(1)] = []
    discharged = 0
    for n in names:
        if n not in detail:
            problems.append(f"theorem {n} not found by the audit")
        elif set(detail[n]) - ALLOWED_AXIOMS:
            problems.append(f"theorem {n} depends on non-standard axioms {sorted(set(detail[n]) - ALLOWED_AXIOMS)}")
        else:
            discharged += 1
    if p.returncode != 0:
        problems.append("audit file did not compile: " + out[-2000:])
    hits = grep_forbidden()
    for h in hits:
        problems.append("forbidden token: " + h)
    return len(names), discharged, detail, problems


def run_driver(lines, timeout=3000):
    """Feed op lines to the compiled Lean driver; returns one output line per op."""
    if not lines:
        return []
    if not os.path.exists(DRIVER_EXE):
        raise InternalError("driver executable missing; run ./setup.sh")
    data = "\n".join(lines) + "\n"
    p = subprocess.run([DRIVER_EXE], input=data, capture_output=True, text=True, timeout=timeout)
    if p.returncode != 0:
        raise InternalError("driver failed: " + p.stderr[-2000:])
    out = p.stdout.split("\n")
    if out and out[-1] == "":
        out.pop()
    if len(out) != len(lines):
        raise InternalError(f"driver returned {len(out)} lines for {len(lines)} ops")
    return out


# ---------------------------------------------------------------- formatting

def fr(x):
    """Canonical text of an exact number."""
    if isinstance(x, bool):
        return "T" if x else "F"
    if isinstance(x, int):
        return str(x)
    if isinstance(x, Fraction):
        return str(x.numerator) if x.denominator == 1 else f"{x.numerator}/{x.denominator}"
    if isinstance(x, float):
        if x != x or x in (float("inf"), float("-inf")):
            return "nan" if x != x else ("inf" if x > 0 else "-inf")
        return fr(Fraction(x))
    try:
        import numpy as np
        if isinstance(x, np.integer):
            return str(int(x))
        if isinstance(x, np.floating):
            return fr(float(x))
        if isinstance(x, np.bool_):
            return "T" if bool(x) else "F"
    except ImportError:
        pass
    raise TypeError(f"cannot canonicalise {type(x)}: {x!r}")


def fb(b):
    return "T" if b else "F"


def flist(xs, f=fr):
    xs = list(xs)
    return ",".join(f(x) for x in xs) if xs else "-"


def rand_frac(rng, lo=0, hi=10, den_choices=(1, 2, 4, 8, 16, 3, 5, 10, 7, 100)):
    d = rng.choice(den_choices)
    n = rng.randint(int(lo * d), int(hi * d))
    return Fraction(n, d)


# ---------------------------------------------------------------- known findings

def load_known(prop):
    p = os.path.join(VERIF, "known_findings.json")
    if not os.path.exists(p):
        return []
    data = json.load(open(p))
    return [e for e in data.get("findings", []) if e.get("property") == prop and e.get("status") == "open"]


# ---------------------------------------------------------------- result object

class Result:
    def __init__(self, prop, tier, seed):
        self.prop, self.tier, self.seed = prop, tier, seed
        self.t0 = time.time()
        self.evaluations = 0
        self.nontrivial = set()
        self.samples = []
        self.disagreements = []   # model vs implementation
        self.violations = []      # property oracle on the implementation: dict(key, what, case)
        self.dist = {}
        self.notes = []
        self.exhaustive = False
        self.rule = ""
        self.extra = {}

    def count(self, key, n=1):
        self.dist[key] = self.dist.get(key, 0) + n

    def sample(self, s, limit=6):
        if len(self.samples) < limit:
            self.samples.append(s)

    def nontriv(self, key):
        self.nontrivial.add(key if isinstance(key, (str, int, tuple)) else json.dumps(key, sort_keys=True, default=str))

    def violation(self, key, what, case):
        self.violations.append({"key": key, "what": what, "case": case})

    def disagree(self, what, case, model, impl):
        self.disagreements.append({"what": what, "case": case, "model": model, "impl": impl})


def write_replay(prop, obj):
    ensure_dirs()
    s = json.dumps(obj, sort_keys=True, default=str, indent=1)
    h = hashlib.sha1(s.encode()).hexdigest()[:12]
    p = os.path.join(OUT, "replay", f"{prop}-{h}.json")
    with open(p, "w") as f:
        f.write(s)
    return p


def write_evidence(res, level, obligations, discharged, audit_detail, violations_n, extra_assumptions=()):
    ensure_dirs()
    cov = {
        "obligations": obligations,
        "discharged": discharged,
        "checker_cmd": f"cd /verif/lean && lake build && lake env lean ../out/audit/{res.prop}.lean   (#print axioms on every theorem of Relsad/Props/{res.prop}.lean)",
        "trusted_base": TRUSTED_BASE,
        "theorems": audit_detail,
        "evaluations": res.evaluations,
        "distinct_nontrivial": len(res.nontrivial),
        "rule": res.rule,
        "samples": res.samples[:8] if res.samples else ["(no correspondence cases generated)"],
        "traces_validated_against_impl": res.evaluations,
        "disagreements_model_vs_impl": len(res.disagreements),
        "input_distribution": res.dist,
        "exhaustive": bool(res.exhaustive),
    }
    cov.update(res.extra)
    ev = {
        "property_id": res.prop,
        "tier": res.tier,
        "seed": int(res.seed),
        "level": level,
        "coverage": cov,
        "assumptions": list(TRUSTED_BASE) + list(extra_assumptions) + res.notes,
        "wall_s": round(time.time() - res.t0, 2),
        "violations": violations_n,
    }
    with open(os.path.join(EVID, f"{res.prop}.json"), "w") as f:
        json.dump(ev, f, indent=1, default=str)


def decide(res, level, obligations, discharged, audit_detail, audit_problems, search=None, assumptions=()):
    """Apply the decision rule of DESIGN.md section 5; prints VIOLATION / KNOWN-FINDING lines; returns exit code."""
    known = load_known(res.prop)
    known_keys = {e["key"]: e for e in known}
    real = []
    seen_known = {}
    for v in res.violations:
        if v["key"] in known_keys:
            seen_known.setdefault(v["key"], v)
        else:
            real.append(v)
    code = 0
    # proof side broken?
    proof_broken = bool(audit_problems) or discharged != obligations
    if (res.disagreements or proof_broken) and not real and search is not None:
        # failing-input search on the real code with the property's oracle
        extra = search()
        for v in extra:
            if v["key"] in known_keys:
                seen_known.setdefault(v["key"], v)
            else:
                real.append(v)
    for k, v in seen_known.items():
        print(f"KNOWN-FINDING: property={res.prop} {known_keys[k].get('what', v['what'])}")
    if real:
        v = real[0]
        path = write_replay(res.prop, {"property": res.prop, "kind": "failing-input", "key": v["key"], "what": v["what"],
                                      "case": v["case"], "seed": res.seed, "tier": res.tier,
                                      "other_violations": [x["what"] for x in real[1:6]]})
        print(f"VIOLATION property={res.prop} replay={path}")
        print(f"  {v['what']}")
        code = 1
    elif res.disagreements or proof_broken:
        obj = {"property": res.prop, "kind": "no-failing-input-found", "seed": res.seed, "tier": res.tier,
               "broken_proof_obligations": audit_problems,
               "broken_correspondence": res.disagreements[:10]}
        path = write_replay(res.prop, obj)
        what = audit_problems[0] if audit_problems else res.disagreements[0]["what"]
        print(f"  model and implementation no longer correspond / proof no longer checks: {what}")
        print(f"VIOLATION property={res.prop} replay={path} no-failing-input-found")
        code = 1
    write_evidence(res, level, obligations, discharged, audit_detail, len(real), assumptions)
    return code


def setup_impl_path():
    if REPO not in sys.path:
        sys.path.insert(0, REPO)
    os.environ[GUARD] = "1"


def leanchecker(prop):
    """Thorough tier: re-check the compiled property module with the independent checker."""
    try:
        p = subprocess.run(["lake", "env", "leanchecker", f"Relsad.Props.{prop}"], cwd=LEAN, capture_output=True,
                           text=True, timeout=3000, env=_env())
    except subprocess.TimeoutExpired:
        return [f"leanchecker timed out on Relsad.Props.{prop}"]
    if p.returncode != 0:
        return [f"leanchecker rejected Relsad.Props.{prop}: " + (p.stdout + p.stderr)[-1500:]]
    return []


def run_cases(res, cases, handler, compare=None):
    """Generic correspondence engine.

    handler(case) -> dict(ops=[...], impl=[...], viols=[(key, what)], nontrivial=key-or-None, tag=str)
    The model is run once over all ops; outputs are compared line by line (exact text).
    """
    all_ops, spans, infos = [], [], []
    for case in cases:
        try:
            h = handler(case)
        except InternalError:
            raise
        except ImplBroken as e:   # the harness could not even read the implementation's state (e.g. a line without section)
            h = dict(ops=[], impl=[], viols=[("impl.malformed", str(e)[:300])], nontrivial=None, tag="malformed")
        except Exception as e:   # the implementation (or the handler) raised: report it as a failing input, not as a crash of the check
            tb = traceback.extract_tb(e.__traceback__)
            where = next((f"{os.path.relpath(f.filename, REPO)}:{f.lineno}" for f in reversed(tb) if f.filename.startswith(REPO)), None)
            if where is None:
                raise
            h = dict(ops=[], impl=[], viols=[(f"raise:{type(e).__name__}", f"{type(e).__name__}: {str(e)[:120]} at {where}")], nontrivial=None, tag="raised")
        res.evaluations += 1
        ops = h["ops"]
        spans.append((len(all_ops), len(all_ops) + len(ops)))
        all_ops.extend(ops)
        infos.append((case, h))
        if h.get("nontrivial") is not None:
            res.nontriv(h["nontrivial"])
        if h.get("tag"):
            res.count(h["tag"])
        for key, what in h.get("viols", []):
            res.violation(key, what, case)
    out = run_driver(all_ops)
    for (a, b), (case, h) in zip(spans, infos):
        m = out[a:b]
        i = h["impl"]
        same = (m == i) if compare is None else compare(case, m, i)
        if not same:
            strip = (lambda x: x.rsplit(" ok=", 1)[0]) if compare is not None else (lambda x: x)
            k = next((j for j in range(min(len(m), len(i))) if strip(m[j]) != i[j]), min(len(m), len(i)))
            if k >= min(len(m), len(i)) and m:
                k = next((j for j in range(len(m)) if " ok=" in m[j] and not m[j].rsplit(" ok=", 1)[1].startswith("11")), 0)
            res.disagree(f"op `{h['ops'][k] if k < len(h['ops']) else '?'}`: model `{m[k] if k < len(m) else None}` "
                         f"vs implementation `{i[k] if k < len(i) else None}`", case, m[:50], i[:50])
        res.sample({"case": case, "ops": h["ops"][:6], "model": m[:6], "impl": i[:6]})
    return out
