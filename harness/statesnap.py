"""Generic snapshot of the dynamic public state of a built power system (every attribute of every
component / network / controller / section that is a number, bool, Time, enum, string or a list /
dict of such or of named objects), used to compare a system after `reset_system` with a freshly
built one (C08) and to compare runs in different time units (C18)."""
import enum
from fractions import Fraction

SKIP = {"history", "monte_carlo_history", "handle", "color", "marker", "size", "coordinate", "linestyle", "edgecolor",
        "ps_random", "random_instance", "pload_data", "qload_data", "pprod_data", "qprod_data", "cost_functions",
        "sub_systems", "comp_dict", "comp_list", "shed_configs"}


def norm(v, depth=0):
    from relsad.Time import Time
    import numpy as np
    if isinstance(v, (bool, np.bool_)):
        return bool(v)
    if isinstance(v, (int, np.integer)):
        return ("n", float(v))
    if isinstance(v, Fraction):
        return ("n", float(v))
    if isinstance(v, (float, np.floating)):
        return ("n", round(float(v), 12))
    if isinstance(v, str) or v is None:
        return v
    if isinstance(v, Time):
        return ("t", round(float(v.get_hours()), 12))
    if isinstance(v, enum.Enum):
        return ("e", v.name)
    if hasattr(v, "name") and isinstance(getattr(v, "name"), str):
        return ("o", v.name)
    if isinstance(v, (list, tuple)) and depth < 2:
        return [norm(x, depth + 1) for x in v]
    if isinstance(v, dict) and depth < 2:
        return {str(k): norm(x, depth + 1) for k, x in v.items()}
    if type(v).__name__ == "Section":
        return ("sec", tuple(l.name for l in v.lines))
    return ("?", type(v).__name__)


def obj_state(o):
    d = {}
    names = list(getattr(o, "__dict__", {}).keys())
    if hasattr(type(o), "__slots__"):
        names += [s for s in type(o).__slots__ if hasattr(o, s)]
    for k in names:
        if k in SKIP or k.startswith("_"):
            continue
        d[k] = norm(getattr(o, k))
    return d


def snapshot(ps, sim=None):
    out = {}
    for c in ps.comp_list:
        out[f"comp:{type(c).__name__}:{c.name}"] = obj_state(c)
    out["controller"] = obj_state(ps.controller)
    for n in ps.child_network_list:
        out[f"net:{n.name}"] = obj_state(n)
        if hasattr(n, "controller"):
            out[f"ctrl:{n.name}"] = obj_state(n.controller)
        for k, s in enumerate(getattr(n, "sections", None) or []):
            out[f"sec:{n.name}:{k}"] = {"state": s.state.name, "lines": [l.name for l in s.lines], "switches": [x.name for x in s.switches]}
        for ev in getattr(n, "ev_parks", []):
            out[f"ev:{ev.name}"] = obj_state(ev)
    out["ps"] = obj_state(ps)
    if sim is not None:
        out["sim"] = {"fail_duration": norm(sim.fail_duration)}
    return out


def diff(a, b):
    out = []
    for k in sorted(set(a) | set(b)):
        da, db = a.get(k, {}), b.get(k, {})
        for f in sorted(set(da) | set(db)):
            if da.get(f) != db.get(f):
                out.append((k, f, da.get(f), db.get(f)))
    return out
