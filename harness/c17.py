"""C17  Time arithmetic is unit-consistent; simulated horizon matches the request.

Correspondence: the real relsad.Time classes executed on exact rationals (WEEK_per_MONTH
replaced by Fraction(43452, 10000)) against the Lean model `Relsad.Model.TimeM`; the horizon
computation of `prepare_system` is run as it is (floats) against the exact model.
Oracle: the statements of the property evaluated on the implementation.
"""
import math
import random
from fractions import Fraction

from .common import fr, fb, flist, rand_frac, run_cases

PROP = "C17"
LEVEL = "proof"
ASSUMPTIONS = [
    "exact-rational execution: Time.WEEK_per_MONTH is set to Fraction(43452,10000) by the harness (float value 4.3452 in the source)",
    "the horizon computation (prepare_system) is executed in floating point as written and compared with the exact model only where the exact quotient is whole or >= 1e-4 away from a whole number",
]


def _imp():
    from relsad.Time import Time, TimeStamp, TimeUnit
    return Time, TimeStamp, TimeUnit


class _Exact:
    """Context: run relsad.Time on exact rationals."""

    NAMES = ("SEC_per_MIN", "MIN_per_HOUR", "HOUR_per_DAY", "DAY_per_WEEK", "WEEK_per_MONTH", "MONTH_per_YEAR")

    def __enter__(self):
        Time, _, _ = _imp()
        self.old = {n: getattr(Time, n) for n in self.NAMES}
        for n, v in self.old.items():
            # same values as exact rationals (int / int would otherwise give a float)
            setattr(Time, n, Fraction(43452, 10000) if n == "WEEK_per_MONTH" else Fraction(v))
            assert float(getattr(Time, n)) == float(v)

    def __exit__(self, *a):
        Time, _, _ = _imp()
        for n, v in self.old.items():
            setattr(Time, n, v)


def U(code):
    _, _, TimeUnit = _imp()
    return TimeUnit(code)


FACT = {1: Fraction(1), 2: Fraction(60), 3: Fraction(3600), 4: Fraction(86400), 5: Fraction(604800),
        6: Fraction(604800) * Fraction(43452, 10000), 7: Fraction(604800) * Fraction(43452, 10000) * 12}


def secs(q, u):
    return Fraction(q) * FACT[u]


def tstr(t):
    return f"{fr(t.quantity)} {t.unit.value}"


def handler(case):
    Time, TimeStamp, TimeUnit = _imp()
    k = case["kind"]
    viols = []
    if k == "get":
        q, u, v = Fraction(case["q"]), case["u"], case["v"]
        with _Exact():
            t = Time(q, U(u))
            r = t.get_unit_quantity(U(v))
            back = Time(r, U(v)).get_unit_quantity(U(u))
            t2 = Time(q, U(u)); t2.convert_unit(U(v))
            conv_ok = (t2.quantity == r and t2.unit == U(v))
        if back != q:
            viols.append((f"time.roundtrip:{u}->{v}", f"round trip {q} unit {u} -> {v} -> {u} gives {back}"))
        if r * FACT[v] != q * FACT[u]:
            viols.append((f"time.convert:{u}->{v}", f"Time({q},{u}) in unit {v} = {r}: duration changed"))
        if not conv_ok:
            viols.append((f"time.convert_unit:{u}->{v}", "convert_unit disagrees with get_unit_quantity"))
        return dict(ops=[f"time get {fr(q)} {u} {v}"], impl=[fr(r)], viols=viols, nontrivial=("get", u, v, q != 0), tag="get")
    if k == "cmp":
        op = case["op"]; a = (Fraction(case["a"][0]), case["a"][1]); b = (Fraction(case["b"][0]), case["b"][1])
        import operator
        f = {"lt": operator.lt, "le": operator.le, "gt": operator.gt, "ge": operator.ge, "eq": operator.eq, "ne": operator.ne}[op]
        with _Exact():
            r = f(Time(a[0], U(a[1])), Time(b[0], U(b[1])))
            # unit invariance: re-express both operands in other units
            inv = []
            for (ua, ub) in case["alt"]:
                a2 = Time(Time(a[0], U(a[1])).get_unit_quantity(U(ua)), U(ua))
                b2 = Time(Time(b[0], U(b[1])).get_unit_quantity(U(ub)), U(ub))
                inv.append(f(a2, b2))
        truth = f(secs(*a), secs(*b))
        if bool(r) != truth:
            viols.append((f"time.cmp:{op}", f"{op}(Time{a}, Time{b}) = {r}, durations say {truth}"))
        if any(bool(x) != bool(r) for x in inv):
            viols.append((f"time.cmp-unit:{op}", f"{op}(Time{a}, Time{b}) changes when the operands are re-expressed in other units"))
        return dict(ops=[f"time cmp {op} {fr(a[0])} {a[1]} {fr(b[0])} {b[1]}"], impl=[fb(r)], viols=viols,
                    nontrivial=("cmp", op, a[1], b[1], truth), tag="cmp")
    if k in ("add", "sub"):
        a = (Fraction(case["a"][0]), case["a"][1]); b = (Fraction(case["b"][0]), case["b"][1]); w = case["w"]
        with _Exact():
            ta, tb = Time(a[0], U(a[1])), Time(b[0], U(b[1]))
            r = ta + tb if k == "add" else ta - tb
            lhs = r.get_unit_quantity(U(w))
            rhs = ta.get_unit_quantity(U(w)) + tb.get_unit_quantity(U(w)) if k == "add" else ta.get_unit_quantity(U(w)) - tb.get_unit_quantity(U(w))
        if lhs != rhs:
            viols.append((f"time.{k}", f"({k}) measured in unit {w}: {lhs} != {rhs}"))
        return dict(ops=[f"time {k} {fr(a[0])} {a[1]} {fr(b[0])} {b[1]}"], impl=[tstr(r)], viols=viols,
                    nontrivial=(k, a[1], b[1]), tag=k)
    if k == "div":
        a = (Fraction(case["a"][0]), case["a"][1]); b = (Fraction(case["b"][0]), case["b"][1])
        with _Exact():
            try:
                r = Time(a[0], U(a[1])) / Time(b[0], U(b[1]))
                out = fr(r)
                if r != secs(*a) / secs(*b):
                    viols.append(("time.div", f"Time{a}/Time{b} = {r}, durations give {secs(*a) / secs(*b)}"))
            except Exception as e:
                out = "err zero" if "zero" in str(e) else f"err {type(e).__name__}"
                if b[0] != 0:
                    viols.append(("time.div-raise", f"Time{a}/Time{b} raised {e!r}"))
        return dict(ops=[f"time div {fr(a[0])} {a[1]} {fr(b[0])} {b[1]}"], impl=[out], viols=viols,
                    nontrivial=("div", a[1], b[1], b[0] == 0), tag="div")
    if k == "simhod":
        return simhod_case(case)
    if k == "hod":
        h, m, s = case["h"], case["m"], case["s"]; q, u = Fraction(case["q"]), case["u"]
        with _Exact():
            st = TimeStamp(hour=h, minute=m, second=s)
            try:
                r = st.get_hour_of_day(Time(q, U(u)))
                out = str(int(r))
            except Exception as e:
                r = None
                out = f"err {type(e).__name__}"
        el_h = secs(q, u) / 3600
        if r is None or int(r) != r or not (0 <= r <= 23):
            viols.append(("hod.range", f"TimeStamp(hour={h},minute={m},second={s}).get_hour_of_day(Time({q},{u})) = {r}: not an integer in 0..23"))
        elif secs(q, u) <= FACT[6]:
            want = math.floor(Fraction(h) + Fraction(m, 60) + Fraction(s, 3600) + el_h) % 24
            if r != want:
                viols.append(("hod.spec", f"TimeStamp(hour={h},minute={m},second={s}).get_hour_of_day(Time({q},{u})) = {r}, start+elapsed gives {want}"))
        return dict(ops=[f"time hod {h} {m} {s} {fr(q)} {u}"], impl=[out], viols=viols,
                    nontrivial=("hod", h > 0, m > 0, el_h >= 24, el_h == int(el_h), u), tag="hod")
    if k == "hodf":
        # floating point, the way the simulator calls it: curr_time = Time(step * (i+1), unit)
        h, m = case["h"], case["m"]; sq, su, ru, i = Fraction(case["step"][0]), case["step"][1], case["unit"], case["i"]
        import numpy as np
        stepq = Time(float(sq), U(su)).get_unit_quantity(U(ru))
        q = float((stepq * np.arange(1, i + 2))[-1])
        st = TimeStamp(hour=h, minute=m)
        r = st.get_hour_of_day(Time(q, U(ru)))
        el_h = secs(sq, su) * (i + 1) / 3600
        want = math.floor(Fraction(h) + Fraction(m, 60) + el_h) % 24
        if int(r) != r or not (0 <= r <= 23):
            viols.append(("hod.range-float", f"float run: start {h}:{m}, increment {i} of step ({sq},{su}) reported in unit {ru}: hour of day {r}"))
        elif secs(sq, su) * (i + 1) <= FACT[6] and r != want:
            viols.append(("hod.spec-float", f"float run: start {h}:{m:02d}, increment {i} of step ({sq}, unit {su}) reported in unit {ru}: hour of day {r}, expected {want}"))
        exact_q = secs(sq, su) * (i + 1) / FACT[ru]
        return dict(ops=[f"time hod {h} {m} 0 {fr(exact_q)} {ru}"], impl=[str(int(r))], viols=viols,
                    nontrivial=("hodf", su, ru, h > 0, el_h >= 24), tag="hod-float")
    if k == "stampsub":
        a, b = case["a"], case["b"]
        with _Exact():
            r = TimeStamp(*a) - TimeStamp(*b)
        want = sum(Fraction(x - y) * FACT[c] for x, y, c in zip(a, b, (7, 6, 4, 3, 2, 1)))
        if secs(r.quantity, r.unit.value) != want:
            viols.append(("stamp.sub", f"TimeStamp{tuple(a)}-TimeStamp{tuple(b)} = {r}, expected {want} s"))
        # the stamp's fields are public and read live (hour of day, printing): a stamp whose fields are assigned after construction
        # (a stop time moved for a second run) is the stamp with those fields
        with _Exact():
            s2 = TimeStamp(*b)
            for fld, val in zip(("year", "month", "day", "hour", "minute", "second"), a):
                setattr(s2, fld, val)
            r2 = s2 - TimeStamp(*b)
        if secs(r2.quantity, r2.unit.value) != want:
            viols.append(("stamp.sub-assigned", f"TimeStamp{tuple(b)} with its fields set to {tuple(a)} afterwards, minus TimeStamp{tuple(b)} = {r2}, expected {want} s"))
        return dict(ops=["time stampsub " + " ".join(str(x) for x in a + b)], impl=[tstr(r)], viols=viols,
                    nontrivial=("stampsub", tuple(i for i in range(6) if a[i] != b[i])), tag="stampsub")
    if k == "horizon":
        return horizon(case)
    raise ValueError(k)


class _StubPS:
    def __init__(self):
        self.idx = None

    def create_sections(self):
        pass

    def prepare_load_data(self, idx):
        self.idx = idx

    def prepare_prod_data(self, idx):
        pass


def horizon(case):
    """prepare_system in floating point, exactly as the simulation entry points call it."""
    Time, TimeStamp, TimeUnit = _imp()
    from relsad.simulation.system_config import prepare_system
    a, b = case["start"], case["stop"]
    sq, su, ru = Fraction(case["step"][0]), case["step"][1], case["unit"]
    ps = _StubPS()
    viols = []
    period = sum(Fraction(y - x) * FACT[c] for x, y, c in zip(a, b, (7, 6, 4, 3, 2, 1)))
    step_s = secs(sq, su)
    quo = period / step_s
    n_exact = math.floor(quo)
    try:
        ta = prepare_system(ps, TimeStamp(*a), TimeStamp(*b), Time(float(sq), U(su)), U(ru))
        n_idx = len(ps.idx)
        n_axis = len(ta)
        axis = [float(x) for x in ta]
    except Exception as e:
        n_idx = n_axis = None
        axis = []
        viols.append(("horizon.raise", f"prepare_system raised {e!r} for start={a} stop={b} step=({sq},{su})"))
    step_r = step_s / FACT[ru]
    if n_idx is not None:
        if n_idx != n_exact:
            viols.append(("horizon.increments", f"start={a} stop={b} step=({sq},unit {su}): period/step = {quo} but {n_idx} increments are prepared"))
        if n_axis != n_exact:
            viols.append(("horizon.axis-length", f"start={a} stop={b} step=({sq},unit {su}) reporting unit {ru}: period/step = {quo} but the time axis has {n_axis} instants"))
        else:
            for kk, x in enumerate(axis):
                w = float((kk + 1) * step_r)
                if abs(x - w) > 1e-9 * max(1.0, abs(w)):
                    viols.append(("horizon.axis-value", f"time axis instant {kk} is {x}, expected {w}"))
                    break
    ops = [f"time stampsub " + " ".join(str(x) for x in b + a),
           f"time incr {fr(period)} 1 {fr(sq)} {su}",
           f"time axis {n_exact} {fr(sq)} {su} {ru}"]
    with _Exact():
        r = TimeStamp(*b) - TimeStamp(*a)
    impl = [tstr(r), str(n_idx), "len=" + str(n_axis)]
    return dict(ops=ops, impl=impl, viols=viols, nontrivial=("horizon", su, ru, n_exact, quo == n_exact), tag="horizon")


def compare(case, m, i):
    if case["kind"] != "horizon":
        return m == i
    # third line: model prints the axis; implementation side carries the length only (values checked by the oracle)
    n = 0 if m[2] == "-" else len(m[2].split(","))
    return m[0] == i[0] and m[1] == i[1] and i[2] == f"len={n}"


UNITS = [1, 2, 3, 4, 5, 6, 7]


def simhod_case(case):
    """The hour of day the *simulator* derives: a real sequential run from a start stamp (any year / month / day / hour / minute),
    a line fault injected at some increment; every call in which an EV park is handed an hour of day is observed and the hour
    compared with (start hour + elapsed whole hours) mod 24 of that increment."""
    import contextlib, io
    from . import net
    from relsad.simulation import Simulation
    from relsad.Time import Time, TimeStamp, TimeUnit
    from relsad.network.components import EVPark
    Y, Mo, D, h, m = case["start"]
    step_min, n_inc, k0 = case["step_min"], case["n_inc"], case["fault_k"]
    spec = {"ctrl": {"type": "manual", "T": "1"}, "feeders": [{"parent": [-1, 0, 1], "sw": [3, 3, 3], "cust": [1, 1, 1], "load": ["1/50"] * 3, "cost": [1, 1, 1],
                                                                "ev": {"2": {"hours": list(range(24)), "table": [str(x + 1) for x in range(24)], "v2g": True}}}],
            "tie": None, "mg": None, "rep": "2", "exact": False, "nprof": n_inc}
    ps = net.build(spec)
    sim = Simulation(ps, random_seed=case.get("seed", 1))
    unit = TimeUnit.HOUR if case["unit"] == 3 else TimeUnit.MINUTE
    step = Time(step_min / 60, TimeUnit.HOUR) if case["step_in_hours"] else Time(step_min, TimeUnit.MINUTE)
    tot = h * 60 + m + n_inc * step_min
    stop = TimeStamp(year=Y, month=Mo, day=D + tot // 1440, hour=(tot % 1440) // 60, minute=tot % 60)
    seen, state = [], {"k": 0}

    def cb(ps, prev_time, curr_time):
        state["k"] += 1
        if state["k"] == k0:
            ps.get_comp("F0L1").fail(curr_time - prev_time if prev_time is not None else curr_time)
    orig = EVPark.update

    def upd(self, p, q, fail_duration, dt, hour_of_day):
        seen.append((state["k"], hour_of_day))
        return orig(self, p=p, q=q, fail_duration=fail_duration, dt=dt, hour_of_day=hour_of_day)
    EVPark.update = upd
    viols = []
    try:
        with contextlib.redirect_stdout(io.StringIO()):
            sim.run_sequential(start_time=TimeStamp(year=Y, month=Mo, day=D, hour=h, minute=m), stop_time=stop, time_step=step, time_unit=unit,
                               callback=cb, save_flag=False)
    except Exception as e:
        viols.append(("simhod.raise", f"run from {case['start']} raised {type(e).__name__}: {str(e)[:80]}"))
    finally:
        EVPark.update = orig
    for kk, hod in seen:
        want = ((h * 60 + m + kk * step_min) // 60) % 24
        if hod != want:
            viols.append(("simhod.spec", f"run started at {Y}-{Mo}-{D} {h:02d}:{m:02d}, step {step_min} min: in increment {kk} the EV parks were handed hour of day {hod}, start + elapsed gives {want}"))
            break
    # ... and against the model's hour of day (C17.hourOfDay_spec), for the first few observed calls
    few = seen[:8]
    ops = [f"time hod {h} {m} 0 {fr(Fraction(kk * step_min, 60))} 3" for kk, _ in few]
    impl = [str(int(hod)) if hod == int(hod) else str(hod) for _, hod in few]
    return dict(ops=ops, impl=impl, viols=viols, nontrivial=("simhod", Y > 0, Mo > 0, D > 0, m > 0, step_min, case["unit"], len(seen) > 0, k0 > 1), tag="simhod")


def gen(rng, n_each):
    cases = []
    # the hour of day inside real runs (start stamps with and without year / month / day; faults at the first and at later increments)
    for j in range(max(6, n_each // 20)):
        start = [rng.choice([0, 2019]) if j % 2 else 0, rng.choice([0, 1, 7]) if j % 3 == 1 else 0, rng.choice([0, 1, 15]) if j % 3 != 0 else 0, rng.randrange(24), rng.choice([0, 0, 30, 45])]
        step_min = rng.choice([60, 60, 30, 15])
        n_inc = rng.choice([30, 40]) * (60 // step_min) // 2
        cases.append({"kind": "simhod", "start": start, "step_min": step_min, "n_inc": n_inc,
                      "fault_k": 1 if j % 4 == 0 else rng.randint(2, n_inc - 4), "unit": rng.choice([3, 3, 2]), "step_in_hours": rng.random() < 0.5, "seed": rng.randint(1, 999)})
    # conversions: all 49 unit pairs x several quantities
    for u in UNITS:
        for v in UNITS:
            for q in [Fraction(0), Fraction(1), Fraction(7), Fraction(-3, 2)] + [rand_frac(rng, 0, 500) for _ in range(max(1, n_each // 25))]:
                cases.append({"kind": "get", "q": str(q), "u": u, "v": v})
    ops = ["lt", "le", "gt", "ge", "eq", "ne"]
    for _ in range(n_each):
        ua, ub = rng.choice(UNITS), rng.choice(UNITS)
        qa = rand_frac(rng, 0, 200)
        mode = rng.random()
        if mode < 0.4:   # same duration in another unit
            qb = qa * FACT[ua] / FACT[ub]
        elif mode < 0.6:  # just above / below
            qb = qa * FACT[ua] / FACT[ub] + rng.choice([-1, 1]) * Fraction(1, rng.choice([1, 10, 1000, 10**6]))
        else:
            qb = rand_frac(rng, 0, 200)
        cases.append({"kind": "cmp", "op": rng.choice(ops), "a": [str(qa), ua], "b": [str(qb), ub],
                      "alt": [[rng.choice(UNITS), rng.choice(UNITS)] for _ in range(2)]})
    for k in range(max(12, n_each // 8)):
        # targeted: a duration written in weeks / months / years against one a few seconds (or a fraction of a second) off, in seconds,
        # minutes or hours - in both operand orders, every comparison operator in turn
        ua = [5, 6, 7][k % 3]; ub = [1, 2, 3][(k // 3) % 3]
        qa = Fraction(rng.choice([0, 1, 1, 2, 5]))
        off = rng.choice([-1, 1]) * Fraction(rng.choice([1, 3, 10]), rng.choice([1, 1, 2, 10]))          # seconds
        qb = (qa * FACT[ua] + off) / FACT[ub]
        a, b = [str(qa), ua], [str(qb), ub]
        if k % 2:
            a, b = b, a
        cases.append({"kind": "cmp", "op": ops[k % 6], "a": a, "b": b, "alt": [[rng.choice(UNITS), rng.choice(UNITS)] for _ in range(2)]})
    for _ in range(n_each):
        cases.append({"kind": rng.choice(["add", "sub"]), "a": [str(rand_frac(rng, -50, 200)), rng.choice(UNITS)],
                      "b": [str(rand_frac(rng, -50, 200)), rng.choice(UNITS)], "w": rng.choice(UNITS)})
    for _ in range(n_each // 2):
        cases.append({"kind": "div", "a": [str(rand_frac(rng, -50, 200)), rng.choice(UNITS)],
                      "b": [str(rng.choice([Fraction(0), rand_frac(rng, 0, 100), rand_frac(rng, 1, 100)])), rng.choice(UNITS)]})
    # hour of day: every start hour x whole-hour elapsed 0..72, then random
    for h in range(24):
        for e in (0, 1, 23, 24, 25, 47, 48, 49, 24 * 7, 24 * 30):
            cases.append({"kind": "hod", "h": h, "m": 0, "s": 0, "q": str(e), "u": 3})
    for _ in range(n_each):
        u = rng.choice([1, 2, 3, 3, 3, 4, 5])
        hi = {1: 3600 * 800, 2: 60 * 800, 3: 800, 4: 34, 5: 5}[u]
        q = rng.choice([Fraction(rng.randint(0, hi)), rand_frac(rng, 0, hi)])
        cases.append({"kind": "hod", "h": rng.randint(0, 23), "m": rng.choice([0, 0, 30, rng.randint(0, 59)]),
                      "s": rng.choice([0, 0, rng.randint(0, 59)]), "q": str(q), "u": u})
    for _ in range(max(4, n_each // 10)):   # beyond the first month/year: only the range is specified
        u = rng.choice([3, 4, 5, 6, 7])
        hi = {3: 30000, 4: 1200, 5: 170, 6: 40, 7: 4}[u]
        cases.append({"kind": "hod", "h": rng.randint(0, 23), "m": rng.randint(0, 59), "s": 0,
                      "q": str(rng.choice([Fraction(rng.randint(0, hi)), rand_frac(rng, 0, hi)])), "u": u})
    for _ in range(n_each):
        su = rng.choice([1, 2, 3])
        step = {1: rng.choice([1, 30, 900, 1800, 3600]), 2: rng.choice([1, 5, 10, 15, 20, 30, 60, 120]), 3: rng.choice([1, 1, 2, 3, Fraction(1, 2), Fraction(1, 4)])}[su]
        per_month = FACT[6] / (Fraction(step) * FACT[su])
        i = rng.randint(0, min(int(per_month) - 1, 2000))
        cases.append({"kind": "hodf", "h": rng.randint(0, 23), "m": rng.choice([0, 0, 0, 30]), "step": [str(step), su],
                      "unit": rng.choice([1, 2, 3, 4, 5]), "i": i})
    for _ in range(n_each):
        # float runs that land exactly on a whole hour / on midnight although start minute and step are not binary fractions
        # of an hour (00:40 + k x 20 min ...): the rounding guard has to act before the wrap at 24
        smin = rng.choice([5, 10, 15, 20, 30, 60])
        h = rng.randint(0, 23); m = rng.choice([x for x in range(0, 60, smin)])
        D = rng.randint(1, 25)
        target_min = (24 * D if rng.random() < 0.6 else 24 * (D - 1) + rng.randint(h + 1, 47)) * 60
        steps = (target_min - (h * 60 + m)) // smin
        if steps < 1:
            continue
        su, step = rng.choice([(2, smin), (3, Fraction(smin, 60)), (1, smin * 60)])
        cases.append({"kind": "hodf", "h": h, "m": m, "step": [str(step), su], "unit": rng.choice([2, 3, 3, 3, 4, 4, 5]), "i": steps - 1})
    for _ in range(n_each // 2):
        a = [rng.randint(0, 3), rng.randint(0, 11), rng.randint(0, 28), rng.randint(0, 23), rng.randint(0, 59), rng.randint(0, 59)]
        b = [rng.randint(0, 3), rng.randint(0, 11), rng.randint(0, 28), rng.randint(0, 23), rng.randint(0, 59), rng.randint(0, 59)]
        cases.append({"kind": "stampsub", "a": a, "b": b})
    # horizon: whole quotients in several units, plus clearly fractional ones
    for n in list(range(1, 50)) + [rng.randint(50, 400) for _ in range(n_each // 4)]:
        for (su, field) in ((3, 3), (4, 2), (2, 4), (1, 5)):
            start = [0, 0, 0, 0, 0, 0]
            stop = list(start)
            stop[field] += n
            cases.append({"kind": "horizon", "start": start, "stop": stop, "step": ["1", su], "unit": rng.choice([su, 3])})
    for _ in range(n_each // 2):
        su = rng.choice([1, 2, 3, 4])
        step = rng.choice([Fraction(1), Fraction(2), Fraction(1, 2), Fraction(1, 4), Fraction(5), Fraction(15), Fraction(3)])
        n = rng.randint(1, 300)
        extra = rng.choice([Fraction(0), Fraction(0), Fraction(1, 2), Fraction(1, 4), Fraction(9, 10)])
        total = (n + extra) * step * FACT[su]          # seconds
        if total != int(total):
            continue
        total = int(total)
        sh, sm = rng.randint(0, 23), rng.choice([0, 0, 15, 30])
        start = [0, 0, rng.randint(0, 3), sh, sm, 0]
        d, rem = divmod(total, 86400); hh, rem = divmod(rem, 3600); mm, ss = divmod(rem, 60)
        stop = [0, 0, start[2] + d, sh + hh, sm + mm, ss]
        cases.append({"kind": "horizon", "start": start, "stop": stop, "step": [str(step), su], "unit": rng.choice([1, 2, 3, 4])})
    return cases


def run(res):
    rng = random.Random(res.seed * 7919 + 17)
    n_each = 200 if res.tier == "quick" else 3000
    res.rule = ("cases: all 49 unit pairs x quantities; comparisons incl. equal durations in different units and near-equal; "
                "sums/differences/ratios; hour of day for every start hour x elapsed (whole hours, exact days, beyond a month) ; "
                "stamp differences; horizons with whole and fractional quotient in s/min/h/day steps (float code). "
                "non-trivial/distinct = distinct (kind, unit pair / branch signature)")
    run_cases(res, gen(rng, n_each), handler, compare)


def search(res):
    """Failing-input search: the property's oracle over a 5x larger generator stream (implementation only)."""
    rng = random.Random(res.seed * 104729 + 5)
    found = []
    for case in gen(rng, 1000 if res.tier == "quick" else 15000):
        h = handler(case)
        for key, what in h["viols"]:
            found.append({"key": key, "what": what, "case": case})
        if len(found) > 20:
            break
    return found


def replay(obj):
    case = obj.get("case")
    if case is None:
        print("replay file names a broken proof obligation / correspondence, no failing input:")
        print(obj)
        return 1
    h = handler(case)
    print("case:", case)
    print("implementation:", h["impl"])
    for key, what in h["viols"]:
        print("FAILS:", key, what)
    return 1 if h["viols"] else 0
