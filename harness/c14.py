"""C14  Microgrids island and reconnect according to their operating mode.

Scenarios with a microgrid (all three modes, any host bus, faults inside / outside / overlapping)
under manual control are compared state by state with `Relsad.Model.Control` (which contains the
microgrid controller, its parent timer and the survival hold) and under ICT-based control checked
by the oracle: the microgrid breaker opens in the increment a fault trips the distribution network;
in SURVIVAL it stays open while the distribution network has a failed line; in FULL/LIMITED
support it recloses in the same control pass as the sectioning time runs out (own connection
healthy); faults inside the microgrid never open the distribution breaker nor interrupt the
distribution network's customers.
"""
import math
import random
from fractions import Fraction

from .common import run_cases
from . import ctl, net

PROP = "C14"
LEVEL = "proof"
ASSUMPTIONS = [
    "step theorems are proved on the model (trip with the distribution network, survival hold is a no-op of the breaker check, support modes reclose when the timer has run out and the own connection is healthy, a microgrid fault operates only the microgrid's breaker); whole-history behaviour is decided by the correspondence and the oracle on generated histories",
]
F = Fraction


def handler(case):
    auto = case["spec"]["ctrl"]["type"] == "main"
    marks = []

    def observer(ps, v, rec):
        rec["dist_failed"] = {n.name: n.failed_line for n in v.nets}
        rec["shed"] = {b.name: None for b in ps.buses}
    v, ops, impl, info = ctl.run_scenario(case, observer)
    viols = []
    T = F(case["spec"]["ctrl"]["T"]); dt = F(case["dt"])
    need = math.ceil(T / dt)
    mgs = [n for n in v.nets if hasattr(n, "distribution_network")]
    steps = [r for r in info if r["phase"] == "step"]
    single = case.get("single")
    for mg in mgs:
        dist = mg.distribution_network
        mode = mg.mode.name
        prev_open = False; second_seen = False
        for r in info:
            if r["phase"] == "fail" and r["was_connected"]:
                l = v.ps.get_comp(r["line"])
                if l.parent_network is dist and not r["cb_open"][mg.name]:
                    viols.append(("c14.trip", f"increment {r['k']}: fault on {r['line']} trips {dist.name} but the microgrid breaker stays closed"))
                if l.parent_network is mg and r["cb_open"][dist.name] and not any(q["phase"] in ("step", "fail") and q is not r and q["k"] <= r["k"] and q["cb_open"].get(dist.name) for q in info):
                    viols.append(("c14.mg-fault-trips-dist", f"increment {r['k']}: fault on microgrid line {r['line']} opened the breaker of {dist.name}"))
            if r["phase"] == "step":
                # a microgrid never *reconnects* to a tripped feeder whose sectioning is still running (any mode, any control).
                # (Being connected already is legitimate: a support-mode microgrid that reconnected while the feeder waits for the
                # repair of its own line stays connected when a further fault on a de-energised line re-arms the feeder's timer.)
                if prev_open and not r["cb_open"][mg.name] and r["cb_open"][dist.name] and r["timers"][dist.name] > 0:
                    viols.append(("c14.reconnect-before-parent", f"increment {r['k']}: {mode} microgrid reconnects while the breaker of {dist.name} is open and its sectioning time still runs ({r['timers'][dist.name]} h left)"))
                if mode == "SURVIVAL" and prev_open and r["dist_failed"][dist.name] and not r["cb_open"][mg.name]:
                    viols.append(("c14.survival", f"increment {r['k']}: SURVIVAL microgrid reconnected although {dist.name} still has a failed line {r['failed']}"))
                own_sec = mg.connected_line.section
                own_failed = [l.name for l in own_sec.lines if l.name in r["failed"]] if own_sec is not None else []
                if own_failed and not r["cb_open"][mg.name]:
                    viols.append(("c14.connected-unhealthy", f"increment {r['k']}: {mode} microgrid is connected although the section of its own connection holds the failed line(s) {own_failed}"))
                if mg.name in r.get("open_no_reason", []):
                    viols.append(("c14.separated-without-reason", f"increment {r['k']}{' of the second iteration' if second_seen else ''}: {mode} microgrid is separated although its sectioning time has run out, "
                                  f"its own connection is healthy and {dist.name} has no failed line (failed lines: {r['failed']}, network flag failed_line={r['dist_failed'][dist.name]})"))
                prev_open = r["cb_open"][mg.name]
            elif r["phase"] == "fail":
                prev_open = r["cb_open"][mg.name]
            elif r["phase"] == "reset":
                prev_open = False; second_seen = True
        if single is not None and not auto:
            k0, lname = single
            l = v.ps.get_comp(lname)
            if l.parent_network is dist and mode != "SURVIVAL":
                # single fault in the distribution network, still present at its first control step:
                # the microgrid reconnects in the pass in which the sectioning time has run out
                first = next((r for r in steps if r["k"] == k0), None)
                if first is not None and lname in first["failed"]:
                    at = next((r for r in steps if r["k"] == k0 + need), None)
                    if at is not None and at["cb_open"][mg.name]:
                        viols.append(("c14.reconnect-late", f"{mode} microgrid still separated in increment {k0 + need}, {need} passes after the fault on {lname} was detected (T={T}, dt={dt})"))
                    for r in steps:
                        if k0 <= r["k"] < k0 + need and not r["cb_open"][mg.name]:
                            viols.append(("c14.reconnect-early", f"{mode} microgrid reconnected in increment {r['k']} before the sectioning time elapsed"))
        # faults only inside the microgrid: the distribution customers are never interrupted
        if not case.get("second") and all(v.ps.get_comp(nm).parent_network is mg for fl in case["faults"].values() for nm, _ in fl):
            for b in dist.buses:
                if b.acc_outage_time.get_hours() != 0 or b.acc_p_energy_shed != 0:
                    viols.append(("c14.mg-fault-interrupts-dist", f"only microgrid lines failed but {b.name} of {dist.name} was interrupted for {b.acc_outage_time.get_hours()} h"))
            if any(r["cb_open"][dist.name] for r in info if "cb_open" in r):
                viols.append(("c14.mg-fault-trips-dist", f"only microgrid lines failed but the breaker of {dist.name} opened"))
    sig = (tuple(m.mode.name for m in mgs), auto, tuple(sorted({(tuple(sorted(k for k, o in r["cb_open"].items() if o)), len(r["failed"])) for r in steps}, key=str)))
    return dict(ops=ops, impl=impl, viols=viols[:3], nontrivial=sig, tag=f"{'auto' if auto else 'manual'}:{mgs[0].mode.name if mgs else 'none'}")


def compare(case, m, i):
    if not m:
        return True
    return [ctl.strip_ok(x) for x in m] == i


def gen(rng, nm, na):
    cases = []
    for j in range(nm + na):
        ctrl = "manual" if j < nm else "main"
        while True:
            c = ctl.gen_scenario(rng, max_lines=rng.choice([2, 4, 6]), ctrl=ctrl, nfeed=rng.choice([1, 1, 2]))
            if c["spec"].get("mg"):
                break
        c["spec"]["mg"]["n"] = rng.choice([1, 2, 3])
        c["spec"]["mg"]["discon"] = rng.random() < 0.5
        if ctrl == "main" and rng.random() < 0.5:      # partial instrumentation (lines without sensor, plain disconnectors)
            from . import c06
            c["spec"]["ctrl"]["nodev"] = c06.missing_devices(rng, c["spec"], p=0.35)
        ps = net.build(c["spec"])
        mg_lines = [l.name for l in ps.lines if l.name.startswith("ML")]
        d_lines = [l.name for l in ps.lines if l.name.startswith("F0")]
        kind = rng.random()
        if len(d_lines) >= 2 and j % 5 == 0 and ctrl == "manual":
            kind = 0.55          # targeted: feeder waits for its own line, second fault meanwhile
        elif len(d_lines) >= 2 and j % 5 == 1:
            kind = 0.4           # targeted: SURVIVAL microgrid, two overlapping faults repaired at different times
            c["spec"]["mg"]["mode"] = "survival"
        if kind < 0.35:      # one fault in the hosting distribution network
            k0 = rng.randint(1, 4); ln = rng.choice(d_lines)
            c["faults"] = {str(k0): [[ln, str(rng.choice([F(1), F(2), F(5, 2), F(3)]))]]}
            c["single"] = [k0, ln]
        elif kind < 0.5 and len(d_lines) >= 2:     # two overlapping faults in the hosting network, repaired at different times
            k0 = rng.randint(1, 3); a, b = rng.sample(d_lines, 2)
            c["faults"] = {str(k0): [[a, str(rng.choice([F(1), F(3, 2)]))]], str(k0 + rng.randint(0, 1)): [[b, str(rng.choice([F(3), F(4), F(5)]))]]}
            if a == b or len(c["faults"]) == 1:
                c["faults"] = {str(k0): [[a, "1"], [b, "4"]]}
            c["n_inc"] = c["n_inc"] + int(F(5) / F(c["dt"]))
        elif kind < 0.58 and len(d_lines) >= 2:
            # the feeder waits for the repair of its own first line (breaker held open long after the sectioning time), a
            # support-mode microgrid reconnects meanwhile; then a second fault elsewhere in the feeder (on a line that may
            # be de-energised): the microgrid has to island again iff that line was in service
            Tq, dtq = F(c["spec"]["ctrl"]["T"]), F(c["dt"])
            k0 = rng.randint(1, 2); second = rng.choice(d_lines[1:])
            k2 = k0 + math.ceil(Tq / dtq) + rng.randint(1, 4)
            c["faults"] = {str(k0): [[d_lines[0], str(Tq + (k2 + 6) * dtq)]], str(k2): [[second, str(rng.choice([F(1), F(2), F(3)]))]]}
            c["n_inc"] = max(c["n_inc"], k2 + int((Tq + 12) / dtq))
            if c["spec"]["mg"].get("mode") == "survival" and rng.random() < 0.8:
                c["spec"]["mg"]["mode"] = rng.choice(["full", "limited"])
        elif kind < 0.65:    # faults inside the microgrid only
            c["faults"] = {str(rng.randint(1, 5)): [[rng.choice(mg_lines), str(rng.choice([F(1), F(2)]))]] for _ in range(rng.randint(1, 2))}
        else:                # 1-4 overlapping faults anywhere
            allp = [l.name for l in ps.lines if not l.is_backup]
            c["faults"] = {}
            for _ in range(rng.randint(1, 4)):
                c["faults"].setdefault(str(rng.randint(1, 12)), []).append([rng.choice(allp), str(rng.choice([F(1, 2), F(1), F(3, 2), F(2), F(5, 2)]))])
        nodev = c["spec"]["ctrl"].get("nodev")
        if ctrl == "main" and j % 3 == 0 and nodev is None:
            nodev = c["spec"]["ctrl"]["nodev"] = []
        if nodev is not None and (rng.random() < 0.4 or j % 3 == 0) and d_lines:
            # a fault on a distribution line without sensor under ICT-based control: the sectioning takes the manual time,
            # a support-mode microgrid has to wait for it
            ln = rng.choice(d_lines)
            if f"S{ln}" not in nodev:
                nodev.append(f"S{ln}")
            if c["spec"]["mg"].get("mode") == "survival" and rng.random() < 0.7:
                c["spec"]["mg"]["mode"] = rng.choice(["full", "limited"])
            if F(c["spec"]["ctrl"]["T"]) == 0:
                c["spec"]["ctrl"]["T"] = "1"
            c["faults"] = {str(rng.randint(1, 4)): [[ln, str(rng.choice([F(2), F(3), F(7, 2)]))]]}
            c.pop("single", None)
        elif nodev is not None and rng.random() < 0.6:
            # a fault on a microgrid line that has no sensor (the controller has to count it by inspection, also when it
            # re-inspects a section that is already flagged)
            ln = rng.choice(mg_lines)
            if f"S{ln}" not in nodev:
                nodev.append(f"S{ln}")
            c["faults"] = {str(rng.randint(1, 4)): [[ln, str(rng.choice([F(2), F(3), F(7, 2)]))]]}
            c.pop("single", None)
        if j % 5 == 4 and d_lines:
            # targeted: the sectioning time is written in seconds / minutes / days (the feeder hands its remaining time to the
            # microgrid), or the run itself is in another unit; one fault in the hosting network, support-mode microgrid
            if rng.random() < 0.7:
                c["spec"]["ctrl"]["T_unit"] = rng.choice([1, 2, 2, 4])
            else:
                c["unit"] = rng.choice([1, 2, 4])
            if F(c["spec"]["ctrl"]["T"]) == 0:
                c["spec"]["ctrl"]["T"] = "1/2"
            c["spec"]["mg"]["mode"] = rng.choice(["full", "limited"])
            c["spec"]["ctrl"].pop("nodev", None)
            k0 = rng.randint(1, 3); ln = rng.choice(d_lines)
            c["faults"] = {str(k0): [[ln, str(rng.choice([F(2), F(3), F(7, 2)]))]]}
            c["single"] = [k0, ln]
        if j % 5 == 3 and d_lines:
            # targeted: a sectioning time that is not a multiple of the step (the timers overshoot below zero), one fault in the
            # hosting network, support-mode microgrid: it reconnects in the pass in which the time has run out, not one later
            dtq = F(c["dt"])
            c["spec"]["ctrl"]["T"] = str(dtq * rng.choice([F(1, 2), F(3, 2), F(5, 2), F(4, 3)]))
            c["spec"]["mg"]["mode"] = rng.choice(["full", "limited"])
            c["spec"]["ctrl"].pop("nodev", None)
            k0 = rng.randint(1, 3); ln = rng.choice(d_lines)
            c["faults"] = {str(k0): [[ln, str(rng.choice([F(2), F(3), F(7, 2)]))]]}
            c["single"] = [k0, ln]
        if j % 5 == 2 and d_lines:
            # two iterations on the same objects: the first ends while a line of the hosting network is failed; after the reset a
            # fault inside the microgrid (or in the hosting network): the microgrid must come back as the property says
            Tq, dtq = F(c["spec"]["ctrl"]["T"]), F(c["dt"])
            k0 = rng.randint(1, 3)
            first_n = k0 + rng.randint(0, 2)
            second_faults = {str(rng.randint(1, 3)): [[rng.choice(mg_lines if rng.random() < 0.7 else d_lines), str(rng.choice([F(1), F(2)]))]]}
            c["spec"]["mg"]["mode"] = rng.choice(["survival", "survival", "full", "limited"])
            c["faults"] = {str(k0): [[rng.choice(d_lines), "40"]]}
            c["second"] = {"faults": second_faults, "n_inc": c["n_inc"]}
            c["n_inc_first"] = first_n
            c.pop("single", None)
        cases.append(c)
    for q in range(max(3, (nm + na) // 15)):
        # targeted: a fault inside a support-mode microgrid first (on its connecting line, or behind its disconnector), then a
        # fault in the hosting feeder while the microgrid still lists a failed section of its own: the microgrid has to wait for
        # the feeder's sectioning time as well
        ctrl = "manual" if q % 3 != 2 else "main"
        while True:
            c = ctl.gen_scenario(rng, max_lines=4, ctrl=ctrl, nfeed=1)
            if c["spec"].get("mg"):
                break
        c["spec"]["mg"]["n"] = rng.choice([2, 3]); c["spec"]["mg"]["discon"] = True
        c["spec"]["mg"]["mode"] = rng.choice(["full", "limited"])
        dtq = F(c["dt"])
        c["spec"]["ctrl"]["T"] = str(dtq * rng.choice([1, 2, 2, 3]))
        Tq = F(c["spec"]["ctrl"]["T"])
        ps = net.build(c["spec"])
        d_lines = [l.name for l in ps.lines if l.name.startswith("F0")]
        k1 = rng.randint(1, 3)
        mgline = rng.choice(["ML0", "ML1"])
        k2 = k1 + rng.randint(1, max(1, int(Tq / dtq)))
        c["faults"] = {str(k1): [[mgline, str(Tq + rng.choice([3, 4]) * dtq + 2)]], str(k2): [[rng.choice(d_lines), str(rng.choice([F(2), F(3)]))]]}
        c["n_inc"] = k2 + int((2 * Tq + 8) / dtq) + 10
        cases.append(c)
    for q in range(max(2, (nm + na) // 25)):
        # targeted: ICT-based control with an ICT network in which the microgrid's sensors have no node at all (the controller has
        # to fall back on inspection for them, which costs the manual time); a fault on a microgrid line
        from . import c06
        while True:
            c = ctl.gen_scenario(rng, max_lines=3, ctrl="main", nfeed=1)
            if c["spec"].get("mg"):
                break
        c["spec"]["mg"]["n"] = rng.choice([2, 3]); c["spec"]["mg"]["discon"] = rng.random() < 0.5
        c["spec"]["ctrl"].pop("nodev", None)
        ict = c06.fallible_ict(rng, c["spec"])
        ict["attach"] = {nm: v for nm, v in ict["attach"].items() if not nm.startswith("SML")}
        c["spec"]["ctrl"]["ict"] = ict
        if F(c["spec"]["ctrl"]["T"]) == 0:
            c["spec"]["ctrl"]["T"] = "1"
        c["faults"] = {str(rng.randint(1, 3)): [[f"ML{rng.randrange(c['spec']['mg']['n'])}", str(rng.choice([F(2), F(3)]))]]}
        cases.append(c)
    for q in range(max(2, (nm + na) // 25)):
        # targeted: ICT-based control, the section of the microgrid's connecting line is partly instrumented (the connecting line has a
        # sensor, an inner line without switch has none); a fault on the sensor-less line
        while True:
            c = ctl.gen_scenario(rng, max_lines=3, ctrl="main", nfeed=1)
            if c["spec"].get("mg"):
                break
        c["spec"]["mg"]["n"] = rng.choice([2, 3]); c["spec"]["mg"]["discon"] = False
        c["spec"]["mg"]["mode"] = ["survival", "full", "limited"][q % 3]
        c["spec"]["ctrl"].pop("ict", None)
        c["spec"]["ctrl"]["nodev"] = ["SML1"]
        if F(c["spec"]["ctrl"]["T"]) == 0:
            c["spec"]["ctrl"]["T"] = "1"
        c["faults"] = {str(rng.randint(1, 3)): [["ML1", str(rng.choice([F(3), F(4)]))]]}
        cases.append(c)
    return cases


def run(res):
    rng = random.Random(res.seed * 10009 + 79)
    nm, na = (45, 15) if res.tier == "quick" else (1500, 400)
    res.rule = ("microgrids of 1-3 lines (with/without disconnector) in SURVIVAL / FULL_SUPPORT / LIMITED_SUPPORT at a random bus of feeder 0; 35% single fault in the hosting "
                "network (reconnection timing), 15% two overlapping faults in the hosting network repaired at different times, 8% long fault on the feeder's own line with a second fault elsewhere meanwhile, 7% faults inside the microgrid only, 35% 1-4 overlapping faults anywhere; manual control (model + implementation) and "
                "MainController (implementation). non-trivial = distinct (mode, automatic, set of breaker/fault states visited)")
    run_cases(res, gen(rng, nm, na), handler, compare)


def search(res):
    rng = random.Random(res.seed * 37 + 18)
    found = []
    for case in gen(rng, 120, 40):
        h = handler(case)
        for key, what in h["viols"]:
            found.append({"key": key, "what": what, "case": case})
        if len(found) > 6:
            break
    return found


def replay(obj):
    case = obj.get("case")
    if case is None:
        print("no failing input in this replay file:", obj.get("broken_proof_obligations"), str(obj.get("broken_correspondence", [])[:1])[:2000])
        return 1
    h = handler(case)
    for o, i in list(zip(h["ops"], h["impl"]))[:50]:
        print("  ", o[:60], "=>", i)
    for key, what in h["viols"]:
        print("FAILS:", key, what)
    return 1 if h["viols"] else 0
