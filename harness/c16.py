"""C16  Automatic sectioning is used only when the controller can reach the device.

Part 1 (communication): `is_connected` on real ICT networks for every subset of failed ICT lines
(exhaustive for small graphs) against `Relsad.Model.Graph.reach`; oracle: independent union-find,
symmetry.
Part 2 (timing): paired real runs of built feeders under a MainController that differ only in the
ICT / controller / sensor state; the interruption of load points that remain fed is at most one
step when everything is healthy and reachable, and at least the manual sectioning time otherwise
(see `timing_case`).
"""
import itertools
import random
from fractions import Fraction

from .common import fb, run_cases
from . import net, c17

PROP = "C16"
LEVEL = "proof"
ASSUMPTIONS = [
    "ICT node failures do not affect communication in the implementation (is_connected walks in-service ICT lines only); the property is stated over lines and so is the model",
    "the timer rule of the automatic loop is a theorem on the model (C16.unreachable_costs_manual_time / reachable_costs_nothing); the model of the automatic loops is compared state by state with the real controllers in the C05 / C06 / C14 checks; sensors and intelligent switches that fail by themselves inside the loop are modelled by stepD and compared in the C05 / C06 checks",
]
F = Fraction


def build_ict(n, edges):
    from relsad.network.components import ICTNode, ICTLine, ManualMainController
    from relsad.network.systems import PowerSystem, ICTNetwork
    from relsad.Time import Time
    net.reset_counters()
    ps = PowerSystem(ManualMainController("C", sectioning_time=Time(1)))
    nodes = [ICTNode(f"N{i}") for i in range(n)]
    lines = [ICTLine(f"IL{k}", nodes[a], nodes[b]) for k, (a, b) in enumerate(edges)]
    inet = ICTNetwork(ps)
    inet.add_nodes(nodes)
    inet.add_lines(lines)
    return ps, inet, nodes, lines


def uf(n, es):
    par = list(range(n))

    def find(x):
        while par[x] != x:
            par[x] = par[par[x]]
            x = par[x]
        return x
    for a, b in es:
        par[find(a)] = find(b)
    return [[find(i) == find(j) for j in range(n)] for i in range(n)]


def repair_case(case):
    """ICT-based control whose main controller is out of service (hardware failure under repair) for the whole run; one power fault,
    in the feeder or inside the microgrid.  Compared state by state with the model (every network on its manual loop: `ctl step`);
    oracle on the real objects: a breaker tripped by the fault does not reclose before the manual sectioning time has passed."""
    from . import ctl
    v, ops, impl, info = ctl.run_scenario(case)
    viols = []
    T = F(case["spec"]["ctrl"]["T"]); dt = F(case["dt"])
    k0 = case["k0"]
    fail = next((r for r in info if r["phase"] == "fail" and r["k"] == k0), None)
    sig = []
    first = next((r for r in info if r["phase"] == "step" and r["k"] == k0), None)
    if fail is not None and fail["was_connected"] and first is not None and fail["line"] in first["failed"]:      # still there at the first control pass
        for name, opened in fail["cb_open"].items():
            if not opened:
                continue
            back = next((r["k"] for r in info if r["phase"] == "step" and r["k"] >= k0 and not r["cb_open"][name]), None)
            sig.append((name.startswith("micro"), back is not None))
            if back is not None and (back - k0 + 1) * dt < T:       # open from the start of increment k0 to the end of increment `back`
                viols.append(("timing.repair-auto", f"main controller under repair, fault on {fail['line']} in increment {k0}: the breaker of {name} is closed again in increment {back}, "
                              f"after {(back - k0 + 1) * dt} h, before the manual sectioning time of {T} h has passed (sectioned automatically by a controller that is out of service)"))
    return dict(ops=ops, impl=impl, viols=viols[:3], nontrivial=("repair", tuple(sorted(sig)), fail["line"][:2] if fail else None), tag="repair")


def gen_repair(rng, n):
    from . import ctl
    cases = []
    for j in range(n):
        c = ctl.gen_scenario(rng, max_lines=4, ctrl="main", nfaults=(1, 1))
        while not c["spec"].get("mg"):
            c = ctl.gen_scenario(rng, max_lines=4, ctrl="main", nfaults=(1, 1))
        c["spec"]["mg"]["n"] = rng.choice([1, 2, 3]); c["spec"]["mg"]["discon"] = True
        c["spec"]["mg"]["mode"] = rng.choice(["full", "limited", "survival"])
        if F(c["spec"]["ctrl"]["T"]) < 2 * F(c["dt"]):
            c["spec"]["ctrl"]["T"] = str(rng.choice([2, 3]) * F(c["dt"]))
        ps = net.build(c["spec"])
        mg_lines = [l.name for l in ps.lines if l.name.startswith("ML")]
        d_lines = [l.name for l in ps.lines if l.name.startswith("F0")]
        k0 = rng.randint(2, 4)
        ln = rng.choice(mg_lines if j % 3 != 2 else d_lines)
        c["faults"] = {"1": [["C1", "200"]], str(k0): [[ln, str(F(c["spec"]["ctrl"]["T"]) + rng.choice([2, 3, 5]) * F(c["dt"]))]]}
        c["k0"] = k0
        c["kind"] = "repair"
        cases.append(c)
    return cases


def handler(case):
    if case["kind"] == "timing":
        from . import c16_timing
        return c16_timing.timing_case(case)
    if case["kind"] == "repair":
        return repair_case(case)
    import relsad.network.components  # noqa: F401 (import order: avoids the package's circular import)
    from relsad.topology.ICT.dfs import is_connected
    n, edges, failed = case["n"], case["edges"], set(case["failed"])
    ps, inet, nodes, lines = build_ict(n, edges)
    for k in failed:
        lines[k].disconnect()
    live = [tuple(e) for k, e in enumerate(edges) if k not in failed]
    truth = uf(n, live)
    ops, impl, viols = [], [], []
    V = ",".join(map(str, range(n)))
    E = ",".join(f"{a}-{b}" for a, b in live) or "-"
    for a in range(n):
        for b in range(n):
            r = is_connected(nodes[a], nodes[b], inet)
            ops.append(f"graph reach {V} {E} {a} {b}")
            impl.append(fb(r))
            if bool(r) != truth[a][b]:
                viols.append(("ict.path", f"nodes {a},{b} with in-service ICT lines {live}: is_connected={r}, a path exists={truth[a][b]}"))
            if bool(r) != bool(is_connected(nodes[b], nodes[a], inet)):
                viols.append(("ict.symmetry", f"is_connected({a},{b}) != is_connected({b},{a}) with lines {live}"))
    ncomp = len({tuple(row) for row in truth})
    return dict(ops=ops, impl=impl, viols=viols[:3], nontrivial=("ict", n, len(edges), len(failed), ncomp), tag=f"ict:n={n}")


def gen(rng, n_rand, exhaustive_n):
    cases = []
    # exhaustive: all simple graphs on <= exhaustive_n nodes that are connected-ish supersets of a path? -> all graphs, all failed subsets for n<=3;
    for n in range(1, exhaustive_n + 1):
        pairs = list(itertools.combinations(range(n), 2))
        for mask in range(1 << len(pairs)):
            edges = [list(p) for k, p in enumerate(pairs) if mask >> k & 1]
            for fm in range(1 << len(edges)):
                if n == exhaustive_n and len(edges) > 4 and fm not in (0, (1 << len(edges)) - 1) and rng.random() < 0.8:
                    continue
                cases.append({"kind": "ict", "n": n, "edges": edges, "failed": [k for k in range(len(edges)) if fm >> k & 1]})
    for _ in range(n_rand):
        n = rng.randint(3, 9)
        edges = [[i, rng.randrange(i)] for i in range(1, n)] if rng.random() < 0.7 else []
        for _ in range(rng.randint(0, n)):
            a, b = rng.sample(range(n), 2)
            edges.append([a, b])           # redundant paths, also parallel lines
        failed = [k for k in range(len(edges)) if rng.random() < 0.3]
        cases.append({"kind": "ict", "n": n, "edges": edges, "failed": failed})
    return cases


def run(res):
    rng = random.Random(res.seed * 7027 + 53)
    n, ex = (60, 4) if res.tier == "quick" else (1500, 5)
    res.rule = (f"communication: all graphs on <= {ex} ICT nodes x subsets of failed lines (thinned at the largest size), random meshed graphs of 3-9 nodes with parallel lines; "
                "every ordered node pair queried. timing: see c16_timing. repair: ICT-controlled systems with a microgrid whose main controller is under hardware repair for the whole run, one fault inside the microgrid (2/3) or in the feeder (1/3), compared state by state with the model's manual loops; a tripped breaker must not reclose before the manual sectioning time. non-trivial = distinct (nodes, lines, failed lines, number of communication islands)")
    cases = gen(rng, n, ex)
    try:
        from . import c16_timing
        cases += c16_timing.gen(rng, 12 if res.tier == "quick" else 200)
    except ImportError:
        res.notes.append("timing part not built yet")
    cases += gen_repair(rng, 9 if res.tier == "quick" else 150)
    from . import ctl
    run_cases(res, cases, handler, lambda case, m, i: [ctl.strip_ok(x) for x in m] == i if case["kind"] == "repair" else m == i)


def search(res):
    rng = random.Random(res.seed * 11 + 9)
    found = []
    cases = gen(rng, 300, 4)
    try:
        from . import c16_timing
        cases += c16_timing.gen(rng, 60)
    except ImportError:
        pass
    cases += gen_repair(rng, 30)
    for case in cases:
        h = handler(case)
        for key, what in h["viols"]:
            found.append({"key": key, "what": what, "case": case})
        if len(found) > 10:
            break
    return found


def replay(obj):
    case = obj.get("case")
    if case is None:
        print("no failing input in this replay file:", obj.get("broken_proof_obligations"), obj.get("broken_correspondence", [])[:2])
        return 1
    h = handler(case)
    for key, what in h["viols"]:
        print("FAILS:", key, what)
    return 1 if h["viols"] else 0
