"""C16  Automatic sectioning is used only when the controller can reach the device.

Part 1 (communication): `is_connected` on real ICT networks for every subset of failed ICT lines
(exhaustive for small graphs) against `Relsad.Model.Graph.reach`; oracle: independent union-find,
symmetry.
Part 2 (timing): paired real runs of built feeders under a MainController that differ only in the
ICT / controller / sensor state; the interruption of load points that remain fed is at most one
step when everything is healthy and reachable, and at least the manual sectioning time otherwise
(see `timing_case`).
"""
import itertools
import random
from fractions import Fraction

from .common import fb, run_cases
from . import net, c17

PROP = "C16"
LEVEL = "proof"
ASSUMPTIONS = [
    "ICT node failures do not affect communication in the implementation (is_connected walks in-service ICT lines only); the property is stated over lines and so is the model",
    "the timer rule of the automatic loop is a theorem on the model (C16.unreachable_costs_manual_time / reachable_costs_nothing); the model of the automatic loops is compared state by state with the real controllers in the C05 / C06 / C14 checks; sensors and intelligent switches that fail by themselves inside the loop are not modelled (timing oracle of this check only)",
]
F = Fraction


def build_ict(n, edges):
    from relsad.network.components import ICTNode, ICTLine, ManualMainController
    from relsad.network.systems import PowerSystem, ICTNetwork
    from relsad.Time import Time
    net.reset_counters()
    ps = PowerSystem(ManualMainController("C", sectioning_time=Time(1)))
    nodes = [ICTNode(f"N{i}") for i in range(n)]
    lines = [ICTLine(f"IL{k}", nodes[a], nodes[b]) for k, (a, b) in enumerate(edges)]
    inet = ICTNetwork(ps)
    inet.add_nodes(nodes)
    inet.add_lines(lines)
    return ps, inet, nodes, lines


def uf(n, es):
    par = list(range(n))

    def find(x):
        while par[x] != x:
            par[x] = par[par[x]]
            x = par[x]
        return x
    for a, b in es:
        par[find(a)] = find(b)
    return [[find(i) == find(j) for j in range(n)] for i in range(n)]


def handler(case):
    if case["kind"] == "timing":
        from . import c16_timing
        return c16_timing.timing_case(case)
    import relsad.network.components  # noqa: F401 (import order: avoids the package's circular import)
    from relsad.topology.ICT.dfs import is_connected
    n, edges, failed = case["n"], case["edges"], set(case["failed"])
    ps, inet, nodes, lines = build_ict(n, edges)
    for k in failed:
        lines[k].disconnect()
    live = [tuple(e) for k, e in enumerate(edges) if k not in failed]
    truth = uf(n, live)
    ops, impl, viols = [], [], []
    V = ",".join(map(str, range(n)))
    E = ",".join(f"{a}-{b}" for a, b in live) or "-"
    for a in range(n):
        for b in range(n):
            r = is_connected(nodes[a], nodes[b], inet)
            ops.append(f"graph reach {V} {E} {a} {b}")
            impl.append(fb(r))
            if bool(r) != truth[a][b]:
                viols.append(("ict.path", f"nodes {a},{b} with in-service ICT lines {live}: is_connected={r}, a path exists={truth[a][b]}"))
            if bool(r) != bool(is_connected(nodes[b], nodes[a], inet)):
                viols.append(("ict.symmetry", f"is_connected({a},{b}) != is_connected({b},{a}) with lines {live}"))
    ncomp = len({tuple(row) for row in truth})
    return dict(ops=ops, impl=impl, viols=viols[:3], nontrivial=("ict", n, len(edges), len(failed), ncomp), tag=f"ict:n={n}")


def gen(rng, n_rand, exhaustive_n):
    cases = []
    # exhaustive: all simple graphs on <= exhaustive_n nodes that are connected-ish supersets of a path? -> all graphs, all failed subsets for n<=3;
    for n in range(1, exhaustive_n + 1):
        pairs = list(itertools.combinations(range(n), 2))
        for mask in range(1 << len(pairs)):
            edges = [list(p) for k, p in enumerate(pairs) if mask >> k & 1]
            for fm in range(1 << len(edges)):
                if n == exhaustive_n and len(edges) > 4 and fm not in (0, (1 << len(edges)) - 1) and rng.random() < 0.8:
                    continue
                cases.append({"kind": "ict", "n": n, "edges": edges, "failed": [k for k in range(len(edges)) if fm >> k & 1]})
    for _ in range(n_rand):
        n = rng.randint(3, 9)
        edges = [[i, rng.randrange(i)] for i in range(1, n)] if rng.random() < 0.7 else []
        for _ in range(rng.randint(0, n)):
            a, b = rng.sample(range(n), 2)
            edges.append([a, b])           # redundant paths, also parallel lines
        failed = [k for k in range(len(edges)) if rng.random() < 0.3]
        cases.append({"kind": "ict", "n": n, "edges": edges, "failed": failed})
    return cases


def run(res):
    rng = random.Random(res.seed * 7027 + 53)
    n, ex = (60, 4) if res.tier == "quick" else (1500, 5)
    res.rule = (f"communication: all graphs on <= {ex} ICT nodes x subsets of failed lines (thinned at the largest size), random meshed graphs of 3-9 nodes with parallel lines; "
                "every ordered node pair queried. timing: see c16_timing. non-trivial = distinct (nodes, lines, failed lines, number of communication islands)")
    cases = gen(rng, n, ex)
    try:
        from . import c16_timing
        cases += c16_timing.gen(rng, 12 if res.tier == "quick" else 200)
    except ImportError:
        res.notes.append("timing part not built yet")
    run_cases(res, cases, handler)


def search(res):
    rng = random.Random(res.seed * 11 + 9)
    found = []
    cases = gen(rng, 300, 4)
    try:
        from . import c16_timing
        cases += c16_timing.gen(rng, 60)
    except ImportError:
        pass
    for case in cases:
        h = handler(case)
        for key, what in h["viols"]:
            found.append({"key": key, "what": what, "case": case})
        if len(found) > 10:
            break
    return found


def replay(obj):
    case = obj.get("case")
    if case is None:
        print("no failing input in this replay file:", obj.get("broken_proof_obligations"), obj.get("broken_correspondence", [])[:2])
        return 1
    h = handler(case)
    for key, what in h["viols"]:
        print("FAILS:", key, what)
    return 1 if h["viols"] else 0
