"""C15  Load flow solves the radial AC equations, independent of labelling.

Every generated case is a random tree (2..12 buses) with random line impedances, loads and
production (net exporters included) and a random reference bus, built from real Bus / Line objects
in a real SubSystem and solved by `run_bfs_load_flow`.

correspondence: the same tree, rooted at the reference bus, is run through the Lean model
  (`Relsad.LoadFlow`, the definitions the theorems of Props/C15 are about, executed on Float):
  voltage magnitudes, angles, line losses and the accumulated load / loss at the reference bus
  must agree to 1e-9 (float summation order over the children of a bus differs, nothing else).
oracle (implementation only):
  ac.complex     agreement with an independent complex current-summation solution iterated to
                 convergence (voltages, angles, line losses) whenever that solution has all
                 voltages >= 0.85 pu: the same routine run to convergence (maxit=60) within 1e-8 pu,
                 the five sweeps the simulator uses within 2e-3 pu (ac.sweeps5);
  ac.balance     injection at the reference bus (from Line.get_line_load) = load - production + losses;
  ac.loss        losses non-negative;
  meta.order / meta.flip / meta.reroot / meta.repeat
                 the same network with shuffled insertion order, flipped stored line directions,
                 previously solved from another reference bus, or solved twice, gives the same result.
"""
import cmath
import math
import random
import struct

from .common import run_cases
from . import net

PROP = "C15"
LEVEL = "proof"
ASSUMPTIONS = [
    "PARTIAL: the theorems are about the sweep equations over the reals (exact voltage-drop identity, loss = r|I|^2 >= 0, an AC solution is a fixed point, accumulated load / loss sums); that the iteration converges, and that the five sweeps the simulator runs from a flat start are within 2e-3 pu of the fixed point in the regime V >= 0.85 pu (measured worst 9e-4), is decided per generated network against the independent complex solution, not proved",
    "Float arithmetic, sqrt and atan2 of the Lean runtime and of numpy are IEEE double operations and are trusted to agree to 1e-9 on these inputs",
]
TOL_MODEL = 1e-9
TOL_AC = 1e-8           # converged implementation (maxit=60) vs the independent complex solution
TOL_5 = 2e-3            # the 5 sweeps the simulator actually runs vs the fixed point (measured worst 9e-4 pu at V_min ~ 0.9 over 4000 networks)
ZB = 12.66 ** 2          # base impedance of the default v_ref / s_ref (Line.r_pu = r / ZB)


def bits(x):
    return str(struct.unpack("<Q", struct.pack("<d", float(x)))[0])


def unbits(s):
    return struct.unpack("<d", struct.pack("<Q", int(s)))[0]


def build(case, order_seed=None, flip=(), slack=None):
    import relsad.network.components  # noqa: F401  (import order)
    from relsad.network.components import Bus, Line
    from relsad.network.systems import SubSystem
    net.reset_counters()
    n = len(case["parent"])
    buses = [Bus(f"B{i}", n_customers=1) for i in range(n)]
    for i, b in enumerate(buses):
        b.pload = case["p"][i]; b.qload = case["q"][i]
        b.pload_pu = b.pload / b.s_ref; b.qload_pu = b.qload / b.s_ref
        b.pprod = case["pg"][i]; b.qprod = case["qg"][i]
        b.pprod_pu = b.pprod / b.s_ref; b.qprod_pu = b.qprod / b.s_ref
    lines = {}
    create = list(range(1, n))
    if order_seed is not None:
        random.Random(order_seed * 7 + 1).shuffle(create)
    for i in create:
        a, b = case["parent"][i], i
        if i in flip:
            a, b = b, a
        lines[i] = Line(f"L{i}", buses[a], buses[b], r=case["r"][i] * ZB, x=case["x"][i] * ZB)
    buses[case["slack"] if slack is None else slack].is_slack = True
    ss = SubSystem()
    bo = list(range(n)); lo = list(range(1, n))
    if order_seed is not None:
        r = random.Random(order_seed)
        r.shuffle(bo); r.shuffle(lo)
    for i in bo:
        ss.add_bus(buses[i])
    for i in lo:
        ss.add_line(lines[i])
    if case.get("open_tie"):
        # a normally open line (a backup between two buses of the tree, out of service) listed with the network's lines
        a, b = case["open_tie"]
        t = Line("T", buses[a], buses[b], r=0.05 * ZB, x=0.05 * ZB)
        t.disconnect()
        ss.add_line(t)
    return ss, buses, lines


def rooted(case):
    """parent pointers / visiting order of the tree seen from the reference bus"""
    n = len(case["parent"]); s = case["slack"]
    adj = {i: [] for i in range(n)}
    for i in range(1, n):
        a = case["parent"][i]
        adj[a].append((i, i)); adj[i].append((a, i))
    par = {s: None}; order = [s]
    for u in order:
        for v, l in adj[u]:
            if v not in par:
                par[v] = (u, l); order.append(v)
    return par, order, adj


def reference_solution(case, iters=400):
    """independent solution: complex current summation iterated to convergence"""
    n = len(case["parent"])
    par, order, adj = rooted(case)
    V = {i: 1 + 0j for i in range(n)}
    S = {i: complex(case["p"][i] - case["pg"][i], case["q"][i] - case["qg"][i]) for i in range(n)}
    Z = {l: complex(case["r"][l], case["x"][l]) for l in range(1, n)}
    J = {}
    for it in range(iters):
        inj = {i: (S[i] / V[i]).conjugate() for i in range(n)}
        J = {}
        for u in reversed(order):
            if par[u] is None:
                continue
            J[u] = inj[u] + sum(J[v] for v, _ in adj[u] if par.get(v) is not None and par[v][0] == u)
        delta = 0.0
        for u in order[1:]:
            p, l = par[u]
            new = V[p] - Z[l] * J[u]
            delta = max(delta, abs(new - V[u]))
            V[u] = new
        if delta < 1e-15:
            break
        if not all(math.isfinite(abs(v)) and abs(v) > 1e-3 for v in V.values()):
            return None
    else:
        return None
    ploss = {par[u][1]: Z[par[u][1]].real * abs(J[u]) ** 2 for u in order[1:]}
    qloss = {par[u][1]: Z[par[u][1]].imag * abs(J[u]) ** 2 for u in order[1:]}
    return {"V": V, "ploss": ploss, "qloss": qloss}


def solve(case, **kw):
    from relsad.loadflow.ac.bfs import run_bfs_load_flow
    ss, buses, lines = build(case, **kw)
    run_bfs_load_flow(ss)
    return ss, buses, lines


def solve_in_system(case, flip=()):
    """the same network registered in a PowerSystem (the reference bus is flagged first, then buses and lines are added to the
    system, some lines stored toward the reference bus) and solved on the system itself"""
    from relsad.loadflow.ac.bfs import run_bfs_load_flow
    from relsad.network.components import Bus, Line, ManualMainController
    from relsad.network.systems import PowerSystem
    from relsad.Time import Time
    net.reset_counters()
    n = len(case["parent"])
    ps = PowerSystem(ManualMainController(name="C", sectioning_time=Time(1)))
    buses = [Bus(f"B{i}", n_customers=1) for i in range(n)]
    for i, b in enumerate(buses):
        b.pload = case["p"][i]; b.qload = case["q"][i]
        b.pload_pu = b.pload / b.s_ref; b.qload_pu = b.qload / b.s_ref
        b.pprod = case["pg"][i]; b.qprod = case["qg"][i]
        b.pprod_pu = b.pprod / b.s_ref; b.qprod_pu = b.qprod / b.s_ref
    buses[case["slack"]].set_slack()
    lines = {}
    for i in range(1, n):
        a, b = case["parent"][i], i
        if i in flip:
            a, b = b, a
        lines[i] = Line(f"L{i}", buses[a], buses[b], r=case["r"][i] * ZB, x=case["x"][i] * ZB)
    for b in buses:
        ps.add_bus(b)
    for i in range(1, n):
        ps.add_line(lines[i])
    run_bfs_load_flow(ps)
    return ps, buses, lines


def result(buses, lines):
    n = len(buses)
    return {"vm": [float(b.vomag) for b in buses], "va": [float(b.voang) for b in buses],
            "pl": [0.0] + [float(lines[i].ploss) for i in range(1, n)], "ql": [0.0] + [float(lines[i].qloss) for i in range(1, n)]}


def maxdiff(a, b):
    return max(max(abs(x - y) for x, y in zip(a[k], b[k])) for k in ("vm", "va", "pl", "ql"))


def handler(case):
    from relsad.loadflow.ac.bfs import run_bfs_load_flow
    n = len(case["parent"]); s = case["slack"]
    viols = []
    ss, buses, lines = solve(case)
    base = result(buses, lines)
    par, order, adj = rooted(case)
    # ---- model op: the tree rooted at the reference bus, preorder, parent given as list index
    pos = {}
    seq = []
    def visit(u):
        pos[u] = len(seq); seq.append(u)
        for v, _ in adj[u]:
            if par.get(v) is not None and par[v][0] == u:
                visit(v)
    visit(s)
    toks = []
    for u in seq:
        pp = "r" if par[u] is None else str(pos[par[u][0]])
        l = None if par[u] is None else par[u][1]
        prel = buses[u].pload_pu - buses[u].pprod_pu
        qrel = buses[u].qload_pu - buses[u].qprod_pu
        toks.append(f"{u}:{pp}:{bits(prel)}:{bits(qrel)}:{bits(0.0 if l is None else lines[l].r_pu)}:{bits(0.0 if l is None else lines[l].x_pu)}")
    ops = [f"lf run 5 {','.join(toks)}"]
    impl_nodes = []
    for u in seq:
        l = None if par[u] is None else par[u][1]
        impl_nodes.append(f"{u}:{bits(base['vm'][u])}:{bits(base['va'][u])}:{bits(0.0 if l is None else base['pl'][l])}:{bits(0.0 if l is None else base['ql'][l])}")
    impl = [",".join(impl_nodes) + f" {bits(buses[s].p_load_downstream)} {bits(buses[s].q_load_downstream)} {bits(sum(base['pl']))} {bits(sum(base['ql']))}"]
    # ---- oracle
    ref = reference_solution(case)
    regime = ref is not None and min(abs(v) for v in ref["V"].values()) >= 0.85
    vmin = min(abs(v) for v in ref["V"].values()) if ref else None
    if regime:
        # (i) the sweep equations solve the AC equations: the same routine iterated to convergence
        ssc, bc, lc = build(case)
        run_bfs_load_flow(ssc, maxit=60)
        conv = result(bc, lc)
        for i in range(n):
            if abs(conv["vm"][i] - abs(ref["V"][i])) > TOL_AC or abs(conv["va"][i] - cmath.phase(ref["V"][i])) > TOL_AC:
                viols.append(("ac.complex", f"bus B{i}: converged voltage {conv['vm'][i]:.10f} pu / {conv['va'][i]:.10f} rad, independent complex solution {abs(ref['V'][i]):.10f} / {cmath.phase(ref['V'][i]):.10f} (reference bus B{s}, lowest voltage {vmin:.3f})"))
                break
        for l in range(1, n):
            if abs(conv["pl"][l] - ref["ploss"][l]) > TOL_AC or abs(conv["ql"][l] - ref["qloss"][l]) > TOL_AC:
                viols.append(("ac.loss-value", f"line L{l}: converged loss {conv['pl'][l]:.10g} + j{conv['ql'][l]:.10g} pu, r|I|^2 + jx|I|^2 of the independent solution {ref['ploss'][l]:.10g} + j{ref['qloss'][l]:.10g}"))
                break
        # (ii) the five sweeps the simulator runs are close to that solution
        for i in range(n):
            if abs(base["vm"][i] - abs(ref["V"][i])) > TOL_5 or abs(base["va"][i] - cmath.phase(ref["V"][i])) > TOL_5:
                viols.append(("ac.sweeps5", f"bus B{i}: voltage after the simulator's 5 sweeps {base['vm'][i]:.9f} pu / {base['va'][i]:.9f} rad, independent complex solution {abs(ref['V'][i]):.9f} / {cmath.phase(ref['V'][i]):.9f} (reference bus B{s}, lowest voltage {vmin:.3f})"))
                break
        for l in range(1, n):
            if abs(base["pl"][l] - ref["ploss"][l]) > TOL_5 or abs(base["ql"][l] - ref["qloss"][l]) > TOL_5:
                viols.append(("ac.sweeps5-loss", f"line L{l}: loss after 5 sweeps {base['pl'][l]:.9g} + j{base['ql'][l]:.9g} pu, independent solution {ref['ploss'][l]:.9g} + j{ref['qloss'][l]:.9g}"))
                break
        # reference-bus injection from the line flows (Line.get_line_load) of the converged solution = load - production + losses
        inj_p = inj_q = 0.0
        for l in range(1, n):
            pf, qf, pt, qt = lc[l].get_line_load()
            if lc[l].fbus is bc[s]:
                inj_p += pf; inj_q += qf
            elif lc[l].tbus is bc[s]:
                inj_p += pt; inj_q += qt
        net_p = sum(case["p"]) - sum(case["pg"]); net_q = sum(case["q"]) - sum(case["qg"])
        own_p = case["p"][s] - case["pg"][s]; own_q = case["q"][s] - case["qg"][s]
        if abs(inj_p + own_p - (net_p + sum(conv["pl"]))) > 100 * TOL_AC or abs(inj_q + own_q - (net_q + sum(conv["ql"]))) > 100 * TOL_AC:
            viols.append(("ac.balance", f"reference bus B{s}: injection {inj_p + own_p:.9g} + j{inj_q + own_q:.9g} pu, load - production + losses = {net_p + sum(conv['pl']):.9g} + j{net_q + sum(conv['ql']):.9g}"))
        if abs(buses[s].p_load_downstream - net_p) > 1e-9 or abs(buses[s].q_load_downstream - net_q) > 1e-9:
            viols.append(("ac.downstream", f"reference bus B{s}: accumulated downstream load {buses[s].p_load_downstream} + j{buses[s].q_load_downstream}, total load - production {net_p} + j{net_q}"))
    for l in range(1, n):
        if base["pl"][l] < 0 or base["ql"][l] < 0:
            viols.append(("ac.loss-negative", f"line L{l}: loss {base['pl'][l]} + j{base['ql'][l]} pu is negative"))
            break
    # ---- metamorphic
    tol_meta = 1e-9
    if case.get("order") is not None:
        _, b2, l2 = solve(case, order_seed=case["order"])
        d = maxdiff(base, result(b2, l2))
        if d > tol_meta:
            viols.append(("meta.order", f"same network, buses / lines created and added in another order: results differ by {d:.3g} pu"))
    if case.get("flip"):
        _, b2, l2 = solve(case, flip=tuple(case["flip"]))
        d = maxdiff(base, result(b2, l2))
        if d > tol_meta:
            viols.append(("meta.flip", f"same network with the stored direction of lines {case['flip']} reversed: results differ by {d:.3g} pu"))
    if case.get("flip") or case.get("order") is not None:
        # registered in a PowerSystem whose reference bus is flagged before the lines are added; lines next to the reference bus
        # stored toward it as well
        toward = tuple(set(case.get("flip") or ()) | {i for i in range(1, n) if case["parent"][i] == s and i % 2 == 1} | ({s} if s != 0 and s % 2 == 0 else set()))
        try:
            _, b2, l2 = solve_in_system(case, flip=toward)
            d = maxdiff(base, result(b2, l2))
            if d > tol_meta:
                viols.append(("meta.system", f"same network registered in a PowerSystem (reference bus flagged first, lines {sorted(toward)} stored the other way round): results differ by {d:.3g} pu"))
        except Exception as e:
            viols.append(("meta.system-raise", f"same network registered in a PowerSystem: {type(e).__name__}: {str(e)[:80]}"))
    if case.get("reroot") is not None and case["reroot"] != s:
        ss2, b2, l2 = solve(case, slack=case["reroot"])
        b2[case["reroot"]].is_slack = False
        b2[s].is_slack = True
        ss2.reset_load_flow_data()
        run_bfs_load_flow(ss2)
        d = maxdiff(base, result(b2, l2))
        if d > tol_meta:
            viols.append(("meta.reroot", f"network first solved from reference bus B{case['reroot']}, then from B{s}: results differ from a fresh solution from B{s} by {d:.3g} pu"))
    # repeated calculation: again from a flat start (identical), and again from the previous solution (same fixed point)
    ss.reset_load_flow_data()
    run_bfs_load_flow(ss)
    d = maxdiff(base, result(buses, lines))
    if d > tol_meta:
        viols.append(("meta.repeat", f"second calculation after reset_load_flow_data differs by {d:.3g} pu"))
    if regime:
        run_bfs_load_flow(ss)
        d = maxdiff(base, result(buses, lines))
        if d > TOL_5:
            viols.append(("meta.repeat-warm", f"calculation repeated from the previous solution moves the result by {d:.3g} pu"))
    maxdeg = max(sum(1 for v in range(n) if par.get(v) is not None and par[v][0] == u) for u in range(n))
    sig = (n, min(maxdeg, 4), s == 0, any(x > 0 for x in case["pg"]), regime, None if vmin is None else round(vmin, 1), bool(case.get("flip")), case.get("reroot") is not None)
    return dict(ops=ops, impl=impl, viols=viols[:4], nontrivial=sig if regime else None, tag=f"lf:n={n}:deg={min(maxdeg, 4)}:{'regime' if regime else 'outside-regime'}")


def compare(case, m, i):
    if not m or m[0] == "bad-op":
        return False
    mp, ip = m[0].split(" "), i[0].split(" ")
    if len(mp) != len(ip):
        return False
    mn, inn = mp[0].split(","), ip[0].split(",")
    if len(mn) != len(inn):
        return False
    for a, b in zip(mn, inn):
        fa, fb = a.split(":"), b.split(":")
        if fa[0] != fb[0]:
            return False
        for x, y in zip(fa[1:], fb[1:]):
            vx, vy = unbits(x), unbits(y)
            if not (abs(vx - vy) <= TOL_MODEL * max(1.0, abs(vy))):
                return False
    for x, y in zip(mp[1:], ip[1:]):
        vx, vy = unbits(x), unbits(y)
        if not (abs(vx - vy) <= TOL_MODEL * max(1.0, abs(vy))):
            return False
    return True


def gen(rng, n_cases, exhaustive_upto=0):
    cases = []
    def one(parent, heavy):
        n = len(parent)
        scale = rng.choice([0.01, 0.03, 0.06]) * (2.0 if heavy else 1.0) / max(1, n / 4)
        case = {"kind": "lf", "parent": parent,
                "p": [rng.choice([0.0, rng.uniform(0, scale)]) if rng.random() < 0.9 else scale for _ in range(n)],
                "q": [rng.uniform(0, scale / 2) for _ in range(n)],
                "pg": [rng.choice([0.0, 0.0, rng.uniform(0, 2 * scale)]) for _ in range(n)],
                "qg": [rng.choice([0.0, 0.0, 0.0, rng.uniform(0, scale / 2)]) for _ in range(n)],
                "r": [0.0] + [rng.uniform(0.001, 0.4) for _ in range(n - 1)],
                "x": [0.0] + [rng.uniform(0.001, 0.4) for _ in range(n - 1)],
                "slack": rng.randrange(n),
                "order": rng.randint(1, 10 ** 6) if rng.random() < 0.7 else None,
                "flip": sorted(rng.sample(range(1, n), rng.randint(1, n - 1))) if rng.random() < 0.7 else [],
                "reroot": rng.randrange(n) if rng.random() < 0.5 else None}
        one.count = getattr(one, "count", 0) + 1
        if n > 1 and one.count % 4 == 1:
            case["r"][rng.randrange(1, n)] = 0.0          # a line without resistance (series reactor): boundary value of the constructor
        if n > 1 and one.count % 4 == 2:
            g = rng.randrange(n)                       # a pure generator bus: production, no connected load at all
            case["p"][g] = 0.0; case["q"][g] = 0.0
            case["pg"][g] = rng.uniform(0.5 * scale, 2 * scale); case["qg"][g] = rng.choice([0.0, rng.uniform(0, scale / 2)])
        if n >= 4 and one.count % 4 == 0:
            pairs = [(a, b) for a in range(n) for b in range(a + 1, n) if case["parent"][b] != a and case["parent"][a] != b]
            if pairs:
                case["open_tie"] = list(rng.choice(pairs))
        if n > 1 and one.count % 8 == 3:
            case["x"][rng.randrange(1, n)] = 0.0          # ... or without reactance
        if n > 2 and one.count % 8 in (5, 6):
            # an end bus (or a whole tail) without any load or production: exactly zero flow on its line
            deg = [0] * n
            for i in range(1, n):
                deg[i] += 1; deg[parent[i]] += 1
            ends = [i for i in range(n) if deg[i] == 1 and i != case["slack"]]
            if ends:
                e = rng.choice(ends)
                zero = [e]
                nb = parent[e] if e != 0 and parent[e] >= 0 else next((i for i in range(1, n) if parent[i] == e), None)
                if nb is not None and deg[nb] == 2 and nb != case["slack"] and one.count % 8 == 6:
                    zero.append(nb)
                for z in zero:
                    case["p"][z] = case["q"][z] = case["pg"][z] = case["qg"][z] = 0.0
        return case
    from .c07 import all_trees
    for nb in range(2, exhaustive_upto + 1):
        for parent in all_trees(nb):
            for _ in range(2):
                cases.append(one(parent, False))
    for _ in range(n_cases):
        n = rng.randint(2, 12)
        shape = rng.random()
        if shape < 0.2:      # star: high-degree junctions
            hub = rng.randrange(n - 1) if n > 1 else 0
            parent = [-1] + [min(hub, i - 1) if rng.random() < 0.8 else rng.randint(0, i - 1) for i in range(1, n)]
        elif shape < 0.35:   # chain
            parent = [-1] + [i - 1 for i in range(1, n)]
        else:
            parent = [-1] + [rng.randint(0, i - 1) for i in range(1, n)]
        cases.append(one(parent, rng.random() < 0.3))
    return cases


def run(res):
    rng = random.Random(res.seed * 10061 + 97)
    nc, ex = (250, 4) if res.tier == "quick" else (6000, 6)
    res.rule = (f"every rooted tree shape with <= {ex} buses (twice, random data) plus random trees / stars / chains of 2..12 buses; line r, x in [0.001, 0.4] pu (every fourth case has a line with r = 0, every eighth one with x = 0; every fourth case has a generator bus without any load, every fourth a normally open line between two buses of the tree in its line list), "
                "loads up to 0.12 pu per bus, production up to twice the load scale (net exporters), random reference bus; 70% also rebuilt in a shuffled creation / insertion order, "
                "70% with a random subset of lines stored in the opposite direction, 50% solved first from another reference bus. "
                "non-trivial = distinct (buses, max. number of children, reference = first bus, production present, lowest voltage to 0.1, flips, reroot) among cases inside the regime V >= 0.85 pu")
    res.exhaustive = True
    run_cases(res, gen(rng, nc, ex), handler, compare)


def search(res):
    rng = random.Random(res.seed * 47 + 24)
    found = []
    for case in gen(rng, 400, 4):
        h = handler(case)
        for key, what in h["viols"]:
            found.append({"key": key, "what": what, "case": case})
        if len(found) > 6:
            break
    return found


def replay(obj):
    case = obj.get("case")
    if case is None:
        print("no failing input in this replay file:", obj.get("broken_proof_obligations"), str(obj.get("broken_correspondence", [])[:1])[:2000])
        return 1
    h = handler(case)
    for key, what in h["viols"]:
        print("FAILS:", key, what)
    return 1 if h["viols"] else 0
