"""C11  Batteries respect state-of-charge and power limits and conserve energy.

Correspondence: the real relsad Battery class driven with exact rationals (Fractions flow
through its arithmetic; the uniform draw is replaced by a replaying stub) against the Lean
model `Relsad.Model.Battery`, request by request, on generated request sequences.
Oracle: the envelope of the property evaluated on the real object in exact arithmetic.
"""
import random
from fractions import Fraction

from .common import fr, fb, rand_frac, run_cases

PROP = "C11"
LEVEL = "proof"
ASSUMPTIONS = [
    "exact-rational execution of the real Battery class (all parameters and requests are Fractions)",
    "numpy's uniform draw is replaced by a stub returning low + u*(high-low) for a generated u in [0,1]; the distribution of numpy draws is trusted",
    "theorems cover well-formed parameters (E_max>0, inj_p_max>0, inj_q_max>=0, 0<eta<=1, 0<=SOC_min<=SOC_max<=1) with the survival reserve not armed; outside: witness theorems + known findings",
]
INF = Fraction(10 ** 8)
MODES = ["none", "survival", "full", "limited"]


class _Rng:
    def __init__(self):
        self.u = Fraction(0)
        self.calls = []

    def uniform(self, low=0, high=1):
        x = low + self.u * (high - low)
        self.calls.append((low, high, x))
        return x


class _Net:
    def __init__(self, maxload):
        self.maxload = maxload

    def get_max_load(self):
        return self.maxload, Fraction(0)


def build(cfg):
    from relsad.network.components import Bus, Battery, MicrogridMode
    from relsad.Time import Time, TimeUnit
    bus = Bus("B1")
    rng = _Rng()
    F = Fraction
    b = Battery("Bat1", bus, inj_p_max=F(cfg["pMax"]), inj_q_max=F(cfg["qMax"]), E_max=F(cfg["eMax"]),
                SOC_min=F(cfg["socMin"]), SOC_max=F(cfg["socMax"]), n_battery=F(cfg["eta"]),
                SOC_start=F(cfg["soc0"]), random_instance=rng)
    mode = {"none": None, "survival": MicrogridMode.SURVIVAL, "full": MicrogridMode.FULL_SUPPORT,
            "limited": MicrogridMode.LIMITED_SUPPORT}[cfg["mode"]]
    b.set_mode(mode)
    bus.parent_network = _Net(F(cfg["maxLoad"]))
    b.remaining_survival_time = Time(F(cfg.get("remSurv", "0")), TimeUnit.HOUR)
    return bus, b, rng


def state_str(b):
    from relsad.network.components.Battery import BatteryState
    return f"{fr(b.E_battery)} {fr(b.SOC_min)} {fr(b.remaining_survival_time.get_hours())} {fb(b.state == BatteryState.ACTIVE)}"


def wf(cfg):
    F = Fraction
    # the constructor's messages require *positive* ratings/capacity; zero is rejected by a division in __init__
    return (F(cfg["pMax"]) > 0 and F(cfg["eMax"]) > 0 and 0 < F(cfg["eta"]) <= 1 and 0 <= F(cfg["socMin"]) <= F(cfg["socMax"]) <= 1
            and 0 <= F(cfg["qMax"]) and not (cfg["mode"] == "survival" and F(cfg.get("remSurv", "0")) > 0))


def system_case(case):
    """A real sequential run of a built system whose battery bus has a transformer that fails by itself (drawn inside the
    increment, not injected): in every increment in which the transformer is failed the battery's stored energy must not move."""
    import contextlib, io
    import numpy as np
    from relsad.simulation import Simulation
    from relsad.Time import Time, TimeStamp, TimeUnit
    from . import net, acct
    viols = []
    n = case["n_inc"]
    ps = net.build(dict(case["spec"], exact=False, nprof=n))
    for l in ps.lines:
        l.fail_rate_per_year = case["line_rate"]
        l.repair_time_dist = net.FixedDist(2.0)
    for bat in ps.batteries:
        bat.bus.fail_rate_per_year = case["trafo_rate"]
        bat.bus.repair_time_dist = net.FixedDist(case["rep"])
    sim = Simulation(ps, random_seed=case["seed"])
    drawn, start = {}, {}
    stat = {"fail": 0, "move": 0, "k": 0}
    for bat in ps.batteries:
        # the start level of a microgrid outage is drawn at random whatever the battery's state: not an exchange; the level drawn
        # is the reference from then on
        def draw(_b=bat, _orig=bat.draw_SOC_state):
            _orig()
            drawn[_b.name] = float(_b.E_battery)
        bat.draw_SOC_state = draw
    def close_increment(ps):
        for b in ps.batteries:
            if b.name in start:
                e0 = drawn.get(b.name, start[b.name]); e1 = float(b.E_battery)
                stat["fail"] += bool(b.bus.trafo_failed); stat["move"] += (e1 != e0)
                if b.bus.trafo_failed and abs(e1 - e0) > 1e-12:
                    viols.append(("battery.inactive-in-system", f"increment {stat['k']}: the transformer of the bus of battery {b.name} was failed, yet its stored energy went from {e0} to {e1} MWh (state {b.state.name})"))
            start[b.name] = float(b.E_battery)
        drawn.clear()
        stat["k"] += 1
    def cb(ps, prev_time, curr_time):
        close_increment(ps)
    with contextlib.redirect_stdout(io.StringIO()):
        sim.run_sequential(start_time=TimeStamp(), stop_time=TimeStamp(hour=n), time_step=Time(1, TimeUnit.HOUR), time_unit=TimeUnit.HOUR,
                           callback=cb, save_dir=acct.tmpdir("c11_sys"), save_flag=False)
    close_increment(ps)
    nfail, nmove = stat["fail"], stat["move"]
    return dict(ops=[], impl=[], viols=viols[:3], nontrivial=("system", min(nfail, 6), min(nmove, 6)) if nfail and nmove else None, tag="system")


def handler(case):
    from relsad.Time import Time, TimeUnit
    if case.get("kind") == "system":
        return system_case(case)
    cfg = case["cfg"]
    F = Fraction
    ops, impl, viols = [], [], []
    try:
        bus, b, rng = build(cfg)
    except Exception as e:
        return dict(ops=[], impl=[], viols=[("battery.construct", f"constructor raised {e!r} for {cfg}")] if wf(cfg) else [],
                    nontrivial=None, tag="construct-error")
    ops.append("bat new " + " ".join([fr(F(cfg[k])) for k in ("pMax", "qMax", "eMax", "socMin", "socMax", "eta")])
               + f" {cfg['mode']} {fr(F(cfg['maxLoad']))} {fr(b.E_battery)} {fr(b.SOC_min)} {fr(F(cfg.get('remSurv', '0')))}")
    impl.append("ok")
    well = wf(cfg)
    pM, qM, eM = F(cfg["pMax"]), F(cfg["qMax"]), F(cfg["eMax"])
    smin, smax, eta = F(cfg["socMin"]), F(cfg["socMax"]), F(cfg["eta"])
    sig = set()
    for i, r in enumerate(case["reqs"]):
        p, q, h, tf, first, u = F(r["p"]), F(r["q"]), F(r["h"]), r["tf"], r["first"], F(r["u"])
        # the step is written in hours, minutes or seconds in turn (the battery works with its length in hours)
        dt = [Time(h, TimeUnit.HOUR), Time(h * 60, TimeUnit.MINUTE), Time(h * 3600, TimeUnit.SECOND)][(i + len(case["reqs"])) % 3]
        bus.trafo_failed = tf
        b.update_fail_status(dt)
        ops.append(f"bat active {fb(not tf)}")
        impl.append(state_str(b))
        bus.pprod = bus.qprod = bus.pload = bus.qload = F(0)
        bus.pprod_pu = bus.qprod_pu = bus.pload_pu = bus.qload_pu = F(0)
        rng.u = u
        rng.calls = []
        e0 = b.E_battery
        fail_duration = dt if first else Time(2 * h + 1, TimeUnit.HOUR)
        # the model receives the drawn value itself
        lo, hi = b.E_min, smax * eM
        x = lo + u * (hi - lo)
        ops.append(f"bat upd {fr(p)} {fr(q)} {fr(h)} {fb(first)} {fr(x)}")
        try:
            pr, qr = b.update(p, q, fail_duration, dt)
        except ZeroDivisionError:
            impl.append("err divZero")
            if well:
                viols.append(("battery.divzero", f"request {i} (p={p}, q={q}, h={h}) raised ZeroDivisionError on {cfg}"))
            break
        drew = bool(rng.calls)
        if drew:
            e0 = rng.calls[0][2]
            if not (smin * eM <= e0 <= smax * eM):
                viols.append(("battery.draw-support", f"start level drawn from [{rng.calls[0][0]}, {rng.calls[0][1]}] with SOC_max={smax}, E_max={eM}: {e0} is outside the configured limits"))
        pprod, qprod, pload, qload = bus.pprod, bus.qprod, bus.pload, bus.qload
        impl.append(f"{state_str(b)} | {fr(pprod)} {fr(qprod)} {fr(pload)} {fr(qload)} {fr(pr)} {fr(qr)}")
        sig.add((p >= 0, q >= 0, tf, drew, pprod > 0, qprod > 0, pload > 0, b.E_battery == smax * eM, b.E_battery == smin * eM, abs(p) >= INF))
        if not well or (drew and viols):
            continue
        # ---- oracle: the envelope of the property, on the real object
        e1 = b.E_battery
        tag = f"cfg={ {k: cfg[k] for k in ('pMax','qMax','eMax','socMin','socMax','eta','mode')} } request {i}: p={p} q={q} h={h} from E={e0}"
        if tf:
            if (pprod, qprod, pload, qload) != (0, 0, 0, 0) or (pr, qr) != (p, q) or e1 != e0:
                viols.append(("battery.inactive", f"inactive battery exchanged power: {tag}"))
            continue
        if not (smin * eM <= e1 <= smax * eM):
            viols.append(("battery.soc", f"state of charge {e1 / eM} outside [{smin}, {smax}]: {tag}"))
        if not (0 <= pprod <= pM and 0 <= qprod <= qM and 0 <= pload <= pM and qload == 0 and pprod + qprod <= pM):
            viols.append(("battery.rating", f"injection outside ratings (pprod={pprod}, qprod={qprod}, pload={pload}): {tag}"))
        if (p >= 0 and pload != 0) or (p < 0 and pprod != 0) or (q < 0 and qprod != 0):
            viols.append(("battery.direction", f"power exchanged against the requested direction (pprod={pprod}, pload={pload}, qprod={qprod}): {tag}"))
        if e1 - e0 != eta * pload * h - (pprod + qprod) * h / eta:
            viols.append(("battery.energy", f"stored energy changed by {e1 - e0}, exchange implies {eta * pload * h - (pprod + qprod) * h / eta}: {tag}"))
        okp = (0 <= pr <= p) if p >= 0 else (p <= pr <= 0)
        okq = (0 <= qr <= q) if q >= 0 else (qr == q)
        if not (okp and okq):
            viols.append(("battery.remainder", f"remainder ({pr}, {qr}) not between 0 and the request: {tag}"))
    return dict(ops=ops, impl=impl, viols=viols[:3], nontrivial=tuple(sorted(sig)) if sig else None,
                tag=("wf" if well else "outside-wf") + ":" + cfg["mode"])


def gen_cfg(rng, well=True):
    pM = rng.choice([Fraction(1, 2), Fraction(1), Fraction(1, 4), rand_frac(rng, 0, 3), Fraction(0)])
    if well:
        qM = rng.choice([pM, pM / 2, Fraction(0), rand_frac(rng, 0, 1) * pM, pM * 2, rand_frac(rng, 0, 3)])
        eta = rng.choice([Fraction(1), Fraction(19, 20), Fraction(9, 10), Fraction(1, 2), rand_frac(rng, 0, 1) or Fraction(1, 3)])
        if eta <= 0:
            eta = Fraction(1, 7)
    else:
        qM = rng.choice([pM * 2, pM + 1, rand_frac(rng, 0, 4)])
        eta = rng.choice([Fraction(0), Fraction(0), Fraction(3, 2)])
    eM = rng.choice([Fraction(1), Fraction(2), Fraction(1, 2), rand_frac(rng, 0, 5) or Fraction(3)])
    if eM <= 0:
        eM = Fraction(3, 2)
    smin = rng.choice([Fraction(1, 10), Fraction(0), Fraction(1, 5), rand_frac(rng, 0, 1) / 2])
    smax = rng.choice([Fraction(1), Fraction(1), Fraction(9, 10), smin + (1 - smin) * rand_frac(rng, 0, 1), smin])
    soc0 = rng.choice([smin, smax, smin + (smax - smin) * rand_frac(rng, 0, 1)])
    mode = rng.choice(MODES)
    return {"pMax": str(pM), "qMax": str(qM), "eMax": str(eM), "socMin": str(smin), "socMax": str(smax), "eta": str(eta),
            "soc0": str(soc0), "mode": mode, "maxLoad": str(rand_frac(rng, 0, 1)), "remSurv": "0"}


def gen_req(rng, cfg):
    pM, qM = Fraction(cfg["pMax"]), Fraction(cfg["qMax"])
    def amount(M):
        c = rng.random()
        if c < 0.15: return Fraction(0)
        if c < 0.3: return M
        if c < 0.45: return M + rand_frac(rng, 0, 1)
        if c < 0.55: return M / 2
        return rand_frac(rng, 0, 2)
    p = amount(pM) * rng.choice([1, 1, -1])
    q = amount(qM) * rng.choice([1, 1, 1, -1])
    if rng.random() < 0.12:
        p, q = -INF, Fraction(0)
    if rng.random() < 0.05:
        p = -INF + rand_frac(rng, 0, 1)
    h = rng.choice([Fraction(1), Fraction(1, 2), Fraction(1, 4), Fraction(2), Fraction(0), rand_frac(rng, 0, 3), Fraction(1, 60)])
    return {"p": str(p), "q": str(q), "h": str(h), "tf": rng.random() < 0.1, "first": rng.random() < 0.25,
            "u": str(rng.choice([Fraction(0), Fraction(1), rand_frac(rng, 0, 1)]))}


def gen(rng, n):
    cases = []
    # fixed corpus: documentation battery, boundary requests
    doc = {"pMax": "1/2", "qMax": "1/2", "eMax": "1", "socMin": "1/10", "socMax": "1", "eta": "19/20", "soc0": "1/2",
           "mode": "none", "maxLoad": "0", "remSurv": "0"}
    cases.append({"cfg": doc, "reqs": [{"p": p, "q": q, "h": "1", "tf": False, "first": False, "u": "0"}
                                         for p, q in [("1/5", "1/10"), ("-100000000", "0"), ("1", "1"), ("2/5", "2/5"), ("-1/10", "3/10"), ("3/10", "-1/5"), ("-1", "-1"), ("0", "0")]]})
    for k in range(n):
        well = rng.random() < 0.8
        cfg = gen_cfg(rng, well)
        reqs = [gen_req(rng, cfg) for _ in range(rng.randint(1, 12 if k % 5 else 50))]
        cases.append({"cfg": cfg, "reqs": reqs})
    for k in range(max(3, n // 80)):
        # targeted: a large battery at (or a hair below) its ceiling, offered small surpluses in steps of seconds: the change of the
        # state of charge per step is far below 1e-6, yet nothing may be stored above the ceiling and the remainder must be reported
        smax = rng.choice([Fraction(9, 10), Fraction(1)])
        eM = rng.choice([Fraction(100), Fraction(50)])
        cfg = {"pMax": "1", "qMax": "1", "eMax": str(eM), "socMin": "1/10", "socMax": str(smax), "eta": str(rng.choice([Fraction(1), Fraction(19, 20)])),
               "soc0": str(smax - rng.choice([Fraction(0), Fraction(1, 10 ** 8)])), "mode": "none", "maxLoad": "0", "remSurv": "0"}
        reqs = [{"p": str(-rng.choice([Fraction(1, 5), Fraction(1, 10), Fraction(1, 2)])), "q": "0", "h": str(rng.choice([Fraction(1, 3600), Fraction(1, 1800)])),
                 "tf": False, "first": False, "u": "0"} for _ in range(rng.randint(6, 12))]
        cases.append({"cfg": cfg, "reqs": reqs})
    from . import net
    for k in range(max(4, n // 60)):
        # the battery inside a running system: its bus's transformer fails by itself and comes back several times
        spec = net.rand_feeder_spec(rng, max_lines=4, ctrl="manual", allow_tie=False, allow_mg=True)
        while not spec.get("mg"):
            spec = net.rand_feeder_spec(rng, max_lines=4, ctrl="manual", allow_tie=False, allow_mg=True)
        spec["mg"]["mode"] = rng.choice(["full", "limited", "survival"])
        spec["mg"]["battery"] = {"p": str(rng.choice([Fraction(1, 5), Fraction(1, 10)])), "q": "1/5", "e": str(rng.choice([6, 8])), "smin": "1/10", "smax": "1", "eta": str(rng.choice([Fraction(1), Fraction(19, 20)])),
                                 "soc_start": str(rng.choice([Fraction(1, 5), Fraction(1, 2)]))}
        cases.append({"kind": "system", "spec": spec, "n_inc": rng.choice([12, 16]), "seed": rng.randint(0, 10 ** 6),
                      "trafo_rate": rng.choice([1e9, 3000.0, 1e9]), "rep": rng.choice([2.0, 3.0]), "line_rate": rng.choice([0.0, 300.0])})
    return cases


def run(res):
    rng = random.Random(res.seed * 6151 + 11)
    n = 250 if res.tier == "quick" else 4000
    res.rule = ("request sequences (1-50 requests) on generated batteries: 80% well-formed, 20% outside WF (correspondence only); "
                "requests at/around ratings, both signs, -INF, zero step, transformer outages, first-increment draws; "
                "system: real sequential runs (12-16 increments) of built systems whose battery bus's transformer fails by itself (drawn inside the increment) and comes back several times: stored energy must not move in an increment in which the transformer is failed (the random start level of a microgrid outage is the reference when drawn); "
                "non-trivial/distinct = distinct set of (sign p, sign q, outage, drew, pprod>0, qprod>0, pload>0, hit SOC_max, hit SOC_min, INF) signatures per sequence")
    run_cases(res, gen(rng, n), handler)
    known_witnesses(res)


def known_witnesses(res):
    """Replay the witnesses of recorded findings on the real class."""
    from relsad.Time import Time
    w2 = {"cfg": {"pMax": "1/2", "qMax": "1/2", "eMax": "1", "socMin": "1/10", "socMax": "1", "eta": "1", "soc0": "1/5",
                  "mode": "survival", "maxLoad": "1/5", "remSurv": "4"},
          "reqs": [{"p": "1/10", "q": "0", "h": "1", "tf": False, "first": False, "u": "0"}]}
    bus, b, rng = build(w2["cfg"])
    e0 = b.E_battery
    pr, qr = b.update(Fraction(1, 10), Fraction(0), Time(5), Time(Fraction(1)))
    if b.E_battery > e0 or pr > Fraction(1, 10):
        res.violation("battery.survival-reserve", f"SURVIVAL reserve armed through the API (start_survival_time): a discharge request raised the stored energy from {e0} to {b.E_battery} and returned remainder {pr} > request 1/10", w2)


def search(res):
    rng = random.Random(res.seed * 31337 + 3)
    found = []
    for case in gen(rng, 1500 if res.tier == "quick" else 20000):
        h = handler(case)
        for key, what in h["viols"]:
            found.append({"key": key, "what": what, "case": case})
        if len(found) > 10:
            break
    return found


def replay(obj):
    case = obj.get("case")
    if case is None:
        print("no failing input in this replay file:", obj.get("broken_proof_obligations"), obj.get("broken_correspondence", [])[:2])
        return 1
    h = handler(case)
    print("case:", case)
    for o, i in zip(h["ops"], h["impl"]):
        print("  ", o, "=>", i)
    for key, what in h["viols"]:
        print("FAILS:", key, what)
    return 1 if h["viols"] else 0
