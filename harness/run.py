"""Entry point:  python -m harness.run Cxx [--tier quick|thorough] [--replay file]"""
import argparse
import importlib
import json
import os
import random
import sys
import time
import traceback

from . import common
from .common import Result, InternalError


def _install_cover(prop, seed):
    """VERIF_COVER=<dir>: record which lines of the implementation this check executes (tools/cover_report.py lists what no
    check reaches - candidates for new generator dimensions).  Measurement only; never part of a registered command."""
    import atexit
    out = os.environ["VERIF_COVER"]
    os.makedirs(out, exist_ok=True)
    root = os.path.join(common.REPO, "relsad") + os.sep
    mon = sys.monitoring
    tid = mon.COVERAGE_ID
    mon.use_tool_id(tid, "verif-cover")
    hit = set()

    def on_line(code, line):
        fn = code.co_filename
        if fn.startswith(root):
            hit.add((fn[len(root):], line))
        return mon.DISABLE
    mon.register_callback(tid, mon.events.LINE, on_line)
    mon.set_events(tid, mon.events.LINE)

    def dump():
        json.dump(sorted(hit), open(os.path.join(out, f"{prop}-{seed}-{os.getpid()}.json"), "w"))
    atexit.register(dump)


def main():
    ap = argparse.ArgumentParser()
    ap.add_argument("prop")
    ap.add_argument("--tier", default=os.environ.get("VERIF_TIER", "quick"))
    ap.add_argument("--replay", default=None)
    a = ap.parse_args()
    prop = a.prop.upper()
    tier = a.tier if a.tier in ("quick", "thorough") else "quick"
    try:
        seed = int(os.environ.get("VERIF_SEED", "0"))
    except ValueError:
        seed = 0
    common.setup_impl_path()
    common.ensure_dirs()
    if os.environ.get("VERIF_COVER") and hasattr(sys, "monitoring"):
        _install_cover(prop, seed)
    try:
        mod = importlib.import_module(f"harness.{prop.lower()}")
    except ModuleNotFoundError:
        print(f"no check for {prop}")
        return 2
    if a.replay:
        obj = json.load(open(a.replay))
        return mod.replay(obj)
    res = Result(prop, tier, seed)
    try:
        ok, log = common.lean_build()
        if not ok:
            print(log[-4000:])
            print("internal error: the Lean development does not build")
            return 2
        n_obl, n_dis, detail, problems = common.audit(prop)
        if tier == "thorough":
            problems += common.leanchecker(prop)
        mod.run(res)
        search = (lambda: mod.search(res)) if hasattr(mod, "search") else None
        code = common.decide(res, getattr(mod, "LEVEL", "proof"), n_obl, n_dis, detail, problems, search,
                             getattr(mod, "ASSUMPTIONS", ()))
        dt = time.time() - res.t0
        print(f"{prop} {tier} seed={seed}: theorems {n_dis}/{n_obl} audited, {res.evaluations} cases "
              f"({len(res.nontrivial)} distinct non-trivial), {len(res.disagreements)} model/impl disagreements, "
              f"{len(res.violations)} oracle failures (incl. known), {dt:.1f}s -> exit {code}")
        return code
    except InternalError as e:
        print("internal error:", e)
        return 2
    except Exception:
        traceback.print_exc()
        print("internal error in the check itself")
        return 2


if __name__ == "__main__":
    sys.exit(main())
