"""C05  Faulted lines are isolated: never re-energised from the feed while failed.

Correspondence: real built systems under manual control, exact rationals, scripted overlapping
line faults; every public field of every line / switch / section / controller is compared with
`Relsad.Model.Control` after every injected fault and after the control step of every increment.
Oracle (manual and ICT-based control): at each of those points, no failed line in service behind
a closed breaker, no open switch on an in-service line; a fault on an in-service line opens the
breaker of its network and of the attached microgrids at once, and they stay open for at least
the sectioning time.
"""
import math
import random
from fractions import Fraction

from .common import run_cases
from . import ctl, net

PROP = "C05"
LEVEL = "proof"
ASSUMPTIONS = [
    "the first state invariant (no failed line in service behind a closed breaker) is PROVED for every reachable state of every well-formed configuration of the manual switching model (C05.isolated_invariant); well-formedness (wfB) and the inductive invariant (invJ) are evaluated by the driver on every configuration extracted from a real system and on every visited state, and the check fails if either is ever false",
    "the second state invariant (an open disconnector / breaker never sits on a line in service) is PROVED as well for every reachable state (C05.switches_agree_invariant, ..._auto), under the additional structural clauses wfB2 (complete disconnector lists, one breaker per breaker line, a section lists all disconnectors of a line it touches), evaluated by the driver on every real configuration like wfB",
    "the automatic (ICT) control loops are modelled for sensors / intelligent switches that are in service (they never fail by themselves in the scenarios; what each controller can reach is read from the real ICT network in every increment and passed to the model) and compared state by state; device failures inside the control loop are exercised by C13 (state machines) and C16 (timing oracle) only",
    "a fault injected through the callback with repair time <= dt is repaired before the first control step (update_fail_status runs between callback and control loop); the 'breaker stays open for the sectioning time' clause is evaluated for faults still present at their first control step",
    "backup lines are outside the switching model (never faulted in these scenarios; closed/opened by island formation, see C04)",
]
F = Fraction


def handler(case):
    if case["kind"] == "auto":
        return auto_case(case)
    v, ops, impl, info = ctl.run_scenario(case)
    viols = oracle(case, v, info)
    sig = set()
    for r in info:
        if r["phase"] == "step":
            sig.add((tuple(sorted(k for k, o in r["cb_open"].items() if o)), len(r["failed"]), bool(r["normal"])))
    return dict(ops=ops, impl=impl, viols=viols[:3], nontrivial=tuple(sorted(sig, key=str)), tag=f"manual:mg={bool(case['spec'].get('mg'))}")


def oracle(case, v, info):
    viols = []
    T = F(case["spec"]["ctrl"]["T"]); dt = F(case["dt"])
    need = math.ceil(T / dt)
    trips = []          # (net name, increment of detection)
    prev_open = {n.name: False for n in v.nets}
    for r in info:
        for key, what in r.get("inv", []):
            viols.append((f"c05.{key}", f"increment {r['k']} ({r['phase']}): {what}"))
        if r["phase"] == "reset":
            trips = []; prev_open = {n.name: False for n in v.nets}
            if r["normal"]:
                viols.append(("c05.reset-not-normal", f"after reset_system the configuration is not the normal one: {r['normal'][:3]}"))
        if r["phase"] == "fail" and r["was_connected"]:
            l = v.ps.get_comp(r["line"])
            n = l.parent_network
            affected = [n] + list(getattr(n, "child_network_list", []))
            for a in affected:
                if not r["cb_open"][a.name]:
                    viols.append(("c05.trip", f"increment {r['k']}: fault on in-service line {r['line']} but breaker of {a.name} is not open"))
                elif not prev_open.get(a.name, False):
                    trips.append((a.name, r["k"], r["line"]))
        if r["phase"] in ("fail", "step"):
            prev_open = dict(r["cb_open"])
        if r["phase"] == "step" and r.get("open_no_reason") and not case.get("devfail_expected"):
            viols.append(("c05.open-without-reason", f"increment {r['k']}: breaker of {r['open_no_reason']} is open although its sectioning time has run out, "
                          "the section of its own line has no failed line and no survival hold applies"))
        if r["phase"] == "step":
            # a callback-injected fault whose repair time is <= dt is repaired by update_fail_status before the
            # first control step ever sees it: nothing is left to isolate, the trip is not counted
            trips = [(name, k0, ln) for (name, k0, ln) in trips if not (r["k"] == k0 and ln not in r["failed"])]
            for (name, k0, ln) in trips:
                if k0 <= r["k"] < k0 + need and not r["cb_open"][name]:
                    viols.append(("c05.reclose-early", f"breaker of {name} tripped in increment {k0} recloses in increment {r['k']}, before the sectioning time {T} h has elapsed (step {dt} h)"))
    return viols


def auto_case(case):
    """ICT-based control: the automatic loops of the model (`stepA`, reachability of every sensor / intelligent switch read from
    the real objects per increment) are compared state by state like the manual ones, plus the oracle."""
    v, ops, impl, info = ctl.run_scenario(case)
    viols = [(k.replace("c05.", "c05.auto-"), w) for k, w in oracle_auto(case, v, info)]
    if any(type(ctl.comp(v.ps, nm)).__name__ in ("Sensor", "IntelligentSwitch") for fl in case["faults"].values() for nm, _ in fl):
        viols = [(k.replace("c05.auto-", "c05.auto-devfail."), w) for k, w in viols]
    sig = set()
    for r in info:
        if r["phase"] == "step":
            sig.add((tuple(sorted(k for k, o in r["cb_open"].items() if o)), len(r["failed"])))
    return dict(ops=ops, impl=impl, viols=viols[:3], nontrivial=("auto",) + tuple(sorted(sig, key=str)), tag="auto")


def oracle_auto(case, v, info):
    viols = []
    for r in info:
        for key, what in r.get("inv", []):
            viols.append((f"c05.{key}", f"increment {r['k']} ({r['phase']}): {what}"))
        if r["phase"] == "reset" and r["normal"]:
            viols.append(("c05.reset-not-normal", f"after reset_system the configuration is not the normal one: {r['normal'][:3]}"))
        if r["phase"] == "fail" and r["was_connected"]:
            n = v.ps.get_comp(r["line"]).parent_network
            for a in [n] + list(getattr(n, "child_network_list", [])):
                if not r["cb_open"][a.name]:
                    viols.append(("c05.trip", f"increment {r['k']}: fault on in-service line {r['line']} but breaker of {a.name} is not open"))
        if r["phase"] == "step" and r.get("open_no_reason") and not any(
                type(ctl.comp(v.ps, nm)).__name__ in ("Sensor", "IntelligentSwitch") for fl in case["faults"].values() for nm, _ in fl):
            # (C07.breaker_open_only_while_auto; devices failing by themselves raise false alarms that keep sections out: outside the model)
            viols.append(("c05.open-without-reason", f"increment {r['k']}: breaker of {r['open_no_reason']} is open although its sectioning time has run out, "
                          "the section of its own line has no failed line and no survival hold applies"))
    return viols


def gen(rng, n_manual, n_auto):
    cases = []
    for j in range(n_manual):
        c = ctl.gen_scenario(rng, max_lines=rng.choice([3, 5, 7]))
        if j % 4 == 0:
            # targeted class: the feeder breaker is held open by a long fault in its own (root) section, an attached
            # support-mode microgrid recloses after the sectioning time and energises the feeder, then a second line fails
            c = ctl.gen_scenario(rng, max_lines=rng.choice([3, 5]), nfeed=1)
            c["spec"]["mg"] = {"host": [0, rng.randrange(len(c["spec"]["feeders"][0]["parent"]))], "mode": rng.choice(["full", "limited"]),
                               "discon": rng.random() < 0.5, "n": 2, "battery": {"p": "1", "q": "1", "e": "2", "smin": "1/10", "smax": "1", "eta": "1"}}
            T = F(c["spec"]["ctrl"]["T"]); dt = F(c["dt"])
            nl = len(c["spec"]["feeders"][0]["parent"])
            k2 = 1 + math.ceil(T / dt) + rng.randint(1, 3)
            other = rng.randrange(nl)
            c["faults"] = {"1": [["F0L0", "6"]], str(k2): [[f"F0L{other}", str(rng.choice([F(1), F(2)]))]]}
            c["n_inc"] = k2 + int((T + 8) / dt) + 8
        if j % 6 == 0 and j % 4 != 0:
            # targeted: a silent fault.  Sections T = {L0}, U = {L1, L2, ...}, P = {Lp, ...} in a chain; a fault in U isolates U and
            # with it the boundary disconnector on P's first line, which goes out of service while P stays connected; that line
            # then fails while de-energised (nothing trips); U is repaired first: the inspection triggered by the repair has to
            # find the failed line before U is put back
            c = ctl.gen_scenario(rng, max_lines=3, nfeed=1, allow_mg=False)
            nu = rng.choice([2, 3]); npp = rng.choice([1, 2])
            nl = 1 + nu + npp
            fd = {"parent": [-1] + list(range(nl - 1)), "sw": [0, 1] + [0] * (nu - 1) + [1] + [0] * (npp - 1), "cust": [1] * nl, "load": ["1/50"] * nl, "cost": [1] * nl}
            c["spec"]["feeders"] = [fd]; c["spec"]["tie"] = None; c["spec"]["mg"] = None
            T = rng.choice([F(1), F(1, 2)]); dt = rng.choice([F(1), F(1, 2)])
            c["spec"]["ctrl"]["T"] = str(T); c["dt"] = str(dt)
            k1 = rng.randint(1, 2); k2 = k1 + math.ceil(T / dt) + rng.randint(1, 2)
            repU = (k2 - k1) * dt + rng.choice([2, 3]) * dt
            c["faults"] = {str(k1): [[f"F0L{rng.randint(1, nu)}", str(repU)]], str(k2): [[f"F0L{1 + nu}", str(repU + 8)]]}
            c["n_inc"] = k2 + int((repU + 8 + 2 * T) / dt) + 8
        if j % 12 == 2:
            # targeted: a sectioning time that is not a whole number of steps (the timer passes zero and goes negative in the pass in
            # which it runs out) and a second fault in another section while the breaker is still open for the first one
            c = ctl.gen_scenario(rng, max_lines=5, nfeed=1, allow_mg=False)
            fd = c["spec"]["feeders"][0]
            while len(fd["parent"]) < 3:
                fd["parent"].append(len(fd["parent"]) - 1)
                for key, v in (("sw", 1), ("cust", 1), ("load", "1/50"), ("cost", 1)):
                    fd[key].append(v)
            nl = len(fd["parent"])
            for i in range(1, nl):
                if fd["sw"][i] == 0:
                    fd["sw"][i] = rng.choice([1, 3])
            c["spec"]["tie"] = None
            dt = rng.choice([F(1), F(1, 2)]); c["dt"] = str(dt)
            T = dt * rng.choice([F(3, 2), F(5, 2), F(4, 3)]); c["spec"]["ctrl"]["T"] = str(T)
            a, b = rng.sample(range(1, nl), 2)
            k1 = rng.randint(1, 3)
            c["faults"] = {str(k1): [[f"F0L{a}", str(T + 6 * dt)]], str(k1 + 1): [[f"F0L{b}", str(T + 8 * dt)]]}
            c["n_inc"] = k1 + int((2 * T + 10 * dt + 4) / dt) + 8
        if j % 6 == 5:
            ctl.add_second(rng, c)       # two iterations on the same objects (reset_system between)
        if j % 6 == 3:
            c["unit"] = rng.choice([1, 2, 2, 4])      # the run's time unit is seconds / minutes / days while the sectioning time is written in hours
        if j % 6 == 1:
            c["spec"]["ctrl"]["T_unit"] = rng.choice([1, 2, 2, 4])      # ... or the sectioning time itself is written in seconds / minutes / days
        cases.append(c)
    for j in range(n_auto):
        c = ctl.gen_scenario(rng, max_lines=5, ctrl="main")
        c["kind"] = "auto"
        if j % 5 == 0:
            # targeted: a microgrid line without sensor fails (the controller has to count it by inspection at every poll)
            while not c["spec"].get("mg"):
                c = ctl.gen_scenario(rng, max_lines=5, ctrl="main"); c["kind"] = "auto"
            ln = f"ML{rng.randrange(c['spec']['mg'].get('n', 2))}"
            c["spec"]["ctrl"]["nodev"] = [f"S{ln}"]
            if F(c["spec"]["ctrl"]["T"]) == 0:
                c["spec"]["ctrl"]["T"] = "1"
            c["faults"] = {str(rng.randint(1, 4)): [[ln, str(rng.choice([F(3), F(4)]))]]}
            cases.append(c)
            continue
        if j % 5 == 1:
            # targeted: a line with disconnectors at both ends in the middle of a feeder (its one-line section hangs two levels
            # below the section of the feeder head), fully instrumented; a fault on it
            c["spec"]["feeders"] = [{"parent": [-1, 0, 1, 2] + ([3] if rng.random() < 0.5 else []), "sw": [rng.choice([0, 1]), 0, 3, 0] + [0], "cust": [1] * 5,
                                     "load": ["1/50"] * 5, "cost": [1] * 5}]
            fd = c["spec"]["feeders"][0]
            for key in ("sw", "cust", "load", "cost"):
                fd[key] = fd[key][:len(fd["parent"])]
            c["spec"]["tie"] = None; c["spec"]["mg"] = None
            c["faults"] = {str(rng.randint(1, 3)): [["F0L2", str(rng.choice([F(3), F(4)]))]]}
            cases.append(c)
            continue
        if j % 5 == 3:
            # targeted: a fault on a line without sensor is being sectioned by hand; meanwhile the main controller has a software
            # failure (cured by a new signal): its recovery time is handed to the sub-controllers with an open breaker, which keep
            # the larger value (model op `ctl swfail`)
            if F(c["spec"]["ctrl"]["T"]) == 0:
                c["spec"]["ctrl"]["T"] = "1"
            T = F(c["spec"]["ctrl"]["T"]); dt = F(c["dt"])
            c["spec"]["ctrl"]["new_signal"] = str(rng.choice([F(1, 1800), dt * 2, T + dt]))
            ps = net.build(c["spec"])
            names = [l.name for l in ps.lines if not l.is_backup]
            a = rng.choice(names)
            c["spec"]["ctrl"]["nodev"] = [f"S{a}"]
            k1 = rng.randint(1, 3)
            c["faults"] = {str(k1): [[a, str(rng.choice([F(3), F(4)]))]], str(k1 + rng.randint(1, max(1, math.ceil(T / dt) - 1))): [["C1", "sw"]]}
            cases.append(c)
            continue
        if j % 5 == 2:
            # targeted: a first fault on a line without sensor (sectioned by hand, the breaker stays open for the manual time),
            # a second fault on another line while that time is running
            if F(c["spec"]["ctrl"]["T"]) == 0:
                c["spec"]["ctrl"]["T"] = "1"
            T = F(c["spec"]["ctrl"]["T"]); dt = F(c["dt"])
            ps = net.build(c["spec"])
            names = [l.name for l in ps.lines if not l.is_backup and l.name.startswith("F0")]
            if len(names) >= 2:
                a, b = rng.sample(names, 2)
                c["spec"]["ctrl"]["nodev"] = [f"S{a}"]
                k1 = rng.randint(1, 3)
                c["faults"] = {str(k1): [[a, str(rng.choice([F(3), F(4)]))]], str(k1 + rng.randint(1, max(1, math.ceil(T / dt)))): [[b, str(rng.choice([F(2), F(3)]))]]}
                cases.append(c)
                continue
        if rng.random() < 0.4:       # partial instrumentation: lines without sensor, plain disconnectors
            from . import c06
            c["spec"]["ctrl"]["nodev"] = c06.missing_devices(rng, c["spec"])
            if c["spec"].get("mg") and rng.random() < 0.7:
                # a fault on a microgrid line without sensor, long enough to span the manual sectioning time
                ln = f"ML{rng.randrange(c['spec']['mg'].get('n', 2))}"
                if f"S{ln}" not in c["spec"]["ctrl"]["nodev"]:
                    c["spec"]["ctrl"]["nodev"].append(f"S{ln}")
                c["faults"] = {str(rng.randint(1, 4)): [[ln, str(rng.choice([F(3), F(4)]))]]}
                cases.append(c)
                continue
        if rng.random() < 0.6:
            # ICT network in which some sensors / intelligent switches cannot be reached (=> a manual sectioning time runs with
            # the breaker open), and a second fault in another place while that time is running or just when it runs out
            from . import c06
            if F(c["spec"]["ctrl"]["T"]) == 0:
                c["spec"]["ctrl"]["T"] = "1"
            c["spec"]["ctrl"]["ict"] = c06.fallible_ict(rng, c["spec"])
            T = F(c["spec"]["ctrl"]["T"]); dt = F(c["dt"])
            ps = net.build(c["spec"])
            names = [l.name for l in ps.lines if not l.is_backup]
            k1 = rng.randint(1, 3)
            k2 = k1 + rng.randint(1, math.ceil(T / dt) + 1)
            c["faults"] = {str(k1): [[rng.choice(names), str(rng.choice([F(3), F(4)]))]], str(k2): [[rng.choice(names), str(rng.choice([F(2), F(3)]))]]}
            if rng.random() < 0.3:
                c["faults"].setdefault(str(k2 + rng.randint(1, 3)), []).append([rng.choice(names), "2"])
        if c["kind"] == "auto" and rng.random() < 0.25:
            from . import c06
            c06.device_failures(rng, c)
        if j % 10 == 4:
            # targeted: a support-mode microgrid and a fault on a feeder line without sensor (the sectioning takes the manual time, during
            # which the microgrid must stay separated from the failed line)
            while not c["spec"].get("mg"):
                c = ctl.gen_scenario(rng, max_lines=5, ctrl="main"); c["kind"] = "auto"
            c["spec"]["mg"]["mode"] = rng.choice(["full", "limited"])
            hf = c["spec"]["mg"]["host"][0]          # a line of the feeder that hosts the microgrid
            nlf = len(c["spec"]["feeders"][hf]["parent"])
            ln = f"F{hf}L{rng.randrange(nlf)}"
            c["spec"]["ctrl"]["nodev"] = [f"S{ln}"]
            c["spec"]["ctrl"].pop("ict", None)
            if F(c["spec"]["ctrl"]["T"]) == 0:
                c["spec"]["ctrl"]["T"] = "1"
            c["faults"] = {str(rng.randint(1, 3)): [[ln, str(rng.choice([F(3), F(4)]))]]}
        if c["kind"] == "auto" and rng.random() < 0.3:
            # the main controller goes down for a while (the sub-controllers fall back on the manual loops) and comes back
            for _ in range(rng.choice([1, 2])):
                c["faults"].setdefault(str(rng.randint(1, 12)), []).append(["C1", str(rng.choice([F(1, 2), F(1), F(2), F(5, 2)]))])
        cases.append(c)
    for q in range(max(2, n_auto // 12)):
        # targeted: ICT-based control, a plain disconnector (no intelligent switch) on the breaker's own line; that line fails (the
        # breaker is held open); a second fault on a line without sensor starts a manual sectioning time shortly before the first
        # line is repaired: the root section is put back while the breaker still has to stay open
        c = ctl.gen_scenario(rng, max_lines=4, ctrl="main", nfeed=1, allow_mg=False)
        c["kind"] = "auto"
        fd = c["spec"]["feeders"][0]
        while len(fd["parent"]) < 3:
            fd["parent"].append(len(fd["parent"]) - 1)
            for key, v in (("sw", 1), ("cust", 1), ("load", "1/50"), ("cost", 1)):
                fd[key].append(v)
        fd["sw"][0] = 2
        x = rng.randrange(1, len(fd["parent"]))
        if fd["sw"][x] == 0:
            fd["sw"][x] = 1
        c["spec"]["tie"] = None; c["spec"]["mg"] = None
        c["spec"]["ctrl"].pop("ict", None)
        c["spec"]["ctrl"]["nodev"] = ["IF0L0b", f"SF0L{x}"]
        dt = F(c["dt"]); T = max(F(c["spec"]["ctrl"]["T"]), 2 * dt); c["spec"]["ctrl"]["T"] = str(T)
        k1 = rng.randint(1, 2); r1 = 4 * dt
        k2 = k1 + 4 + (q % 2 if T >= 2 * dt and T > 1 else 0)
        c["faults"] = {str(k1): [["F0L0", str(r1)]], str(k2): [[f"F0L{x}", str(T + 6 * dt)]]}
        c["n_inc"] = k2 + int((2 * T + 8 * dt + 6) / dt) + 8
        cases.append(c)
    for q in range(max(2, n_auto // 10)):
        # targeted: the silent fault under ICT-based control (fully instrumented, with and without an ICT network).  Chain
        # T = {L0} | U = {L1, ...} | P = {Lp, ...}; a fault in U is isolated at once and the breaker recloses; the first line of P
        # (which carries the boundary disconnector and is out of service) then fails silently; U is repaired first: the sensors
        # have to report P's line before U is put back
        c = ctl.gen_scenario(rng, max_lines=3, ctrl="main", nfeed=1, allow_mg=False)
        c["kind"] = "auto"
        nu = rng.choice([2, 3]); npp = rng.choice([1, 2])
        nl = 1 + nu + npp
        fd = {"parent": [-1] + list(range(nl - 1)), "sw": [0, 1] + [0] * (nu - 1) + [1] + [0] * (npp - 1), "cust": [1] * nl, "load": ["1/50"] * nl, "cost": [1] * nl}
        c["spec"]["feeders"] = [fd]; c["spec"]["tie"] = None; c["spec"]["mg"] = None
        c["spec"]["ctrl"].pop("nodev", None); c["spec"]["ctrl"].pop("ict", None)
        if q % 2 == 1:
            from . import c06
            ict = c06.fallible_ict(rng, c["spec"])
            names = [f"SF0L{i}" for i in range(nl)] + [f"IF0L{i}a" for i in range(nl)] + [f"IF0L{i}b" for i in range(nl)]
            ict["attach"] = {nm: rng.randrange(ict["n"]) for nm in names}
            c["spec"]["ctrl"]["ict"] = ict
        dt = rng.choice([F(1), F(1, 2)]); c["dt"] = str(dt)
        k1 = rng.randint(1, 2); k2 = k1 + rng.randint(1, 2)
        repU = (k2 - k1) * dt + rng.choice([2, 3]) * dt
        c["faults"] = {str(k1): [[f"F0L{rng.randint(1, nu)}", str(repU)]], str(k2): [[f"F0L{1 + nu}", str(repU + 6)]]}
        c["n_inc"] = k2 + int((repU + 6 + 2 * F(c["spec"]["ctrl"]["T"])) / dt) + 8
        cases.append(c)
    for q, c in enumerate([c for c in cases if c.get("kind") == "auto"]):
        if q % 7 == 3:
            c["unit"] = rng.choice([1, 2, 4])
    for q, c in enumerate([c for c in cases if c.get("kind") == "auto"]):
        if q % 7 == 6 and "second" not in c:
            ctl.add_second(rng, c)       # two iterations on the same objects under ICT-based control
    return cases


def run(res):
    rng = random.Random(res.seed * 7919 + 67)
    nm, na = (60, 20) if res.tier == "quick" else (1500, 400)
    res.rule = ("1-2 feeders of up to 7 lines with laterals, 0/1/2 disconnectors per line, optional tie and microgrid (all three modes), sectioning time in {0,1/2,1,3/2,2} h, "
                "steps 1, 1/2, 1/4 h, 1-4 overlapping line faults with repair 1/3..5/2 h at increments 1..12, quiet tail; manual control (model + oracle) and MainController (oracle; 60% with an ICT network in which ~20% of the devices are unreachable and a second fault while the manual sectioning time of the first is running). "
                "every sixth / seventh scenario runs two iterations on the same objects (the first cut short mid-outage, reset_system - model op 'ctl reset' -, then fresh faults). non-trivial = distinct set of (open breakers, number of failed lines, normal?) states per run")
    run_cases(res, gen(rng, nm, na), handler, compare)


def compare(case, m, i):
    return [ctl.strip_ok(x) for x in m] == i and all(ctl.model_flags(x)[:2] == "11" and ctl.model_flags(x)[3:6] == "111" for x in m)


def search(res):
    rng = random.Random(res.seed * 23 + 14)
    found = []
    for case in gen(rng, 150, 50):
        h = handler(case)
        for key, what in h["viols"]:
            found.append({"key": key, "what": what, "case": case})
        if len(found) > 6:
            break
    return found


def replay(obj):
    case = obj.get("case")
    if case is None:
        print("no failing input in this replay file:", obj.get("broken_proof_obligations"), str(obj.get("broken_correspondence", [])[:1])[:2000])
        return 1
    h = handler(case)
    for o, i in list(zip(h["ops"], h["impl"]))[:60]:
        print("  ", o[:100], "=>", i)
    for key, what in h["viols"]:
        print("FAILS:", key, what)
    return 1 if h["viols"] else 0
