"""C09  Every valid configuration simulates to completion on every entry point.

Generated valid configurations (component mix: batteries, production, EV parks with availability
tables in any row order and with tiny entries, microgrids in all modes, manual / automatic
control with and without ICT network, ties) are run through `run_sequential` and
`run_monte_carlo` (debug and pooled), with saving on and off, for start stamps at any hour and
minute, horizons crossing midnight, steps in several units, random failures with drawn repair
times.  Oracle: no exception escapes; with saving on, every written quantity has exactly one
record per logged increment / per iteration.
"""
import csv
import contextlib
import io
import os
import random
import traceback
from fractions import Fraction

import numpy as np

from .common import run_cases, REPO
from . import net, acct, c17

PROP = "C09"
LEVEL = "proof"
ASSUMPTIONS = [
    "PARTIAL by nature: totality of the Python program is only as complete as the error model; proved are the enumerated no-crash obligations on the models (table lookup for every hour of day, battery / EV requests, indices, at least one increment); pandas, the file system, matplotlib, CPython recursion depth (very deep feeders) and numerical failures of HiGHS are not modelled and are exercised by the runs only",
]
F = Fraction


def gen_spec(rng):
    ctrl = rng.choice(["manual", "manual", "main", "main-ict"])
    spec = net.rand_feeder_spec(rng, max_lines=5, ctrl="main" if ctrl != "manual" else "manual", allow_mg=True, allow_tie=True)
    gen_spec.cfg = getattr(gen_spec, "cfg", 0) + 1
    if gen_spec.cfg % 3 == 0:
        # several backup lines, also two between the same pair of feeders (a valid, meshed-but-radially-operated configuration)
        spec = net.rand_feeder_spec(rng, max_lines=5, ctrl="main" if ctrl != "manual" else "manual", allow_mg=rng.random() < 0.4, allow_tie=False, nfeed=rng.choice([2, 2, 3]))
        fds = spec["feeders"]; ties = []
        pair = rng.sample(range(len(fds)), 2)
        for k in range(rng.choice([2, 2, 3])):
            fa, fb_ = pair if k < 2 else rng.sample(range(len(fds)), 2)
            ties.append({"a": [fa, rng.randrange(len(fds[fa]["parent"]))], "b": [fb_, rng.randrange(len(fds[fb_]["parent"]))]})
            if rng.random() < 0.5:
                ties[-1]["open_at_build"] = True
        spec["tie"] = None; spec["ties"] = ties
    if ctrl == "main-ict":
        from . import c06
        spec["ctrl"]["ict"] = c06.fallible_ict(rng, spec)
    if ctrl != "manual":
        # a main controller that fails: hardware failures and software failures with every repair outcome (cured by the new
        # signal / by the reboot / manual repair), chosen in turn so that each path is taken in every run
        gen_spec.turn = getattr(gen_spec, "turn", 0) + 1
        p_new, p_reboot = [(None, None), (1.0, 0.0), (1.0, 1.0), (0.0, None)][gen_spec.turn % 4]
        spec["ctrl"]["hw_rate"] = rng.choice([0, 300]); spec["ctrl"]["sw_rate"] = rng.choice([800, 2500])
        if p_new is not None:
            spec["ctrl"]["p_new"] = p_new
        if p_reboot is not None:
            spec["ctrl"]["p_reboot"] = p_reboot
    for fd in spec["feeders"]:
        n = len(fd["parent"])
        if rng.random() < 0.5:
            k = rng.randrange(n)
            hours = list(range(24))
            if rng.random() < 0.5:
                rng.shuffle(hours) if rng.random() < 0.5 else hours.reverse()
            small = rng.random() < 0.3
            table = [str(rng.choice([F(0), F(1, 4), F(2, 5)]) if small else rng.choice([F(0), F(1), F(3), F(5, 2), F(8)])) for _ in range(24)]
            fd["ev"] = {str(k): {"hours": hours, "table": table, "v2g": rng.random() < 0.5}}
        if rng.random() < 0.3:
            fd["prod"] = {str(rng.randrange(n)): {"p": str(rng.choice([F(1, 100), F(1, 10)]))}}
    if spec.get("mg"):
        spec["mg"]["mode"] = rng.choice(["survival", "full", "limited"])
        if spec["mg"].get("battery") and rng.random() < 0.5:      # optional constructor argument: a given start level
            spec["mg"]["battery"]["soc_start"] = str(rng.choice([F(1, 2), F(3, 10), F(9, 10)]))
    return spec


def prepare(case):
    from relsad.simulation import Simulation
    from relsad.StatDist import StatDist, StatDistType, UniformParameters
    ps = net.build(dict(case["spec"], exact=False, nprof=case["nprof"]))
    for l in ps.lines:
        l.fail_rate_per_year = case["rate"]
        l.repair_time_dist = StatDist(StatDistType.UNIFORM_FLOAT, UniformParameters(min_val=1.0, max_val=case.get("rep_max", 4.0)))
    for il in getattr(ps, "ict_lines", []):
        # communication lines fail as well (a device may be unreachable in the very increment in which its controller polls it)
        il.fail_rate_per_year = case["rate"] * case.get("ict_factor", 1.0)
        il.repair_time_dist = StatDist(StatDistType.UNIFORM_FLOAT, UniformParameters(min_val=1.0, max_val=4.0))
    for b in ps.buses:
        if b.name != "B0" and case["trafo_rate"]:
            b.fail_rate_per_year = case["trafo_rate"]
            b.repair_time_dist = StatDist(StatDistType.UNIFORM_FLOAT, UniformParameters(min_val=1.0, max_val=3.0))
    return ps, Simulation(ps, random_seed=case["seed"])


def rows(path):
    with open(path) as f:
        return len(list(csv.reader(f))) - 1


def horizon_case(case):
    """a trivial fed system, no failures: every (step, unit, number of steps) must run to completion with exactly that many increments"""
    from relsad.simulation import Simulation
    from relsad.Time import Time, TimeStamp, TimeUnit
    viols = []
    u = case["unit"]; n = case["n"]
    dt_s = F(case["dt_s"])                       # step in seconds (exact)
    total_s = dt_s * n
    spec = {"ctrl": {"type": "manual", "T": "1"}, "feeders": [{"parent": [-1, 0], "sw": [3, 3], "cust": [1, 1], "load": ["1/20", "1/20"], "cost": [1, 1]}],
            "tie": None, "ties": [], "mg": None, "rep": "2", "exact": False, "nprof": case["nprof"]}
    ps = net.build(spec)
    sim = Simulation(ps, random_seed=0)
    sec = int(total_s)
    stop = TimeStamp(day=sec // 86400, hour=(sec % 86400) // 3600, minute=(sec % 3600) // 60, second=sec % 60)
    step = Time(float(dt_s / c17.FACT[u]), c17.U(u))
    count = [0]
    def cb(ps, prev_time, curr_time):
        count[0] += 1
    for mode in case["entries"]:
        count[0] = 0
        try:
            with contextlib.redirect_stdout(io.StringIO()):
                if mode == "seq":
                    sim.run_sequential(start_time=TimeStamp(), stop_time=stop, time_step=step, time_unit=c17.U(u), callback=cb, save_dir=acct.tmpdir("c09_h"), save_flag=False)
                else:
                    sim.run_monte_carlo(iterations=1, start_time=TimeStamp(), stop_time=stop, time_step=step, time_unit=c17.U(u), callback=cb,
                                        save_dir=acct.tmpdir("c09_h"), save_iterations=[], debug=True)
        except Exception as e:
            tb = traceback.extract_tb(e.__traceback__)
            where = next((f"{os.path.relpath(f.filename, REPO)}:{f.lineno}" for f in reversed(tb) if f.filename.startswith(REPO)), "?")
            viols.append((f"raise:{type(e).__name__}", f"{mode}: step {float(dt_s)} s written in {c17.U(u).name} x {n} steps raised {type(e).__name__}: {str(e)[:100]} at {where}"))
            continue
        if count[0] != n:
            viols.append(("horizon.count", f"{mode}: step {float(dt_s)} s written in {c17.U(u).name}, horizon of {n} steps: {count[0]} increments simulated"))
    return dict(ops=[], impl=[], viols=viols[:3], nontrivial=("horizon", u, str(dt_s), min(n, 40)), tag="horizon")


def handler(case):
    from relsad.Time import Time, TimeStamp, TimeUnit
    if case["kind"] == "horizon":
        return horizon_case(case)
    viols = []
    st = case["start"]; u = case["unit"]
    start = TimeStamp(day=st[0], hour=st[1], minute=st[2])
    total_min = st[0] * 1440 + st[1] * 60 + st[2] + int(F(case["hours"]) * 60)
    stop = TimeStamp(day=total_min // 1440, hour=(total_min % 1440) // 60, minute=total_min % 60)
    step = Time(float(F(case["dt"]) * 3600 / c17.FACT[u]), c17.U(u))
    kw = dict(start_time=start, stop_time=stop, time_step=step, time_unit=c17.U(u))
    if case.get("midnight_faults"):
        # through the documented callback: a short line fault that begins in every increment that ends at a midnight
        dth = F(case["dt"])
        def cb(ps, prev_time, curr_time):
            k = int(round(curr_time.get_hours() / float(dth)))
            if (F(st[1]) + F(st[2], 60) + k * dth) % 24 == 0:
                l = ps.lines[0]
                if not l.failed:
                    l.repair_time_dist = net.FixedDist(float(dth))
                    l.fail(curr_time - prev_time)
        kw["callback"] = cb
    sig = []
    shared = prepare(case) if case.get("same_object") else None
    for entry in case["entries"]:
        # (one Simulation object for all entry points of the case when same_object is set: a sequential run, then Monte Carlo runs)
        ps, sim = shared if shared is not None else prepare(case)
        d = acct.tmpdir("c09_" + entry.replace("/", "_"))
        mode, save = entry.split("/")
        save = save == "save"
        try:
            with contextlib.redirect_stdout(io.StringIO()):
                if mode == "seq":
                    sim.run_sequential(save_dir=d, save_flag=save, **kw)
                elif mode == "mc-debug":
                    sim.run_monte_carlo(iterations=3, save_iterations=[1, 3], save_dir=d, debug=True, save_flag=save, **kw)
                elif mode == "mc-wide":
                    # more worker processes than iterations
                    sim.run_monte_carlo(iterations=case.get("wide_iters", 2), save_iterations=[1], save_dir=d, n_procs=4, save_flag=save, **kw)
                else:
                    sim.run_monte_carlo(iterations=3, save_iterations=[2], save_dir=d, n_procs=2, save_flag=save, **kw)
        except Exception as e:
            tb = traceback.extract_tb(e.__traceback__)
            where = next((f"{os.path.relpath(f.filename, REPO)}:{f.lineno}" for f in reversed(tb) if f.filename.startswith(REPO)), "?")
            viols.append((f"raise:{type(e).__name__}@{where.split(':')[0]}", f"{entry} raised {type(e).__name__}: {str(e)[:100]} at {where} (start {st}, {case['hours']} h, step {case['dt']} h in unit {u})"))
            continue
        if save and mode == "seq":
            nlog = len(ps.history["ENS"])
            counts = {}
            for dp, _, fns in os.walk(os.path.join(d, "sequence")):
                for fn in fns:
                    counts[os.path.relpath(os.path.join(dp, fn), d)] = rows(os.path.join(dp, fn))
            bad = {k: v for k, v in counts.items() if v != nlog}
            if not counts and nlog:
                viols.append(("files.none", f"{entry}: nothing written although {nlog} increments were logged"))
            if bad:
                k = sorted(bad)[0]
                viols.append(("files.rows", f"{entry}: {len(bad)} of {len(counts)} files do not have one record per logged increment ({nlog}), e.g. {k}: {bad[k]}"))
            for need in ["bus/acc_p_energy_shed.csv", f"{ps.name}/ENS.csv"] + ([f"ev_parks/num_cars.csv"] if ps.ev_parks and nlog else []):
                if nlog and not os.path.exists(os.path.join(d, "sequence", need)):
                    viols.append(("files.missing", f"{entry}: sequence/{need} not written"))
            if nlog:
                for v_ in documented_files(ps, os.path.join(d, "sequence"), values=True):
                    viols.append((v_[0], f"{entry}: {v_[1]}"))
            sig.append(("seq", nlog > 0))
        if save and mode != "seq":
            mcdir = os.path.join(d, "monte_carlo")
            counts = {os.path.relpath(os.path.join(dp, fn), d): rows(os.path.join(dp, fn)) for dp, _, fns in os.walk(mcdir) for fn in fns}
            nit = case.get("wide_iters", 2) if mode == "mc-wide" else 3
            bad = {k: v for k, v in counts.items() if v != nit}
            if not counts:
                viols.append(("files.none", f"{entry}: no Monte Carlo result files written"))
            else:
                # every documented end-of-iteration quantity of the system, every network, every load point and every EV park
                NETQ = ["acc_p_energy_shed", "acc_q_energy_shed", "SAIFI", "SAIDI", "CAIDI", "ASAI", "ASUI", "ENS", "EV_Index", "EV_Interruption", "EV_Duration"]
                BUSQ = ["acc_p_energy_shed", "acc_q_energy_shed", "avg_outage_time", "acc_outage_time", "interruption_fraction", "acc_interruptions"]
                EVQ = ["acc_num_interruptions", "acc_exp_interruptions", "acc_exp_car_interruptions", "acc_interruption_duration", "acc_available_num_cars", "num_cars"]
                need = [(o.name, q) for o in [ps] + list(ps.child_network_list) for q in NETQ] + [(b.name, q) for b in ps.buses for q in BUSQ] \
                    + [(os.path.join(b.name, b.ev_park.name), q) for b in ps.buses if b.ev_park is not None for q in EVQ]
                missing = [f"{a}/{q}.csv" for a, q in need if os.path.join("monte_carlo", a, q + ".csv") not in counts]
                if missing:
                    viols.append(("files.missing", f"{entry}: {len(missing)} documented Monte Carlo files not written, e.g. monte_carlo/{missing[0]}"))
            if bad:
                k = sorted(bad)[0]
                viols.append(("files.rows", f"{entry}: {len(bad)} of {len(counts)} Monte Carlo files do not have one record per iteration, e.g. {k}: {bad[k]}"))
            # the sequence files of every saved iteration: one record per increment that iteration logged
            seqroot = os.path.join(d, "sequence")
            for it in sorted(os.listdir(seqroot)) if os.path.isdir(seqroot) else []:
                cts = {os.path.relpath(os.path.join(dp, fn), d): rows(os.path.join(dp, fn)) for dp, _, fns in os.walk(os.path.join(seqroot, it)) for fn in fns}
                ref = [v for k, v in cts.items() if k.endswith(os.path.join(ps.name, "ENS.csv"))]
                if ref and ref[0]:
                    for v_ in documented_files(ps, os.path.join(seqroot, it), values=False):
                        viols.append((v_[0], f"{entry}: saved iteration {it}: {v_[1]}"))
                if ref:
                    badr = {k: v for k, v in cts.items() if v != ref[0]}
                    if badr:
                        k = sorted(badr)[0]
                        viols.append(("files.rows-iteration", f"{entry}: saved iteration {it}: {len(badr)} of {len(cts)} sequence files do not have one record per logged increment ({ref[0]}), e.g. {k}: {badr[k]}"))
            sig.append((mode, len(counts) > 0))
    spec = case["spec"]
    nt = (spec["ctrl"]["type"], bool(spec["ctrl"].get("ict")), bool(spec.get("mg")), any("ev" in fd for fd in spec["feeders"]), case["unit"], tuple(sig))
    return dict(ops=[], impl=[], viols=viols[:3], nontrivial=nt, tag=f"{spec['ctrl']['type']}:unit={case['unit']}")


def documented_files(ps, root, values):
    """Every documented quantity of the system, of every child network and of every kind of component has its own file below
    `root` (<object or kind>/<quantity>.csv) with one column per object; with `values` the columns of the system and of the
    networks are compared with the histories the objects hold."""
    from relsad.network.components import MainController
    out = []
    groups = [(ps.name, [ps])] + [(n.name, [n]) for n in ps.child_network_list] + [
        ("bus", ps.buses), ("ev_parks", ps.ev_parks), ("battery", ps.batteries), ("line", ps.lines), ("circuitbreaker", ps.circuitbreakers),
        ("disconnector", ps.disconnectors), ("intelligent_switch", ps.intelligent_switches), ("sensor", ps.sensors),
        ("distribution_controllers", ps.controller.distribution_controllers), ("microgrid_controllers", ps.controller.microgrid_controllers),
        ("main_controller", [ps.controller] if isinstance(ps.controller, MainController) else []), ("ict_line", ps.ict_lines), ("ict_node", ps.ict_nodes)]
    for k, (dname, objs) in enumerate(groups):
        if not objs:
            continue
        for attr in objs[0].history:
            fn = os.path.join(root, dname, attr + ".csv")
            if not os.path.exists(fn):
                out.append(("files.missing", f"{os.path.relpath(fn, os.path.dirname(root))} not written (quantity {attr} of {dname})"))
                break
            with open(fn) as f:
                rd = list(csv.reader(f))
            if rd[0][1:] != [str(o) for o in objs]:
                out.append(("files.columns", f"{dname}/{attr}.csv has columns {rd[0][1:][:4]}, the objects are {[str(o) for o in objs][:4]}"))
                break
            if values and k <= len(ps.child_network_list):
                want = list(objs[0].history[attr].values())
                got = [r[1] for r in rd[1:]]
                try:
                    same = len(want) == len(got) and all(abs(float(g) - float(w)) <= 1e-9 * max(1.0, abs(float(w))) for g, w in zip(got, want))
                except (TypeError, ValueError):
                    same = len(want) == len(got)
                if not same:
                    out.append(("files.values", f"{dname}/{attr}.csv holds {got[:4]}..., the history of {dname} is {want[:4]}..."))
                    break
    return out[:2]


def gen(rng, n, nh=0):
    cases = []
    for _ in range(max(7, n // 2)):
        # several saved Monte Carlo iterations in one process with different failure histories, optional constructor
        # arguments in use (battery start level), EV parks: every saved iteration must have consistent sequence files
        spec = gen_spec(rng)
        while not spec.get("mg"):
            spec = gen_spec(rng)
        spec["mg"]["battery"] = dict(spec["mg"].get("battery") or {"p": "1", "q": "1", "e": "2", "smin": "1/10", "smax": "1", "eta": "1"})
        spec["mg"]["battery"]["soc_start"] = str(rng.choice([F(1, 2), F(3, 10), F(9, 10)]))
        cases.append({"kind": "run", "spec": spec, "unit": 3, "dt": "1", "hours": str(rng.choice([10, 16])), "nprof": 24,
                      "start": [0, rng.randint(0, 23), 0], "seed": rng.randint(0, 10 ** 6), "rate": rng.choice([600.0, 1500.0]),
                      "trafo_rate": 0.0, "entries": ["mc-debug/save"]})
    for _ in range(max(3, n // 5)):
        # two backup lines between the same two feeders and frequent faults: both qualify whenever a piece of one feeder is cut off
        spec = net.rand_feeder_spec(rng, max_lines=4, ctrl=rng.choice(["manual", "main"]), allow_mg=False, allow_tie=False, nfeed=2)
        fds = spec["feeders"]
        spec["tie"] = None
        spec["ties"] = [{"a": [0, len(fds[0]["parent"]) - 1], "b": [1, rng.randrange(len(fds[1]["parent"]))]},
                        {"a": [0, rng.randrange(len(fds[0]["parent"]))], "b": [1, len(fds[1]["parent"]) - 1], "open_at_build": True}]
        cases.append({"kind": "run", "spec": spec, "unit": 3, "dt": "1", "hours": "36", "nprof": 24, "start": [0, rng.randint(0, 23), 0],
                      "seed": rng.randint(0, 10 ** 6), "rate": 1500.0, "trafo_rate": 0.0, "entries": ["seq/nosave", "mc-debug/nosave"]})
    for q in range(max(4, n // 4)):
        # hourly steps reported in days / weeks over several midnights, EV parks, frequent failure onsets (the hour-of-day table of a
        # park is read at every onset; midnights written in days carry floating-point noise)
        spec = net.rand_feeder_spec(rng, max_lines=4, ctrl="manual", allow_mg=False, allow_tie=False, nfeed=1)
        fd = spec["feeders"][0]
        fd["ev"] = {str(rng.randrange(len(fd["parent"]))): {"hours": list(range(24)), "table": [str(rng.choice([F(1), F(3), F(5, 2)])) for _ in range(24)], "v2g": True}}
        cases.append({"kind": "run", "spec": spec, "unit": [4, 4, 5, 5][q % 4], "dt": "1", "hours": "124", "nprof": 24,
                      "start": [0, [22, 7, 2, 23][q % 4] if q < 4 else rng.randrange(24), 0], "seed": rng.randint(0, 10 ** 6), "rate": rng.choice([0.0, 300.0]), "trafo_rate": 0.0, "rep_max": 1.5, "midnight_faults": True,
                      "entries": ["seq/nosave", "mc-debug/nosave"][: 1 + q % 2]})
    for q in range(max(3, n // 5)):
        # ICT-based control with a microgrid whose sensors and switches sit behind communication lines that fail often: devices are
        # unreachable in increments in which their controller polls them
        from . import c06
        spec = net.rand_feeder_spec(rng, max_lines=3, ctrl="main", allow_mg=True, allow_tie=False, nfeed=1)
        while not spec.get("mg"):
            spec = net.rand_feeder_spec(rng, max_lines=3, ctrl="main", allow_mg=True, allow_tie=False, nfeed=1)
        spec["mg"]["n"] = rng.choice([1, 2, 3]); spec["mg"]["discon"] = True
        spec["mg"]["mode"] = ["survival", "full", "limited"][q % 3]
        ps_ = net.build(dict(spec, exact=True))
        names = [f"S{l.name}" for l in ps_.lines] + [f"I{d.name}" for d in ps_.disconnectors]
        # a star: the controller at node 0, every device on a node of its own behind its own line
        spec["ctrl"]["ict"] = {"n": len(names) + 1, "lines": [[0, i + 1] for i in range(len(names))], "attach": {nm: i + 1 for i, nm in enumerate(names)}}
        cases.append({"kind": "run", "spec": spec, "unit": 3, "dt": "1", "hours": "30", "nprof": 24, "start": [0, rng.randint(0, 23), 0],
                      "seed": rng.randint(0, 10 ** 6), "rate": 1500.0, "ict_factor": 3.0, "trafo_rate": 0.0, "entries": ["seq/save", "mc-debug/nosave"][: 1 + q % 2]})
    for q in range(max(2, n // 7)):
        # Monte Carlo with more workers than iterations (2 iterations / 1 iteration on 4 workers), saving on
        spec = gen_spec(rng)
        cases.append({"kind": "run", "spec": spec, "unit": 3, "dt": "1", "hours": "8", "nprof": 24, "start": [0, rng.randint(0, 23), 0],
                      "seed": rng.randint(0, 10 ** 6), "rate": 600.0, "trafo_rate": 0.0, "entries": ["mc-wide/save"], "wide_iters": [2, 1][q % 2]})
    for _ in range(nh):
        # steps that are not binary fractions of the reporting unit: 1 h in days / weeks, 20 / 10 / 6 min in hours, 1 s in hours ...
        u, dt_s = rng.choice([(4, 3600), (4, 1800), (5, 3600), (3, 1200), (3, 600), (3, 360), (3, 60), (2, 20), (2, 1), (3, 1), (4, 7200), (3, 3600), (2, 60)])
        k = rng.randint(1, 60)
        cases.append({"kind": "horizon", "unit": u, "dt_s": str(dt_s), "n": k, "nprof": rng.choice([k, 24, 2 * k]), "entries": rng.sample(["seq", "mc"], rng.choice([1, 2]))})
    for _ in range(n):
        spec = gen_spec(rng)
        u = rng.choice([3, 3, 2, 1, 4])
        dt = rng.choice([F(3), F(6)]) if u == 4 else rng.choice([F(1), F(1), F(1, 2)])
        hours = dt * rng.choice([6, 10, 24, 30]) if u != 4 else dt * rng.choice([8, 12])
        entries = rng.sample(["seq/save", "seq/nosave", "mc-debug/save", "mc-pool/save", "mc-debug/nosave"], 2)
        gen.count = getattr(gen, "count", 0) + 1
        cases.append({"kind": "run", "spec": spec, "unit": u, "dt": str(dt), "hours": str(hours), "nprof": rng.choice([24, int(hours / dt)]), "same_object": gen.count % 3 == 0,
                      "start": [rng.choice([0, 0, 1, 27]), rng.randint(0, 23), rng.choice([0, 0, 30, 45])], "seed": rng.randint(0, 10 ** 6),
                      "rate": rng.choice([0.0, 300.0, 1500.0]) / float(dt), "trafo_rate": rng.choice([0.0, 0.0, 400.0]) / float(dt), "entries": entries})
    return cases


def run(res):
    rng = random.Random(res.seed * 10061 + 97)
    n, nh = (14, 120) if res.tier == "quick" else (400, 4000)
    res.rule = ("valid configurations: 1-2 feeders (laterals, 0-2 disconnectors per line, ties), microgrids in all modes with batteries, production, EV parks whose 24-row "
                "tables are ascending / reversed / shuffled and include tiny parks, manual or MainController control with or without an ICT network (some devices without node); "
                "start stamps at any hour and minute (also day 27), horizons of 6-30 steps crossing midnight, steps 1/2, 1, 3, 6 h written in s / min / h / days, line and "
                "transformer failure rates 0-1500 /year with U(1,4) h repairs; two of {sequential, MC debug, MC pool} x {save, no save} per configuration. "
                "horizon: a trivial fed system without failures, steps of 1 s .. 2 h written in min / h / days / weeks (mostly not binary fractions of the unit) x 1..60 steps, sequential and MC debug: runs to completion with exactly that many increments. "
                "non-trivial = distinct (controller, ICT, microgrid, EV park, unit, entry points that logged something)")
    run_cases(res, gen(rng, n, nh), handler)


def search(res):
    rng = random.Random(res.seed * 47 + 24)
    found = []
    for case in gen(rng, 40, 400):
        h = handler(case)
        for key, what in h["viols"]:
            found.append({"key": key, "what": what, "case": case})
        if len(found) > 6:
            break
    return found


def replay(obj):
    case = obj.get("case")
    if case is None:
        print("no failing input in this replay file:", obj.get("broken_proof_obligations"), str(obj.get("broken_correspondence", [])[:1])[:2000])
        return 1
    h = handler(case)
    for key, what in h["viols"]:
        print("FAILS:", key, what)
    return 1 if h["viols"] else 0
