"""C12  EV parks charge and discharge only as their cars, table and V2G flag allow.

Correspondence: the real EVPark (cars are real Battery objects) on exact rationals, with the
availability table as Fractions and the uniform SOC draws replayed, against `Relsad.Model.EVPark`.
"""
import random
from fractions import Fraction

import numpy as np

from .common import fr, fb, flist, rand_frac, run_cases
from . import c17

PROP = "C12"
LEVEL = "proof"
ASSUMPTIONS = [
    "numpy's uniform SOC draws are replaced by a stub returning low + u*(high-low) for generated u in [0,1]",
    "exact-rational execution of the real EVPark / Battery classes",
]
F = Fraction


class Rng:
    def __init__(self):
        self.us = []
        self.calls = 0

    def uniform(self, low=0, high=1, size=None):
        self.calls += 1
        n = max(int(size), 0)
        us = (self.us + [F(1, 2)] * n)[:n]
        return [low + u * (high - low) for u in us]


def handler(case):
    with c17._Exact():
        return _handler(case)


def _handler(case):
    from relsad.network.components import Bus, EVPark
    from relsad.Table import Table
    from relsad.Time import Time, TimeUnit
    c = case["cfg"]
    tab = [F(x) for x in c["table"]]
    bus = Bus("B1")
    rng = Rng()
    viols = []
    # the table may list its hours in any order (c["order"]: the permutation of 0..23 in which the rows are written)
    order = c.get("order") or list(range(24))
    park = EVPark("EV1", bus, num_ev_dist=Table(x=np.array(order), y=np.array([tab[h] for h in order], dtype=object)),
                  inj_p_max=F(c["pMax"]), inj_q_max=F(c["qMax"]), E_max=F(c["eMax"]), SOC_min=F(c["socMin"]),
                  SOC_max=F(c["socMax"]), n_battery=F(c["eta"]), v2g_flag=c["v2g"])
    park.ps_random = rng
    ops = [f"ev new {fr(F(c['pMax']))} {fr(F(c['qMax']))} {fr(F(c['eMax']))} {fr(F(c['socMin']))} {fr(F(c['socMax']))} {fr(F(c['eta']))} {fb(c['v2g'])} {park.num_cars}"]
    impl = ["ok"]
    sig = set()
    discharged = False
    smin, smax, eM, pM = F(c["socMin"]), F(c["socMax"]), F(c["eMax"]), F(c["pMax"])
    for i_req, st in enumerate(case["steps"]):
        if st["op"] == "upd":
            p, q, h, first, hour = F(st["p"]), F(st["q"]), F(st["h"]), st["first"], st["hour"]
            us = [F(u) for u in st["us"]]
            rng.us = us
            socs = [smin + u * (smax - smin) for u in us]
            # the step as the simulator hands it over: written in the run's unit (hours, minutes or seconds in turn), the duration of
            # the disturbance accumulated from Time(0) - which is in hours - by `+=`
            dt = [Time(h, TimeUnit.HOUR), Time(h * 60, TimeUnit.MINUTE), Time(h * 3600, TimeUnit.SECOND)][(i_req + len(case["steps"])) % 3]
            fd = Time(F(0))
            fd += dt
            if not first:
                fd += dt; fd += Time(1, TimeUnit.HOUR)
            bus.pprod = bus.qprod = bus.pload = bus.qload = F(0)
            ops.append(f"ev upd {fr(p)} {fr(q)} {fr(h)} {fb(first)} {fr(tab[hour])} {flist(socs)}")
            try:
                pr, qr = park.update(p=p, q=q, fail_duration=fd, dt=dt, hour_of_day=hour)
            except ZeroDivisionError as e:
                impl.append("err")
                viols.append(("ev.raise", f"EVPark.update raised {e!r}"))
                break
            impl.append(f"{flist([car.E_battery for car in park.available_cars])} {park.available_num_cars} {park.acc_available_num_cars} "
                        f"{fr(park.curr_p_demand)} {fr(park.curr_p_charge)} {fr(park.curr_q_charge)} {fr(pr)} {fr(qr)}")
            # ---- oracle
            if first:
                want = round(tab[hour])
                if park.available_num_cars != want or len(park.available_cars) != max(want, 0):
                    viols.append(("ev.count", f"hour {hour}: table prescribes {tab[hour]} -> {want} cars, park holds {len(park.available_cars)}"))
            for car in park.available_cars:
                if not (smin * eM <= car.E_battery <= smax * eM):
                    viols.append(("ev.car-soc", f"car state of charge {car.E_battery / eM} outside [{smin}, {smax}]"))
                    break
            net = p - pr
            if net != bus.pprod - bus.pload:
                viols.append(("ev.net", f"park net exchange {net} != sum over cars {bus.pprod - bus.pload}"))
            qM = F(c["qMax"])
            if bus.qprod > len(park.available_cars) * qM or bus.pprod > len(park.available_cars) * pM or bus.pload > len(park.available_cars) * pM:
                viols.append(("ev.rating", f"{len(park.available_cars)} cars rated {pM} MW / {qM} MVar each exchange {bus.pprod} MW out, {bus.pload} MW in, {bus.qprod} MVar out"))
            if park.curr_p_charge != bus.pload - bus.pprod:
                viols.append(("ev.reported-net", f"park reports a net exchange of {park.curr_p_charge} MW (curr_p_charge) but its cars exchanged {bus.pload - bus.pprod} MW in this increment"))
            if not c["v2g"] and park.curr_p_charge < 0:
                viols.append(("ev.v2g", f"V2G disabled but the park feeds {-park.curr_p_charge} MW into the grid"))
            if not c["v2g"] and bus.pprod > 0:
                viols.append(("ev.v2g-car", f"V2G disabled but a car produced active power {bus.pprod}"))
            if park.curr_p_charge < 0:
                discharged = True
            sig.add(("u", first, len(park.available_cars) > 0, p < 0, park.curr_p_charge < 0, park.curr_p_charge > 0))
        elif st["op"] == "reset":
            # between Monte Carlo iterations: reset_status with saving on or off
            ops.append("ev reset")
            park.reset_status(st["save"])
            stats = [park.park_interruption_fraction, park.curr_exp_interruptions, park.acc_exp_interruptions,
                     park.curr_exp_car_interruptions, park.acc_exp_car_interruptions,
                     park.curr_interruption_duration.get_hours(), park.acc_interruption_duration.get_hours()]
            impl.append(f"{flist([car.E_battery for car in park.available_cars])} {park.available_num_cars} {park.acc_available_num_cars} "
                        f"{fr(park.curr_p_demand)} {fr(park.curr_p_charge)} {fr(park.curr_q_charge)} | "
                        f"{park.num_consecutive_interruptions} {fr(stats[0])} {fr(stats[1])} {park.acc_num_interruptions} {fr(stats[2])} "
                        f"{fr(stats[3])} {fr(stats[4])} {fr(stats[5])} {fr(stats[6])}")
            discharged = False          # a new iteration: statistics stay zero until a car of this iteration is discharged
            sig.add(("r", st["save"]))
        else:
            dt = F(st["dt"])
            ops.append(f"ev log {fr(dt)}")
            try:
                park.update_history(Time(F(0), TimeUnit.HOUR), Time(dt, TimeUnit.HOUR), False)
            except ZeroDivisionError as e:
                impl.append("err")
                viols.append(("ev.zero-cars", f"update_history raised {e!r} (num_cars={park.num_cars})"))
                break
            stats = [park.park_interruption_fraction, park.curr_exp_interruptions, park.acc_exp_interruptions,
                     park.curr_exp_car_interruptions, park.acc_exp_car_interruptions,
                     park.curr_interruption_duration.get_hours(), park.acc_interruption_duration.get_hours()]
            impl.append(f"{park.num_consecutive_interruptions} {fr(stats[0])} {fr(stats[1])} {park.acc_num_interruptions} {fr(stats[2])} "
                        f"{fr(stats[3])} {fr(stats[4])} {fr(stats[5])} {fr(stats[6])}")
            if any(s < 0 for s in stats):
                viols.append(("ev.stats-negative", f"interruption statistics negative: {stats}"))
            if not discharged and (any(s != 0 for s in stats) or park.acc_num_interruptions or park.num_consecutive_interruptions):
                viols.append(("ev.stats-nonzero", f"statistics non-zero although no car was ever discharged: {stats}"))
            sig.add(("l", park.num_consecutive_interruptions > 0, park.acc_num_interruptions > 0, park.num_cars == 0))
    return dict(ops=ops, impl=impl, viols=viols[:3], nontrivial=tuple(sorted(sig, key=str)), tag=f"v2g={c['v2g']}")


def gen(rng, n):
    cases = []
    for _ in range(n):
        small = rng.random() < 0.3
        table = [rng.choice([F(0), F(1, 4), F(1, 2), F(3, 2), F(5, 2)]) if small else rng.choice([F(rng.randint(0, 6)), F(rng.randint(0, 12)) / 2, rand_frac(rng, 0, 8), F(7, 2)]) for _ in range(24)]
        if rng.random() < 0.1:
            table = [rng.choice([F(0), F(1, 4), F(2, 5)]) for _ in range(24)]
        smin = rng.choice([F(1, 5), F(0), F(1, 10)])
        order = list(range(24))
        r_ = rng.random()
        if r_ < 0.25:
            rng.shuffle(order)
        elif r_ < 0.4:
            order = order[6:] + order[:6]          # a day written from 06:00
        elif r_ < 0.5:
            order.reverse()
        cfg = {"order": order, "table": [str(x) for x in table], "pMax": str(rng.choice([F(9, 125), F(1, 10), F(1, 2)])), "qMax": str(rng.choice([F(9, 125), F(0), F(1, 10)])),
               "eMax": str(rng.choice([F(7, 10), F(1), F(1, 4)])), "socMin": str(smin), "socMax": str(rng.choice([F(9, 10), F(1), F(1, 2)])),
               "eta": str(rng.choice([F(19, 20), F(1), F(9, 10)])), "v2g": rng.random() < 0.5}
        steps = []
        started = False
        for _ in range(rng.randint(2, 14)):
            first = (not started) or rng.random() < 0.15
            started = True
            hour = rng.randrange(24)
            mag = rng.choice([F(0), rand_frac(rng, 0, 1), F(1, 20), F(2)])
            p = mag * rng.choice([1, 1, -1]) if rng.random() > 0.15 else F(-10 ** 8)
            q = rng.choice([F(0), F(0), rand_frac(rng, 0, 1) / 4, -rand_frac(rng, 0, 1) / 4])
            h = rng.choice([F(1), F(1, 2), F(1, 4), F(2)])
            steps.append({"op": "upd", "p": str(p), "q": str(q), "h": str(h), "first": first, "hour": hour,
                          "us": [str(rng.choice([F(0), F(1), rand_frac(rng, 0, 1)])) for _ in range(10)]})
            if rng.random() < 0.85:
                steps.append({"op": "log", "dt": str(h)})
        if len(cases) % 3 == 0:
            # a second iteration on the same object: the first ends while cars are being discharged (interruption still open),
            # reset_status (saving on / off), then requests that discharge nothing followed by logs
            steps.append({"op": "upd", "p": "2", "q": "0", "h": "1", "first": True, "hour": max(range(24), key=lambda i: table[i]),
                          "us": [str(F(1))] * 10})
            steps.append({"op": "log", "dt": "1"})
            steps.append({"op": "reset", "save": len(cases) % 2 == 0})
            for _ in range(rng.randint(1, 3)):
                steps.append({"op": "upd", "p": str(-rng.choice([F(1, 20), F(1, 2)])), "q": "0", "h": "1", "first": rng.random() < 0.5, "hour": rng.randrange(24),
                              "us": [str(rng.choice([F(0), F(1, 2)])) for _ in range(10)]})
                steps.append({"op": "log", "dt": "1"})
        cases.append({"cfg": cfg, "steps": steps})
    return cases


def run(res):
    rng = random.Random(res.seed * 2221 + 41)
    n = 150 if res.tier == "quick" else 2500
    res.rule = ("availability tables (rows in ascending, rotated, reversed or shuffled hour order) with entries 0..8 incl. x.5 values (half-to-even rounding) and tiny parks (all entries < 0.5), both V2G settings, "
                "balances of both signs incl. -INF, disturbances starting at every hour; update/log sequences; "
                "non-trivial = distinct set of (first, park non-empty, surplus, discharging, charging, interruption states) per sequence")
    run_cases(res, gen(rng, n), handler)


def search(res):
    rng = random.Random(res.seed * 83 + 4)
    found = []
    for case in gen(rng, 800):
        h = handler(case)
        for key, what in h["viols"]:
            found.append({"key": key, "what": what, "case": case})
        if len(found) > 10:
            break
    return found


def replay(obj):
    case = obj.get("case")
    if case is None:
        print("no failing input in this replay file:", obj.get("broken_proof_obligations"), obj.get("broken_correspondence", [])[:2])
        return 1
    h = handler(case)
    for o, i in zip(h["ops"], h["impl"]):
        print("  ", o, "=>", i)
    for key, what in h["viols"]:
        print("FAILS:", key, what)
    return 1 if h["viols"] else 0
