"""C06  After the last repair the network returns to normal and shedding stops.

Generated fault histories (manual control: model + implementation compared state by state;
ICT-based control incl. fallible ICT: implementation only) are followed by a quiet tail.  Oracle:
within ceil(T/dt) + 3 increments of the last repair the system is in its normal configuration
(all breakers closed, all sections and ordinary lines in service, all disconnectors closed, all
timers at zero, no failed-section entries) and stays there; nothing is shed any more.
"""
import math
import random
from fractions import Fraction

from .common import run_cases
from . import ctl, net

PROP = "C06"
LEVEL = "proof"
ASSUMPTIONS = [
    "proved for every reachable state of every well-formed configuration (manual and ICT-based control): a section is out of service only while it contains a failed line; once every line is repaired every section is in service and no controller lists a failed section (C06.out_of_service_only_with_reason / all_repaired_all_in_service); the normal configuration is a fixed point of a quiet increment; a sectioning timer runs out after exactly ceil(T/dt) quiet passes",
    "proved for manual control (C06.returns_to_normal): from every reachable state without failed lines the normal configuration is reached within ceil(T/dt)+2 increments, for every configuration satisfying wfB and wfB2 (both evaluated by the model driver on every configuration extracted from a real system in this run) with T >= 0; under ICT-based control the time to normal depends on the communication history and is decided on every generated history of this run by the correspondence and the end-of-tail oracle",
]
F = Fraction


def handler(case):
    v, ops, impl, info = ctl.run_scenario(case)
    viols = []
    T = F(case["spec"]["ctrl"]["T"]); dt = F(case["dt"])
    info = ctl.last_iteration(info)          # two-iteration scenarios: the second one has to come back to normal
    steps = [r for r in info if r["phase"] == "step"]
    # "every failed component has been repaired": lines, communication lines / nodes, and the devices of the control system
    last_failed = max([r["k"] for r in steps if r["failed"] or r.get("ict_failed") or r.get("dev_bad")] + [0])
    bound = math.ceil(T / dt) + 3
    normal_from = None
    for r in steps:
        if r["k"] > last_failed and not r["normal"]:
            normal_from = None
        elif r["k"] > last_failed and normal_from is None:
            normal_from = r["k"]
    end = steps[-1]
    if end["normal"] and end["k"] - last_failed < bound:
        case["_late"] = True          # the last repair (e.g. a sensor back from its manual repair) came too late in the run to judge the return
    elif end["normal"]:
        viols.append(("c06.not-normal", f"after the last repair (increment {last_failed}) and {end['k'] - last_failed} quiet increments: {end['normal'][:3]}"))
    elif normal_from is not None and last_failed and normal_from - last_failed > bound:
        viols.append(("c06.late", f"normal configuration reached {normal_from - last_failed} increments after the last repair, bound {bound}"))
    # C06.returns_to_normal_mixed on the implementation: in the first increment after which no line is failed, let M bound
    # the timers still running; ceil(M/dt)+2 increments later (manual or ICT-based, whatever the communication state) the
    # configuration is normal and stays normal.  (Not applicable when sensors / switches fail by themselves: polling a failed device adds to the timers, a sensor under repair keeps its section out.)
    last_line_failed = max([r["k"] for r in steps if r["failed"]] + [0])
    calm = [r for r in steps if r["k"] > last_line_failed]
    if calm and last_line_failed and ops and not getattr(v, "devtrouble", False):
        r0 = calm[0]
        M = max([F(0)] + [F(x) for x in r0["timers"].values()] + [F(x) for x in r0["ptimers"].values()])
        due = r0["k"] + math.ceil(M / dt) + 2
        for r in calm:
            if r["k"] >= due and r["normal"]:
                viols.append(("c06.late-mixed", f"no line failed since increment {r0['k']}, timers then at most {M} h: not normal in increment {r['k']} (due {due}): {r['normal'][:2]}"))
                break
    for b in v.ps.buses:
        if b.p_energy_shed_stack != 0:
            viols.append(("c06.still-shedding", f"{b.name} still sheds load at the end of the quiet period"))
    auto = case["spec"]["ctrl"]["type"] == "main"
    sig = (len(v.lines), last_failed > 0, (normal_from or 0) - last_failed, bool(case["spec"].get("mg")), auto)
    return dict(ops=ops, impl=impl, viols=viols[:3], nontrivial=sig, tag="auto" if auto else "manual")


def compare(case, m, i):
    if not m:
        return True
    # the model ends in the normal configuration, and the hypotheses of C06.returns_to_normal (wfB, wfB2 of the
    # configuration extracted from the real system; invJ of every state) hold as evaluated by the model driver
    return ([ctl.strip_ok(x) for x in m] == i and (ctl.model_flags(m[-1])[2] == "1" or case.get("_late"))
            and all(ctl.model_flags(x)[3:6] == "111" for x in m))


def missing_devices(rng, spec, p=0.25):
    """partial instrumentation: sensors / intelligent switches that are not installed at all"""
    ps = net.build(dict(spec, exact=True))
    names = [f"S{l.name}" for l in ps.lines] + [f"I{d.name}" for d in ps.disconnectors]
    return [nm for nm in names if rng.random() < p]


def device_failures(rng, c):
    """sensors / intelligent switches that fail by themselves (and are repaired by hand) around the power faults; such scenarios
    are oracle-only (the loop model assumes devices in service)"""
    ps = net.build(dict(c["spec"], exact=True))
    devs = [s_.name for s_ in ps.sensors] + [i_.name for i_ in ps.intelligent_switches]
    for k, fl in list(c["faults"].items()):
        for name, rep in list(fl):
            if name == ps.controller.name or type(ps.get_comp(name)).__name__ != "Line":
                continue
            own = [f"I{d.name}" for d in ps.get_comp(name).disconnectors if d.intelligent_switch is not None] + \
                  ([f"S{name}"] if ps.get_comp(name).sensor is not None else [])
            pick = rng.choice(own) if own and rng.random() < 0.6 else (rng.choice(devs) if devs else None)
            if pick:
                # fails shortly before the power fault, with a manual repair that outlasts the line's repair
                hard = "h" if (pick.startswith("S") and rng.random() < 0.5) else ""
                c["faults"].setdefault(str(max(1, int(k) - rng.choice([0, 1, 1, 2]))), []).append([pick, hard + str(rng.choice([F(3), F(6), F(8)]))])


def fallible_ict(rng, spec):
    """an ICT network for a MainController spec: a few nodes, devices attached at random (some not at all)"""
    ps = net.build(dict(spec, exact=True))
    names = [f"S{l.name}" for l in ps.lines] + [f"I{d.name}" for d in ps.disconnectors]
    n = rng.randint(2, 5)
    lines = [[i, rng.randrange(i)] for i in range(1, n)] + ([[0, n - 1]] if n > 2 and rng.random() < 0.5 else [])
    attach = {nm: rng.randrange(n) for nm in names if rng.random() < 0.8}
    return {"n": n, "lines": lines, "attach": attach}


def reclose_then_own_line(rng, c):
    """targeted history: a section away from the feeder head fails and is isolated, the breaker recloses; then the feeder's own
    first line fails and holds the breaker open; the first section's repair completes during that outage; the first line is
    repaired last"""
    fd = c["spec"]["feeders"][0]
    if len(fd["parent"]) < 2:
        return
    x = rng.randrange(1, len(fd["parent"]))
    fd["sw"][x] = rng.choice([1, 2, 3])
    Tq, dt = F(c["spec"]["ctrl"]["T"]), F(c["dt"])
    k1 = rng.randint(1, 2)
    k2 = k1 + math.ceil(Tq / dt) + rng.randint(2, 3)
    c["faults"] = {str(k1): [[f"F0L{x}", "3"]], str(k2): [["F0L0", "6"]]}
    c["n_inc"] = k2 + int((6 + 2 * Tq) / dt) + int((Tq + 3) / dt) + 8


def gen(rng, nm, na):
    cases = [ctl.gen_scenario(rng, max_lines=rng.choice([3, 5, 7])) for _ in range(nm)]
    for j, c in enumerate(cases):
        if j % 5 == 0:
            reclose_then_own_line(rng, c)
        if j % 6 == 4:
            ctl.add_second(rng, c)       # two iterations on the same objects (reset_system between), the first ends mid-outage
        if j % 6 == 2:
            # units: the run is written in seconds / minutes / days, or the sectioning time is
            if rng.random() < 0.5:
                c["unit"] = rng.choice([1, 2, 4])
            else:
                c["spec"]["ctrl"]["T_unit"] = rng.choice([1, 2, 4])
    for j in range(na):
        c = ctl.gen_scenario(rng, max_lines=5, ctrl="main")
        if j % 5 == 4:
            # targeted: a fully instrumented microgrid (ideal communication); a line inside it fails, is isolated (the microgrid's
            # breaker recloses) and repaired; right before the repair a sensor on a neighbouring microgrid line fails, so that the
            # poll that should put the repaired section back also has to revive that sensor
            while not c["spec"].get("mg"):
                c = ctl.gen_scenario(rng, max_lines=5, ctrl="main")
            c["spec"]["mg"]["n"] = rng.choice([2, 3]); c["spec"]["mg"]["discon"] = True
            c["spec"]["ctrl"].pop("nodev", None); c["spec"]["ctrl"].pop("ict", None)
            dtq = F(c["dt"]); k0 = rng.randint(1, 3); rep = rng.choice([F(2), F(3)])
            kr = k0 + math.ceil(rep / dtq)
            c["faults"] = {str(k0): [["ML1", str(rep)]], str(kr - rng.choice([0, 1, 1])): [["SML0", str(rng.choice([F(3), F(6)]))]]}
            if (j // 5) % 2 == 1:
                # the same in the feeder itself: a line with disconnectors at both ends fails and is repaired while the feeder breaker
                # is closed again; the sensor of another feeder line fails right before the repair
                fd = c["spec"]["feeders"][0]
                while len(fd["parent"]) < 3:
                    fd["parent"].append(len(fd["parent"]) - 1)
                    for key, v in (("sw", 3), ("cust", 1), ("load", "1/50"), ("cost", 1)):
                        fd[key].append(v)
                kk = rng.randrange(1, len(fd["parent"])); fd["sw"][kk] = 3
                other = rng.choice([x for x in range(len(fd["parent"])) if x != kk])
                c["faults"] = {str(k0): [[f"F0L{kk}", str(rep)]], str(kr - rng.choice([0, 1, 1])): [[f"SF0L{other}", str(rng.choice([F(3), F(6)]))]]}
            c["n_inc"] = kr + int((F(c["spec"]["ctrl"]["T"]) + 6) / dtq) + 10
            cases.append(c)
            continue
        if j % 10 == 6:
            # targeted: nested multi-line sections (not every line carries a switch), ideal communication; overlapping faults in a
            # section and in the section it feeds, the upstream one repaired first
            c["spec"]["ctrl"].pop("nodev", None); c["spec"]["ctrl"].pop("ict", None)
            npair = rng.choice([2, 3])
            nl = 2 + 2 * npair
            c["spec"]["feeders"] = [{"parent": [-1] + list(range(nl - 1)), "sw": [0, 0] + [1, 0] * npair, "cust": [1] * nl, "load": ["1/50"] * nl, "cost": [1] * nl}]
            c["spec"]["tie"] = None; c["spec"]["mg"] = None
            dtq = F(c["dt"]); k0 = rng.randint(1, 3)
            up = 2 + 2 * rng.randrange(npair - 1)            # first line of a section that feeds another one
            down = up + 2 + rng.choice([0, 1])
            c["faults"] = {str(k0): [[f"F0L{down}", str(rng.choice([F(6), F(8)]))]], str(k0 + rng.randint(1, 3)): [[f"F0L{up + rng.choice([0, 1])}", str(rng.choice([F(1), F(2)]))]]}
            c["n_inc"] = k0 + int((8 + 2 * F(c["spec"]["ctrl"]["T"]) + 6) / dtq) + 10
            cases.append(c)
            continue
        if j % 10 == 1:
            # targeted: ideal communication (no ICT network, sensors without node); the sensor of a line fails for good (retry and
            # reboot fail: manual repair) right before that line fails; the line is repaired first, the sensor comes back later:
            # its return has to make the controller poll the section again
            c["spec"]["ctrl"].pop("nodev", None); c["spec"]["ctrl"].pop("ict", None)
            dtq = F(c["dt"]); k0 = rng.randint(2, 4); rep = rng.choice([F(1), F(2)])
            fd = c["spec"]["feeders"][0]
            if len(fd["parent"]) < 2:
                fd["parent"].append(0)
                for key, v in (("sw", 3), ("cust", 1), ("load", "1/50"), ("cost", 1)):
                    fd[key].append(v)
            kk = rng.randrange(1, len(fd["parent"]))
            fd["sw"][kk] = 3                      # a section of its own, away from the breaker's
            ln = f"F0L{kk}"
            if F(c["spec"]["ctrl"]["T"]) == 0:
                c["spec"]["ctrl"]["T"] = "1"
            c["faults"] = {str(k0 - 1): [[f"S{ln}", "h" + str(rep + rng.choice([F(2), F(3)]))]], str(k0): [[ln, str(rep)]]}
            c["n_inc"] = k0 + int((rep + 4 + F(c["spec"]["ctrl"]["T"]) * 2 + 6) / dtq) + 10
            cases.append(c)
            continue
        if j % 5 == 3:
            # targeted: every device reaches the controller through an ICT line of its own; one line fault; the ICT line of an
            # intelligent switch on the faulted line is out of service around the increment in which the repaired section is put back
            from . import c16_timing
            spec, devices = c16_timing.build_case_spec(rng)
            fd = spec["feeders"][0]
            nl = len(fd["parent"])
            fl = rng.randrange(1, nl) if nl > 1 else 0
            ps_ = net.build(dict(spec, exact=True))
            sws = [f"I{d.name}" for d in ps_.get_comp(f"F0L{fl}").disconnectors if f"I{d.name}" in devices]
            if sws:
                dtq = F(rng.choice([F(1, 2), F(1, 4)])); k0 = rng.randint(2, 4); rep = rng.choice([F(2), F(3)])
                kr = k0 + math.ceil(rep / dtq)
                faults = {str(k0): [[f"F0L{fl}", str(rep)]]}
                faults.setdefault(str(max(1, kr - rng.choice([1, 2]))), []).append([f"IL{devices.index(rng.choice(sws))}", str(rng.choice([F(2), F(3)]))])
                Tq = F(spec["ctrl"]["T"])
                cases.append({"kind": "ctl", "spec": spec, "faults": faults, "dt": str(dtq), "n_inc": kr + int((Tq + 6) / dtq) + 10})
                continue
        if j % 5 == 2:
            # targeted (oracle only): the main controller has a software failure (cured by a new signal that takes longer than
            # one increment) some increments before a line fault; its recovery time must not keep the sub-controllers' timers running
            dtq = F(c["dt"])
            c["spec"]["ctrl"]["new_signal"] = str(dtq * rng.choice([2, 3]))
            k0 = rng.randint(1, 3)
            lines = [nm for fl in c["faults"].values() for nm, _ in fl]
            c["faults"] = {str(k0): [["C1", "sw"]], str(k0 + rng.randint(1, 4)): [[rng.choice(lines), str(rng.choice([F(1), F(2)]))]]}
            cases.append(c)
            continue
        if rng.random() < 0.4:
            c["spec"]["ctrl"]["nodev"] = missing_devices(rng, c["spec"])
        if rng.random() < 0.7:
            c["spec"]["ctrl"]["ict"] = fallible_ict(rng, c["spec"])
            if rng.random() < 0.85:
                # communication faults overlapping the power faults: an ICT line is out while sections are isolated / reconnected
                ict = c["spec"]["ctrl"]["ict"]
                dt = F(c["dt"])
                for k, fl in list(c["faults"].items()):
                    for name, rep in list(fl):
                        if name.startswith("I") or rng.random() < 0.2:
                            continue
                        # out of service around the increment in which the repaired line's section is reconnected
                        kr = int(k) + math.ceil(F(rep) / dt)
                        for _ in range(rng.choice([1, 1, 2])):
                            kk = max(1, kr - rng.choice([0, 1, 1, 2]))
                            c["faults"].setdefault(str(kk), []).append([f"IL{rng.randrange(len(ict['lines']))}", str(rng.choice([F(2), F(3), F(7, 2)]))])
        if j % 6 == 1:
            ctl.add_second(rng, c)
        if j % 6 == 5:
            if rng.random() < 0.5:
                c["unit"] = rng.choice([1, 2, 4])
            else:
                c["spec"]["ctrl"]["T_unit"] = rng.choice([1, 2, 4])
        if c["spec"]["ctrl"]["type"] == "main" and rng.random() < 0.4:
            device_failures(rng, c)
        if c["spec"]["ctrl"]["type"] == "main" and rng.random() < 0.3:
            # the main controller goes down for a while (manual fallback) and comes back
            for _ in range(rng.choice([1, 2])):
                c["faults"].setdefault(str(rng.randint(1, 12)), []).append(["C1", str(rng.choice([F(1, 2), F(1), F(2), F(5, 2)]))])
        cases.append(c)
    for q in range(max(2, na // 10)):
        # targeted: ICT-based control with ideal communication, a sensor on every line, sections of two lines whose boundary
        # disconnector has no intelligent switch (opening it takes the manual time, which is added to the outage time of every line
        # of the section, the healthy ones too); one fault in such a section, repaired, then quiet
        c = ctl.gen_scenario(rng, max_lines=3, ctrl="main", nfeed=1, allow_mg=False)
        npair = rng.choice([2, 3]); nl = 2 * npair
        c["spec"]["feeders"] = [{"parent": [-1] + list(range(nl - 1)), "sw": [0, 0] + [1, 0] * (npair - 1), "cust": [1] * nl, "load": ["1/50"] * nl, "cost": [1] * nl}]
        c["spec"]["tie"] = None; c["spec"]["mg"] = None
        c["spec"]["ctrl"].pop("ict", None)
        c["spec"]["ctrl"]["nodev"] = [f"IF0L{2 * i}a" for i in range(1, npair)]
        if F(c["spec"]["ctrl"]["T"]) == 0:
            c["spec"]["ctrl"]["T"] = "1"
        dtq = F(c["dt"]); k0 = rng.randint(1, 3)
        fl = rng.randrange(nl) if q % 2 else rng.choice([0, 1])
        c["faults"] = {str(k0): [[f"F0L{fl}", str(rng.choice([F(2), F(3)]))]]}
        c["n_inc"] = k0 + int((3 + 2 * F(c["spec"]["ctrl"]["T"]) + 6) / dtq) + 12
        cases.append(c)
    return cases


def run(res):
    rng = random.Random(res.seed * 10007 + 73)
    nm, na = (50, 50) if res.tier == "quick" else (1500, 1000)
    res.rule = ("fault histories as in C05 (1-4 overlapping line faults, microgrids in all modes, ties) followed by a quiet tail of ceil((T+3)/dt)+6 increments; "
                "manual control (model + implementation) and MainController with no ICT network or with a random ICT network in which ~20% of sensors / "
                "intelligent switches have no ICT node and communication lines fail and are repaired while sections are isolated / reconnected; 30% of the automatic scenarios also have sensors / intelligent switches that fail by themselves (oracle only). every sixth / seventh scenario runs two iterations on the same objects (the first cut short mid-outage, reset_system - model op 'ctl reset' -, then fresh faults). non-trivial = distinct (lines, any fault, increments until normal, microgrid, automatic)")
    run_cases(res, gen(rng, nm, na), handler, compare)


def search(res):
    rng = random.Random(res.seed * 31 + 16)
    found = []
    for case in gen(rng, 120, 60):
        h = handler(case)
        for key, what in h["viols"]:
            found.append({"key": key, "what": what, "case": case})
        if len(found) > 6:
            break
    return found


def replay(obj):
    case = obj.get("case")
    if case is None:
        print("no failing input in this replay file:", obj.get("broken_proof_obligations"), str(obj.get("broken_correspondence", [])[:1])[:2000])
        return 1
    h = handler(case)
    for key, what in h["viols"]:
        print("FAILS:", key, what)
    return 1 if h["viols"] else 0
