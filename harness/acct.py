"""Shared machinery for C01 / C10: the per-bus energy-not-supplied bookkeeping and the reliability
indices, real `Bus` objects on exact rationals against `Relsad.Model.BusAcct`, plus end-to-end
sequential runs of real (built) power systems whose logged histories and CSV files are checked
against the definitions.
"""
import csv
import os
import random
import shutil
from fractions import Fraction

import numpy as np

from .common import fr, fb, rand_frac, OUT
from . import c17, net

F = Fraction


class StubNet:
    def __init__(self, buses):
        self.buses = buses
        self.ev_parks = []

    def get_lines(self):
        return []


def bus_str(b):
    return " ".join([fr(b.pload), fr(b.qload), fr(b.p_energy_shed_stack), fr(b.q_energy_shed_stack), fr(b.acc_p_energy_shed),
                     fr(b.acc_q_energy_shed), fr(b.acc_outage_time.get_hours()), str(b.num_consecutive_interruptions),
                     fr(b.interruption_fraction), fr(b.curr_interruptions), fr(b.acc_interruptions)])


def kernel_handler(case):
    """Op sequences on N real buses; returns ops/impl and per-kind oracle failures tagged C01 / C10."""
    with c17._Exact():
        return _kernel(case)


def _kernel(case):
    from relsad.network.components import Bus
    from relsad.load.bus import CostFunction
    from relsad.Time import Time, TimeUnit
    from relsad.reliability.indices import SAIFI, SAIDI, CAIDI, ASUI, ASAI, ENS
    cust = case["cust"]
    buses = [Bus(f"B{i}", n_customers=c) for i, c in enumerate(cust)]
    for i, b in enumerate(buses):
        b.add_load_data(pload_data=[F(0)], qload_data=[F(0)], cost_function=CostFunction(A=1, B=1))
        # attributes the indices must not depend on (a load point may be the reference bus of an island,
        # carry storage, ...): set as the generator says
        b.is_slack = bool(case.get("slack", [False] * len(buses))[i])
    ops = ["acct new " + ",".join(str(c) for c in cust)]
    impl = ["ok"]
    v01, v10 = [], []
    t = F(0)
    logged = F(0)
    demand_acc = [F(0)] * len(buses)
    inc_demand = [F(0)] * len(buses)
    last_acc = [F(0)] * len(buses)
    sum_stacks = [F(0)] * len(buses)
    sig = set()
    u = case.get("unit", 3)
    for op in case["ops"]:
        k = op[0]
        if k == "set":
            _, i, p, q = op
            b = buses[i]
            b.pload_data[0] = [F(p)]; b.qload_data[0] = [F(q)]
            b.set_load_and_cost(0)
            inc_demand[i] = b.pload
            ops.append(f"acct set {i} {fr(F(p) * cust[i])} {fr(F(q) * cust[i])}")
            impl.append(bus_str(b))
        elif k == "add":
            _, i, p, q = op
            buses[i].add_load(F(p), F(q))
            inc_demand[i] += F(p)
            ops.append(f"acct add {i} {fr(F(p))} {fr(F(q))}")
            impl.append(bus_str(buses[i]))
        elif k == "stack":      # what shed_energy does with the LP result: a fraction of the load present
            _, i, fp, fq, h = op
            b = buses[i]
            p, q = F(fp) * b.pload, F(fq) * b.qload
            b.add_to_energy_shed_stack(p, q, Time(F(h), TimeUnit.HOUR))
            ops.append(f"acct stack {i} {fr(p)} {fr(q)} {fr(F(h))}")
            impl.append(bus_str(b))
        elif k == "shed":
            _, i, h = op
            buses[i].shed_load(Time(F(h), TimeUnit.HOUR))
            ops.append(f"acct shed {i} {fr(F(h))}")
            impl.append(bus_str(buses[i]))
        elif k == "log":
            _, h = op
            h = F(h)
            stacks = [b.p_energy_shed_stack for b in buses]
            prev = Time(t * 3600 / c17.FACT[u], c17.U(u))
            t += h
            logged += h
            curr = Time(t * 3600 / c17.FACT[u], c17.U(u))
            for i, b in enumerate(buses):
                # C01 oracle (per increment): 0 <= stack <= demand*h
                if stacks[i] < 0 or stacks[i] > inc_demand[i] * h:
                    v01.append(("acct.stack-bound", f"bus {i}: energy not supplied {stacks[i]} outside [0, demand*h = {inc_demand[i] * h}]"))
                sum_stacks[i] += stacks[i]
                demand_acc[i] += inc_demand[i] * h
                b.update_history(prev, curr, False)
                if b.acc_p_energy_shed < last_acc[i]:
                    v01.append(("acct.acc-decreases", f"bus {i}: cumulative energy not supplied fell from {last_acc[i]} to {b.acc_p_energy_shed}"))
                if b.acc_p_energy_shed != sum_stacks[i]:
                    v01.append(("acct.acc-sum", f"bus {i}: cumulative {b.acc_p_energy_shed} != sum of per-increment amounts {sum_stacks[i]}"))
                if b.acc_p_energy_shed > demand_acc[i]:
                    v01.append(("acct.acc-demand", f"bus {i}: cumulative {b.acc_p_energy_shed} exceeds energy demanded {demand_acc[i]}"))
                if b.p_energy_shed_stack != 0:
                    v01.append(("acct.stack-not-cleared", f"bus {i}: stack {b.p_energy_shed_stack} after logging"))
                if b.acc_outage_time.get_hours() > t or b.acc_outage_time.get_hours() < 0:
                    v10.append(("acct.outage-elapsed", f"bus {i}: accumulated outage time {b.acc_outage_time.get_hours()} h with {t} h elapsed"))
                last_acc[i] = b.acc_p_energy_shed
                inc_demand[i] = b.pload
                sig.add((stacks[i] > 0, b.num_consecutive_interruptions > 0, cust[i] == 0))
            ops.append(f"acct log {fr(h)}")
            impl.append(" | ".join(bus_str(b) for b in buses))
        elif k == "idx":
            _, lo, hi = op
            sub = buses[lo:hi]
            n = StubNet(sub)
            cur = Time(t * 3600 / c17.FACT[u], c17.U(u))
            vals = [SAIFI(n), SAIDI(n), CAIDI(n)]
            try:
                asui, asai = ASUI(n, cur), ASAI(n, cur)
                s_asui, s_asai = fr(asui), fr(asai)
            except ZeroDivisionError:
                asui = asai = None
                s_asui = s_asai = "err"
            ens = ENS(n)
            accq = sum(b.acc_q_energy_shed for b in sub)
            ops.append(f"acct idx {lo} {hi} {fr(t)}")
            impl.append(" ".join(fr(x) for x in vals) + f" {s_asui} {s_asai} {fr(ens)} {fr(accq)}")
            # C10 oracle: the definitions, recomputed from the per-load-point log
            N = sum(b.n_customers for b in sub)
            w = {"saifi": (sum(b.acc_interruptions * b.n_customers for b in sub) / N) if N else 0,
                 "saidi": (sum(b.acc_outage_time.get_hours() * b.n_customers for b in sub) / N) if N else 0}
            if vals[0] != w["saifi"] or vals[1] != w["saidi"]:
                v10.append(("idx.weighted", f"SAIFI/SAIDI {vals[0]}, {vals[1]} are not the customer-weighted averages {w['saifi']}, {w['saidi']}"))
            if abs(vals[0]) >= F(1, 10 ** 6) and vals[2] * vals[0] != vals[1]:
                v10.append(("idx.caidi", f"CAIDI*SAIFI = {vals[2] * vals[0]} != SAIDI = {vals[1]}"))
            if asui is not None:
                if asui + asai != 1 or not (0 <= asui <= 1):
                    v10.append(("idx.asui", f"ASUI={asui}, ASAI={asai}: must sum to one and lie in [0,1]"))
            elif t != 0:
                v10.append(("idx.raise", "ASUI raised although time has elapsed"))
            if ens != sum(b.acc_p_energy_shed for b in sub):
                v10.append(("idx.ens", f"ENS {ens} != sum of bus energies"))
            sig.add(("idx", N == 0, asui is None, vals[0] > 0))
    return dict(ops=ops, impl=impl, v01=v01[:3], v10=v10[:3], sig=tuple(sorted(sig, key=str)))


def gen_kernel(rng, n):
    cases = []
    for _ in range(n):
        nb = rng.randint(1, 5)
        cust = [rng.choice([0, 0, 1, 3, 10, 500]) for _ in range(nb)]
        if rng.random() < 0.1:
            cust = [0] * nb
        ops = []
        h = rng.choice([F(1), F(1, 2), F(1, 4), F(2)])
        for _ in range(rng.randint(1, 25)):
            if rng.random() < 0.1:
                h = rng.choice([F(1), F(1, 2), F(1, 4), F(2), F(0)])
            quiet = rng.random() < 0.15       # an increment without disturbance: loads are set, nothing is shed, nothing is logged
            for i in range(nb):
                ops.append(["set", i, str(rng.choice([F(0), F(1, 20), F(1, 50), rand_frac(rng, 0, 1), F(1, 10 ** 7)])), str(rng.choice([F(0), F(1, 40), rand_frac(rng, 0, 1)]))])
                if quiet:
                    continue
                if rng.random() < 0.12:
                    ops.append(["shed", i, str(h)])
                if rng.random() < 0.2:
                    ops.append(["add", i, str(rand_frac(rng, 0, 1)), str(F(0))])
                if rng.random() < 0.4:
                    ops.append(["stack", i, str(rng.choice([F(1), F(1), F(1, 2), rand_frac(rng, 0, 1), F(0)])), str(rng.choice([F(1), F(0), rand_frac(rng, 0, 1)])), str(h)])
            if not quiet:
                ops.append(["log", str(h)])
            if rng.random() < 0.5:
                lo = rng.randrange(nb); hi = rng.randint(lo + 1, nb)
                ops.append(["idx", lo, hi])
                ops.append(["idx", 0, nb])
        if rng.random() < 0.2:
            ops.insert(0, ["idx", 0, nb])
        cases.append({"kind": "kernel", "cust": cust, "ops": ops, "unit": rng.choice([3, 3, 2, 4, 1]),
                      "slack": [rng.random() < 0.3 for _ in range(nb)]})
    return cases


# ------------------------------------------------------------------ end-to-end

def rand_faults(rng, ps, n_inc, kinds=("line",), nmax=3):
    faults = {}
    for _ in range(rng.randint(1, nmax)):
        k = rng.randint(1, max(1, n_inc // 2))
        if "trafo" in kinds and rng.random() < 0.3:
            b = rng.choice([b for b in ps.buses if b.name != "B0"])
            faults.setdefault(k, []).append(["trafo", b.name, str(rng.choice([F(1), F(2), F(3, 2)]))])
        else:
            l = rng.choice(ps.lines)
            faults.setdefault(k, []).append(["line", l.name, str(rng.choice([F(1, 2), F(1), F(2), F(5, 2)]))])
    return {str(k): v for k, v in faults.items()}


def make_callback(faults, dt):
    def cb(ps, prev_time, curr_time):
        k = int(round(curr_time.get_hours() / float(dt)))
        for kind, name, rep in faults.get(str(k), []):
            c = ps.get_comp(name)
            if kind == "line" and not c.failed:
                c.repair_time_dist = net.FixedDist(float(F(rep)))
                c.fail(curr_time - prev_time)
            elif kind == "trafo" and not c.trafo_failed:
                c.repair_time_dist = net.FixedDist(float(F(rep)))
                c.trafo_fail(curr_time - prev_time)
    return cb


def e2e_run(case, observe=None, save_dir=None):
    """A real sequential run (floats, LP inside) of a built system with injected faults.
    `observe(ps, phase, info)` is called at phase boundaries (module attributes wrapped at run time)."""
    from relsad.simulation import Simulation
    from relsad.Time import Time, TimeStamp, TimeUnit
    spec = dict(case["spec"]); spec["exact"] = False
    n_inc = case["n_inc"]; dt = F(case["dt"])
    spec["nprof"] = n_inc
    ps = net.build(spec)
    sim = Simulation(ps, random_seed=0)
    sim.distribute_random_instance(np.random.default_rng(0))
    ps.create_sections()
    idx = np.arange(n_inc)
    ps.prepare_load_data(idx); ps.prepare_prod_data(idx)
    ps.initialize_sequence_history()
    for name, tr in (case.get("trafo_random") or {}).items():
        # a transformer that fails by itself (drawn inside the increment) with a fixed repair time, possibly shorter than a step
        b_ = ps.get_comp(name)
        b_.fail_rate_per_year = float(tr["rate"])
        b_.repair_time_dist = net.FixedDist(float(F(tr["rep"])))
    cb = make_callback(case["faults"], dt)
    orig_ush = ps.update_sequence_history
    orig_slc = ps.set_load_and_cost
    if observe is not None:
        def ush(prev_time, curr_time, save_flag):
            observe(ps, "before_log", {"prev": prev_time, "curr": curr_time})
            orig_ush(prev_time=prev_time, curr_time=curr_time, save_flag=save_flag)
            observe(ps, "after_log", {"prev": prev_time, "curr": curr_time})

        def slc(inc_idx):
            orig_slc(inc_idx=inc_idx)
            observe(ps, "after_set_load", {"inc": inc_idx})
        ps.update_sequence_history = ush
        ps.set_load_and_cost = slc
    from . import c17
    unit = case.get("unit", 3)                     # the run's time unit (the same instants written in s / min / h / d)
    times = np.array([float(dt * k * 3600 / c17.FACT[unit]) for k in range(1, n_inc + 1)])
    TU = c17.U(unit)
    iters = case.get("iters", 1)
    if iters > 1:
        # several Monte Carlo iterations on the same object, through the simulator's own run_iteration (reset_system in between)
        import contextlib, io
        for it in range(1, iters + 1):
            if observe is not None:
                orig_reset = None
            with contextlib.redirect_stdout(io.StringIO()):
                sim_run = sim.run_iteration
                # observe the state right after the reset, before the first increment of the iteration
                orig_ish = ps.initialize_sequence_history
                def ish(_orig=orig_ish, _it=it):
                    _orig()
                    if observe is not None:
                        observe(ps, "iteration_start", {"it": _it})
                ps.initialize_sequence_history = ish
                try:
                    sim_run(it=it, start_time=TimeStamp(), time_array=times, time_unit=TU, save_dir=None,
                            save_flag=False, random_seed=0, callback=cb)
                finally:
                    ps.initialize_sequence_history = orig_ish
        return ps, sim
    sim.run_sequence(TimeStamp(), times, TU, cb, case.get("save", True))
    if save_dir is not None:
        from relsad.simulation.sequence.history import save_sequence_history
        save_sequence_history(ps, TU, save_dir)
    return ps, sim


def gen_e2e(rng, n, kinds=("line", "trafo"), repeat=False):
    cases = []
    for _ in range(n):
        spec = net.rand_feeder_spec(rng, max_lines=5, allow_mg=True)
        if rng.random() < 0.5:
            # reactive demand independent of the active one (purely reactive load points, purely active ones) and
            # generation with active power only: load points that shed reactive energy without shedding active energy
            for fd in spec["feeders"]:
                nb = len(fd["parent"])
                fd["qload"] = [str(rng.choice([F(0), F(1, 40), F(1, 20), F(1, 100)])) for _ in range(nb)]
                if rng.random() < 0.4:
                    k = rng.randrange(nb)
                    fd["load"] = list(fd.get("load", ["1/20"] * nb)); fd["load"][k] = "0"
                    if fd["qload"][k] == "0":
                        fd["qload"][k] = "1/40"
                if rng.random() < 0.5 and not fd.get("prod"):
                    fd["prod"] = {str(rng.randrange(nb)): {"p": str(rng.choice([F(1, 20), F(1, 5), F(1)])), "q": "0"}}
        n_inc = rng.choice([8, 10, 12])
        dt = rng.choice([F(1), F(1, 2)])
        case = {"kind": "e2e", "spec": spec, "n_inc": n_inc, "dt": str(dt)}
        repeated = repeat and len(cases) % 4 == 3
        if repeated and not spec.get("mg"):
            spec["mg"] = {"host": [0, rng.randrange(len(spec["feeders"][0]["parent"]))], "mode": rng.choice(["survival", "full", "limited"]),
                          "discon": rng.random() < 0.5, "n": 2, "battery": {"p": "1", "q": "1", "e": "2", "smin": "1/10", "smax": "1", "eta": "1"}}
        if len(cases) % 6 == 0:
            # targeted: two or three V2G parks of different sizes in one network, cut off from the feed long enough for the smaller ones
            # to run empty (their interruption is completed while the outage goes on)
            fd = spec["feeders"][0]
            while len(fd["parent"]) < 3:
                fd["parent"].append(rng.randrange(len(fd["parent"])))
                for key, v in (("sw", 1), ("cust", 3), ("load", "1/20"), ("cost", 2)):
                    fd[key].append(v)
                if fd.get("cap"):
                    fd["cap"].append(None)
                if fd.get("qload"):
                    fd["qload"].append("1/40")
            idx = rng.sample(range(len(fd["parent"])), rng.choice([2, 3]))
            fd["ev"] = {str(i): {"hours": list(range(24)), "table": [str(v_)] * 24, "v2g": True} for i, v_ in zip(idx, [1, 6, 3])}
        if len(cases) % 6 == 4:
            case["unit"] = [2, 1, 4, 2, 2, 1][(len(cases) // 6) % 6]          # the run's time unit is not hours (minutes, seconds, days in turn)
        distbat = len(cases) % 5 == 2
        if distbat:
            # targeted: a battery on a bus of the distribution network itself (no microgrid mode); a fault upstream leaves it as the
            # source (reference bus) of an island
            fd = spec["feeders"][0]
            i0 = rng.randrange(len(fd["parent"]))
            fd["battery"] = {str(i0): {"p": str(rng.choice([F(1, 10), F(1, 2), F(1)])), "q": "1/2", "e": str(rng.choice([F(1, 2), F(2)])), "smin": "1/10", "smax": "1",
                                       "eta": str(rng.choice([F(1), F(19, 20)])), "soc_start": str(rng.choice([F(1, 2), F(9, 10)]))}}
        ps = net.build(dict(spec, exact=False))
        case["faults"] = rand_faults(rng, ps, n_inc, kinds)
        if distbat and "line" in kinds:
            up = i0
            while rng.random() < 0.5 and spec["feeders"][0]["parent"][up] >= 0:
                up = spec["feeders"][0]["parent"][up]
            case["faults"].setdefault(str(rng.randint(1, 3)), []).append(["line", f"F0L{up}", "3"])
        if repeat and len(cases) % 6 == 2 and not case.get("iters"):
            # targeted: a load point whose transformer fails by itself in (almost) every increment and is back within the same
            # increment (repair time shorter than the step), in a system that is otherwise quiet for a while; later a line fault
            b0 = rng.choice([b.name for b in ps.buses if b.name != "B0" and b.name.startswith("F")])
            case["trafo_random"] = {b0: {"rate": 1e9, "rep": str(dt / 2)}}
            case["faults"] = {str(rng.randint(5, 7)): [["line", rng.choice([l.name for l in ps.lines if not l.is_backup]), "2"]]}
            case["n_inc"] = max(case["n_inc"], 10)
        if len(cases) % 6 == 0 and "line" in kinds:
            case["faults"] = {str(rng.randint(1, 2)): [["line", "F0L0", "8"]]}
            case["n_inc"] = max(case["n_inc"], 12)
        if repeat and len(cases) % 6 == 5 and not case.get("iters"):
            # targeted: no failure for a while, a microgrid battery that recharges through a feeder whose first line cannot carry load
            # plus charging power: the shedding routine sheds in failure-free increments (which are logged because a battery is not full)
            spec["mg"] = {"host": [0, len(spec["feeders"][0]["parent"]) - 1], "mode": rng.choice(["full", "limited"]), "discon": False, "n": 2,
                          "battery": {"p": "1/2", "q": "1/2", "e": "3", "smin": "1/10", "smax": "1", "eta": "1"}}
            fd0 = spec["feeders"][0]
            fd0["cap"] = [str(rng.choice([F(1, 5), F(3, 10)]))] + [None] * (len(fd0["parent"]) - 1)
            ps = net.build(dict(spec, exact=False))
            case["faults"] = {str(rng.randint(7, 9)): [["line", "F0L0", "2"]]}
            case["n_inc"] = max(case["n_inc"], 12)
        if case.get("unit") and "line" in kinds:
            case["faults"].setdefault(str(rng.randint(1, 3)), []).append(["line", "F0L0", "2"])       # something is shed for sure
        if repeat and len(cases) % 4 == 1:
            # targeted: a pure storage bus (battery or EV park on a bus without load profile of its own) that charges for some
            # increments and is then cut off from the feed / loses its transformer
            if rng.random() < 0.5:
                spec["mg"] = {"host": [0, rng.randrange(len(spec["feeders"][0]["parent"]))], "mode": rng.choice(["full", "limited", "survival"]),
                              "discon": rng.random() < 0.5, "n": 2, "storage_only": True,
                              "battery": {"p": "1/2", "q": "1/2", "e": "2", "smin": "1/10", "smax": "1", "eta": "1"}}
                ps = net.build(dict(spec, exact=False))
                k0 = rng.randint(4, 6)
                case["faults"] = {str(k0): [rng.choice([["line", "ML0", "3"], ["trafo", "M0", "3"], ["line", "F0L0", "3"]])]}
            else:
                fd = spec["feeders"][0]
                i0 = rng.randrange(len(fd["parent"]))
                fd["noload"] = [i0]
                fd["ev"] = {str(i0): {"hours": list(range(24)), "table": [str(rng.choice([2, 3, 5])) for _ in range(24)], "v2g": rng.random() < 0.5}}
                ps = net.build(dict(spec, exact=False))
                case["faults"] = {str(rng.randint(2, 4)): [["line", "F0L0", "3"]], str(rng.randint(7, 8)): [["trafo", f"F0B{i0}", "2"]]}
            case["n_inc"] = max(case["n_inc"], 12)
        if repeated:
            # targeted: two or three Monte Carlo iterations on the same object (the simulator's run_iteration, reset in between),
            # with a fault inside the microgrid so that the microgrid's own accumulators are used in every iteration
            case["iters"] = rng.choice([2, 3])
            mgl = [l.name for l in ps.lines if l.name.startswith("ML")]
            case["faults"].setdefault(str(rng.randint(1, 3)), []).append(["line", rng.choice(mgl), "3"])
        cases.append(case)
    return cases


def read_csv_col(path):
    with open(path) as f:
        rows = list(csv.reader(f))
    return {float(r[0]): r[1] for r in rows[1:]}


_TMP_MADE = set()


def tmpdir(tag):
    """scratch directory under out/tmp, private to this process (checks may run side by side), removed at exit"""
    d = os.path.join(OUT, "tmp", f"{tag}-{os.getpid()}")
    shutil.rmtree(d, ignore_errors=True)
    os.makedirs(d, exist_ok=True)
    if not _TMP_MADE:
        import atexit
        me = os.getpid()
        atexit.register(lambda: [shutil.rmtree(x, ignore_errors=True) for x in list(_TMP_MADE)] if os.getpid() == me else None)
    _TMP_MADE.add(d)
    return d
