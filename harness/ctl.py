"""Shared machinery for the switching properties (C05 C06 C07 C14): runs real built systems under
manual control on exact rationals with scripted line faults (callback API), snapshots the public
state of every line / switch / section / controller right after the control step of every
increment (the method `run_control_loop` of the power system's controller is wrapped at run
time), and replays the same script on `Relsad.Model.Control`.
"""
import random
from fractions import Fraction

from .common import fr, flist
from . import net, c17

F = Fraction


class View:
    """index maps between the real objects and the model's numbering"""

    def __init__(self, ps):
        from relsad.network.systems import Transmission
        self.ps = ps
        self.lines = [l for l in ps.lines if not l.is_backup]
        self.li = {l.name: i for i, l in enumerate(self.lines)}
        self.discons = [d for d in ps.disconnectors if not d.line.is_backup]
        self.di = {d.name: i for i, d in enumerate(self.discons)}
        self.cbs = list(ps.circuitbreakers)
        self.ci = {c.name: i for i, c in enumerate(self.cbs)}
        self.nets = [n for n in ps.child_network_list if not isinstance(n, Transmission)]
        self.ni = {n.name: i for i, n in enumerate(self.nets)}
        self.secs = []
        self.sec_of_obj = {}
        for n in self.nets:
            for s in n.sections:
                self.sec_of_obj[id(s)] = len(self.secs)
                self.secs.append((n, s))

    def sec_index(self, s):
        if id(s) not in self.sec_of_obj:
            from .common import ImplBroken
            raise ImplBroken(f"a line refers to section {None if s is None else [l.name for l in s.lines]}, which is not among the sections of any network "
                             f"(sections: {[[l.name for l in x.lines] for _, x in self.secs]})")
        return self.sec_of_obj[id(s)]

    def cfg_op(self, T):
        def plus(xs):
            xs = list(xs)
            return "+".join(str(x) for x in xs) if xs else "-"
        ls = []
        for l in self.lines:
            cb = self.ci[l.circuitbreaker.name] if l.circuitbreaker is not None else "-"
            ls.append(f"{self.ni[l.parent_network.name]}:{cb}:{plus(self.di[d.name] for d in l.disconnectors)}:{self.sec_index(l.section)}")
        ss = []
        for n, s in self.secs:
            for x in s.switches:
                if x.name not in self.di and x.name not in self.ci:
                    from .common import ImplBroken
                    raise ImplBroken(f"section {[l.name for l in s.lines]} of {n.name} lists switch {x.name}, which sits on the backup line {x.line.name} "
                                     "(backup lines belong to no section)")
            sw = [("d%d" % self.di[x.name]) if x.name in self.di else ("c%d" % self.ci[x.name]) for x in s.switches]
            ss.append(f"{plus(self.li[l.name] for l in s.lines)}:{plus(sw)}")
        ns = []
        for n in self.nets:
            mode = {None: "-", "SURVIVAL": "s", "FULL_SUPPORT": "f", "LIMITED_SUPPORT": "l"}[getattr(getattr(n, "mode", None), "name", None)]
            parent = self.ni[n.distribution_network.name] if hasattr(n, "distribution_network") else "-"
            children = [self.ni[m.name] for m in getattr(n, "child_network_list", [])]
            ns.append(f"{self.li[n.connected_line.name]}:{self.ci[n.connected_line.circuitbreaker.name]}:"
                      f"{plus(self.li[l.name] for l in n.lines if not l.is_backup)}:{plus(self.sec_index(s) for s in n.sections)}:"
                      f"{plus(children)}:{mode}:{parent}")
        return (f"ctl cfg {fr(F(T))} {','.join(ls)} {','.join(str(self.li[d.line.name]) for d in self.discons) or '-'} "
                f"{','.join(str(self.li[c.line.name]) for c in self.cbs)} {','.join(ss)} {','.join(ns)}")

    def snapshot(self):
        from relsad.network.containers import SectionState
        def bits(xs):
            return "".join("1" if x else "0" for x in xs)
        ps = self.ps
        fs = []
        for n in self.nets:
            fs.append(",".join(str(self.sec_index(s)) for s in n.controller.failed_sections) or "-")
        st = {
            "F": bits(l.failed for l in self.lines), "C": bits(l.connected for l in self.lines),
            "R": flist([l.remaining_outage_time.get_hours() for l in self.lines]),
            "D": bits(d.is_open for d in self.discons), "B": bits(c.is_open for c in self.cbs),
            "S": bits(s.state == SectionState.CONNECTED for n, s in self.secs),
            "NF": bits(n.failed_line for n in self.nets),
            "T": flist([n.controller.sectioning_time.get_hours() for n in self.nets]),
            "P": flist([getattr(n.controller, "parent_sectioning_time", None).get_hours() if hasattr(n.controller, "parent_sectioning_time") else F(0) for n in self.nets]),
            "K": bits(n.controller.check_components for n in self.nets),
            "FS": ";".join(fs),
        }
        return st

    def invariants(self):
        """the observations of C05 on the real objects"""
        out = []
        for n in self.nets:
            if not n.connected_line.circuitbreaker.is_open:
                for l in n.lines:
                    if l.failed and l.connected:
                        out.append(("isolated", f"failed line {l.name} is in service while breaker {n.connected_line.circuitbreaker.name} of {n.name} is closed"))
        for sw in self.discons + self.cbs:
            if sw.is_open and sw.line.connected:
                out.append(("switch-agrees", f"switch {sw.name} is open but its line {sw.line.name} is reported in service"))
        return out

    def is_normal(self):
        from relsad.network.containers import SectionState
        from relsad.Time import Time
        bad = []
        for c in self.cbs:
            if c.is_open:
                bad.append(f"breaker {c.name} open")
        for d in self.discons:
            if d.is_open:
                bad.append(f"disconnector {d.name} open")
        for l in self.lines:
            if not l.connected:
                bad.append(f"line {l.name} out of service")
        for n, s in self.secs:
            if s.state != SectionState.CONNECTED:
                bad.append(f"section {[l.name for l in s.lines]} disconnected")
        for n in self.nets:
            if n.controller.sectioning_time > Time(0):
                bad.append(f"sectioning timer of {n.name} still running ({n.controller.sectioning_time})")
            if hasattr(n.controller, "parent_sectioning_time") and n.controller.parent_sectioning_time > Time(0):
                bad.append(f"parent sectioning timer of {n.name} still running")
            if n.controller.failed_sections:
                bad.append(f"{n.name} still lists failed sections")
        for l in self.ps.lines:
            if l.is_backup and l.connected:
                pass    # closed by island formation of this increment, reopened at the start of the next
        return bad


def show(st, ok=None):
    s = (f"F={st['F']} C={st['C']} R={st['R']} D={st['D']} B={st['B']} S={st['S']} NF={st['NF']} T={st['T']} P={st['P']} "
         f"K={st['K']} FS={st['FS']}")
    return s


def strip_ok(line):
    return line.rsplit(" ok=", 1)[0]


def model_flags(line):
    return line.rsplit(" ok=", 1)[1] if " ok=" in line else "???"


def comp(ps, name):
    """component by name; the main controller is addressed by its own name"""
    return ps.controller if name == ps.controller.name else ps.get_comp(name)


def run_scenario(case, observer=None):
    """Real run on exact rationals; returns (view, ops, impl, per-increment info)."""
    spec = dict(case["spec"]); spec["exact"] = True
    n_inc = case["n_inc"]; dt = F(case["dt"])
    ps = net.build(spec)
    faults = dict(case["faults"])
    ops, impl, info = [], [], []
    state = {"view": None, "k": 0, "devfail": False}
    from relsad.Time import Time

    def cb(ps, prev_time, curr_time):
        ps_ = ps
        v = state["view"]
        k = int(round(curr_time.get_hours() / dt))
        state["k"] = k
        if state.get("restore"):
            c_, rate_, rng_ = state.pop("restore")
            c_.software_fail_rate_per_year = rate_
            c_.ps_random = rng_
        for (name, rep) in faults.get(str(k), []):
            l = comp(ps_, name)
            kindname = type(l).__name__
            if kindname == "MainController" and str(rep) == "sw":
                # a software failure of the main controller in this increment, through the real draw (failure rate raised for one
                # increment, generator answering: no hardware failure, software failure, cured by the new signal).  The controller's
                # own recovery time is then handed to the sub-controllers with an open breaker (model: `ctl swfail <hours>`, emitted
                # right before the control step of this increment).
                if l.state.name == "OK":
                    state["restore"] = (l, l.software_fail_rate_per_year, l.ps_random)
                    l.software_fail_rate_per_year = 1e15
                    l.ps_random = net.SeqRng([1, 0, 1])
                    state["sw_pending"] = True
                continue
            if kindname == "MainController":
                # the main controller goes down for `rep` hours (hardware failure under manual repair): the sub-controllers
                # fall back on their manual loops meanwhile; the model follows with `ctl step` instead of `ctl astep`
                if l.state.name == "OK":
                    from relsad.network.components import ControllerState
                    l.state = ControllerState.REPAIR
                    l.remaining_repair_time = Time(F(rep))
                continue
            if kindname in ("Sensor", "IntelligentSwitch"):
                # a device of the automatic control fails (state FAILED, as a failure draw would set it); `rep` is its manual
                # repair time.  The model follows with `ctl dstep` (what each device will answer is read per increment).
                state["devtrouble"] = True
                if l.state.name == "OK":
                    hard = str(rep).startswith("h")        # a sensor whose new signal and reboot both fail: manual repair, false alarm meanwhile
                    l.manual_repair_time = Time(F(str(rep).lstrip("h")))
                    if hard and kindname == "Sensor":
                        l.ps_random = net.SeqRng([0, 0])
                    l.fail()
                continue
            if name.startswith(("IL", "IN")):       # communication line / node: not part of the switching model, no model op
                if not l.failed:
                    l.repair_time_dist = net.FixedDist(F(rep))
                    l.fail(curr_time - prev_time)
                continue
            if not l.failed:
                pre_conn = l.connected
                l.repair_time_dist = net.FixedDist(F(rep))
                l.fail(curr_time - prev_time)
                ops.append(f"ctl fail {v.li[name]} {fr(F(rep))}")
                impl.append(show(v.snapshot()))
                info.append({"k": k, "phase": "fail", "line": name, "was_connected": pre_conn, "inv": v.invariants(),
                             "cb_open": {n.name: n.connected_line.circuitbreaker.is_open for n in v.nets}})
    from relsad.simulation import Simulation
    from relsad.Time import TimeStamp, TimeUnit
    sim = Simulation(ps, random_seed=0)
    sim.distribute_random_instance(net.NoFailRng())
    net.prepare_exact(ps, n_inc)
    v = View(ps)
    state["view"] = v
    T = F(spec["ctrl"]["T"])
    ops.append(v.cfg_op(T))
    impl.append(show(v.snapshot()))
    info.append({"k": 0, "phase": "init", "inv": v.invariants()})
    orig_loop = ps.controller.run_control_loop

    def comm_bits():
        """what each network's controller can reach right now: per line its sensor, per disconnector its intelligent switch
        (read from the real objects with the real reachability routine, before the control loop runs)"""
        from relsad.topology.ICT.dfs import is_connected
        def reach(ctrl, dev):
            if dev is None:
                return False
            if ctrl.ict_node is None:
                return True
            if dev.ict_node is None:
                return False
            return bool(is_connected(node_1=ctrl.ict_node, node_2=dev.ict_node, network=ctrl.ict_network))
        rs = "".join("1" if reach(l.parent_network.controller, l.sensor) else "0" for l in v.lines)
        ri = "".join("1" if reach(d.line.parent_network.controller, d.intelligent_switch) else "0" for d in v.discons)
        return rs or "-", ri or "-"

    def automatic_now():
        c = ps.controller
        return type(c).__name__ == "MainController" and c.state.name == "OK"

    def loop(curr_time, dt):
        sw = None
        if state.pop("sw_pending", False):
            # the software failure has been drawn in update_fail_status of this increment; the controller's recovery time has
            # been handed to the sub-controllers with an open breaker (model: spreadSec, then the step: ops `sstep` / `sastep`)
            sw = fr(F(ps.controller.sectioning_time.get_hours()))
        if automatic_now():
            rs, ri = comm_bits()
            # devices in trouble right now (read before the loop polls them): a FAILED sensor answers after its new-signal time
            # (the scenarios' generator never lets the retry fail), a sensor under repair reports "failed", a FAILED intelligent
            # switch costs the manual sectioning time at its first poll
            def hard(sn):
                return isinstance(sn.ps_random, net.SeqRng) and sn.ps_random.values[:2] == [0, 0]
            se = [(F(l.sensor.new_signal_time.get_hours()) + (F(l.sensor.reboot_time.get_hours()) if hard(l.sensor) else 0))
                  if (l.sensor is not None and l.sensor.state.name == "FAILED") else F(0) for l in v.lines]
            sr = "".join("1" if (l.sensor is not None and (l.sensor.state.name == "REPAIR" or (l.sensor.state.name == "FAILED" and hard(l.sensor)))) else "0" for l in v.lines)
            sf = "".join("1" if (d.intelligent_switch is not None and d.intelligent_switch.state.name == "FAILED") else "0" for d in v.discons)
            prev = state.get("sens_prev", {})
            rk = "".join("1" if any(l.sensor is not None and prev.get(l.sensor.name) == "REPAIR" and l.sensor.state.name == "OK" for l in n.lines) else "0" for n in v.nets)
            if any(se) or "1" in sr or "1" in sf or "1" in rk:
                op = f"ctl dstep {fr(dt.get_hours())} {rs} {ri} {flist(se)} {sr or '-'} {sf or '-'} {sw if sw is not None else '-'} {rk or '-'}"
            else:
                op = f"ctl astep {fr(dt.get_hours())} {rs} {ri}" if sw is None else f"ctl sastep {sw} {fr(dt.get_hours())} {rs} {ri}"
        else:
            op = f"ctl step {fr(dt.get_hours())}" if sw is None else f"ctl sstep {sw} {fr(dt.get_hours())}"
        orig_loop(curr_time=curr_time, dt=dt)
        state["sens_prev"] = {l.sensor.name: l.sensor.state.name for l in v.lines if l.sensor is not None}
        ops.append(op)
        impl.append(show(v.snapshot()))
        rec = {"k": state["k"], "phase": "step", "inv": v.invariants(), "normal": v.is_normal(),
               "cb_open": {n.name: n.connected_line.circuitbreaker.is_open for n in v.nets},
               "timers": {n.name: n.controller.sectioning_time.get_hours() for n in v.nets},
               "ptimers": {n.name: n.controller.parent_sectioning_time.get_hours() for n in v.nets if hasattr(n.controller, "parent_sectioning_time")},
               "failed": [l.name for l in v.lines if l.failed],
               "ict_failed": [c.name for c in list(getattr(ps, "ict_lines", [])) + list(getattr(ps, "ict_nodes", [])) if c.failed],
               # sensors / intelligent switches / controllers that are not in service (a sensor under repair keeps its section out)
               "dev_bad": [d_.name for d_ in list(getattr(ps, "sensors", [])) + list(getattr(ps, "intelligent_switches", [])) + [ps.controller]
                           if getattr(getattr(d_, "state", None), "name", "OK") != "OK"]}
        # C07.breaker_open_only_while on the real objects: after the control pass a breaker is open only while the sectioning time
        # runs, the section of its own line holds a failed line, or the survival hold applies
        bad = []
        for n in v.nets:
            if n.connected_line.circuitbreaker.is_open:
                running = n.controller.sectioning_time.get_hours() > 0
                own = any(l.failed for l in n.connected_line.section.lines) if n.connected_line.section is not None else False
                hold = getattr(getattr(n, "mode", None), "name", None) == "SURVIVAL" and any(l.failed for l in n.distribution_network.lines)
                if not (running or own or hold):
                    bad.append(n.name)
        rec["open_no_reason"] = bad
        if observer is not None:
            observer(ps, v, rec)
        info.append(rec)
    ps.controller.run_control_loop = loop
    unit = case.get("unit", 3)
    times = [dt * k * 3600 / c17.FACT[unit] for k in range(1, n_inc + 1)]       # the same instants, written in the reporting unit
    with c17._Exact():
        sim.run_sequence(TimeStamp(), times[:case.get("n_inc_first", n_inc)], c17.U(unit), cb, case.get("save_flag", False))
        if case.get("second"):
            # a second iteration on the same objects, the way Simulation.run_iteration starts one: reset_system, then the sequence.
            # model: `ctl reset` (back to the initial state), then the same ops
            from relsad.simulation.system_config import reset_system
            reset_system(ps, False)
            sim.fail_duration = Time(0)
            ops.append("ctl reset")
            impl.append(show(v.snapshot()))
            info.append({"k": 0, "phase": "reset", "inv": v.invariants(), "normal": v.is_normal(), "nf": {n.name: bool(n.failed_line) for n in v.nets}})
            faults.clear(); faults.update(case["second"]["faults"])
            state.pop("sens_prev", None)
            times2 = times[:case["second"]["n_inc"]]
            sim.run_sequence(TimeStamp(), times2, c17.U(unit), cb, case.get("save_flag", False))
    v.devtrouble = bool(state.get("devtrouble"))       # sensors / intelligent switches failed by themselves in this run
    if state["devfail"]:
        ops, impl = [], []          # sensors / intelligent switches failed by themselves: outside the loop model, oracle only
    return v, ops, impl, info


def add_second(rng, c, nfaults=(1, 2)):
    """turns a scenario into a two-iteration one: the first iteration is cut short (it ends in the middle of what its faults
    started), reset_system, then a second iteration of full length with fresh line faults"""
    ks = sorted(int(k) for k in c["faults"])
    c["n_inc_first"] = max(1, min(c["n_inc"], (ks[-1] if ks else 1) + rng.randint(0, 2)))
    ps = net.build(c["spec"])
    lines = [l.name for l in ps.lines if not l.is_backup]
    f2 = {}
    for _ in range(rng.randint(*nfaults)):
        f2.setdefault(str(rng.randint(1, 5)), []).append([rng.choice(lines), str(rng.choice([F(1), F(3, 2), F(2)]))])
    c["second"] = {"faults": f2, "n_inc": c["n_inc"]}
    return c


def last_iteration(info):
    """the records of the last iteration of a run (everything after the last reset)"""
    cut = max([i for i, r in enumerate(info) if r["phase"] == "reset"] + [-1])
    return info[cut + 1:]


def gen_scenario(rng, max_lines=6, allow_mg=True, nfaults=(1, 4), n_inc=None, ctrl="manual", nfeed=None, T=None, overlap=True):
    spec = net.rand_feeder_spec(rng, max_lines=max_lines, ctrl=ctrl, allow_mg=allow_mg, nfeed=nfeed)
    if T is not None:
        spec["ctrl"]["T"] = str(T)
    dt = rng.choice([F(1), F(1, 2), F(1, 2), F(1, 4)])
    ps = net.build(spec)
    lines = [l.name for l in ps.lines if not l.is_backup]
    faults = {}
    for _ in range(rng.randint(*nfaults)):
        k = rng.randint(1, 12)
        faults.setdefault(str(k), []).append([rng.choice(lines), str(rng.choice([F(1, 2), F(1), F(3, 2), F(2), F(5, 2), F(1, 3)]))])
    Tq = F(spec["ctrl"]["T"])
    tail = int((Tq + 3) / dt) + 6
    n = n_inc or (14 + tail + int(F(5, 2) / dt))
    return {"kind": "ctl", "spec": spec, "faults": faults, "n_inc": n, "dt": str(dt)}
