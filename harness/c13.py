"""C13  Components fail and recover with the configured rates and repair times.

Correspondence: the real component classes (Bus transformer, Line, ICTLine, ICTNode, Sensor,
IntelligentSwitch, MainController) are stepped through generated histories on exact rationals
with a replaying RNG stub; before every call the model (`Relsad.Model.Fail`) is given the
implementation's pre-state and the *configured* parameters and must predict the post-state
and the number of random draws consumed.
Oracle: the statements of the property on the real objects (+ support of real StatDist draws,
and a frequency test with numpy's generator, labelled supporting evidence).
"""
import math
import random
from fractions import Fraction

from .common import fr, fb, rand_frac, run_cases
from . import c17

PROP = "C13"
LEVEL = "proof"
ASSUMPTIONS = [
    "random draws are inputs of the model; numpy's generators are trusted to be uniform on [0,1) / to follow the configured repair-time distribution (monitored: support of 200 real draws per distribution, 5-sigma frequency test)",
    "exact-rational execution of the real classes with relsad.Time constants as Fractions",
]
F = Fraction
FACT = c17.FACT


class Rng:
    def __init__(self):
        self.q = []
        self.n = 0

    def random(self):
        self.n += 1
        return self.q.pop(0) if self.q else F(1)


class Dist:
    def __init__(self):
        self.v = F(0)
        self.n = 0

    def draw(self, random_instance=None, size=1):
        self.n += 1
        return [self.v]


class Obj:
    pass


def T(q, u=3):
    from relsad.Time import Time
    return Time(F(q), c17.U(u))


def TH(h, u):
    """the duration of h hours written in unit u (configured durations may be given in any unit)"""
    return T(F(h) * 3600 / FACT[u], u)


def hours(t):
    if t is None:
        from .common import ImplBroken
        raise ImplBroken("a duration that the component is documented to hold (remaining repair / outage time, sectioning time) is None")
    return t.get_hours()


def make_two(kind, rate, rng, dist):
    from relsad.network.components import Bus, Line, ICTNode, ICTLine
    if kind == "bus":
        b = Bus("B1", fail_rate_per_year=rate, repair_time_dist=dist)
        b.ps_random = rng
        return b, (lambda: b.trafo_failed), (lambda: b.remaining_outage_time)
    if kind == "ictnode":
        n = ICTNode("N1", fail_rate_per_year=rate, repair_time_dist=dist)
        n.ps_random = rng
        return n, (lambda: n.failed), (lambda: n.remaining_outage_time)
    if kind == "ictline":
        a, b = ICTNode("N1"), ICTNode("N2")
        l = ICTLine("IL1", a, b, repair_time_dist=dist, fail_rate_per_year=rate)
        l.ps_random = rng
        net = Obj(); net.lines = [l]; net.failed_line = False
        l.parent_network = net
        return l, (lambda: l.failed), (lambda: l.remaining_outage_time)
    if kind == "line":
        a, b = Bus("B1"), Bus("B2")
        l = Line("L1", a, b, r=F(1, 2), x=F(1, 2), repair_time_dist=dist)
        l.fail_rate_per_year = rate
        l.ps_random = rng
        net = Obj(); net.lines = [l]; net.failed_line = False; net.child_network_list = []
        cb = Obj(); cb.open = lambda: None
        net.connected_line = Obj(); net.connected_line.circuitbreaker = cb
        net.controller = Obj(); net.controller.check_components = False
        l.parent_network = net
        return l, (lambda: l.failed), (lambda: l.remaining_outage_time)
    raise ValueError(kind)


def system_case(case):
    """Devices inside a running system: real sequential runs of built ICT-controlled systems whose lines, sensors and intelligent
    switches fail by themselves.  Observed from outside, once per increment: a device (or line) that stays under repair loses exactly
    one step of remaining time per increment, never more, and is never negative."""
    import contextlib, io
    from relsad.simulation import Simulation
    from relsad.Time import Time, TimeStamp, TimeUnit
    from relsad.StatDist import StatDist, StatDistType, UniformParameters
    from . import net, acct
    viols = []
    n = case["n_inc"]; dt = case["dt"]
    ps = net.build(dict(case["spec"], exact=False, nprof=n))
    for l in ps.lines:
        l.fail_rate_per_year = case["line_rate"]
        l.repair_time_dist = StatDist(StatDistType.UNIFORM_FLOAT, UniformParameters(min_val=2.0, max_val=5.0))
    devs = list(ps.sensors) + list(ps.intelligent_switches)
    seen = set()
    devs = [d for d in devs if not (id(d) in seen or seen.add(id(d)))]
    for d in devs:
        d.fail_rate_per_year = case["dev_rate"]
        d.manual_repair_time = Time(case["dev_rep"], TimeUnit.HOUR)
        if type(d).__name__ == "Sensor":
            d.p_fail_repair_new_signal = 1.0; d.p_fail_repair_reboot = 1.0        # retry and reboot fail: manual repair
    sim = Simulation(ps, random_seed=case["seed"])
    prev = {}
    frozen = {}
    stat = {"rep": 0, "k": 0}
    line_names = {l.name for l in ps.lines} | {il.name for il in getattr(ps, "ict_lines", [])}
    ict_names = {il.name for il in getattr(ps, "ict_lines", [])}
    for il in getattr(ps, "ict_lines", []):
        il.fail_rate_per_year = case["dev_rate"]
        il.repair_time_dist = StatDist(StatDistType.UNIFORM_FLOAT, UniformParameters(min_val=2.0, max_val=6.0))
    def snap():
        out = {}
        for d in devs:
            out[d.name] = (d.state.name, d.remaining_repair_time.get_hours())
        for l in ps.lines:
            out[l.name] = ("REPAIR" if l.failed else "OK", l.remaining_outage_time.get_hours())
        for il in getattr(ps, "ict_lines", []):
            out[il.name] = ("REPAIR" if il.failed else "OK", il.remaining_outage_time.get_hours())
        return out
    def close():
        cur = snap()
        for name, (st, rem) in cur.items():
            if rem < -1e-12:
                viols.append(("system.rem-negative", f"increment {stat['k']}: remaining repair time of {name} is {rem} h"))
            if st == "REPAIR" and rem <= 1e-12 and name in ict_names and prev.get(name, ("OK", 0))[0] == "REPAIR" and prev[name][1] <= 1e-12:
                viols.append(("system.not-returned", f"increment {stat['k']}: communication line {name} is still failed although its remaining outage time was used up an increment ago"))
            if name in prev and prev[name][0] == "REPAIR" and st == "REPAIR":
                stat["rep"] += 1
                drop = prev[name][1] - rem
                # a component under repair is being repaired: its remaining time moves (ordinary and backup lines alike)
                frozen[name] = frozen.get(name, 0) + 1 if abs(drop) <= 1e-12 and rem > 1e-12 else 0
                if frozen[name] >= 3:
                    viols.append(("system.frozen", f"increment {stat['k']}: {name} has been under repair with {rem} h left for {frozen[name]} increments: its repair does not proceed"))
                # (a line's remaining time may be *raised* meanwhile: the controller adds the manual sectioning time of its section)
                if (drop > dt + 1e-9) if name in line_names else (abs(drop - dt) > 1e-9):
                    viols.append(("system.countdown", f"increment {stat['k']}: {name} stays under repair, its remaining time went from {prev[name][1]} h to {rem} h with a step of {dt} h"))
        prev.clear(); prev.update(cur)
        stat["k"] += 1
    def cb(ps, prev_time, curr_time):
        close()
        if case.get("tie_fault") and stat["k"] in case["tie_fault"]:
            # a backup line is made to fail (it is repaired like any other line)
            for l in ps.lines:
                if l.is_backup and not l.failed:
                    l.fail(curr_time - prev_time if prev_time is not None else curr_time)
    with contextlib.redirect_stdout(io.StringIO()):
        sim.run_sequential(start_time=TimeStamp(), stop_time=TimeStamp(hour=int(n * dt) % 24, day=int(n * dt) // 24), time_step=Time(dt, TimeUnit.HOUR),
                           time_unit=TimeUnit.HOUR, callback=cb, save_dir=acct.tmpdir("c13_sys"), save_flag=False)
    close()
    return dict(ops=[], impl=[], viols=viols[:3], nontrivial=("system", min(stat["rep"] // 5, 8), bool(case["spec"].get("mg"))) if stat["rep"] else None, tag="system")


def section_pair_case(case):
    """Manual control, two lines of one switch-less section fail one after the other (the first contingency has the whole section
    sectioned: every line of it, healthy ones included, gets the sectioning time added to its remaining outage time).  Compared
    state by state with the switching model; oracle: right after a line fails its remaining outage time is the drawn repair time."""
    from . import ctl
    v, ops, impl, info = ctl.run_scenario(case)
    viols = []
    for op, st in zip(ops, impl):
        if op.startswith("ctl fail "):
            _, _, li, rep = op.split(" ")
            R = st.split(" R=")[1].split(" ")[0].split(",")
            if F(R[int(li)]) != F(rep):
                viols.append(("line.repair-draw", f"line {v.lines[int(li)].name} fails with a drawn repair time of {rep} h: its remaining outage time right after the failure is {R[int(li)]} h (outside the support of the configured distribution)"))
    return dict(ops=ops, impl=impl, viols=viols[:3], nontrivial=("section-pair", len(ops), len(case["faults"])), tag="section-pair")


def handler(case):
    if case["kind"] == "system":
        return system_case(case)
    if case["kind"] == "section-pair":
        return section_pair_case(case)
    with c17._Exact():
        return _handler(case)


def _handler(case):
    k = case["kind"]
    ops, impl, viols = [], [], []
    sig = set()
    if k == "pfail":
        from relsad.utils import convert_yearly_fail_rate
        rate, q, u = F(case["rate"]), F(case["q"]), case["u"]
        p = convert_yearly_fail_rate(rate, T(q, u))
        want = min(rate * q * FACT[u] / FACT[7], 1)
        if p != want:
            viols.append(("pfail.value", f"rate {rate}/year, step ({q}, unit {u}): probability {p}, expected min(r*dt,1) = {want}"))
        alt = [convert_yearly_fail_rate(rate, T(q * FACT[u] / FACT[v], v)) for v in case["alt"]]
        if any(a != p for a in alt):
            viols.append(("pfail.unit", f"rate {rate}/year: probability depends on the unit of the step ({q}, unit {u}): {p} vs {alt}"))
        return dict(ops=[f"fail pfail {fr(rate)} {fr(q)} {u}"], impl=[fr(p)], viols=viols, nontrivial=("pfail", u, p >= 1, p == 0), tag="pfail")
    if k == "two":
        rng, dist = Rng(), Dist()
        rate = F(case["rate"])
        obj, failed, rem = make_two(case["comp"], rate, rng, dist)
        last_rem = None
        for (dq, du, u, rep) in case["steps"]:
            dq, u, rep = F(dq), F(u), F(rep)
            f0, r0 = bool(failed()), hours(rem())
            rng.q = [u]; rng.n = 0; dist.v = rep; dist.n = 0
            ops.append(f"fail two {fb(f0)} {fr(r0)} {fr(rate)} {fr(dq)} {du} {fr(u)} {fr(rep)}")
            obj.update_fail_status(T(dq, du))
            f1, r1 = bool(failed()), hours(rem())
            impl.append(f"{fb(f1)} {fr(r1)}")
            dth = dq * FACT[du] / 3600
            tag = f"{case['comp']} rate={rate} step=({dq},unit {du}) from failed={f0} rem={r0}h"
            if r1 < 0:
                viols.append(("two.rem-negative", f"remaining outage time {r1} h is negative: {tag}"))
            if f0:
                if rng.n or dist.n:
                    viols.append(("two.draw-while-failed", f"random numbers drawn while failed: {tag}"))
                if r0 - dth > 0 and (not f1 or r1 != r0 - dth):
                    viols.append(("two.decrement", f"expected to stay failed with {r0 - dth} h left, got failed={f1} rem={r1}: {tag}"))
                if r0 - dth <= 0 and (f1 or r1 != 0):
                    viols.append(("two.return", f"outage time used up but failed={f1} rem={r1}: {tag}"))
            else:
                p = min(rate * dq * FACT[du] / FACT[7], 1)
                if (u < p) != f1:
                    viols.append(("two.choice", f"draw u={u} against p={p}: failed={f1}: {tag}"))
                if f1 and r1 != rep:
                    viols.append(("two.repair-unit", f"drawn repair time {rep} h applied as {r1} h: {tag}"))
                if rate == 0 and f1:
                    viols.append(("two.rate-zero", f"component with rate 0 failed: {tag}"))
            sig.add((f0, f1, du, r1 == 0))
        return dict(ops=ops, impl=impl, viols=viols[:3], nontrivial=("two", case["comp"], tuple(sorted(sig))), tag="two:" + case["comp"])
    if k == "ictnet":
        # several communication lines of one real ICTNetwork, updated one at a time with replayed draws; compared with the model of a
        # network of two-state components with its failed-line flag (C13.network_component_independent / flag_tracks_failures)
        from relsad.network.components import ICTNode, ICTLine, ManualMainController
        from relsad.network.systems import PowerSystem, ICTNetwork
        from . import net as _net
        _net.reset_counters()
        ps = PowerSystem(ManualMainController("C", sectioning_time=T(F(1), 3)))
        nl = case["n"]
        nodes = [ICTNode(f"N{i}") for i in range(nl + 1)]
        rng, dist = Rng(), Dist()
        rate = F(case["rate"])
        lines = [ICTLine(f"IL{i}", nodes[0], nodes[i + 1], fail_rate_per_year=rate) for i in range(nl)]
        for l in lines:
            l.ps_random = rng; l.repair_time_dist = dist
        inet = ICTNetwork(ps)
        inet.add_nodes(nodes); inet.add_lines(lines)
        for (i, dq, du, u, rep) in case["steps"]:
            dq, u, rep = F(dq), F(u), F(rep)
            pre = ",".join(f"{fb(bool(l.failed))}:{fr(hours(l.remaining_outage_time))}" for l in lines)
            f0 = [bool(l.failed) for l in lines]; r0 = [hours(l.remaining_outage_time) for l in lines]
            rng.q = [u]; rng.n = 0; dist.v = rep; dist.n = 0
            ops.append(f"fail net {fb(bool(inet.failed_line))} {pre} {i} {fr(rate)} {fr(dq)} {du} {fr(u)} {fr(rep)}")
            lines[i].update_fail_status(T(dq, du))
            impl.append(f"{fb(bool(inet.failed_line))} " + ",".join(f"{fb(bool(l.failed))}:{fr(hours(l.remaining_outage_time))}" for l in lines))
            dth = dq * FACT[du] / 3600
            if f0[i] and r0[i] - dth <= 0 and lines[i].failed:
                viols.append(("net.return", f"communication line {i} of {nl}: its outage time ({r0[i]} h, step {dth} h) is used up but it stays failed (other lines failed: {[j for j in range(nl) if f0[j] and j != i]})"))
            if bool(inet.failed_line) != any(bool(l.failed) for l in lines):
                viols.append(("net.flag", f"network flag failed_line = {inet.failed_line} with failed lines {[j for j in range(nl) if lines[j].failed]}"))
            for j in range(nl):
                if j != i and (bool(lines[j].failed) != f0[j] or hours(lines[j].remaining_outage_time) != r0[j]):
                    viols.append(("net.other", f"updating line {i} changed line {j}"))
            sig.add((f0[i], bool(lines[i].failed), sum(f0)))
        return dict(ops=ops, impl=impl, viols=viols[:3], nontrivial=("ictnet", nl, tuple(sorted(sig))), tag="ictnet")
    if k == "sensor":
        return sensor_case(case)
    if k == "switch":
        return switch_case(case)
    if k == "ctrl":
        return ctrl_case(case)
    raise ValueError(k)


def devname(st):
    return {"OK": "ok", "FAILED": "failed", "REPAIR": "repair"}[st.name]


def sensor_case(case):
    from relsad.network.components import Bus, Line, Sensor
    P = {k: F(v) for k, v in case["P"].items()}
    ops, impl, viols = [], [], []
    rng = Rng()
    sensors = []
    lines = []
    for i in range(case.get("n", 1)):
        a, b = Bus(f"B{2*i}"), Bus(f"B{2*i+1}")
        l = Line(f"L{i}", a, b, r=F(1, 2), x=F(1, 2))
        kw = dict(fail_rate_per_year=P["rate"], p_fail_repair_new_signal=P["pNew"], p_fail_repair_reboot=P["pReboot"],
                  new_signal_time=T(P["tNew"] * 3600, 1), reboot_time=T(P["tReboot"] * 60, 2))
        if not case.get("default_manual"):
            kw["manual_repair_time"] = TH(P["tManual"], case.get("manual_unit", 3))
        s = Sensor(f"S{i}", l, **kw)
        s.ps_random = rng
        sensors.append(s); lines.append(l)
    sig = set()
    for st in case["steps"]:
        s = sensors[st.get("i", 0)]; l = lines[st.get("i", 0)]
        pre = f"{devname(s.state)} {fr(hours(s.remaining_repair_time))}"
        if st["op"] == "update":
            dq, du, u = F(st["dt"][0]), st["dt"][1], F(st["u"])
            rng.q = [u]; rng.n = 0
            ops.append(f"fail dev {pre} {fr(P['rate'])} {fr(dq)} {du} {fr(u)}")
            s0, r0 = s.state.name, hours(s.remaining_repair_time)
            s.update_fail_status(T(dq, du))
            impl.append(f"{devname(s.state)} {fr(hours(s.remaining_repair_time))}")
            dth = dq * FACT[du] / 3600
            if s0 == "REPAIR":
                if r0 - dth > 0 and (s.state.name != "REPAIR" or hours(s.remaining_repair_time) != r0 - dth):
                    viols.append(("sensor.repair-countdown", f"sensor under manual repair with {r0} h left, step {dth} h: now {s.state.name} with {hours(s.remaining_repair_time)} h"))
                if r0 - dth <= 0 and s.state.name != "OK":
                    viols.append(("sensor.repair-return", f"sensor repair time used up ({r0} h, step {dth} h) but state {s.state.name}"))
            if hours(s.remaining_repair_time) < 0:
                viols.append(("sensor.rem-negative", f"sensor remaining repair time {hours(s.remaining_repair_time)} h is negative (from {s0} with {r0} h, step {dth} h)"))
            sig.add(("u", s0, s.state.name))
        else:
            u1, u2, lf = F(st["u1"]), F(st["u2"]), st["lf"]
            l.failed = lf
            rng.q = [u1, u2]; rng.n = 0
            ops.append(f"fail sensor {pre} {fr(P['pNew'])} {fr(P['pReboot'])} {fr(P['tNew'])} {fr(P['tReboot'])} {fr(P['tManual'])} {fr(u1)} {fr(u2)} {fb(lf)}")
            s0 = s.state.name
            d, status = s.get_line_fail_status(T(1, 3))
            impl.append(f"{devname(s.state)} {fr(hours(s.remaining_repair_time))} {fr(hours(d))} {fb(status)} {rng.n}")
            if s0 == "FAILED":
                # staged recovery, in order, with the configured delays
                if u1 >= P["pNew"]:
                    exp = ("OK", P["tNew"], lf)
                elif u2 >= P["pReboot"]:
                    exp = ("OK", P["tNew"] + P["tReboot"], lf)
                else:
                    exp = ("REPAIR", P["tNew"] + P["tReboot"], True)
                got = (s.state.name, hours(d), bool(status))
                if got != exp:
                    viols.append(("sensor.staged", f"failed sensor consulted with draws ({u1},{u2}): got {got}, staged recovery prescribes {exp}"))
                if s.state.name == "REPAIR" and hours(s.remaining_repair_time) != P["tManual"]:
                    viols.append(("sensor.manual-time", f"sensor {s.name} enters manual repair with {hours(s.remaining_repair_time)} h instead of the configured {P['tManual']} h"))
            sig.add(("q", s0, s.state.name, rng.n))
    return dict(ops=ops, impl=impl, viols=viols[:3], nontrivial=("sensor", tuple(sorted(sig))), tag="sensor")


def switch_case(case):
    from relsad.network.components import Bus, Line, Disconnector, IntelligentSwitch
    tR, tS, rate = F(case["tR"]), F(case["tS"]), F(case["rate"])
    ops, impl, viols = [], [], []
    rng = Rng()
    a, b = Bus("B0"), Bus("B1")
    l = Line("L0", a, b, r=F(1, 2), x=F(1, 2))
    d = Disconnector("D0", l, a)
    kw = {} if case.get("default_manual") else {"manual_repair_time": TH(tR, case.get("manual_unit", 3))}
    sw = IntelligentSwitch("IS0", d, fail_rate_per_year=rate, **kw)
    sw.ps_random = rng
    net = Obj(); net.controller = Obj(); net.controller.manual_sectioning_time = TH(tS, case.get("manual_unit", 3))
    l.parent_network = net
    sig = set()
    for st in case["steps"]:
        pre = f"{devname(sw.state)} {fr(hours(sw.remaining_repair_time))}"
        s0 = sw.state.name
        if st["op"] == "update":
            dq, du, u = F(st["dt"][0]), st["dt"][1], F(st["u"])
            rng.q = [u]; rng.n = 0
            ops.append(f"fail dev {pre} {fr(rate)} {fr(dq)} {du} {fr(u)}")
            r0 = hours(sw.remaining_repair_time)
            sw.update_fail_status(T(dq, du))
            impl.append(f"{devname(sw.state)} {fr(hours(sw.remaining_repair_time))}")
            dth = dq * FACT[du] / 3600
            if s0 == "REPAIR" and r0 - dth <= 0 and sw.state.name != "OK":
                viols.append(("switch.repair-return", f"switch repair time used up but state {sw.state.name}"))
            if s0 == "REPAIR" and r0 - dth > 0 and (sw.state.name != "REPAIR" or hours(sw.remaining_repair_time) != r0 - dth):
                viols.append(("switch.repair-countdown", f"switch under repair with {r0} h left, step {dth}: now {sw.state.name} {hours(sw.remaining_repair_time)}"))
            if hours(sw.remaining_repair_time) < 0:
                viols.append(("switch.rem-negative", f"switch remaining repair time {hours(sw.remaining_repair_time)} h is negative"))
        elif st["op"] == "open":
            ops.append(f"fail swopen {pre} {fr(tR)} {fr(tS)}")
            t = sw.get_open_time(T(1, 3))
            impl.append(f"{devname(sw.state)} {fr(hours(sw.remaining_repair_time))} {fr(hours(t))}")
            if s0 == "FAILED" and (hours(t) != tS or sw.state.name != "REPAIR" or hours(sw.remaining_repair_time) != tR):
                viols.append(("switch.open-failed", f"failed switch: open time {hours(t)} (manual sectioning {tS}), state {sw.state.name}, repair {hours(sw.remaining_repair_time)} (configured {tR})"))
            if s0 != "FAILED" and hours(t) != 0:
                viols.append(("switch.open-healthy", f"{s0} switch adds delay {hours(t)}"))
        else:
            d.is_open = True
            l.connected = False
            ops.append(f"fail swclose {pre} {fr(tR)}")
            r0 = hours(sw.remaining_repair_time)
            sw.close(T(1, 3))
            impl.append(f"{devname(sw.state)} {fr(hours(sw.remaining_repair_time))} {fb(not d.is_open)}")
            if s0 == "REPAIR" and (sw.state.name != "REPAIR" or hours(sw.remaining_repair_time) != r0):
                viols.append(("switch.close-under-repair", f"closing the disconnector of a switch under repair with {r0} h left changed its recovery: now {sw.state.name} with {hours(sw.remaining_repair_time)} h left (time runs down by the step only)"))
        sig.add((st["op"], s0, sw.state.name))
    return dict(ops=ops, impl=impl, viols=viols[:3], nontrivial=("switch", tuple(sorted(sig))), tag="switch")


def cname(st):
    return {"OK": "ok", "SOFTWARE_FAIL": "sw", "HARDWARE_FAIL": "hw", "REPAIR": "repair"}[st.name]


def ctrl_case(case):
    from relsad.network.components import MainController
    P = {k: F(v) for k, v in case["P"].items()}
    ops, impl, viols = [], [], []
    rng = Rng()
    c = MainController("C", hardware_fail_rate_per_year=P["hw"], software_fail_rate_per_year=P["sw"],
                       p_fail_repair_new_signal=P["pNew"], p_fail_repair_reboot=P["pReboot"],
                       new_signal_time=T(P["tNew"] * 3600, 1), reboot_time=T(P["tReboot"] * 60, 2),
                       manual_software_repair_time=TH(P["tSw"], case.get("manual_unit", 3)), manual_hardware_repair_time=TH(P["tHw"], case.get("manual_unit", 3)))
    c.ps_random = rng
    sig = set()
    for st in case["steps"]:
        dq, du = F(st["dt"][0]), st["dt"][1]
        us = [F(x) for x in st["u"]]
        rng.q = list(us); rng.n = 0
        s0, r0 = c.state.name, hours(c.remaining_repair_time)
        ops.append(f"fail ctrl {cname(c.state)} {fr(r0)} {fr(hours(c.sectioning_time))} " + " ".join(fr(P[k]) for k in ("hw", "sw", "pNew", "pReboot", "tNew", "tReboot", "tSw", "tHw"))
                   + f" {fr(dq)} {du} " + " ".join(fr(x) for x in us))
        c.update_fail_status(T(dq, du))
        impl.append(f"{cname(c.state)} {fr(hours(c.remaining_repair_time))} {fr(hours(c.sectioning_time))} {rng.n}")
        dth = dq * FACT[du] / 3600
        if hours(c.remaining_repair_time) < 0:
            viols.append(("ctrl.rem-negative", f"controller remaining repair time {hours(c.remaining_repair_time)} h is negative"))
        if s0 == "REPAIR":
            if r0 - dth <= 0 and c.state.name != "OK":
                viols.append(("ctrl.repair-return", f"controller repair time used up but state {c.state.name}"))
            if r0 - dth > 0 and (c.state.name != "REPAIR" or hours(c.remaining_repair_time) != r0 - dth):
                viols.append(("ctrl.repair-countdown", f"controller under repair with {r0} h, step {dth}: {c.state.name} {hours(c.remaining_repair_time)}"))
        elif s0 == "OK":
            ph = min(P["hw"] * dth / (FACT[7] / 3600), 1); psw = min(P["sw"] * dth / (FACT[7] / 3600), 1)
            if us[0] < ph:
                exp = ("REPAIR", P["tHw"])
            elif us[1] >= psw:
                exp = ("OK", None)
            elif us[2] >= P["pNew"] or us[3] >= P["pReboot"]:
                exp = ("OK", None)
            else:
                exp = ("REPAIR", P["tSw"])
            if c.state.name != exp[0] or (exp[1] is not None and hours(c.remaining_repair_time) != exp[1]):
                viols.append(("ctrl.staged", f"controller draws {us} (p_hw={ph}, p_sw={psw}): state {c.state.name} rem {hours(c.remaining_repair_time)}, staged recovery prescribes {exp}"))
        sig.add((s0, c.state.name, rng.n))
    return dict(ops=ops, impl=impl, viols=viols[:3], nontrivial=("ctrl", tuple(sorted(sig))), tag="ctrl")


def rand_dt(rng):
    du = rng.choice([1, 2, 3, 3, 3, 4])
    dq = {1: rng.choice([60, 900, 3600]), 2: rng.choice([1, 15, 30, 60, 90]), 3: rng.choice([F(1), F(1, 2), F(1, 4), F(2), F(3, 2)]),
          4: rng.choice([F(1), F(1, 24), F(1, 2)])}[du]
    return [str(dq), du]


def gen(rng, n):
    cases = []
    for _ in range(n):
        u = rng.choice([1, 2, 3, 4, 5, 6, 7])
        cases.append({"kind": "pfail", "rate": str(rng.choice([F(0), rand_frac(rng, 0, 20), rand_frac(rng, 0, 20000)])),
                      "q": str(rand_frac(rng, 0, 50)), "u": u, "alt": [rng.choice([1, 2, 3, 4, 5, 6, 7]) for _ in range(2)]})
    for _ in range(n):
        comp = rng.choice(["bus", "line", "ictline", "ictnode"])
        rate = rng.choice([F(0), F(100), F(2000), F(10 ** 6), rand_frac(rng, 0, 500)])
        dt = rand_dt(rng)
        steps = []
        for _ in range(rng.randint(3, 40)):
            if rng.random() < 0.15:
                dt = rand_dt(rng)
            u = rng.choice([F(0), rand_frac(rng, 0, 1), rand_frac(rng, 0, 1) / 50, F(999, 1000)])
            rep = rng.choice([F(0), F(1), F(2), F(5, 2), F(1, 3), rand_frac(rng, 0, 6)])
            steps.append([dt[0], dt[1], str(u), str(rep)])
        cases.append({"kind": "two", "comp": comp, "rate": str(rate), "steps": steps})
    for _ in range(n):
        P = {"rate": str(rng.choice([F(0), F(500), F(5000)])), "pNew": str(rng.choice([F(1, 20), F(1, 2), F(1), F(0)])),
             "pReboot": str(rng.choice([F(1, 10), F(1, 2), F(1), F(0)])), "tNew": str(F(2, 3600)), "tReboot": str(F(5, 60)),
             "tManual": str(rng.choice([F(2), F(5, 2), F(1), F(3, 2)]))}
        default_manual = rng.random() < 0.3
        if default_manual:
            P["tManual"] = "2"
        nsens = rng.choice([1, 1, 2, 3])
        dt = rand_dt(rng)
        steps = []
        for _ in range(rng.randint(4, 60)):
            i = rng.randrange(nsens)
            if rng.random() < 0.6:
                steps.append({"op": "update", "i": i, "dt": dt, "u": str(rng.choice([F(0), F(0), rand_frac(rng, 0, 1), F(999, 1000)]))})
            else:
                steps.append({"op": "query", "i": i, "u1": str(rng.choice([F(0), F(0), rand_frac(rng, 0, 1)])), "u2": str(rng.choice([F(0), F(0), rand_frac(rng, 0, 1)])), "lf": rng.random() < 0.5})
        cases.append({"kind": "sensor", "P": P, "n": nsens, "default_manual": default_manual, "steps": steps, "manual_unit": [3, 2, 1, 4][len(cases) % 4]})
    for _ in range(n // 2):
        default_manual = rng.random() < 0.3
        dt = rand_dt(rng)
        steps = []
        for _ in range(rng.randint(4, 50)):
            c = rng.random()
            if c < 0.6:
                steps.append({"op": "update", "dt": dt, "u": str(rng.choice([F(0), F(0), rand_frac(rng, 0, 1), F(999, 1000)]))})
            elif c < 0.8:
                steps.append({"op": "open"})
            else:
                steps.append({"op": "close"})
        cases.append({"kind": "switch", "tR": "2" if default_manual else str(rng.choice([F(2), F(3, 2), F(1, 2)])), "tS": str(rng.choice([F(1), F(1, 2), F(2)])),
                      "rate": str(rng.choice([F(0), F(1000), F(8000)])), "default_manual": default_manual, "steps": steps, "manual_unit": [3, 2, 1, 4][len(cases) % 4]})
    for _ in range(n // 2):
        P = {"hw": str(rng.choice([F(0), F(1, 5), F(3000)])), "sw": str(rng.choice([F(0), F(12), F(6000)])), "pNew": str(rng.choice([F(1, 20), F(1), F(1, 2)])),
             "pReboot": str(rng.choice([F(9, 10), F(1), F(0)])), "tNew": str(F(2, 3600)), "tReboot": str(F(5, 60)),
             "tSw": str(rng.choice([F(3, 10), F(1), F(3, 2)])), "tHw": str(rng.choice([F(5, 2), F(2), F(1)]))}
        dt = rand_dt(rng)
        steps = [{"dt": dt, "u": [str(rng.choice([F(0), rand_frac(rng, 0, 1), F(999, 1000)])) for _ in range(4)]} for _ in range(rng.randint(4, 40))]
        cases.append({"kind": "ctrl", "P": P, "steps": steps, "manual_unit": [3, 2, 1, 4][len(cases) % 4]})
    for q in range(max(4, n // 20)):
        # devices inside running systems (ICT-based control, sensors and intelligent switches everywhere, a microgrid whose connecting
        # line is listed with both networks in every other case)
        from . import net
        spec = net.rand_feeder_spec(rng, max_lines=4, ctrl="main", allow_tie=False, allow_mg=True)
        while not spec.get("mg"):
            spec = net.rand_feeder_spec(rng, max_lines=4, ctrl="main", allow_tie=False, allow_mg=True)
        spec["mg"]["discon"] = True; spec["mg"]["n"] = rng.choice([2, 3])
        if q % 2 == 0:
            spec["mg"]["listed_twice"] = True
        else:
            # a communication network whose lines fail often (overlapping outages in one network)
            ps_ = net.build(dict(spec, exact=True))
            names = [f"S{l.name}" for l in ps_.lines] + [f"I{d.name}" for d in ps_.disconnectors]
            spec["ctrl"]["ict"] = {"n": len(names) + 1, "lines": [[0, i + 1] for i in range(len(names))], "attach": {nm: i + 1 for i, nm in enumerate(names)}}
        cases.append({"kind": "system", "spec": spec, "n_inc": 60, "dt": rng.choice([1.0, 0.5]), "seed": rng.randint(0, 10 ** 6),
                      "line_rate": rng.choice([1500.0, 3000.0]), "dev_rate": rng.choice([3000.0, 6000.0]), "dev_rep": rng.choice([3.0, 4.0])})
    for q in range(max(2, n // 40)):
        # ... and systems with two feeders and a backup line between them that fails (at chosen increments and by itself)
        from . import net
        spec = net.rand_feeder_spec(rng, max_lines=4, ctrl=rng.choice(["main", "manual"]), allow_tie=True, allow_mg=False, nfeed=2)
        while not spec.get("tie"):
            spec = net.rand_feeder_spec(rng, max_lines=4, ctrl=rng.choice(["main", "manual"]), allow_tie=True, allow_mg=False, nfeed=2)
        cases.append({"kind": "system", "spec": spec, "n_inc": 50, "dt": rng.choice([1.0, 0.5]), "seed": rng.randint(0, 10 ** 6), "tie_fault": [2, 25],
                      "line_rate": rng.choice([500.0, 1500.0]), "dev_rate": rng.choice([3000.0, 6000.0]), "dev_rep": rng.choice([3.0, 4.0])})
    for q in range(max(4, n // 20)):
        from . import c07
        nl = rng.randint(3, 5)
        parent = [-1] + [rng.randint(0, i - 1) for i in range(1, nl)]
        dt = rng.choice([F(1, 2), F(1, 4), F(1)]); T = rng.choice([F(1), F(3, 2), F(1, 2)])
        spec = c07.feeder_spec([parent], 0, T)
        a, b = rng.sample(range(nl), 2)
        k1 = rng.randint(1, 3)
        k2 = k1 + int((T + F(5, 2)) / dt) + int(T / dt) + rng.randint(2, 6)
        c = c07.make_case(spec, {str(k1): [[f"F0L{a}", str(rng.choice([F(1), F(2), F(5, 2)]))]], str(k2): [[f"F0L{b}", str(rng.choice([F(1), F(2), F(4, 3)]))]]}, dt, "pair")
        c["kind"] = "section-pair"
        cases.append(c)
    for q in range(max(6, n // 8)):
        # a network of 2-4 communication lines with overlapping outages
        nl = rng.choice([2, 3, 4])
        rate = rng.choice([F(2000), F(10 ** 6), F(500)])
        steps = []
        for _ in range(rng.randint(10, 40)):
            dt = rand_dt(rng)
            steps.append([rng.randrange(nl), dt[0], dt[1], str(rng.choice([F(0), F(1, 100), F(1, 2), F(99, 100)])), str(rng.choice([F(1), F(2), F(5, 2), F(1, 2)]))])
        cases.append({"kind": "ictnet", "n": nl, "rate": str(rate), "steps": steps})
    return cases


def statistics(res):
    """Supporting evidence (a test, not a proof): support of real draws and observed failure frequency."""
    import numpy as np
    from relsad.StatDist import StatDist, StatDistType, UniformParameters, NormalParameters, GammaParameters
    from relsad.network.components import Bus
    from relsad.Time import Time, TimeUnit
    g = np.random.default_rng(res.seed)
    dists = [("uniform_float", StatDist(StatDistType.UNIFORM_FLOAT, UniformParameters(min_val=1.0, max_val=4.0)), 1.0, 4.0),
             ("uniform_int", StatDist(StatDistType.UNIFORM_INT, UniformParameters(min_val=1, max_val=5)), 1, 5),
             ("truncnormal", StatDist(StatDistType.TRUNCNORMAL, NormalParameters(loc=2.0, scale=1.0, min_val=0.5, max_val=6.0)), 0.5, 6.0),
             ("gamma", StatDist(StatDistType.GAMMA, GammaParameters(shape=2.0, scale=1.0)), 0.0, float("inf"))]
    import math
    # truncated normals with scale != 1 (clip points are given in hours, not in standard deviations), narrow and wide
    for loc, scale, lo, hi in [(1.25, 2.0, 0.5, 2.0), (3.0, 0.5, 2.0, 5.0), (2.0, 3.0, 0.0, 10.0), (1.0, 0.25, 0.5, 1.2)]:
        dists.append((f"truncnormal(loc={loc},scale={scale},[{lo},{hi}])",
                      StatDist(StatDistType.TRUNCNORMAL, NormalParameters(loc=loc, scale=scale, min_val=lo, max_val=hi)), lo, hi))
    def phi(x):
        return math.exp(-x * x / 2) / math.sqrt(2 * math.pi)
    def Phi(x):
        return 0.5 * (1 + math.erf(x / math.sqrt(2)))
    for name, d, lo, hi in dists:
        xs = d.draw(g, size=2000)
        res.evaluations += 1
        if not all(lo <= x <= hi for x in xs):
            bad = [float(x) for x in xs if not lo <= x <= hi]
            res.violation("dist.support", f"{name}: {len(bad)} of 2000 drawn repair times lie outside [{lo}, {hi}] (e.g. {bad[0]})", {"kind": "dist", "name": name})
        if name.startswith("truncnormal"):
            # the sample mean against the mean of the truncated normal computed independently (erf), 6 sigma
            pr = d.parameters
            a, b = (pr.min_val - pr.loc) / pr.scale, (pr.max_val - pr.loc) / pr.scale
            Z = Phi(b) - Phi(a)
            mean = pr.loc + pr.scale * (phi(a) - phi(b)) / Z
            var = pr.scale ** 2 * (1 + (a * phi(a) - b * phi(b)) / Z - ((phi(a) - phi(b)) / Z) ** 2)
            m = float(np.mean(xs))
            if abs(m - mean) > 6 * math.sqrt(var / len(xs)) + 1e-9:
                res.violation("dist.mean", f"{name}: mean of 2000 draws {m:.4f}, mean of the configured truncated normal {mean:.4f} (sd of the mean {math.sqrt(var / len(xs)):.4f})", {"kind": "dist", "name": name})
    # drawn through a component: the repair time of a failing line lies in the configured support
    from relsad.network.components import Line
    b1, b2 = Bus("Bs1"), Bus("Bs2")
    ln = Line("Ls", b1, b2, r=0.1, x=0.1, repair_time_dist=StatDist(StatDistType.TRUNCNORMAL, NormalParameters(loc=1.25, scale=2.0, min_val=0.5, max_val=2.0)))
    ln.add_random_instance(g)
    for _ in range(300):
        t = ln.draw_repair_time(Time(1, TimeUnit.HOUR)).get_hours()
        res.evaluations += 1
        if not 0.5 <= t <= 2.0:
            res.violation("dist.support-line", f"Line.draw_repair_time returned {t} h, configured truncated normal has support [0.5, 2.0] h", {"kind": "dist", "name": "line"})
            break
    # frequency: N steps of 1 h at rate r: expected N*r/8760.5; 5 sigma
    # with the generator a simulation distributes, and without any (components stepped on their own fall back on a fresh generator)
    for rate, own_rng in ((200.0, True), (2000.0, True), (900.0, False), (4000.0, False)):
        b = Bus("Bf", fail_rate_per_year=rate, repair_time_dist=StatDist(StatDistType.UNIFORM_FLOAT, UniformParameters(0.0, 0.0)))
        if own_rng:
            b.ps_random = g
        N, fails, was = (20000 if own_rng else 3000), 0, False
        trials = 0
        for _ in range(N):
            was = b.trafo_failed
            b.update_fail_status(Time(1, TimeUnit.HOUR))
            if not was:
                trials += 1
                fails += 1 if b.trafo_failed else 0
        p = min(rate * Time(1, TimeUnit.HOUR).get_years(), 1)
        sd = math.sqrt(trials * p * (1 - p))
        res.evaluations += 1
        res.extra.setdefault("frequency_tests", []).append({"rate": rate, "trials": trials, "failures": fails, "expected": trials * p, "sigma": sd})
        if abs(fails - trials * p) > 5 * sd + 1:
            res.violation("two.frequency", f"rate {rate}/year ({'distributed generator' if own_rng else 'no generator distributed'}): {fails} failures in {trials} hourly trials, expected {trials * p:.1f} +- {sd:.1f}", {"kind": "freq", "rate": rate})


def run(res):
    rng = random.Random(res.seed * 4447 + 23)
    n = 80 if res.tier == "quick" else 1200
    res.rule = ("histories of update/query calls on real Bus(trafo)/Line/ICTLine/ICTNode/Sensor(1-3, some sharing the default manual repair time)/"
                "IntelligentSwitch/MainController objects with replayed draws, steps in s/min/h/day, rates 0..1e6; "
                "ictnet: 2-4 communication lines of one real ICTNetwork updated one at a time with replayed draws (overlapping outages), lines and the network's failed-line flag compared with the model; section-pair: two lines of one switch-less section fail one after the other under manual control (full-state comparison with the switching model; the remaining outage time right after a failure is the drawn repair time); system: 60-increment sequential runs of built ICT-controlled systems (microgrid, its connecting line listed with both networks in every other case) whose lines, sensors and intelligent switches fail by themselves: whatever stays under repair loses exactly one step of remaining time per increment; "
                "non-trivial/distinct = distinct set of (pre-state, post-state, draws) transitions per history")
    from . import ctl
    run_cases(res, gen(rng, n), handler, lambda case, m, i: ([ctl.strip_ok(x) for x in m] == i) if case["kind"] == "section-pair" else m == i)
    statistics(res)


def search(res):
    rng = random.Random(res.seed * 271 + 9)
    found = []
    for case in gen(rng, 400 if res.tier == "quick" else 4000):
        h = handler(case)
        for key, what in h["viols"]:
            found.append({"key": key, "what": what, "case": case})
        if len(found) > 10:
            break
    return found


def replay(obj):
    case = obj.get("case")
    if case is not None and case.get("kind") in ("dist", "freq"):
        # re-run the statistical monitors with the recorded seed against the current code
        from .common import Result
        r = Result(PROP, obj.get("tier", "quick"), int(obj.get("seed", 0)))
        statistics(r)
        for v in r.violations:
            print("FAILS:", v["key"], v["what"])
        return 1 if r.violations else 0
    if case is None:
        print("no replayable input:", obj.get("what"), obj.get("broken_proof_obligations"), obj.get("broken_correspondence", [])[:2])
        return 1
    h = handler(case)
    for o, i in zip(h["ops"], h["impl"]):
        print("  ", o, "=>", i)
    for key, what in h["viols"]:
        print("FAILS:", key, what)
    return 1 if h["viols"] else 0
