"""C18  Results do not depend on the unit chosen for reporting time.

Paired real runs of the same physical scenario in different reporting units:
(a) exact-rational manual-control scenarios with scripted faults (the HOUR run is also compared
    state by state with `Relsad.Model.Control`): the switching / failure / timer trace (expressed
    in hours), outage times, shed energy and interruption counts must coincide;
(b) seeded float runs with random failures and drawn repair times (numpy generator): same
    failures, same repair durations, same indices; the time axis of the histories is rescaled.
"""
import io
import contextlib
import random
from fractions import Fraction

import numpy as np

from .common import run_cases
from . import ctl, net, c17, acct

PROP = "C18"
LEVEL = "proof"
ASSUMPTIONS = [
    "seeded float runs use steps that are exactly representable in every unit compared (e.g. 3 h = 0.125 day; 0.5 h = 1/48 day is not and makes float timers run one pass longer - runtime float drift the rational model cannot exhibit)",
    "seeded float runs in different units may legitimately differ by rounding in the last bit of a failure probability; compared quantities use 1e-9 relative tolerance and the sequence of failures must be identical (probability of a flip ~1e-16 per draw)",
]
F = Fraction
UNITS = {1: "SECOND", 2: "MINUTE", 3: "HOUR", 4: "DAY", 5: "WEEK"}


def handler(case):
    if case["kind"] == "seeded":
        return seeded_case(case)
    viols = []
    base = None
    ops0 = impl0 = None
    sig = []
    for u in [3] + case["units"]:
        v, ops, impl, info = ctl.run_scenario(dict(case, unit=u))
        res = {"trace": impl,
               "outage": [b.acc_outage_time.get_hours() for b in v.ps.buses],
               "ens": [float(b.acc_p_energy_shed) for b in v.ps.buses],
               "int": [float(b.acc_interruptions) for b in v.ps.buses]}
        if base is None:
            base, ops0, impl0 = res, ops, impl
            continue
        if res["trace"] != base["trace"]:
            k = next(i for i, (a, b) in enumerate(zip(res["trace"], base["trace"])) if a != b)
            viols.append(("unit.trace", f"reporting unit {UNITS[u]} vs HOUR: switching/failure state differs at op {ops0[k] if k < len(ops0) else k}: {res['trace'][k]} vs {base['trace'][k]}"))
        if res["outage"] != base["outage"]:
            viols.append(("unit.outage", f"reporting unit {UNITS[u]} vs HOUR: accumulated outage times {res['outage']} vs {base['outage']}"))
        if any(abs(a - b) > 1e-9 * max(1, abs(b)) for a, b in zip(res["ens"], base["ens"])) or any(abs(a - b) > 1e-9 for a, b in zip(res["int"], base["int"])):
            viols.append(("unit.energy", f"reporting unit {UNITS[u]} vs HOUR: energy not supplied / interruptions differ"))
        sig.append(u)
    return dict(ops=ops0, impl=impl0, viols=viols[:3], nontrivial=("exact", tuple(sig), len(impl0), any(x > 0 for x in base["outage"])), tag="exact")


def seeded_run(case, unit, reuse=None):
    from relsad.simulation import Simulation
    from relsad.Time import Time, TimeStamp, TimeUnit
    from relsad.StatDist import StatDist, StatDistType, UniformParameters
    if reuse is not None and reuse.get("sim") is not None:
        ps, sim = reuse["ps"], reuse["sim"]           # the same Simulation object as the previous run (Monte Carlo: reset in between)
    else:
        spec = dict(case["spec"], exact=False, nprof=case["n_inc"])
        ps = net.build(spec)
        for l in ps.lines:
            l.fail_rate_per_year = case["rate"]
            l.repair_time_dist = StatDist(StatDistType.UNIFORM_FLOAT, UniformParameters(min_val=2.0, max_val=3.0))
        sim = Simulation(ps, random_seed=case["seed"])
        if reuse is not None:
            reuse["ps"], reuse["sim"] = ps, sim
    dt_h = F(case["dt"])
    su = case.get("step_unit") or unit           # the step may be written in another unit than the reporting unit
    step = Time(float(dt_h * 3600 / c17.FACT[su]), c17.U(su))
    d = acct.tmpdir(f"c18_{unit}")
    n = case["n_inc"]
    total_h = dt_h * n
    stop = TimeStamp(day=int(total_h // 24), hour=int(total_h % 24), minute=int((total_h * 60) % 60))
    fails = []
    orig = {}
    def cb(ps, prev_time, curr_time):
        fails.append((round(curr_time.get_hours(), 9), tuple(l.name for l in ps.lines if l.failed),
                      tuple(round(l.remaining_outage_time.get_hours(), 9) for l in ps.lines)))
    with contextlib.redirect_stdout(io.StringIO()):
        if case.get("entry", "seq") == "seq":
            sim.run_sequential(start_time=TimeStamp(), stop_time=stop, time_step=step, time_unit=c17.U(unit), callback=cb, save_dir=d, save_flag=True)
        else:
            sim.run_monte_carlo(iterations=1, start_time=TimeStamp(), stop_time=stop, time_step=step, time_unit=c17.U(unit), callback=cb,
                                save_dir=d, save_iterations=[1], debug=True)
    hist = {name: {round(float(t) * float(c17.FACT[unit] / 3600), 9): v for t, v in ps.history[name].items()} for name in ("ENS", "SAIDI", "SAIFI")}
    # every logged quantity of the system and of each of its networks (energies in MWh, durations in hours, ratios)
    for obj in [ps] + list(ps.child_network_list):
        for name, series in obj.history.items():
            hist[f"{obj.name}.{name}"] = {round(float(t) * float(c17.FACT[unit] / 3600), 9): float(v) for t, v in series.items()}
    mc = {}
    if case.get("entry", "seq") != "seq":
        # the Monte Carlo result files of the system and its networks (dimensionless or hour-valued indices)
        import csv, os
        for obj in [ps] + list(ps.child_network_list):
            for name in ("ASUI", "ASAI", "SAIDI", "SAIFI", "ENS"):
                f = os.path.join(d, "monte_carlo", obj.name, name + ".csv")
                if os.path.exists(f):
                    rows = list(csv.reader(open(f)))
                    mc[(obj.name, name)] = [float(r_[1]) for r_ in rows[1:]]
    return {"fails": fails, "hist": hist, "ens": [float(b.acc_p_energy_shed) for b in ps.buses] + [float(x.SOC) for x in ps.batteries] + [float(e.acc_available_num_cars) for e in ps.ev_parks],
            "outage": [round(b.acc_outage_time.get_hours(), 9) for b in ps.buses], "nlog": len(ps.history["ENS"]), "mc": mc}


def seeded_case(case):
    viols = []
    reuse = {} if case.get("reuse") else None
    base = seeded_run(case, 3, reuse)
    for u in case["units"]:
        r = seeded_run(case, u, reuse)
        if len(r["fails"]) != len(base["fails"]):
            viols.append(("unit.horizon", f"reporting unit {UNITS[u]}: {len(r['fails'])} increments simulated, HOUR: {len(base['fails'])}"))
            continue
        for a, b in zip(r["fails"], base["fails"]):
            if a[1] != b[1]:
                viols.append(("unit.failures", f"reporting unit {UNITS[u]} vs HOUR at t={b[0]} h: failed lines {a[1]} vs {b[1]}"))
                break
            if any(abs(x - y) > 1e-6 for x, y in zip(a[2], b[2])):
                viols.append(("unit.repair", f"reporting unit {UNITS[u]} vs HOUR at t={b[0]} h: remaining repair times {a[2]} vs {b[2]} h"))
                break
        if any(abs(x - y) > 1e-9 * max(1, abs(y)) for x, y in zip(r["ens"], base["ens"])) or r["outage"] != base["outage"]:
            viols.append(("unit.results", f"reporting unit {UNITS[u]} vs HOUR: energy not supplied / outage per bus differ: {r['ens']} vs {base['ens']}"))
        for key, vals in base.get("mc", {}).items():
            other = r.get("mc", {}).get(key)
            if other is None or len(other) != len(vals) or any(abs(a - b) > 1e-9 * max(1, abs(b)) for a, b in zip(other, vals)):
                viols.append(("unit.mc-index", f"reporting unit {UNITS[u]} vs HOUR: Monte Carlo {key[1]} of {key[0]} is {other}, in the hour run {vals}"))
                break
        if sorted(r["hist"]["ENS"]) != sorted(base["hist"]["ENS"]):
            viols.append(("unit.axis", f"reporting unit {UNITS[u]}: logged instants (rescaled to hours) {sorted(r['hist']['ENS'])[:5]}... differ from the HOUR run {sorted(base['hist']['ENS'])[:5]}..."))
        else:
            for name in base["hist"]:
                bad = [t for t in base["hist"][name] if abs(r["hist"][name][t] - base["hist"][name][t]) > 1e-9 * max(1, abs(base["hist"][name][t]))]
                if bad:
                    t = bad[0]
                    viols.append(("unit.index", f"reporting unit {UNITS[u]} vs HOUR: history of {name} differs, e.g. at t={t} h: {r['hist'][name][t]} vs {base['hist'][name][t]}"))
                    break
    nf = sum(1 for f in base["fails"] if f[1])
    return dict(ops=[], impl=[], viols=viols[:3], nontrivial=("seeded", tuple(case["units"]), min(nf, 10), base["nlog"] > 0, case.get("entry"), case.get("step_unit")), tag="seeded")


def gen(rng, ne, ns):
    cases = []
    for j in range(ne):
        c = ctl.gen_scenario(rng, max_lines=4, nfaults=(1, 3))
        if j % 3 == 2:
            # ICT-based control with communication lines that fail for some hours before a power fault: whether the fault is
            # sectioned automatically or by hand depends on how long the communication outage lasts
            from . import c06
            c = ctl.gen_scenario(rng, max_lines=4, nfaults=(1, 2), ctrl="main")
            ict = c["spec"]["ctrl"]["ict"] = c06.fallible_ict(rng, c["spec"])
            if F(c["spec"]["ctrl"]["T"]) == 0:
                c["spec"]["ctrl"]["T"] = "1"
            for k, fl in list(c["faults"].items()):
                for il in range(len(ict["lines"])):
                    c["faults"].setdefault(str(max(1, int(k) - rng.choice([1, 2]))), []).append([f"IL{il}", str(rng.choice([F(3), F(5)]))])
        c["kind"] = "exact"
        c["units"] = rng.sample([1, 2, 4, 5], 2)
        cases.append(c)
    for j in range(ns):
        spec = net.rand_feeder_spec(rng, max_lines=4, ctrl="manual", allow_tie=False, allow_mg=rng.random() < 0.6)
        if spec.get("mg"):                    # storage that is (re)initialised at the first step of an outage
            spec["mg"]["mode"] = rng.choice(["full", "survival", "limited"])
        if rng.random() < 0.5:                # an EV park (cars drawn at the first step of an outage)
            fd = spec["feeders"][0]
            fd["ev"] = {str(rng.randrange(len(fd["parent"]))): {"hours": list(range(24)), "table": [str(rng.choice([2, 3, 5, 8])) for _ in range(24)], "v2g": rng.random() < 0.7}}
        units = rng.sample([1, 2, 4], 2)
        # steps exactly representable as floats in every unit used (1/48 day is not: float drift of timers is outside the property)
        dt = rng.choice([F(3), F(6)]) if 4 in units else rng.choice([F(1), F(1, 2)])
        # entry point (sequential / Monte Carlo) and, for half of the cases, a step written in another unit than the reporting one
        cases.append({"kind": "seeded", "spec": spec, "n_inc": rng.choice([24, 36]), "dt": str(dt), "seed": rng.randint(0, 10 ** 6),
                      "rate": rng.choice([300.0, 800.0]) / float(dt), "units": units, "entry": rng.choice(["seq", "mc"]),
                      "step_unit": rng.choice([None, None, 3, 2])})
        if j % 3 == 0:       # every combination of entry point and step unit is present in every run
            cases[-1]["entry"] = "mc"; cases[-1]["step_unit"] = rng.choice([3, 2])
        elif j % 3 == 1:
            cases[-1]["entry"] = "seq"; cases[-1]["step_unit"] = rng.choice([3, 2])
        if j % 3 == 2:
            # the same Simulation object runs the Monte Carlo or the sequential entry point once per unit (each run starts from the reset system): nothing of the
            # first run - its time grid in particular - may leak into the second
            cases[-1]["entry"] = rng.choice(["mc", "seq"]); cases[-1]["reuse"] = True; cases[-1]["step_unit"] = None
    # one long run (more than a month of 6 h steps) with an EV park whose table varies over the day, minutes against hours: the hour of
    # day after whole months have been subtracted
    spec = net.rand_feeder_spec(rng, max_lines=3, ctrl="manual", allow_tie=False, allow_mg=False)
    fd = spec["feeders"][0]
    fd["ev"] = {str(rng.randrange(len(fd["parent"]))): {"hours": list(range(24)), "table": [str((3 * h) % 7 + 1) for h in range(24)], "v2g": True}}
    cases.append({"kind": "seeded", "spec": spec, "n_inc": 150, "dt": "6", "seed": rng.randint(0, 10 ** 6), "rate": 120.0, "units": [2], "entry": "seq", "step_unit": None})
    return cases


def run(res):
    rng = random.Random(res.seed * 10039 + 89)
    ne, ns = (20, 6) if res.tier == "quick" else (500, 150)
    res.rule = ("exact: manual-control scenarios with 1-3 scripted faults run in HOUR and two of SECOND/MINUTE/DAY/WEEK (steps 1, 1/2, 1/4 h exact in every unit); "
                "seeded: random line failures (300-800 /year) with repair times drawn from U(2,3) h, 24-36 increments, HOUR vs two of SECOND/MINUTE/DAY through run_sequential or run_monte_carlo (debug), the step written in the reporting unit or in hours / minutes "
                "with saving on. non-trivial = distinct (kind, units, trace length / number of failure increments, anything interrupted)")
    run_cases(res, gen(rng, ne, ns), handler, lambda case, m, i: (not m) or [ctl.strip_ok(x) for x in m] == i)


def search(res):
    rng = random.Random(res.seed * 43 + 22)
    found = []
    for case in gen(rng, 60, 20):
        h = handler(case)
        for key, what in h["viols"]:
            found.append({"key": key, "what": what, "case": case})
        if len(found) > 6:
            break
    return found


def replay(obj):
    case = obj.get("case")
    if case is None:
        print("no failing input in this replay file:", obj.get("broken_proof_obligations"), str(obj.get("broken_correspondence", [])[:1])[:2000])
        return 1
    h = handler(case)
    for key, what in h["viols"]:
        print("FAILS:", key, what)
    return 1 if h["viols"] else 0
