from net import *
import tempfile, traceback, io, contextlib
def mc(ps, its, hours=10, n_procs=1, debug=True, seed=3, cb=None, save_its=[]):
    sim = Simulation(ps, random_seed=seed)
    d = tempfile.mkdtemp()
    with contextlib.redirect_stdout(io.StringIO()):
        sim.run_monte_carlo(iterations=its, start_time=TimeStamp(2019,0,0,0,0,0), stop_time=TimeStamp(2019,0,0,hours,0,0), time_step=Time(1), time_unit=TimeUnit.HOUR, save_iterations=save_its, save_dir=d, n_procs=n_procs, debug=debug, save_flag=True, callback=cb)
    import pandas as pd, glob, os
    out={}
    for f in sorted(glob.glob(d+"/monte_carlo/*/*.csv")+glob.glob(d+"/monte_carlo/*/*/*.csv")):
        out[f[len(d):]] = open(f).read()
    return out
def mk():
    ps,B,L,dn,mg = build(rep=4.0, microgrid=MicrogridMode.FULL_SUPPORT)
    for l in ps.lines:
        l.fail_rate_per_year = 800.0   # ~0.09/h
    return ps
a = mc(mk(), 6, hours=10, debug=True)
b = mc(mk(), 6, hours=10, debug=False, n_procs=3)
c = mc(mk(), 6, hours=10, debug=False, n_procs=1)
diff_ab=[k for k in a if a[k]!=b.get(k)]
diff_ac=[k for k in a if a[k]!=c.get(k)]
print("files", len(a), "diff debug vs 3procs:", len(diff_ab), "diff debug vs 1proc:", len(diff_ac))
for k in diff_ab[:3]:
    print(k); print(a[k]); print(b[k])
# single iteration alone: iteration k alone vs in sequence
