from net import *
import tempfile
from relsad.network.systems import ICTNetwork
def build_ict(rep=3.0, load=0.05, n=4, ict=True, break_link=None):
    PowerSystem.counter=0; Distribution.counter=0; Transmission.counter=0
    nodeC = ICTNode("NC") if ict else None
    C = MainController(name="C1", ict_node=nodeC, hardware_fail_rate_per_year=0, software_fail_rate_per_year=0)
    ps = PowerSystem(C)
    B = [Bus(name=f"B{i}", n_customers=(0 if i==0 else 1), coordinate=[0,-i]) for i in range(n+1)]
    L=[Line(name=f"L{i+1}", fbus=B[i], tbus=B[i+1], r=0.5, x=0.5, repair_time_dist=fixed(rep)) for i in range(n)]
    CircuitBreaker("E1", L[0])
    nodes=[nodeC] if ict else []; ilines=[]
    for i in range(n):
        for suffix,bus in (("a",B[i]),("b",B[i+1])):
            if i==0 and suffix=="a": continue
            d=Disconnector(f"L{i+1}{suffix}", L[i], bus)
            nd = ICTNode(f"N_{d.name}") if ict else None
            IntelligentSwitch(f"IS_{d.name}", d, ict_node=nd, fail_rate_per_year=0)
            if ict: nodes.append(nd); ilines.append(ICTLine(f"IL_{d.name}", nodeC, nd))
        ns = ICTNode(f"NS{i+1}") if ict else None
        Sensor(f"S{i+1}", L[i], ict_node=ns, fail_rate_per_year=0)
        if ict: nodes.append(ns); ilines.append(ICTLine(f"ILS{i+1}", nodeC, ns))
    if ict:
        net=ICTNetwork(ps); net.add_nodes(nodes); net.add_lines(ilines)
    tn = Transmission(ps, trafo_bus=B[0])
    dn = Distribution(parent_network=tn, connected_line=L[0])
    dn.add_buses(B[1:]); dn.add_lines(L[1:])
    for b in B[1:]:
        b.add_load_data(pload_data=np.ones(24)*load, cost_function=CostFunction(A=1,B=1))
    return ps,B,L,dn
for ict in (False, True):
    ps,B,L,dn = build_ict(ict=ict)
    def cb(ps, prev_time, curr_time):
        if curr_time == Time(2):
            ps.get_comp("L3").fail(Time(1))
    sim = Simulation(ps, random_seed=0)
    sim.run_sequential(start_time=TimeStamp(2019,0,0,0,0,0), stop_time=TimeStamp(2019,0,0,12,0,0), time_step=Time(1), time_unit=TimeUnit.HOUR, callback=cb, save_dir=tempfile.mkdtemp(), save_flag=True)
    print("ICT" if ict else "no-ICT-nodes")
    print(" sections:", [(s.lines, s.switches) for s in dn.sections])
    for nme in ["E1","L2a","L3a","L3b","L4a"]: print(" ",nme, {int(k):v for k,v in ps.get_comp(nme).history["is_open"].items()})
    for b in B[1:]: print(" ",b.name, {int(k):round(float(v),4) for k,v in b.history["p_energy_shed_stack"].items()})
    print(" final: ", [(d.name,d.is_open) for d in ps.disconnectors], [(l.name,l.connected) for l in L])
