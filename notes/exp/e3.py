from net import *
import tempfile
def build2(sect=Time(1), rep=3.0, load=0.05):
    C = ManualMainController(name="C1", sectioning_time=sect)
    ps = PowerSystem(C)
    B = [Bus(name=f"B{i}", n_customers=(0 if i==0 else 1), coordinate=[0,-i]) for i in range(5)]
    L=[Line(name=f"L{i+1}", fbus=B[i], tbus=B[i+1], r=0.5, x=0.5, repair_time_dist=fixed(rep)) for i in range(4)]
    CircuitBreaker("E1", L[0])
    Disconnector("L3a", L[2], B[2])
    tn = Transmission(ps, trafo_bus=B[0])
    dn = Distribution(parent_network=tn, connected_line=L[0])
    dn.add_buses(B[1:]); dn.add_lines(L[1:])
    for b in B[1:]:
        b.add_load_data(pload_data=np.ones(24)*load, cost_function=CostFunction(A=1,B=1))
    return ps,B,L,dn
ps,B,L,dn = build2()
def cb(ps, prev_time, curr_time):
    if curr_time == Time(2):
        ps.get_comp("L3").fail(Time(1))
sim = Simulation(ps, random_seed=0)
sim.run_sequential(start_time=TimeStamp(2019,0,0,0,0,0), stop_time=TimeStamp(2019,0,0,12,0,0), time_step=Time(1), time_unit=TimeUnit.HOUR, callback=cb, save_dir=tempfile.mkdtemp(), save_flag=True)
print("sections:", [(s.lines, s.switches) for s in dn.sections])
for l in L: print(l.name, "failed", l.history["failed"])
print("E1", ps.get_comp("E1").history["is_open"]); print("L3a", ps.get_comp("L3a").history["is_open"])
for b in B: print(b.name, b.history["p_energy_shed_stack"])
