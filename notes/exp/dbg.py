import sys
from stress import *
seed=int(sys.argv[1])
rng=random.Random(seed)
ps,T=gen(rng, False)
print("T",T)
for net in ps.child_network_list:
    if hasattr(net,'connected_line'):
        print(net.name, "root", net.connected_line, "lines", [(l.name, l.fbus.name, l.tbus.name, [d.name for d in l.disconnectors], l.is_backup) for l in net.lines])
sim=Simulation(ps, random_seed=0); sim.distribute_random_instance(np.random.default_rng(0))
ps.create_sections(); n_inc=60
for net in ps.child_network_list:
    if getattr(net,'sections',None): print(net.name,"sections",[(s.lines,s.switches) for s in net.sections])
idx=np.arange(n_inc); ps.prepare_load_data(idx); ps.prepare_prod_data(idx); ps.initialize_sequence_history()
nf=rng.randint(1,4); faults={}
for _ in range(nf):
    k=rng.randint(1,14); l=rng.choice(ps.lines); r=rng.choice([F(1,2),F(1),F(2),F(5,2)])
    faults.setdefault(k,[]).append((l.name,r))
print("faults",faults)
def cb(ps, prev_time, curr_time):
    k=int(curr_time.quantity*2)
    if 1<k<24:
        print(f"end of {k-1}: CB", [(c.name,int(c.is_open)) for c in ps.circuitbreakers], "failed", [l.name for l in ps.lines if l.failed], "disconnected", [l.name for l in ps.lines if not l.connected], "open sw", [d.name for d in ps.disconnectors if d.is_open], "timers", [(n.controller.name[:6], str(n.controller.sectioning_time.quantity)) for n in ps.child_network_list if hasattr(n,'controller')], "secstate", [(str(s), s.state.name[:4]) for n in ps.child_network_list if getattr(n,'sections',None) for s in n.sections if s.state!=SectionState.CONNECTED])
    for (ln,r) in faults.get(k,[]):
        l=ps.get_comp(ln)
        if not l.failed:
            l.repair_time_dist=FixedDist(r); l.fail(curr_time-prev_time); print("   inject", ln, r, "connected", l.connected)
sim.run_sequence(TimeStamp(2019,0,0,0,0,0), [F(k,2) for k in range(1,30)], TimeUnit.HOUR, cb, False)
