from net import *
# C17: hour of day
ts = TimeStamp(year=2019, month=0, day=0, hour=0)
for h in [0,1,23,24,25,47,48,49]:
    print("elapsed",h,"->",ts.get_hour_of_day(Time(h, TimeUnit.HOUR)))
ts = TimeStamp(year=2019, month=0, day=0, hour=5)
for h in [0,1,23,24,25]:
    print("start5 elapsed",h,"->",ts.get_hour_of_day(Time(h, TimeUnit.HOUR)))
# increments
from relsad.simulation.system_config import prepare_system
for hrs in range(1,30):
    d = TimeStamp(0,0,0,hrs,0,0)-TimeStamp(0,0,0,0,0,0)
    q = d/Time(1,TimeUnit.HOUR)
    print(hrs, repr(q), int(q), end=" | ")
print()
for days in range(1,15):
    d = TimeStamp(0,0,days,0,0,0)-TimeStamp(0,0,0,0,0,0)
    q = d/Time(1,TimeUnit.HOUR)
    print(days, repr(q), int(q), end=" | ")
print()
print(Time(1,TimeUnit.MONTH)==Time(Time(1,TimeUnit.MONTH).get_seconds(),TimeUnit.SECOND), Time(3,TimeUnit.WEEK).get_months()*4.3452)
import numpy as np
print(np.arange(0.1, 7*0.1, 0.1), np.arange(1,6,1))
