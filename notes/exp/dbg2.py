import sys, traceback
from stress import *
from relsad.network.components import Line as LineCls
orig=LineCls.connect
def patched(self):
    if self.name=="L4" and not self.connected:
        print("L4.connect() called from:", [f"{f.name}:{f.lineno}" for f in traceback.extract_stack()[-6:-1]], "failed=",self.failed)
    return orig(self)
LineCls.connect=patched
seed=49
rng=random.Random(seed); ps,T=gen(rng, False)
sim=Simulation(ps, random_seed=0); sim.distribute_random_instance(np.random.default_rng(0))
ps.create_sections(); idx=np.arange(60); ps.prepare_load_data(idx); ps.prepare_prod_data(idx); ps.initialize_sequence_history()
faults={1: [('L2', F(1))], 2: [('L4', F(5,2))]}
def cb(ps, prev_time, curr_time):
    k=int(curr_time.quantity*2)
    for (ln,r) in faults.get(k,[]):
        l=ps.get_comp(ln); l.repair_time_dist=FixedDist(r); l.fail(curr_time-prev_time)
sim.run_sequence(TimeStamp(2019,0,0,0,0,0), [F(k,2) for k in range(1,5)], TimeUnit.HOUR, cb, False)
print("----- second pass with tracing of controller")
LineCls.connect=orig
rng=random.Random(seed); ps,T=gen(rng, False)
dn=[n for n in ps.child_network_list if hasattr(n,'controller')][0]
sim=Simulation(ps, random_seed=0); sim.distribute_random_instance(np.random.default_rng(0))
ps.create_sections(); idx=np.arange(60); ps.prepare_load_data(idx); ps.prepare_prod_data(idx); ps.initialize_sequence_history()
c=dn.controller
oc=c.check_lines_manually; od=c.disconnect_failed_sections; ocb=c.check_circuitbreaker_manually
def w1(curr_time):
    print("  before check_lines: failed_secs", c.failed_sections, "states", [(str(s), s.state.name) for s in dn.sections])
    r=oc(curr_time); print("  after  check_lines: failed_secs", c.failed_sections, "timer", c.sectioning_time); return r
def w2():
    print("  disconnect_failed_sections:", c.failed_sections); return od()
def w3(curr_time, dt):
    print("  check_cb: cb open", dn.connected_line.circuitbreaker.is_open, "timer", c.sectioning_time, c.sectioning_time <= Time(0)); return ocb(curr_time, dt)
c.check_lines_manually=w1; c.disconnect_failed_sections=w2; c.check_circuitbreaker_manually=w3
def cb2(ps, prev_time, curr_time):
    k=int(curr_time.quantity*2); print("inc",k)
    for (ln,r) in faults.get(k,[]):
        l=ps.get_comp(ln); l.repair_time_dist=FixedDist(r); l.fail(curr_time-prev_time)
sim.run_sequence(TimeStamp(2019,0,0,0,0,0), [F(k,2) for k in range(1,4)], TimeUnit.HOUR, cb2, False)
print("L4 connected", ps.get_comp("L4").connected, "failed", ps.get_comp("L4").failed)
