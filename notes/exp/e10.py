from net import *
import random, itertools
from relsad.topology.sectioning import create_sections, get_section_list
def mknet(parent, sw, rng=None):
    # parent[i] = parent line index of line i (line 0 = root/connected_line, parent -1); sw[i] in {0:none,1:up,2:down,3:both}
    PowerSystem.counter=0; Distribution.counter=0; Transmission.counter=0
    n=len(parent)
    C = ManualMainController(name="C1", sectioning_time=Time(1)); ps = PowerSystem(C)
    B=[Bus(name=f"B{i}") for i in range(n+1)]   # line i goes from tbus(parent) to B[i+1]; root from B0
    L=[]
    for i in range(n):
        fb = B[0] if parent[i]<0 else B[parent[i]+1]
        L.append(Line(name=f"L{i}", fbus=fb, tbus=B[i+1], r=0.5, x=0.5))
    CircuitBreaker("E1", L[0])
    for i in range(n):
        if sw[i] in (1,3) and i>0: Disconnector(f"D{i}a", L[i], L[i].fbus)
        if sw[i] in (2,3): Disconnector(f"D{i}b", L[i], L[i].tbus)
    tn=Transmission(ps, trafo_bus=B[0]); dn=Distribution(parent_network=tn, connected_line=L[0])
    dn.add_buses(B[1:]); dn.add_lines(L[1:])
    return ps,dn,L
def model(parent, sw):
    n=len(parent)
    children=[[j for j in range(n) if parent[j]==i] for i in range(n)]
    nsw=[(1 if i==0 else 0) + (1 if (sw[i] in (1,3) and i>0) else 0) + (1 if sw[i] in (2,3) else 0) for i in range(n)]
    sec={}
    sec[0]=(0,'M')
    order=[0]
    for i in order:
        for c in children[i]: order.append(c)
    for i in order[1:]:
        if nsw[i]>0:
            sec[i]=(i,'S') if (nsw[i]>1 and children[i]) else (i,'M')
        else:
            h,k=sec[parent[i]]
            sec[i]=(h,'M')
    parts={}
    for i,s in sec.items(): parts.setdefault(s,set()).add(f"L{i}")
    return set(frozenset(v) for v in parts.values())
rng=random.Random(1)
bad=0; tot=0
for trial in range(3000):
    n=rng.randint(1,7)
    parent=[-1]+[rng.randint(0,i-1) for i in range(1,n)]
    sw=[rng.choice([0,0,1,2,3]) for _ in range(n)]
    ps,dn,L=mknet(parent,sw)
    ps.create_sections()
    py=[frozenset(l.name for l in s.lines) for s in dn.sections]
    pyset=set(py)
    cover=sorted(l for s in py for l in s)
    ok_part = cover==sorted(f"L{i}" for i in range(n))
    m=model(parent,sw)
    tot+=1
    if pyset!=m or not ok_part or len(py)!=len(pyset):
        bad+=1
        if bad<=6: print("MISMATCH parent",parent,"sw",sw,"\n  py",sorted(map(sorted,py)),"\n  model",sorted(map(sorted,m)), "partition_ok",ok_part)
print("total",tot,"bad",bad)

def model_sw(parent, sw):
    n=len(parent)
    children=[[j for j in range(n) if parent[j]==i] for i in range(n)]
    def swnames(i):
        s=[]
        if sw[i] in (1,3) and i>0: s.append(f"D{i}a")
        if sw[i] in (2,3): s.append(f"D{i}b")
        if i==0: s.append("E1")
        return s
    nsw=[len(swnames(i)) for i in range(n)]
    sec={0:(0,'M')}
    order=[0]
    for i in order:
        for c in children[i]: order.append(c)
    for i in order[1:]:
        if nsw[i]>0: sec[i]=(i,'S') if (nsw[i]>1 and children[i]) else (i,'M')
        else: sec[i]=(sec[parent[i]][0],'M')
    parts={}
    for i,s in sec.items(): parts.setdefault(s,set()).add(i)
    res={}
    for s,lines in parts.items():
        h=s[0]
        if len(lines)==1 and nsw[next(iter(lines))]>0:
            sws=set(swnames(next(iter(lines))))
        else:
            sws=set(swnames(h))
            for c in range(n):
                if c not in lines and parent[c] in lines and nsw[c]>0: sws|=set(swnames(c))
        res[frozenset(f"L{i}" for i in lines)]=sws
    return res
rng=random.Random(2); bad=0
for trial in range(3000):
    n=rng.randint(1,7)
    parent=[-1]+[rng.randint(0,i-1) for i in range(1,n)]
    sw=[rng.choice([0,0,1,2,3]) for _ in range(n)]
    ps,dn,L=mknet(parent,sw); ps.create_sections()
    py={frozenset(l.name for l in s.lines): set(x.name for x in s.switches) for s in dn.sections}
    m=model_sw(parent,sw)
    if py!=m:
        bad+=1
        if bad<=5:
            print("SW MISMATCH parent",parent,"sw",sw)
            for k in py: print("   ",sorted(k),"py",sorted(py[k]),"model",sorted(m.get(k,[])))
print("switch spec bad",bad)
