-- core-only model
namespace LPm
def dot : List Rat → List Rat → Rat
  | a :: as, b :: bs => a * b + dot as bs
  | _, _ => 0
/-- yᵀA as a row vector: Σ_i y_i • A_i -/
def vadd : List Rat → List Rat → List Rat
  | a :: as, b :: bs => (a + b) :: vadd as bs
  | _, _ => []
def smul (k : Rat) (v : List Rat) : List Rat := v.map (k * ·)
def zeros (n : Nat) : List Rat := List.replicate n 0
def yTA (n : Nat) : List Rat → List (List Rat) → List Rat
  | y :: ys, r :: rs => vadd (smul y r) (yTA n ys rs)
  | _, _ => zeros n
def boxMin : List Rat → List Rat → List Rat → Rat
  | r :: rs, l :: ls, u :: us => min (r * l) (r * u) + boxMin rs ls us
  | _, _, _ => 0
def vsub : List Rat → List Rat → List Rat
  | a :: as, b :: bs => (a - b) :: vsub as bs
  | _, _ => []
structure LP where
  n : Nat
  A : List (List Rat)
  b : List Rat
  c : List Rat
  lo : List Rat
  hi : List Rat
def dualBound (p : LP) (y : List Rat) : Rat :=
  dot y p.b + boxMin (vsub p.c (yTA p.n y p.A)) p.lo p.hi
end LPm
