import sys, random, traceback, io, contextlib
from net import *
from fractions import Fraction as F
import relsad.simulation.Simulation
from relsad.network.containers import SectionState
simmod = sys.modules['relsad.simulation.Simulation']
class FixedDist:
    def __init__(self,v): self.v=v
    def draw(self, random_instance=None, size=1): return [self.v]
def reset_counters():
    PowerSystem.counter=0; Distribution.counter=0; Microgrid.counter=0; Transmission.counter=0
def gen(rng, ict=False):
    reset_counters()
    T = rng.choice([F(0),F(1,2),F(1),F(3,2),F(2)])
    if ict:
        C = MainController(name="C1", hardware_fail_rate_per_year=0, software_fail_rate_per_year=0, manual_sectioning_time=Time(T))
    else:
        C = ManualMainController(name="C1", sectioning_time=Time(T))
    ps = PowerSystem(C)
    B0 = Bus("B0", n_customers=0)
    tn = None
    nfeed = rng.choice([1,1,2])
    allL=[]; allB=[B0]; feeders=[]
    bi=1; li=1
    specs=[]
    for f in range(nfeed):
        n=rng.randint(1,6)
        parent=[-1]+[rng.randint(0,i-1) for i in range(1,n)]
        sw=[rng.choice([0,0,1,2,3,3]) for _ in range(n)]
        Bs=[]; Ls=[]
        for i in range(n):
            b=Bus(f"B{bi}", n_customers=rng.choice([0,1,3])); bi+=1; Bs.append(b)
        for i in range(n):
            fb = B0 if parent[i]<0 else Bs[parent[i]]
            l=Line(f"L{li}", fb, Bs[i], r=0.05, x=0.05, capacity=100); li+=1
            l.repair_time_dist=FixedDist(F(1)); Ls.append(l)
        CircuitBreaker(f"E{f}", Ls[0])
        for i in range(n):
            ds=[]
            if sw[i] in (1,3) and i>0: ds.append(Disconnector(f"D{Ls[i].name}a", Ls[i], Ls[i].fbus))
            if sw[i] in (2,3): ds.append(Disconnector(f"D{Ls[i].name}b", Ls[i], Ls[i].tbus))
            if ict:
                for d in ds: IntelligentSwitch(f"IS{d.name}", d, fail_rate_per_year=0)
                Sensor(f"S{Ls[i].name}", Ls[i], fail_rate_per_year=0)
        specs.append((parent,sw,Bs,Ls))
    # backup tie between leaves of two feeders
    tie=None
    if nfeed==2 and rng.random()<0.7:
        a=rng.choice(specs[0][2]); b=rng.choice(specs[1][2])
        tie=Line(f"LT", a, b, r=0.05, x=0.05, capacity=100); tie.repair_time_dist=FixedDist(F(1))
        Disconnector("DTa", tie, a); Disconnector("DTb", tie, b)
    # microgrid
    mgspec=None
    if rng.random()<0.5:
        host=rng.choice(specs[0][2])
        M=[Bus(f"M{i}", n_customers=1) for i in range(2)]
        ML=[Line("ML1", host, M[0], r=0.05,x=0.05), Line("ML2", M[0], M[1], r=0.05,x=0.05)]
        for l in ML: l.repair_time_dist=FixedDist(F(1))
        CircuitBreaker("EM", ML[0])
        if rng.random()<0.5:
            d=Disconnector("DML2a", ML[1], M[0])
            if ict: IntelligentSwitch("ISDML2a", d, fail_rate_per_year=0)
        if ict:
            for l in ML: Sensor(f"S{l.name}", l, fail_rate_per_year=0)
        Battery("Bat", M[0], inj_p_max=1, inj_q_max=1, E_max=2, SOC_min=0.1, SOC_max=1, n_battery=1.0)
        mgspec=(M,ML,rng.choice(list(MicrogridMode)))
    tn = Transmission(ps, trafo_bus=B0)
    dns=[]
    for (parent,sw,Bs,Ls) in specs:
        dn=Distribution(parent_network=tn, connected_line=Ls[0]); dn.add_buses(Bs); dn.add_lines(Ls[1:]); dns.append(dn)
    if tie is not None:
        dns[0].add_lines([tie]); tie.set_backup()
    mg=None
    if mgspec:
        M,ML,mode=mgspec
        mg=Microgrid(distribution_network=dns[0], connected_line=ML[0], mode=mode); mg.add_buses(M); mg.add_lines(ML[1:])
    for b in ps.buses:
        if b is not B0:
            b.add_load_data(pload_data=np.ones(4)*rng.choice([0.01,0.02,0.05]), qload_data=np.ones(4)*0.005, cost_function=CostFunction(A=rng.choice([1,2,3]),B=1))
    return ps, T
def check_state(ps, tag, errs, automatic):
    # Inv_isolated
    for net in ps.child_network_list:
        if not hasattr(net,'connected_line') or net.connected_line is None: continue
        if not net.connected_line.circuitbreaker.is_open:
            for l in net.lines:
                if l.failed and l.connected: errs.append((tag,"failed line in service with breaker closed", l.name))
    for d in ps.disconnectors+ps.circuitbreakers:
        if d.is_open and d.line.connected: errs.append((tag,"open switch on in-service line", d.name))
def is_normal(ps):
    bad=[]
    for c in ps.circuitbreakers:
        if c.is_open: bad.append(("cb open",c.name))
    for l in ps.lines:
        if l.is_backup:
            if l.connected: bad.append(("backup closed", l.name))
        elif not l.connected: bad.append(("line out", l.name))
    for d in ps.disconnectors:
        if d.line.is_backup != d.is_open: bad.append(("switch pos", d.name, d.is_open))
    for net in ps.child_network_list:
        if getattr(net,'sections',None):
            for s in net.sections:
                if s.state!=SectionState.CONNECTED: bad.append(("section", str(s)))
        if hasattr(net,'controller'):
            c=net.controller
            if c.sectioning_time>Time(0): bad.append(("timer", c.name, str(c.sectioning_time)))
    return bad
def run_one(seed, ict=False):
    rng=random.Random(seed)
    ps,T=gen(rng, ict)
    sim=Simulation(ps, random_seed=0); sim.distribute_random_instance(np.random.default_rng(0))
    ps.create_sections(); n_inc=60
    idx=np.arange(n_inc); ps.prepare_load_data(idx); ps.prepare_prod_data(idx); ps.initialize_sequence_history()
    nf=rng.randint(1,4)
    faults={}
    for _ in range(nf):
        k=rng.randint(1,14); l=rng.choice(ps.lines); r=rng.choice([F(1,2),F(1),F(2),F(5,2)])
        faults.setdefault(k,[]).append((l.name,r))
    errs=[]
    def cb(ps, prev_time, curr_time):
        k=int(curr_time.quantity*2)
        # end-of-previous-increment observation
        if k>1: check_state(ps, f"end-of-{k-1}", errs, ict)
        for (ln,r) in faults.get(k,[]):
            l=ps.get_comp(ln)
            if not l.failed:
                l.repair_time_dist=FixedDist(r); l.fail(curr_time-prev_time)
    times=[F(k,2) for k in range(1,n_inc)]
    shed_before_fault=0
    try:
        sim.run_sequence(TimeStamp(2019,0,0,0,0,0), times, TimeUnit.HOUR, cb, False)
    except Exception as e:
        tb=traceback.extract_tb(e.__traceback__)[-1]
        return ("EXC", type(e).__name__, str(e)[:80], f"{tb.filename.split('/')[-1]}:{tb.lineno}", faults)
    bad=is_normal(ps)
    stacks=[(b.name, float(b.p_energy_shed_stack)) for b in ps.buses if b.p_energy_shed_stack>0]
    if errs: return ("INV", errs[:3], faults)
    if bad or stacks: return ("NOTNORMAL", bad[:4], stacks[:2], faults, str(T))
    return None
if __name__=="__main__":
    ict = len(sys.argv)>2 and sys.argv[2]=="ict"
    N=int(sys.argv[1]); kinds={}
    for seed in range(N):
        with contextlib.redirect_stdout(io.StringIO()):
            r=run_one(seed, ict)
        if r is not None:
            if r[0]=="INV": key=("INV", tuple(sorted(set(e[1] for e in r[1]))))
            elif r[0]=="NOTNORMAL": key=("NOTNORMAL", tuple(sorted(set(b[0] for b in r[1]))), bool(r[2]))
            else: key=(r[0], r[1], r[3])
            kinds.setdefault(key,[]).append(seed)
    for k,v in kinds.items(): print(len(v), k, v[:5])
    print("runs",N,"bad",sum(len(v) for v in kinds.values()))
