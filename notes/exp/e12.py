from net import *
from fractions import Fraction as F
import sys
import relsad.simulation.Simulation
simmod = sys.modules['relsad.simulation.Simulation']
class FixedDist:
    def __init__(self,v): self.v=v
    def draw(self, random_instance=None, size=1): return [self.v]
for mode in (MicrogridMode.FULL_SUPPORT, MicrogridMode.LIMITED_SUPPORT, MicrogridMode.SURVIVAL):
  for T in (F(2),):
    PowerSystem.counter=0; Distribution.counter=0; Microgrid.counter=0; Transmission.counter=0
    ps,B,L,dn,mg = build(sect=Time(T), n=4, rep=2.0, microgrid=mode)
    for l in ps.lines: l.repair_time_dist = FixedDist(F(1))
    sim = Simulation(ps, random_seed=0); sim.distribute_random_instance(np.random.default_rng(0))
    ps.create_sections(); idx=np.arange(60); ps.prepare_load_data(idx); ps.prepare_prod_data(idx); ps.initialize_sequence_history()
    log=[]
    orig = simmod.find_sub_systems
    def wrapped(p_s, curr_time, orig=orig, log=log):
        log.append((str(curr_time.quantity), [int(c.is_open) for c in p_s.circuitbreakers], str(mg.controller.sectioning_time.quantity), str(mg.controller.parent_sectioning_time.quantity), dn.failed_line))
        return orig(p_s=p_s, curr_time=curr_time)
    simmod.find_sub_systems = wrapped
    def cb(ps, prev_time, curr_time):
        if curr_time == Time(F(1)): ps.get_comp("L4").fail(curr_time-prev_time)
    sim.run_sequence(TimeStamp(2019,0,0,0,0,0), [F(k,2) for k in range(1,24)], TimeUnit.HOUR, cb, False)
    simmod.find_sub_systems = orig
    print(mode.name, "T=",T)
    for r in log: print("  ",r)
