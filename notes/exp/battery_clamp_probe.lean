import Mathlib.Tactic.Linarith
import Mathlib.Tactic.FieldSimp
import Mathlib.Tactic.Ring
import Mathlib.Tactic.Positivity
import Mathlib.Algebra.Order.Field.Rat

def chargeE (eta pmax emax socmax e p h : ℚ) : ℚ × ℚ :=
  let rem0 := if p > pmax then p - pmax else 0
  let p1 := if p > pmax then pmax else p
  let dE := eta * p1 * h
  let etr := e + dE
  if etr / emax > socmax then
    let f := 1 - (etr / emax - socmax) / (dE / emax)
    (e + f * dE, rem0 + (1 - f) * p1)
  else (etr, rem0)

theorem clamp_eq (e dE emax socmax : ℚ) (hemax : 0 < emax) (hinv : e ≤ socmax * emax)
    (hgt : (e + dE) / emax > socmax) :
    e + (1 - ((e + dE) / emax - socmax) / (dE / emax)) * dE = socmax * emax := by
  have hdE : 0 < dE := by
    rw [gt_iff_lt, lt_div_iff₀ hemax] at hgt; linarith
  have : dE ≠ 0 := ne_of_gt hdE
  field_simp
  ring

theorem charge_soc_le (eta pmax emax socmax e p h : ℚ)
    (hemax : 0 < emax) (hinv : e ≤ socmax * emax) :
    (chargeE eta pmax emax socmax e p h).1 ≤ socmax * emax := by
  unfold chargeE
  simp only []
  split_ifs with h1 h2 h2
  · exact le_of_eq (clamp_eq _ _ _ _ hemax hinv h2)
  · rw [gt_iff_lt, lt_div_iff₀ hemax] at h2; linarith
  · exact le_of_eq (clamp_eq _ _ _ _ hemax hinv h2)
  · rw [gt_iff_lt, lt_div_iff₀ hemax] at h2; linarith
#print axioms charge_soc_le
