from net import *
from fractions import Fraction as F
# Battery with Fractions (exact execution of the real code)
b = Bus("X")
bat = Battery("bat", b, inj_p_max=F(1,2), inj_q_max=F(1), E_max=F(1), SOC_min=F(1,10), SOC_max=F(1), n_battery=F(19,20), SOC_start=F(1,2))
r = bat.update_bus_load_and_prod(F(1,10), F(1), Time(F(1)))
print("q>pmax apportion:", r, "bus pprod", b.pprod, "qprod", b.qprod, "E", bat.E_battery, type(bat.E_battery))
# SOC_max<1 with draw
b2=Bus("Y"); bat2=Battery("bat2", b2, inj_p_max=F(1,2), inj_q_max=F(1,2), E_max=F(1), SOC_min=F(1,10), SOC_max=F(9,10), n_battery=F(1), SOC_start=F(1,2))
bat2.E_battery=F(19,20); bat2.update_SOC()   # as draw_SOC_state may produce (uniform on [E_min,E_max])
rem = bat2.charge(F(1,100), Time(F(1)))
print("charge from SOC .95 > SOC_max .9: rem", rem, "E", bat2.E_battery)
# Time with fractions
print(Time(F(7),TimeUnit.HOUR).get_years(), (TimeStamp(0,0,0,7)-TimeStamp(0,0,0,0))/Time(1))
print(TimeStamp(0,0,0,F(7))-TimeStamp(0,0,0,0))
