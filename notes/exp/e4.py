from net import *
import tempfile, traceback
def run(ps, hours=10, cb=None, save=False, unit=TimeUnit.HOUR, step=Time(1,TimeUnit.HOUR), seed=0, start_hour=0):
    sim = Simulation(ps, random_seed=seed)
    d = tempfile.mkdtemp()
    sim.run_sequential(start_time=TimeStamp(2019,0,0,start_hour,0,0), stop_time=TimeStamp(2019,0,0,start_hour+hours,0,0), time_step=step, time_unit=unit, callback=cb, save_dir=d, save_flag=save)
    return sim, d
def cbf(name, t):
    def cb(ps, prev_time, curr_time):
        if curr_time == Time(t, curr_time.unit):
            ps.get_comp(name).fail(curr_time-prev_time)
    return cb
print("== microgrid sequential save")
try:
    ps,B,L,dn,mg = build(microgrid=MicrogridMode.SURVIVAL)
    run(ps, hours=8, cb=cbf("L3",2), save=True)
    print("ok")
except Exception as e:
    traceback.print_exc(limit=2)
print("== EV zero cars")
try:
    ps,B,L,dn,mg = build(ev=dict(num_ev_dist=Table(np.arange(24), np.ones(24)*0.4)))
    run(ps, hours=8, cb=cbf("L3",2), save=False)
    print("ok")
except Exception as e:
    traceback.print_exc(limit=2)
print("== EV hour 24")
try:
    ps,B,L,dn,mg = build(ev=dict(num_ev_dist=Table(np.arange(24), np.ones(24)*3)))
    run(ps, hours=30, cb=cbf("L3",24), save=False)
    print("ok")
except Exception as e:
    traceback.print_exc(limit=2)
print("== EV start hour 5")
try:
    ps,B,L,dn,mg = build(ev=dict(num_ev_dist=Table(np.arange(24), np.ones(24)*3)))
    run(ps, hours=10, cb=cbf("L3",2), save=False, start_hour=5)
    print("ok")
except Exception as e:
    traceback.print_exc(limit=2)
print("== unit minutes: repair time")
ps,B,L,dn,mg = build(rep=3.0)
sim,d=run(ps, hours=12, cb=cbf("L3",120), save=True, unit=TimeUnit.MINUTE, step=Time(60,TimeUnit.MINUTE))
print([ (b.name, round(float(b.acc_p_energy_shed),4), b.acc_outage_time) for b in B])
print(L[2].history["remaining_outage_time"])
