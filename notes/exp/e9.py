import numpy as np
from scipy.optimize import linprog
from fractions import Fraction as F
# 3-bus chain, source at bus0 (INF), line caps
c=[5,1,3, 0,0, 0,0,0, 0]
A=np.zeros((3,9))
for j in range(3): A[j,j]=1; A[j,5+j]=1; A[j,8]=1
# lines: l0: 0->1, l1: 1->2
A[0,3]=-1; A[1,3]=1; A[1,4]=-1; A[2,4]=1
b=[0,0.3,0.4]
bounds=[(0,0),(0,0.3),(0,0.4),(-0.5,0.5),(-0.25,0.25),(0,1e8),(0,0),(0,0),(-1e-4,1e-4)]
r=linprog(c,A_eq=A,b_eq=b,bounds=bounds)
print(r.status, r.fun, r.x)
y=r.eqlin.marginals
print("y", y, r.lower.marginals, r.upper.marginals)
# exact Lagrangian bound with y (floats -> Fractions)
Af=[[F(float(v)) for v in row] for row in A]; bf=[F(v) for v in b]; cf=[F(v) for v in c]; yf=[F(float(v)) for v in y]
L=sum(yi*bi for yi,bi in zip(yf,bf))
for j in range(9):
    rj=cf[j]-sum(yf[i]*Af[i][j] for i in range(3))
    lo,hi=F(bounds[j][0]),F(bounds[j][1])
    L+=min(rj*lo,rj*hi)
print("dual bound", float(L), "primal", r.fun, "gap", r.fun-float(L))
