import numpy as np
from relsad.network.components import *
from relsad.network.systems import *
from relsad.Time import Time, TimeUnit, TimeStamp
from relsad.StatDist import StatDist, StatDistType, UniformParameters
from relsad.simulation import Simulation
from relsad.load.bus import CostFunction
from relsad.Table import Table

def fixed(v):
    return StatDist(StatDistType.UNIFORM_FLOAT, UniformParameters(min_val=v, max_val=v))

def build(sect=Time(1), n=4, rep=2.0, microgrid=None, backup=False, ev=None, load=0.05, two_discon=True, battery_kw=None):
    C = ManualMainController(name="C1", sectioning_time=sect)
    ps = PowerSystem(C)
    B = [Bus(name=f"B{i}", n_customers=(0 if i==0 else 1), coordinate=[0,-i]) for i in range(n+1)]
    L=[]
    for i in range(n):
        L.append(Line(name=f"L{i+1}", fbus=B[i], tbus=B[i+1], r=0.5, x=0.5, repair_time_dist=fixed(rep), capacity=100))
    CircuitBreaker("E1", L[0])
    D=[]
    for i in range(n):
        if i>0:
            D.append(Disconnector(f"L{i+1}a", L[i], B[i]))
        if two_discon:
            D.append(Disconnector(f"L{i+1}b", L[i], B[i+1]))
    extra=[]
    if ev is not None:
        EVPark(name="EV1", bus=B[2], **ev)
    tn = Transmission(ps, trafo_bus=B[0])
    dn = Distribution(parent_network=tn, connected_line=L[0])
    dn.add_buses(B[1:])
    dn.add_lines(L[1:])
    mg=None
    if microgrid is not None:
        M=[Bus(name=f"M{i}", n_customers=1, coordinate=[1,-i]) for i in range(1,3)]
        ML1=Line(name="ML1", fbus=B[2], tbus=M[0], r=0.5,x=0.5, repair_time_dist=fixed(rep))
        ML2=Line(name="ML2", fbus=M[0], tbus=M[1], r=0.5,x=0.5, repair_time_dist=fixed(rep))
        CircuitBreaker("E2", ML1)
        Disconnector("ML2a", ML2, M[0])
        bat=Battery(name="Bat1", bus=M[0], **(battery_kw or {}))
        mg=Microgrid(distribution_network=dn, connected_line=ML1, mode=microgrid)
        mg.add_buses(M)
        mg.add_lines([ML2])
        for b in M:
            b.add_load_data(pload_data=np.ones(24)*load, cost_function=CostFunction(A=1,B=1))
    for b in B[1:]:
        b.add_load_data(pload_data=np.ones(24)*load, qload_data=np.ones(24)*load/2, cost_function=CostFunction(A=1,B=1))
    return ps, B, L, dn, mg
