from net import *
from fractions import Fraction as F
import sys, tempfile
simmod = sys.modules['relsad.simulation.Simulation']
import relsad.simulation.Simulation  # noqa
simmod = sys.modules['relsad.simulation.Simulation']
print(type(simmod), hasattr(simmod,'find_sub_systems'), hasattr(simmod,'shed_energy'))
# exact times through the control plane: drive run_sequence directly with Fraction times
Time.WEEK_per_MONTH = F(43452,10000)
class FixedDist:
    def __init__(self,v): self.v=v
    def draw(self, random_instance=None, size=1): return [self.v]
ps,B,L,dn,mg = build(sect=Time(F(3,4)), n=4, rep=2.0, microgrid=MicrogridMode.FULL_SUPPORT)
for l in ps.lines: l.repair_time_dist = FixedDist(F(5,2))
sim = Simulation(ps, random_seed=0)
sim.distribute_random_instance(np.random.default_rng(0))
ps.create_sections()
idx=np.arange(40); ps.prepare_load_data(idx); ps.prepare_prod_data(idx)
ps.initialize_sequence_history()
phases=[]
orig_fss = simmod.find_sub_systems
def wrapped(p_s, curr_time):
    phases.append(("post-control", float(curr_time.quantity), [(c.name,c.is_open) for c in p_s.circuitbreakers], str(dn.controller.sectioning_time), type(dn.controller.sectioning_time.quantity).__name__))
    return orig_fss(p_s=p_s, curr_time=curr_time)
simmod.find_sub_systems = wrapped
def cb(ps, prev_time, curr_time):
    if curr_time == Time(F(1)):
        ps.get_comp("L3").fail(curr_time-prev_time)
times=[F(k,2) for k in range(1,16)]
sim.run_sequence(start_time=TimeStamp(2019,0,0,0,0,0), time_array=times, time_unit=TimeUnit.HOUR, callback=cb, save_flag=False)
for p in phases: print(p)
print("L3 rem", L[2].remaining_outage_time, "B4 acc", B[4].acc_p_energy_shed, B[4].acc_outage_time)
