from net import *
import tempfile, io, contextlib, enum
from relsad.simulation.system_config import reset_system, prepare_system
def snap(ps, sim):
    out={}
    def prim(v):
        if isinstance(v, Time): return ("T", float(v.get_hours()))
        if isinstance(v, enum.Enum): return v.name
        if isinstance(v,(int,float,bool,str,type(None),np.floating,np.integer,np.bool_)): return v if not isinstance(v,(np.floating,np.integer,np.bool_)) else v.item()
        if isinstance(v,(list,tuple)):
            return [prim(x) if not hasattr(x,'name') else x.name for x in v] if all(hasattr(x,'name') or isinstance(x,(int,float,str,bool,Time)) for x in v) else "<list>"
        if hasattr(v,'name'): return "@"+str(v.name)
        return "<obj>"
    objs = list(ps.comp_list)+[ps, ps.controller]+list(ps.child_network_list)
    for n in ps.child_network_list:
        if getattr(n,'sections',None):
            for i,s in enumerate(n.sections):
                out[(n.name,"section",i)] = (s.state.name, [l.name for l in s.lines], [l.connected for l in s.lines])
    for o in objs:
        d = getattr(o,'__dict__',{})
        for k,v in d.items():
            if k in ("history","monte_carlo_history","comp_dict","comp_list","handle","ps_random","random_instance","sub_systems","coordinate","color","linestyle"): continue
            if k.endswith("_data") or k=="num_ev_dist" or k=="repair_time_dist": continue
            out[(o.name,k)] = prim(v)
    out[("sim","fail_duration")] = float(sim.fail_duration.get_hours())
    return out
def mk():
    PowerSystem.counter=0; Distribution.counter=0; Microgrid.counter=0; Transmission.counter=0
    ps,B,L,dn,mg = build(rep=4.0, microgrid=MicrogridMode.LIMITED_SUPPORT, ev=dict(num_ev_dist=Table(np.arange(24), np.ones(24)*3)))
    for l in ps.lines:
        l.fail_rate_per_year = 800.0
    ps.get_comp("B3").fail_rate_per_year=300.0
    return ps
def fresh():
    ps=mk(); sim=Simulation(ps, random_seed=3)
    ta = prepare_system(ps, TimeStamp(2019,0,0,0,0,0), TimeStamp(2019,0,0,10,0,0), Time(1), TimeUnit.HOUR)
    return ps, sim, ta
ps,sim,ta=fresh()
sim.distribute_random_instance(np.random.default_rng(0))
reset_system(ps, False)
s0=snap(ps,sim)
leaks={}
for seed in range(40):
    ps,sim,ta=fresh()
    with contextlib.redirect_stdout(io.StringIO()):
        sim.run_iteration(1, TimeStamp(2019,0,0,0,0,0), ta, TimeUnit.HOUR, "/tmp/exp/x", False, seed)
    reset_system(ps, False)
    s1=snap(ps,sim)
    for k in s0:
        if s0[k]!=s1.get(k):
            leaks.setdefault(k,[]).append((s0[k], s1.get(k)))
for k,v in sorted(leaks.items(), key=str):
    print(k, len(v), v[0])
