#!/bin/bash
# Build the Lean development (library, property theorems, compiled driver) offline.
set -e
cd "$(dirname "$0")/lean"
lake build 2>&1 | grep -v "conda.cli.condarc" | tail -15
test -x .lake/build/bin/relsad_driver
echo "setup ok"
