-- Root of the `Relsad` library: executable models (no Mathlib), lemmas and property theorems.
import Relsad.Model.TimeM
import Relsad.Model.Increments
import Relsad.Model.Battery
import Relsad.Model.Fail
import Relsad.Model.BusAcct
import Relsad.Model.Interp
import Relsad.Model.EVPark
import Relsad.Props.C17
import Relsad.Props.C11
import Relsad.Props.C13
import Relsad.Props.C10
import Relsad.Props.C01
import Relsad.Props.C19
import Relsad.Props.C12
