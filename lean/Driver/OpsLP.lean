import Driver.Proto
import Relsad.Model.LP

namespace Driver
open Relsad.LP

def parseILine? (s : String) : Option ILine :=
  match s.splitOn ":" with
  | [f, t, c] => do some { f := ← f.toNat?, t := ← t.toNat?, cap := ← parseRat? c }
  | _ => none

def showLP (p : LP) : String :=
  let rows := ";".intercalate (p.A.map (showList showRat))
  s!"{p.n} {rows} {showList showRat p.b} {showList showRat p.c} {showList showRat p.lo} {showList showRat p.hi}"

def patternOK (I : Island) (p : LP) : Bool :=
  let nd := I.buses.length
  colSums p == List.replicate nd (1 : Rat) ++ zeros I.lines.length ++ List.replicate nd (1 : Rat) ++ [(nd : Rat)]

/-- Operations of the `lp` module; state = current island + LP. -/
def opsLP (st : Option (Island × LP)) (args : List String) : Option (Option (Island × LP) × String) :=
  match args, st with
  | ["island", alpha, loads, costs, gens, lines], _ => do
      let loads ← parseList? parseRat? loads; let costs ← parseList? parseRat? costs; let gens ← parseList? parseRat? gens
      if loads.length != costs.length || loads.length != gens.length then none else
      let buses := (loads.zip (costs.zip gens)).map (fun (l, c, g) => ({ load := l, cost := c, genMax := g } : IBus))
      let I : Island := { buses := buses, lines := ← parseList? parseILine? lines, alpha := ← parseRat? alpha }
      let p := build I
      some (some (I, p), s!"{showLP p} pattern={showBool (patternOK I p)} shedAllFeasible={showBool (isFeasible p (shedAll I))}")
  | ["cert", x, y, gap, tol], some (I, p) => do
      let x ← parseList? parseRat? x; let y ← parseList? parseRat? y
      let ok := checkCert p x y (← parseRat? gap) (← parseRat? tol)
      some (some (I, p), s!"{showBool ok} {showRat (cost p x)} {showRat (dualBound p y)}")
  | ["feas", z], some (I, p) => do
      let z ← parseList? parseRat? z
      some (some (I, p), s!"{showBool (isFeasible p z)} {showRat (cost p z)}")
  | ["reported", x, f], some (I, p) => do
      some (some (I, p), showList showRat (reported I (← parseList? parseRat? x) (← parseRat? f)))
  | _, _ => none

end Driver
