import Driver.Proto
import Relsad.Model.BusAcct

namespace Driver
open Relsad Relsad.BusAcc Relsad.Indices

def showBusAcc (b : BusAcc) : String :=
  s!"{showRat b.pload} {showRat b.qload} {showRat b.pStack} {showRat b.qStack} {showRat b.accP} {showRat b.accQ} {showRat b.accOutage} {b.nConsec} {showRat b.frac} {showRat b.curr} {showRat b.accInt}"

def modifyAt (l : List BusAcc) (i : Nat) (f : BusAcc → BusAcc) : List BusAcc :=
  l.mapIdx (fun j b => if j == i then f b else b)

def showOpt (o : Option Rat) : String := match o with | some r => showRat r | none => "err"

/-- Operations of the `acct` module over a list of buses. -/
def opsAcct (bs : List BusAcc) (args : List String) : Option (List BusAcc × String) :=
  match args with
  | ["new", cs] => do
      let cs ← parseList? parseRat? cs
      some (cs.map (fun c => ({ nCust := c } : BusAcc)), "ok")
  | ["set", i, p, q] => do
      let i ← parseNat? i; let p ← parseRat? p; let q ← parseRat? q
      let bs' := modifyAt bs i (·.setLoad p q)
      some (bs', (bs'[i]?.map showBusAcc).getD "bad-index")
  | ["add", i, p, q] => do
      let i ← parseNat? i; let p ← parseRat? p; let q ← parseRat? q
      let bs' := modifyAt bs i (·.addLoad p q)
      some (bs', (bs'[i]?.map showBusAcc).getD "bad-index")
  | ["stack", i, p, q, h] => do
      let i ← parseNat? i; let p ← parseRat? p; let q ← parseRat? q; let h ← parseRat? h
      let bs' := modifyAt bs i (·.addToStack p q h)
      some (bs', (bs'[i]?.map showBusAcc).getD "bad-index")
  | ["shed", i, h] => do
      let i ← parseNat? i; let h ← parseRat? h
      let bs' := modifyAt bs i (·.shedLoad h)
      some (bs', (bs'[i]?.map showBusAcc).getD "bad-index")
  | ["log", h] => do
      let h ← parseRat? h
      let bs' := bs.map (·.log h)
      some (bs', " | ".intercalate (bs'.map showBusAcc))
  | ["idx", lo, hi, hours] => do
      let lo ← parseNat? lo; let hi ← parseNat? hi; let hours ← parseRat? hours
      let l := (bs.drop lo).take (hi - lo)
      some (bs, s!"{showRat (saifi l)} {showRat (saidi l)} {showRat (caidi l)} {showOpt (asui? l hours)} {showOpt (asai? l hours)} {showRat (ens l)} {showRat (sumBy (·.accQ) l)}")
  | _ => none

end Driver
