import Driver.Proto
import Relsad.Model.Graph
import Relsad.Model.Islands
import Relsad.Model.Sections
import Relsad.Model.Relrad

namespace Driver
open Relsad.Graph Relsad.Islands Relsad.Sections Relsad.Relrad

def parseRLine? (s : String) : Option RLine :=
  match s.splitOn ":" with
  | [a, b, k, n] => do some { a := ← a.toNat?, b := ← b.toNat?, sec := ← k.toNat?, net := ← n.toNat? }
  | _ => none

def parseEdge? (s : String) : Option Edge :=
  match s.splitOn "-" with
  | [a, b] => do some (← a.toNat?, ← b.toNat?)
  | _ => none

def parseBackup? (s : String) : Option Backup :=
  match s.splitOn ":" with
  | [i, a, b, e] => do some { id := ← i.toNat?, a := ← a.toNat?, b := ← b.toNat?, eligible := ← parseBool? e }
  | _ => none

def sortNat (l : List Nat) : List Nat := (l.toArray.qsort (· < ·)).toList

/-- canonical form of a partition: each island sorted, islands ordered by smallest member -/
def showComps (cs : List (List Nat)) : String :=
  let cs := cs.map sortNat
  let cs := (cs.toArray.qsort (fun a b => a.headD 0 < b.headD 0)).toList
  "|".intercalate (cs.map (showList toString))

def parseLineSpec? (s : String) : Option LineSpec :=
  match s.splitOn ":" with
  | [p, n] => do
      let par ← if p == "r" then some none else (some <$> p.toNat?)
      some { parent := par, nsw := ← n.toNat? }
  | _ => none

def opsGraph (args : List String) : Option String :=
  match args with
  | ["comps", vs, es] => do
      let V ← parseList? parseNat? vs; let E ← parseList? parseEdge? es
      some (showComps (components V E))
  | ["reach", vs, es, a, b] => do
      let V ← parseList? parseNat? vs; let E ← parseList? parseEdge? es
      some (showBool (decide ((← b.toNat?) ∈ reach V E (← a.toNat?))))
  | ["islands", vs, es, bs] => do
      let V ← parseList? parseNat? vs; let E ← parseList? parseEdge? es; let B ← parseList? parseBackup? bs
      let (E', closed) := closeBackups V B.length E B
      some s!"{showComps (components V E')} {closed.length} {showBool (isForest V E')}"
  | ["relrad", vs, ls, bs, feed, k, knet, bnets] => do
      let V ← parseList? parseNat? vs; let L ← parseList? parseRLine? ls; let B ← parseList? parseEdge? bs
      let bn ← parseList? parseNat? bnets
      let feed ← feed.toNat?; let k ← k.toNat?; let knet ← knet.toNat?
      some (showList (fun (c : Class) => match c with | .unaffected => "u" | .sectioningOnly => "s" | .untilRepair => "r")
        ((V.zip bn).map (fun (b, n) => classify V L B feed k knet b n)))
  | ["sections", ls] => do
      let L ← parseList? parseLineSpec? ls
      some (showList (fun (p : Nat × Bool) => s!"{p.1}{if p.2 then "s" else "m"}") (secIds L))
  | _ => none

end Driver
