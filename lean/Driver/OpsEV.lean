import Driver.Proto
import Relsad.Model.EVPark

namespace Driver
open Relsad Relsad.EV

structure EVCtx where
  P : ParkP
  k : Park

def showPark (k : Park) : String :=
  s!"{showList showRat (k.cars.map (·.e))} {k.availableNum} {k.accAvailable} {showRat k.currPDemand} {showRat k.currPCharge} {showRat k.currQCharge}"

def showStats (k : Park) : String :=
  s!"{k.nConsec} {showRat k.frac} {showRat k.currExp} {k.accNum} {showRat k.accExp} {showRat k.currExpCar} {showRat k.accExpCar} {showRat k.currDur} {showRat k.accDur}"

def opsEV (c : Option EVCtx) (args : List String) : Option (Option EVCtx × String) :=
  match args, c with
  | ["new", pMax, qMax, eMax, socMin, socMax, eta, v2g, numCars], _ => do
      let b : BatParams := { pMax := ← parseRat? pMax, qMax := ← parseRat? qMax, eMax := ← parseRat? eMax,
                             socMin0 := ← parseRat? socMin, socMax := ← parseRat? socMax, eta := ← parseRat? eta }
      some (some ⟨{ bat := b, v2g := ← parseBool? v2g, numCars := ← parseInt? numCars }, {}⟩, "ok")
  | ["upd", p, q, h, first, tv, socs], some c => do
      match EV.update c.P c.k (← parseRat? p) (← parseRat? q) (← parseRat? h) (← parseBool? first) (← parseRat? tv) (← parseList? parseRat? socs) with
      | none => some (some c, "err")
      | some (k', p', q') => some (some ⟨c.P, k'⟩, s!"{showPark k'} {showRat p'} {showRat q'}")
  | ["idx", parks], c => do
      -- network / system level indices from `cars:accExp:accNum:accDur` per park
      let ps ← (parks.splitOn ",").mapM (fun t => match t.splitOn ":" with
        | [a, b, n, d] => do some ({ cars := ← parseRat? a, accExp := ← parseRat? b, accNum := ← parseRat? n, accDur := ← parseRat? d } : ParkStat)
        | _ => none)
      some (c, s!"{showRat (evInterruption ps)} {showRat (evDuration ps)}")
  | ["log", dt], some c => do
      let k' := logStats c.P c.k (← parseRat? dt)
      some (some ⟨c.P, k'⟩, showStats k')
  | ["reset"], some c =>
      let k' := EV.reset c.k
      some (some ⟨c.P, k'⟩, s!"{showPark k'} | {showStats k'}")
  | _, _ => none

end Driver
