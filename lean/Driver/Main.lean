import Driver.Proto
import Driver.OpsTime

namespace Driver

def dispatch (line : String) : String :=
  match line.splitOn " " with
  | "time" :: args => (opsTime args).getD "bad-op"
  | _ => "bad-op"

partial def loop (h : IO.FS.Stream) (out : IO.FS.Stream) : IO Unit := do
  let line ← h.getLine
  if line.isEmpty then return ()
  let l := line.trimAscii.toString
  out.putStrLn (dispatch l)
  loop h out

end Driver

def main : IO Unit := do
  let out ← IO.getStdout
  Driver.loop (← IO.getStdin) out
  out.flush
