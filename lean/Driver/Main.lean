import Driver.Proto
import Driver.OpsTime
import Driver.OpsBattery
import Driver.OpsFail
import Driver.OpsAcct
import Driver.OpsProf
import Driver.OpsEV
import Driver.OpsGraph
import Driver.OpsLP
import Driver.OpsCtl
import Driver.OpsLF

namespace Driver

structure DState where
  bat : Option BatCtx := none
  acct : List Relsad.BusAcc := []
  ev : Option EVCtx := none
  lp : Option (Relsad.LP.Island × Relsad.LP.LP) := none
  ctl : Option (Relsad.Control.Cfg × Relsad.Control.St) := none

def step (st : DState) (line : String) : DState × String :=
  match line.splitOn " " with
  | "time" :: args => (st, (opsTime args).getD "bad-op")
  | "ev" :: args =>
      match opsEV st.ev args with
      | some (b, out) => ({ st with ev := b }, out)
      | none => (st, "bad-op")
  | "ctl" :: args =>
      match opsCtl st.ctl args with
      | some (b, out) => ({ st with ctl := b }, out)
      | none => (st, "bad-op")
  | "lp" :: args =>
      match opsLP st.lp args with
      | some (b, out) => ({ st with lp := b }, out)
      | none => (st, "bad-op")
  | "lf" :: args => (st, (opsLF args).getD "bad-op")
  | "graph" :: args => (st, (opsGraph args).getD "bad-op")
  | "prof" :: args => (st, (opsProf args).getD "bad-op")
  | "acct" :: args =>
      match opsAcct st.acct args with
      | some (b, out) => ({ st with acct := b }, out)
      | none => (st, "bad-op")
  | "fail" :: args => (st, (opsFail args).getD "bad-op")
  | "bat" :: args =>
      match opsBattery st.bat args with
      | some (b, out) => ({ st with bat := b }, out)
      | none => (st, "bad-op")
  | _ => (st, "bad-op")

partial def loop (h : IO.FS.Stream) (out : IO.FS.Stream) (st : DState) : IO Unit := do
  let line ← h.getLine
  if line.isEmpty then return ()
  let l := line.trimAscii.toString
  let (st', o) := step st l
  out.putStrLn o
  loop h out st'

end Driver

def main : IO Unit := do
  let out ← IO.getStdout
  Driver.loop (← IO.getStdin) out {}
  out.flush
