import Driver.Proto
import Relsad.Model.LoadFlow

namespace Driver
open Relsad.LoadFlow

instance : Arith Float where
  zero := 0.0
  one := 1.0
  two := 2.0
  sqrt := Float.sqrt
  atan2 := Float.atan2

def parseFloatBits? (s : String) : Option Float := do
  let n ← s.toNat?
  some (Float.ofBits n.toUInt64)

def showFloatBits (x : Float) : String := toString x.toBits.toNat

structure RawNode where
  id : Nat
  parent : Option Nat
  p : Float
  q : Float
  r : Float
  x : Float
  deriving Inhabited

def parseRawNode? (s : String) : Option RawNode :=
  match s.splitOn ":" with
  | [i, par, p, q, r, x] => do
      some { id := ← i.toNat?, parent := ← (if par == "r" then some none else some <$> par.toNat?),
             p := ← parseFloatBits? p, q := ← parseFloatBits? q, r := ← parseFloatBits? r, x := ← parseFloatBits? x }
  | _ => none

/-- build the tree below node `i` (children in list order); fuel = number of nodes -/
def buildTree (ns : Array RawNode) : Nat → Nat → RTree (Node Float)
  | fuel, i =>
    let n := ns[i]!
    let nd : Node Float := { id := n.id, p := n.p, q := n.q, r := n.r, x := n.x, vm := 1.0, va := 0.0, isRoot := n.parent.isNone }
    match fuel with
    | 0 => .node nd []
    | fuel + 1 =>
      let kids := (List.range ns.size).filter (fun j => (ns[j]!).parent == some i)
      .node nd (kids.map (buildTree ns fuel))

/-- n sweeps as the implementation does them; returns the final voltages and the annotated tree / sums of the last backward sweep -/
def runLF (n : Nat) (t : RTree (Node Float)) : RTree (Node Float) × RTree (Acc Float × Node Float) × (Float × Float × Float × Float) :=
  let t1 := sweeps (n - 1) t
  let acc := accumulate t1
  (forward Arith.one Arith.zero acc.2, acc.2, acc.1)

def opsLF (args : List String) : Option String :=
  match args with
  | ["run", n, nodes] => do
      let n ← n.toNat?
      let ns ← parseList? parseRawNode? nodes
      let arr := ns.toArray
      let root ← (List.range arr.size).find? (fun j => (arr[j]!).parent.isNone)
      let (t, atr, (pl, ql, pls, qls)) := runLF n (buildTree arr arr.size root)
      let vs := ((Relsad.LoadFlow.nodes t).zip (Relsad.LoadFlow.nodes atr)).map (fun (nd, (a, _)) =>
        s!"{nd.id}:{showFloatBits nd.vm}:{showFloatBits nd.va}:{showFloatBits a.lineP}:{showFloatBits a.lineQ}")
      some s!"{",".intercalate vs} {showFloatBits pl} {showFloatBits ql} {showFloatBits pls} {showFloatBits qls}"
  | _ => none

end Driver
