import Driver.Proto
import Relsad.Model.Interp
import Relsad.Model.Increments

namespace Driver
open Relsad.Interp

def parseCats? : List String → Option (List Category)
  | [] => some []
  | p :: q :: a :: b :: rest => do
      let c : Category := { p := ← parseList? parseRat? p, q := ← parseList? parseRat? q, costA := ← parseRat? a, costB := ← parseRat? b }
      let cs ← parseCats? rest
      some (c :: cs)
  | _ => none

def opsProf (args : List String) : Option String :=
  match args with
  | ["interp", arr, m] => do
      let arr ← parseList? parseRat? arr; let m ← parseNat? m
      if arr.isEmpty then some "err empty" else some (showList showRat (interp arr m))
  | "prepare" :: period :: step :: unitStep :: arrs => do
      -- prepare_system: `<number of increments> <profile 1 resampled> <profile 2 resampled> ...`
      let ps ← arrs.mapM (parseList? parseRat?)
      let (axis, res) := Relsad.prepareSystem (← parseRat? period) (← parseRat? step) (← parseRat? unitStep) ps
      some (String.intercalate " " (toString axis.length :: res.map (showList showRat)))
  | "load" :: n :: i :: cats => do
      let cs ← parseCats? cats
      let (p, q, c) := setLoadAndCost cs (← parseRat? n) (← parseNat? i)
      some s!"{showRat p} {showRat q} {showRat c}"
  | ["prod", pp, qp, pmax, qmax, i] => do
      let (p, q) := setProd (← parseList? parseRat? pp) (← parseList? parseRat? qp) (← parseRat? pmax) (← parseRat? qmax) (← parseNat? i)
      some s!"{showRat p} {showRat q}"
  | _ => none

end Driver
