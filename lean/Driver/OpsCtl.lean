import Driver.Proto
import Relsad.Model.Control
import Relsad.Model.ControlInv

namespace Driver
open Relsad.Control

def parsePlus? {α} (f : String → Option α) (s : String) : Option (List α) :=
  if s == "-" then some [] else (s.splitOn "+").mapM f

def parseSw? (s : String) : Option Sw :=
  if s.startsWith "d" then Sw.discon <$> (s.drop 1).toNat?
  else if s.startsWith "c" then Sw.breaker <$> (s.drop 1).toNat?
  else none

def parseOptNat? (s : String) : Option (Option Nat) := if s == "-" then some none else some <$> s.toNat?

def parseLineCfg? (s : String) : Option LineCfg :=
  match s.splitOn ":" with
  | [n, cb, ds, sec] => do some { net := ← n.toNat?, cb := ← parseOptNat? cb, discons := ← parsePlus? parseNat? ds, sec := ← sec.toNat? }
  | _ => none

def parseSecCfg? (s : String) : Option SecCfg :=
  match s.splitOn ":" with
  | [ls, sw] => do some { lines := ← parsePlus? parseNat? ls, switches := ← parsePlus? parseSw? sw }
  | _ => none

def parseCtlMode? (s : String) : Option (Option Mode) :=
  match s with | "-" => some none | "s" => some (some .survival) | "f" => some (some .fullSupport) | "l" => some (some .limitedSupport) | _ => none

def parseNetCfg? (s : String) : Option NetCfg :=
  match s.splitOn ":" with
  | [cl, cb, ls, ss, ch, m, p] => do
      some { connLine := ← cl.toNat?, cb := ← cb.toNat?, lines := ← parsePlus? parseNat? ls, secs := ← parsePlus? parseNat? ss,
             children := ← parsePlus? parseNat? ch, mode := ← parseCtlMode? m, parent := ← parseOptNat? p }
  | _ => none

def parseBits? (s : String) : Option (List Bool) :=
  if s == "-" then some [] else s.toList.mapM (fun c => if c == '1' then some true else if c == '0' then some false else none)

def bits (l : List Bool) : String := String.mk (l.map (fun b => if b then '1' else '0'))

def showSt (C : Cfg) (s : St) : String :=
  s!"F={bits s.failed} C={bits s.conn} R={showList showRat s.rem} D={bits s.dOpen} B={bits s.cbOpen} S={bits s.secConn} " ++
  s!"NF={bits s.netFailed} T={showList showRat s.timer} P={showList showRat s.pTimer} K={bits s.check} " ++
  s!"FS={";".intercalate (s.failedSecs.map (showList toString))} ok={bits [isolatedOK C s, switchesAgree C s, isNormal C s, wfB C, invJ C s, wfB2 C]}"

def opsCtl (st : Option (Cfg × St)) (args : List String) : Option (Option (Cfg × St) × String) :=
  match args, st with
  | ["cfg", t, ls, dl, cl, ss, ns], _ => do
      let C : Cfg := { lines := ← parseList? parseLineCfg? ls, disconLine := ← parseList? parseNat? dl, cbLine := ← parseList? parseNat? cl,
                       secs := ← parseList? parseSecCfg? ss, nets := ← parseList? parseNetCfg? ns, T := ← parseRat? t }
      let s := St.init C
      some (some (C, s), showSt C s)
  | ["fail", l, rep], some (C, s) => do
      let s' := lineFail C s (← l.toNat?) (← parseRat? rep)
      some (some (C, s'), showSt C s')
  | ["step", dt], some (C, s) => do
      let s' := step C s (← parseRat? dt)
      some (some (C, s'), showSt C s')
  | ["astep", dt, rs, ri], some (C, s) => do
      let s' := stepA C s (← parseRat? dt) { sensor := ← parseBits? rs, iswitch := ← parseBits? ri }
      some (some (C, s'), showSt C s')
  -- ICT-based increment with devices in trouble: dstep dt sensorbits iswitchbits sensExtra sensRepairBits swFailedBits [swfailTime|-] recheckBits
  | ["dstep", dt, rs, ri, se, sr, sf, sw, rk], some (C, s) => do
      let cd : CommD := { cm := { sensor := ← parseBits? rs, iswitch := ← parseBits? ri }, sensExtra := ← parseList? parseRat? se, sensRepair := ← parseBits? sr,
                          recheck := ← parseBits? rk }
      let s0 := if sw == "-" then some s else (spreadSec C s) <$> parseRat? sw
      let s' := stepD C (← s0) (← parseRat? dt) cd (← parseBits? sf)
      some (some (C, s'), showSt C s')
  | ["swfail", t], some (C, s) => do
      let s' := spreadSec C s (← parseRat? t)
      some (some (C, s'), showSt C s')
  -- an increment in which the main controller had a software failure (recovery time t): hand-over, then the control step
  | ["sstep", t, dt], some (C, s) => do
      let s' := step C (spreadSec C s (← parseRat? t)) (← parseRat? dt)
      some (some (C, s'), showSt C s')
  | ["sastep", t, dt, rs, ri], some (C, s) => do
      let s' := stepA C (spreadSec C s (← parseRat? t)) (← parseRat? dt) { sensor := ← parseBits? rs, iswitch := ← parseBits? ri }
      some (some (C, s'), showSt C s')
  | ["reset"], some (C, _) => some (some (C, St.init C), showSt C (St.init C))
  | ["secout", k], some (C, s) => do
      let s' := secDisconnect C s (← k.toNat?)
      some (some (C, s'), showSt C s')
  | ["putback", n, k], some (C, s) => do
      let s' := putBack C (← n.toNat?) (← k.toNat?) s
      some (some (C, s'), showSt C s')
  | _, _ => none

end Driver
