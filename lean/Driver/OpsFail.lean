import Driver.Proto
import Driver.OpsTime
import Relsad.Model.Fail

namespace Driver
open Relsad Relsad.Fail

def parseDev? (s : String) : Option DevState :=
  match s with | "ok" => some .ok | "failed" => some .failed | "repair" => some .repair | _ => none
def showDev (s : DevState) : String :=
  match s with | .ok => "ok" | .failed => "failed" | .repair => "repair"
def parseCtrl? (s : String) : Option CtrlState :=
  match s with | "ok" => some .ok | "sw" => some .softwareFail | "hw" => some .hardwareFail | "repair" => some .repair | _ => none
def showCtrl (s : CtrlState) : String :=
  match s with | .ok => "ok" | .softwareFail => "sw" | .hardwareFail => "hw" | .repair => "repair"

def opsFail (args : List String) : Option String :=
  match args with
  | ["pfail", rate, q, u] => do
      some (showRat (pFail (← parseRat? rate) (← parseTime? q u)))
  | ["two", failed, rem, rate, q, u, uu, rep] => do
      let s : Two := ⟨← parseBool? failed, ← parseRat? rem⟩
      let s' := s.step (← parseRat? rate) (← parseTime? q u) (← parseRat? uu) (← parseRat? rep)
      some s!"{showBool s'.failed} {showRat s'.rem}"
  | ["net", flag, comps, i, rate, q, u, uu, rep] => do
      -- a network of two-state components (`f:rem,f:rem,...`) with its failed-line flag; component i is updated
      let cs ← (comps.splitOn ",").mapM (fun t => match t.splitOn ":" with
        | [f, r] => do some (⟨← parseBool? f, ← parseRat? r⟩ : Two)
        | _ => none)
      let n : NetTwo := ⟨cs, ← parseBool? flag⟩
      let n' := n.stepOne (← parseNat? i) (← parseRat? rate) (← parseTime? q u) (← parseRat? uu) (← parseRat? rep)
      some (s!"{showBool n'.flag} " ++ String.intercalate "," (n'.comps.map (fun c => s!"{showBool c.failed}:{showRat c.rem}")))
  | ["dev", st, rem, rate, q, u, uu] => do
      let s : Dev := ⟨← parseDev? st, ← parseRat? rem⟩
      let s' := s.update (← parseRat? rate) (← parseTime? q u) (← parseRat? uu)
      some s!"{showDev s'.state} {showRat s'.rem}"
  | ["sensor", st, rem, pNew, pReboot, tNew, tReboot, tManual, u1, u2, lf] => do
      let P : SensorP := { rate := 0, pNew := ← parseRat? pNew, pReboot := ← parseRat? pReboot,
                           tNew := ← parseRat? tNew, tReboot := ← parseRat? tReboot, tManual := ← parseRat? tManual }
      let (s', d, b, n) := sensorStatus P ⟨← parseDev? st, ← parseRat? rem⟩ (← parseRat? u1) (← parseRat? u2) (← parseBool? lf)
      some s!"{showDev s'.state} {showRat s'.rem} {showRat d} {showBool b} {n}"
  | ["swopen", st, rem, tR, tS] => do
      let (s', d) := switchOpenTime ⟨← parseDev? st, ← parseRat? rem⟩ (← parseRat? tR) (← parseRat? tS)
      some s!"{showDev s'.state} {showRat s'.rem} {showRat d}"
  | ["swclose", st, rem, tR] => do
      let (s', b) := switchClose ⟨← parseDev? st, ← parseRat? rem⟩ (← parseRat? tR)
      some s!"{showDev s'.state} {showRat s'.rem} {showBool b}"
  | ["ctrl", st, rem, sect, hw, sw, pNew, pReboot, tNew, tReboot, tSw, tHw, q, u, u1, u2, u3, u4] => do
      let P : CtrlP := { hwRate := ← parseRat? hw, swRate := ← parseRat? sw, pNew := ← parseRat? pNew,
                         pReboot := ← parseRat? pReboot, tNew := ← parseRat? tNew, tReboot := ← parseRat? tReboot,
                         tManualSw := ← parseRat? tSw, tManualHw := ← parseRat? tHw }
      let c : Ctrl := ⟨← parseCtrl? st, ← parseRat? rem, ← parseRat? sect⟩
      let (c', n) := ctrlUpdate P c (← parseTime? q u) (← parseRat? u1) (← parseRat? u2) (← parseRat? u3) (← parseRat? u4)
      some s!"{showCtrl c'.state} {showRat c'.rem} {showRat c'.sectioning} {n}"
  | _ => none

end Driver
