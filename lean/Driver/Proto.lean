/-
Line protocol helpers: one operation per input line, one canonical output line per op.
Tokens are separated by single spaces.  Rationals are written `n` or `n/d`; lists are
comma-separated inside one token (`-` is the empty list); booleans `T`/`F`.
-/
namespace Driver

def parseInt? (s : String) : Option Int := s.toInt?

def parseRat? (s : String) : Option Rat :=
  match s.splitOn "/" with
  | [n] => (fun (i : Int) => (i : Rat)) <$> n.toInt?
  | [n, d] => do
      let i ← n.toInt?
      let k ← d.toNat?
      if k == 0 then none else some (mkRat i k)
  | _ => none

def showRat (r : Rat) : String :=
  if r.den == 1 then toString r.num else s!"{r.num}/{r.den}"

def showBool (b : Bool) : String := if b then "T" else "F"

def parseBool? (s : String) : Option Bool :=
  if s == "T" then some true else if s == "F" then some false else none

def parseList? {α} (f : String → Option α) (s : String) : Option (List α) :=
  if s == "-" then some [] else (s.splitOn ",").mapM f

def showList {α} (f : α → String) (l : List α) : String :=
  if l.isEmpty then "-" else ",".intercalate (l.map f)

def parseNat? (s : String) : Option Nat := s.toNat?

end Driver
