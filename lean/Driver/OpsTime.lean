import Driver.Proto
import Relsad.Model.TimeM
import Relsad.Model.Increments

namespace Driver
open Relsad

def parseUnit? (s : String) : Option TimeUnit := do TimeUnit.ofCode? (← s.toNat?)

def parseTime? (q u : String) : Option Time := do
  some ⟨← parseRat? q, ← parseUnit? u⟩

def showTime (t : Time) : String := s!"{showRat t.quantity} {t.unit.code}"

/-- Operations of the `time` module. -/
def opsTime (args : List String) : Option String :=
  match args with
  | ["get", q, u, v] => do
      let t ← parseTime? q u; let v ← parseUnit? v
      some (showRat (t.getUnitQuantity v))
  | ["cmp", op, q1, u1, q2, u2] => do
      let a ← parseTime? q1 u1; let b ← parseTime? q2 u2
      match op with
      | "lt" => some (showBool (a.lt b)) | "le" => some (showBool (a.le b))
      | "gt" => some (showBool (a.gt b)) | "ge" => some (showBool (a.ge b))
      | "eq" => some (showBool (a.eq b)) | "ne" => some (showBool (a.ne b))
      | _ => none
  | ["add", q1, u1, q2, u2] => do
      let a ← parseTime? q1 u1; let b ← parseTime? q2 u2
      some (showTime (a.add b))
  | ["sub", q1, u1, q2, u2] => do
      let a ← parseTime? q1 u1; let b ← parseTime? q2 u2
      some (showTime (a.sub b))
  | ["div", q1, u1, q2, u2] => do
      let a ← parseTime? q1 u1; let b ← parseTime? q2 u2
      match a.div? b with
      | some r => some (showRat r)
      | none => some "err zero"
  | ["hod", h, m, s, q, u] => do
      let st : TimeStamp := { hour := ← parseInt? h, minute := ← parseInt? m, second := ← parseInt? s }
      let t ← parseTime? q u
      some (toString (st.getHourOfDay t))
  | ["stampsub", y1, mo1, d1, h1, mi1, s1, y2, mo2, d2, h2, mi2, s2] => do
      let a : TimeStamp := { year := ← parseInt? y1, month := ← parseInt? mo1, day := ← parseInt? d1,
                             hour := ← parseInt? h1, minute := ← parseInt? mi1, second := ← parseInt? s1 }
      let b : TimeStamp := { year := ← parseInt? y2, month := ← parseInt? mo2, day := ← parseInt? d2,
                             hour := ← parseInt? h2, minute := ← parseInt? mi2, second := ← parseInt? s2 }
      some (showTime (a.sub b))
  | ["incr", qp, up, qs, us] => do
      let p ← parseTime? qp up; let s ← parseTime? qs us
      match incrementsT p s with
      | some n => some (toString n)
      | none => some "err zero"
  | ["axis", n, qs, us, v] => do
      let n ← parseNat? n; let s ← parseTime? qs us; let v ← parseUnit? v
      some (showList showRat (timeArray n (s.getUnitQuantity v)))
  | _ => none

end Driver
