import Driver.Proto
import Relsad.Model.Battery

namespace Driver
open Relsad Relsad.Battery

structure BatCtx where
  P : BatParams
  s : BatState

def parseMode? (s : String) : Option (Option MgMode) :=
  match s with
  | "none" => some none
  | "survival" => some (some .survival)
  | "full" => some (some .fullSupport)
  | "limited" => some (some .limitedSupport)
  | _ => none

def showBatState (s : BatState) : String :=
  s!"{showRat s.e} {showRat s.socMin} {showRat s.remSurv} {showBool s.active}"

def showExchange (x : Exchange) : String :=
  s!"{showRat x.pprod} {showRat x.qprod} {showRat x.pload} {showRat x.qload} {showRat x.pRem} {showRat x.qRem}"

/-- Operations of the `bat` module; returns the new context and the output line. -/
def opsBattery (c : Option BatCtx) (args : List String) : Option (Option BatCtx × String) :=
  match args, c with
  | ["new", pMax, qMax, eMax, socMin0, socMax, eta, mode, maxLoad, e, socMin, remSurv], _ => do
      let P : BatParams := { pMax := ← parseRat? pMax, qMax := ← parseRat? qMax, eMax := ← parseRat? eMax,
                             socMin0 := ← parseRat? socMin0, socMax := ← parseRat? socMax, eta := ← parseRat? eta,
                             mode := ← parseMode? mode, maxLoad := ← parseRat? maxLoad }
      let s : BatState := { e := ← parseRat? e, socMin := ← parseRat? socMin, remSurv := ← parseRat? remSurv }
      some (some ⟨P, s⟩, "ok")
  | ["upd", p, q, h, first, x], some c => do
      let r := update c.P c.s (← parseRat? p) (← parseRat? q) (← parseRat? h) (← parseBool? first) (← parseRat? x)
      match r with
      | none => some (some c, "err divZero")
      | some (s', ex) => some (some ⟨c.P, s'⟩, s!"{showBatState s'} | {showExchange ex}")
  | ["charge", p, h], some c => do
      match charge c.P c.s (← parseRat? p) (← parseRat? h) with
      | none => some (some c, "err divZero")
      | some (s', r) => some (some ⟨c.P, s'⟩, s!"{showBatState s'} | {showRat r}")
  | ["discharge", p, q, h], some c => do
      match discharge c.P c.s (← parseRat? p) (← parseRat? q) (← parseRat? h) with
      | none => some (some c, "err divZero")
      | some (s', pr, qr) => some (some ⟨c.P, s'⟩, s!"{showBatState s'} | {showRat pr} {showRat qr}")
  | ["active", b], some c => do
      let s' := setActive c.s (!(← parseBool? b))
      some (some ⟨c.P, s'⟩, showBatState s')
  | ["setsoc", x], some c => do
      match setSOC c.P c.s (← parseRat? x) with
      | none => some (some c, "err invalidSoc")
      | some s' => some (some ⟨c.P, s'⟩, showBatState s')
  | ["startsurvival", hrs], some c => do
      let s' := { c.s with remSurv := ← parseRat? hrs }
      some (some ⟨c.P, s'⟩, showBatState s')
  | _, _ => none

end Driver
