/-
C20  Sectioning partitions each network into contiguous switch-bounded sections.
(The part of C20 about taking a section out of service and putting it back is decided on the
real objects by the check and proved on the switching model with the C05 theorems.)
-/
import Relsad.Model.Sections
import Relsad.Lemmas.SectionsL
import Mathlib.Tactic.Linarith

namespace Relsad.C20
open Relsad.Sections

/-- Every line belongs to exactly one section: the sections are the fibres of `secId`. -/
theorem partition (ls : List LineSpec) (i : Nat) (s t : Nat × Bool)
    (hs : secId ls i = s) (ht : secId ls i = t) : s = t := hs ▸ ht

/-- `headOf` returns a line that starts a section (the root, or a line with a switch), not below `i`. -/
theorem headOf_spec (ls : List LineSpec) (hwf : WF ls) :
    ∀ n i, i ≤ n → ∀ l, ls[i]? = some l →
      ∃ lh, ls[headOf ls ls.length i]? = some lh ∧ (lh.parent = none ∨ lh.nsw ≠ 0) ∧ headOf ls ls.length i ≤ i := by
  intro n
  induction n with
  | zero =>
    intro i hi l hl
    have : i = 0 := by omega
    subst this
    rw [headOf_unfold ls hwf 0 l hl]
    have hw := hwf 0 l hl
    cases hp : l.parent with
    | none => exact ⟨l, hl, Or.inl hp, le_refl _⟩
    | some p => rw [hp] at hw; simp only at hw; omega
  | succ n ih =>
    intro i hi l hl
    rw [headOf_unfold ls hwf i l hl]
    have hw := hwf i l hl
    cases hp : l.parent with
    | none => exact ⟨l, hl, Or.inl hp, le_refl _⟩
    | some p =>
      rw [hp] at hw; simp only at hw ⊢
      by_cases hn : l.nsw = 0
      · simp only [hn, if_true]
        have hplen : p < ls.length := by have := lt_length_of_get hl; omega
        obtain ⟨lh, h1, h2, h3⟩ := ih p (by omega) ls[p] (List.getElem?_eq_getElem hplen)
        exact ⟨lh, h1, h2, by omega⟩
      · simp only [hn, if_false]
        exact ⟨l, hl, Or.inr hn, le_refl _⟩

/-- the section of the upstream line, written with `headOf` -/
theorem secId_parent_head (ls : List LineSpec) (hwf : WF ls) (p : Nat) (lp : LineSpec) (hlp : ls[p]? = some lp) :
    (secId ls p).1 = headOf ls ls.length p := by
  rw [headOf_unfold ls hwf p lp hlp]
  unfold secId
  rw [hlp]; simp only
  cases hpp : lp.parent with
  | none => rfl
  | some pp =>
    simp only
    by_cases hn : lp.nsw = 0
    · simp only [hn, if_true]
    · simp only [hn, if_false]; split_ifs <;> rfl

/-- **Contiguity**: a line that is not the head of its section hangs on its section through its
upstream line — the parent lies in the same section, or the parent is the solo head of this
section's main part (then the line is attached at the head's far bus with all its siblings). -/
theorem contiguous (ls : List LineSpec) (hwf : WF ls) (i : Nat) (l : LineSpec) (hl : ls[i]? = some l)
    (hne : (secId ls i).1 ≠ i) :
    ∃ p lp, l.parent = some p ∧ ls[p]? = some lp ∧ p < i ∧ (secId ls p).1 = (secId ls i).1 ∧
      (secId ls p = secId ls i ∨ (secId ls p).2 = true) := by
  have hw := hwf i l hl
  have hilen := lt_length_of_get hl
  cases hp : l.parent with
  | none =>
    exfalso; apply hne; unfold secId; rw [hl]; simp only [hp]
  | some p =>
    rw [hp] at hw; simp only at hw
    have hplen : p < ls.length := by omega
    have hlp : ls[p]? = some ls[p] := List.getElem?_eq_getElem hplen
    have hn : l.nsw = 0 := by
      by_contra hn
      apply hne; unfold secId; rw [hl]; simp only [hp, hn, if_false]; split_ifs <;> rfl
    have hi : secId ls i = (headOf ls ls.length p, false) := by
      unfold secId; rw [hl]; simp only [hp, hn, if_true]
    have hph := secId_parent_head ls hwf p ls[p] hlp
    refine ⟨p, ls[p], rfl, hlp, hw, by rw [hi, hph], ?_⟩
    rw [hi]
    cases hb : (secId ls p).2 with
    | true => right; rfl
    | false => left; exact Prod.ext hph hb

/-- **Boundary** (parent/child): where a line and its upstream line lie in different sections,
one of the two carries a switch. -/
theorem boundary_parent (ls : List LineSpec) (hwf : WF ls) (i p : Nat) (l lp : LineSpec) (hl : ls[i]? = some l)
    (hlp : ls[p]? = some lp) (hpar : l.parent = some p) (hdiff : secId ls i ≠ secId ls p) :
    0 < l.nsw ∨ 0 < lp.nsw := by
  by_contra hno
  push_neg at hno
  have h1 : l.nsw = 0 := by omega
  have h2 : lp.nsw = 0 := by omega
  apply hdiff
  have hi : secId ls i = (headOf ls ls.length p, false) := by
    unfold secId; rw [hl]; simp only [hpar, h1, if_true]
  have hph := secId_parent_head ls hwf p lp hlp
  have hp2 : (secId ls p).2 = false := by
    unfold secId; rw [hlp]; simp only
    cases hpp : lp.parent with
    | none => rfl
    | some pp => simp only [h2, if_true]
  rw [hi]; exact (Prod.ext hph hp2).symm

/-- **Boundary** (siblings): two lines leaving the same bus lie in different sections only if
one of them carries a switch. -/
theorem boundary_siblings (ls : List LineSpec) (i j p : Nat) (li lj : LineSpec) (hi : ls[i]? = some li)
    (hj : ls[j]? = some lj) (hpi : li.parent = some p) (hpj : lj.parent = some p)
    (hdiff : secId ls i ≠ secId ls j) : 0 < li.nsw ∨ 0 < lj.nsw := by
  by_contra hno
  push_neg at hno
  have h1 : li.nsw = 0 := by omega
  have h2 : lj.nsw = 0 := by omega
  apply hdiff
  unfold secId
  rw [hi, hj]; simp only [hpi, hpj, h1, h2, if_true]

/-- A line with a switch always starts a section; a switch-less line never does (except the root). -/
theorem head_iff_switch (ls : List LineSpec) (i p : Nat) (l : LineSpec) (hl : ls[i]? = some l) (hp : l.parent = some p) :
    ((secId ls i).1 = i ↔ l.nsw ≠ 0) ∨ ((secId ls i).1 = i ∧ l.nsw = 0 ∧ headOf ls ls.length p = i) := by
  unfold secId; rw [hl]; simp only [hp]
  by_cases hn : l.nsw = 0
  · simp only [hn, if_true, ne_eq, not_true_eq_false, iff_false]
    by_cases he : headOf ls ls.length p = i
    · right; exact ⟨he, trivial, he⟩
    · left; exact he
  · left; simp only [hn, if_false, ne_eq, not_false_eq_true, iff_true]; split_ifs <;> rfl

/-- Non-vacuity: feeder L0(CB) - L1 - L2(two disconnectors) - L3 with a lateral L4 (one disconnector) at L1. -/
example : secIds [⟨none, 1⟩, ⟨some 0, 0⟩, ⟨some 1, 2⟩, ⟨some 2, 0⟩, ⟨some 1, 1⟩] =
    [(0, false), (0, false), (2, true), (2, false), (4, false)] := by decide

end Relsad.C20
