/-
C20  Sectioning partitions each network into contiguous switch-bounded sections.
The part of C20 about taking a section out of service and putting it back is proved on the switching
model (`section_out_takes_lines_out`, `disconnect_reconnect_restores`, using the invariant `G` of
`Lemmas/ControlGL.lean`) and decided on the real objects by the check.
-/
import Relsad.Model.Sections
import Relsad.Lemmas.SectionsL
import Mathlib.Tactic.Linarith
import Relsad.Lemmas.ControlGL

namespace Relsad.C20
open Relsad.Sections

/-- Every line belongs to exactly one section: the sections are the fibres of `secId`. -/
theorem partition (ls : List LineSpec) (i : Nat) (s t : Nat × Bool)
    (hs : secId ls i = s) (ht : secId ls i = t) : s = t := hs ▸ ht

/-- `headOf` returns a line that starts a section (the root, or a line with a switch), not below `i`. -/
theorem headOf_spec (ls : List LineSpec) (hwf : WF ls) :
    ∀ n i, i ≤ n → ∀ l, ls[i]? = some l →
      ∃ lh, ls[headOf ls ls.length i]? = some lh ∧ (lh.parent = none ∨ lh.nsw ≠ 0) ∧ headOf ls ls.length i ≤ i := by
  intro n
  induction n with
  | zero =>
    intro i hi l hl
    have : i = 0 := by omega
    subst this
    rw [headOf_unfold ls hwf 0 l hl]
    have hw := hwf 0 l hl
    cases hp : l.parent with
    | none => exact ⟨l, hl, Or.inl hp, le_refl _⟩
    | some p => rw [hp] at hw; simp only at hw; omega
  | succ n ih =>
    intro i hi l hl
    rw [headOf_unfold ls hwf i l hl]
    have hw := hwf i l hl
    cases hp : l.parent with
    | none => exact ⟨l, hl, Or.inl hp, le_refl _⟩
    | some p =>
      rw [hp] at hw; simp only at hw ⊢
      by_cases hn : l.nsw = 0
      · simp only [hn, if_true]
        have hplen : p < ls.length := by have := lt_length_of_get hl; omega
        obtain ⟨lh, h1, h2, h3⟩ := ih p (by omega) ls[p] (List.getElem?_eq_getElem hplen)
        exact ⟨lh, h1, h2, by omega⟩
      · simp only [hn, if_false]
        exact ⟨l, hl, Or.inr hn, le_refl _⟩

/-- the section of the upstream line, written with `headOf` -/
theorem secId_parent_head (ls : List LineSpec) (hwf : WF ls) (p : Nat) (lp : LineSpec) (hlp : ls[p]? = some lp) :
    (secId ls p).1 = headOf ls ls.length p := by
  rw [headOf_unfold ls hwf p lp hlp]
  unfold secId
  rw [hlp]; simp only
  cases hpp : lp.parent with
  | none => rfl
  | some pp =>
    simp only
    by_cases hn : lp.nsw = 0
    · simp only [hn, if_true]
    · simp only [hn, if_false]; split_ifs <;> rfl

/-- **Contiguity**: a line that is not the head of its section hangs on its section through its
upstream line — the parent lies in the same section, or the parent is the solo head of this
section's main part (then the line is attached at the head's far bus with all its siblings). -/
theorem contiguous (ls : List LineSpec) (hwf : WF ls) (i : Nat) (l : LineSpec) (hl : ls[i]? = some l)
    (hne : (secId ls i).1 ≠ i) :
    ∃ p lp, l.parent = some p ∧ ls[p]? = some lp ∧ p < i ∧ (secId ls p).1 = (secId ls i).1 ∧
      (secId ls p = secId ls i ∨ (secId ls p).2 = true) := by
  have hw := hwf i l hl
  have hilen := lt_length_of_get hl
  cases hp : l.parent with
  | none =>
    exfalso; apply hne; unfold secId; rw [hl]; simp only [hp]
  | some p =>
    rw [hp] at hw; simp only at hw
    have hplen : p < ls.length := by omega
    have hlp : ls[p]? = some ls[p] := List.getElem?_eq_getElem hplen
    have hn : l.nsw = 0 := by
      by_contra hn
      apply hne; unfold secId; rw [hl]; simp only [hp, hn, if_false]; split_ifs <;> rfl
    have hi : secId ls i = (headOf ls ls.length p, false) := by
      unfold secId; rw [hl]; simp only [hp, hn, if_true]
    have hph := secId_parent_head ls hwf p ls[p] hlp
    refine ⟨p, ls[p], rfl, hlp, hw, by rw [hi, hph], ?_⟩
    rw [hi]
    cases hb : (secId ls p).2 with
    | true => right; rfl
    | false => left; exact Prod.ext hph hb

/-- **Boundary** (parent/child): where a line and its upstream line lie in different sections,
one of the two carries a switch. -/
theorem boundary_parent (ls : List LineSpec) (hwf : WF ls) (i p : Nat) (l lp : LineSpec) (hl : ls[i]? = some l)
    (hlp : ls[p]? = some lp) (hpar : l.parent = some p) (hdiff : secId ls i ≠ secId ls p) :
    0 < l.nsw ∨ 0 < lp.nsw := by
  by_contra hno
  push_neg at hno
  have h1 : l.nsw = 0 := by omega
  have h2 : lp.nsw = 0 := by omega
  apply hdiff
  have hi : secId ls i = (headOf ls ls.length p, false) := by
    unfold secId; rw [hl]; simp only [hpar, h1, if_true]
  have hph := secId_parent_head ls hwf p lp hlp
  have hp2 : (secId ls p).2 = false := by
    unfold secId; rw [hlp]; simp only
    cases hpp : lp.parent with
    | none => rfl
    | some pp => simp only [h2, if_true]
  rw [hi]; exact (Prod.ext hph hp2).symm

/-- **Boundary** (siblings): two lines leaving the same bus lie in different sections only if
one of them carries a switch. -/
theorem boundary_siblings (ls : List LineSpec) (i j p : Nat) (li lj : LineSpec) (hi : ls[i]? = some li)
    (hj : ls[j]? = some lj) (hpi : li.parent = some p) (hpj : lj.parent = some p)
    (hdiff : secId ls i ≠ secId ls j) : 0 < li.nsw ∨ 0 < lj.nsw := by
  by_contra hno
  push_neg at hno
  have h1 : li.nsw = 0 := by omega
  have h2 : lj.nsw = 0 := by omega
  apply hdiff
  unfold secId
  rw [hi, hj]; simp only [hpi, hpj, h1, h2, if_true]

/-- A line with a switch always starts a section; a switch-less line never does (except the root). -/
theorem head_iff_switch (ls : List LineSpec) (i p : Nat) (l : LineSpec) (hl : ls[i]? = some l) (hp : l.parent = some p) :
    ((secId ls i).1 = i ↔ l.nsw ≠ 0) ∨ ((secId ls i).1 = i ∧ l.nsw = 0 ∧ headOf ls ls.length p = i) := by
  unfold secId; rw [hl]; simp only [hp]
  by_cases hn : l.nsw = 0
  · simp only [hn, if_true, ne_eq, not_true_eq_false, iff_false]
    by_cases he : headOf ls ls.length p = i
    · right; exact ⟨he, trivial, he⟩
    · left; exact he
  · left; simp only [hn, if_false, ne_eq, not_false_eq_true, iff_true]; split_ifs <;> rfl

/-- Non-vacuity: feeder L0(CB) - L1 - L2(two disconnectors) - L3 with a lateral L4 (one disconnector) at L1. -/
example : secIds [⟨none, 1⟩, ⟨some 0, 0⟩, ⟨some 1, 2⟩, ⟨some 2, 0⟩, ⟨some 1, 1⟩] =
    [(0, false), (0, false), (2, true), (2, false), (4, false)] := by decide

/-! ### taking a section out of service and putting it back (switching model, `Model/Control.lean`) -/

open Relsad.Control in
/-- **Taking a section out of service takes all of its own lines out of service** (any state, any configuration). -/
theorem section_out_takes_lines_out (C : Cfg) (s : St) (k l : Nat) (hl : l ∈ (secOf C k).lines) (hlen : l < s.conn.length) :
    gb (secDisconnect C s k).conn l = false := secDisconnect_lines_out C s k l hl hlen

theorem list_eq_of_gb (a b : List Bool) (hlen : a.length = b.length) (h : ∀ i, i < a.length → Relsad.Control.gb a i = Relsad.Control.gb b i) : a = b := by
  apply List.ext_getElem hlen
  intro i h1 h2
  have := h i h1
  unfold Relsad.Control.gb at this
  rw [List.getD_eq_getElem?_getD, List.getD_eq_getElem?_getD, List.getElem?_eq_getElem h1, List.getElem?_eq_getElem h2] at this
  simpa using this

open Relsad.Control in
/-- **On an otherwise intact network, taking a section out of service and putting it back restores the original
line, switch and section states** — every well-formed configuration, every section of every network. -/
theorem disconnect_reconnect_restores (C : Cfg) (hC : wfB C = true) (hC2 : wfB2 C = true) (n : Nat) (hn : n < C.nets.length)
    (k : Nat) (hk : k ∈ (netOf C n).secs) :
    let r := putBack C n k (secDisconnect C (St.init C) k)
    r.conn = (St.init C).conn ∧ r.dOpen = (St.init C).dOpen ∧ r.cbOpen = (St.init C).cbOpen ∧ r.secConn = (St.init C).secConn := by
  intro r
  have w := WF.of_wfB C hC
  have w2 := WF2.of_wfB2 C hC2
  have q0 := Quad.init (C := C) w
  have z0 : Sz C (St.init C) := q0.triple.both.inv.sz
  set s1 := secDisconnect C (St.init C) k with hs1
  obtain ⟨o1, _⟩ := opensG_secDisconnect w w2 n hn k hk (St.init C) (q0.g.gsz z0)
  have g1 : G C s1 := q0.g.of_opensG o1
  have z1 : Sz C s1 := (sameLen_secDisconnect C (St.init C) k).sz z0
  have hsec1 : s1.secConn = (St.init C).secConn.set k false := secDisconnect_secConn C (St.init C) k
  have hklt : k < C.secs.length := w.sec_lt n hn k hk
  -- the breaker step
  set s2 := (if (secOf C k).switches.contains (.breaker (netOf C n).cb) then cbCloseOp C s1 (netOf C n).cb else s1) with hs2
  have g2 : G C s2 := by rw [hs2]; split_ifs; exact g1.closeBreaker w w2 z1 n hn; exact g1
  have z2 : Sz C s2 := by rw [hs2]; split_ifs; exact (sameLen_cbCloseOp C s1 _).sz z1; exact z1
  have hsec2 : s2.secConn = s1.secConn := by rw [hs2]; split_ifs; exact (cbCloseOp_conn w s1 n hn).secConn; rfl
  have hcb2 : ∀ c, c < C.cbLine.length → gb s2.cbOpen c = false := by
    intro c hc
    cases hx : gb s2.cbOpen c
    · rfl
    · exfalso
      rw [hs2] at hx
      split_ifs at hx with hb
      · rw [(cbCloseOp_sw C s1 (netOf C n).cb).1, gb_set] at hx
        split_ifs at hx with hcc
        rcases secDisconnect_opens_listed C (St.init C) k c hx with h0 | h0
        · rw [show gb (St.init C).cbOpen c = false from gb_map_const _ _] at h0; exact absurd h0 (by simp)
        · have := (w.sec_breaker n hn k hk c h0).1
          exact hcc ⟨this.symm, by rw [z1.cbOpen]; exact w.cb_lt n hn⟩
      · rcases secDisconnect_opens_listed C (St.init C) k c hx with h0 | h0
        · rw [show gb (St.init C).cbOpen c = false from gb_map_const _ _] at h0; exact absurd h0 (by simp)
        · have := (w.sec_breaker n hn k hk c h0).1
          rw [this] at h0
          exact hb (by simpa using h0)
  -- reconnecting
  have hr : r = secConnectManually C s2 k := rfl
  have g3 : G C r := by rw [hr]; exact g2.reconnect w w2 z2 n hn k hk
  have z3 : Sz C r := by rw [hr]; exact (sameLen_secConnectManually C s2 k).sz z2
  have hsec3 : r.secConn = ((St.init C).secConn.set k false).set k true := by
    rw [hr, (secConnectManually_conn C s2 k).secConn]
    show s2.secConn.set k true = _
    rw [hsec2, hsec1]
  have hcb3 : ∀ c, c < C.cbLine.length → gb r.cbOpen c = false := by
    intro c hc; rw [hr, (secConnectManually_sw C s2 k).1]; exact hcb2 c hc
  have hall : ∀ j, j < C.secs.length → gb r.secConn j = true := by
    intro j hj
    rw [hsec3, gb_set]; split_ifs
    · rfl
    · rw [gb_set]; split_ifs
      · rename_i h1 h2; exfalso; exact h1 ⟨h2.1, by simp [h2.2]⟩
      · exact gb_map_true _ _ hj
  obtain ⟨dcl, lin⟩ := g3.all_back hall w hcb3 w2
  refine ⟨?_, ?_, ?_, ?_⟩
  · apply list_eq_of_gb _ _ (by rw [z3.conn, z0.conn])
    intro i hi
    rw [lin i (by rw [← z3.conn]; exact hi), show gb (St.init C).conn i = true from gb_map_true _ _ (by rw [← z3.conn]; exact hi)]
  · apply list_eq_of_gb _ _ (by rw [g3.dlen, q0.g.dlen])
    intro i hi
    rw [dcl i (by rw [← g3.dlen]; exact hi), show gb (St.init C).dOpen i = false from gb_map_const _ _]
  · apply list_eq_of_gb _ _ (by rw [z3.cbOpen, z0.cbOpen])
    intro i hi
    rw [hcb3 i (by rw [← z3.cbOpen]; exact hi), show gb (St.init C).cbOpen i = false from gb_map_const _ _]
  · apply list_eq_of_gb _ _ (by rw [z3.secConn, z0.secConn])
    intro i hi
    rw [hall i (by rw [← z3.secConn]; exact hi), show gb (St.init C).secConn i = true from gb_map_true _ _ (by rw [← z3.secConn]; exact hi)]

open Relsad.Control in
/-- Non-vacuity on a feeder with the breaker line in the first section and a line behind a disconnector in the second:
both sections are taken out (their lines go out of service) and put back. -/
example :
    let C : Cfg := { lines := [⟨0, some 0, [], 0⟩, ⟨0, none, [0], 1⟩], disconLine := [1], cbLine := [0],
                     secs := [⟨[0], [.breaker 0, .discon 0]⟩, ⟨[1], [.discon 0]⟩], nets := [⟨0, 0, [0, 1], [0, 1], [], none, none⟩], T := 1 }
    wfB C = true ∧ wfB2 C = true ∧ (secDisconnect C (St.init C) 0).conn = [false, false] ∧ (secDisconnect C (St.init C) 1).conn = [true, false] ∧
    (putBack C 0 0 (secDisconnect C (St.init C) 0)).conn = [true, true] := by
  intro C
  exact ⟨by decide +kernel, by decide +kernel, by decide +kernel, by decide +kernel, by decide +kernel⟩

end Relsad.C20
