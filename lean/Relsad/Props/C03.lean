/-
C03  Load shedding is a minimum-cost solution of the documented problem.

The solver (HiGHS via scipy) is not modelled.  What is proved, for every box LP with equality
rows: the Lagrangian bound of *any* multiplier vector is below the cost of *every* feasible
point (weak duality), hence a solution that passes the executable certificate check is optimal
up to the stated gap; relaxing bounds keeps feasible points feasible (so relaxing a line limit
or adding generation cannot increase the optimal cost); feasible points of the island LP shed
between 0 and the load at every bus.  The check runs the certificate check (compiled from these
very definitions) on every LP the implementation solves.
-/
import Relsad.Model.LP
import Relsad.Lemmas.LPL

namespace Relsad.C03
open Relsad.LP

/-- **Weak duality**: for every LP, every multiplier vector and every feasible point. -/
theorem dual_le_cost (p : LP) (y z : List ℚ) (hy : y.length = p.A.length) (hz : Feasible p z) :
    dualBound p y ≤ cost p z := by
  obtain ⟨h1, h2, h3, h4, h5, h6, h7, h8⟩ := hz
  exact lagrangian_bound p z y ⟨h1, h2, h3, h4, h5, h6, hy⟩ h7 h8

/-- **Soundness of the certificate check**: a solution accepted by `checkCert` costs at most `gap`
more than *any* feasible point — i.e. its cost-weighted total equals the true minimum within `gap`. -/
theorem checkCert_sound (p : LP) (x y : List ℚ) (gap tol : ℚ) (h : checkCert p x y gap tol = true) :
    ∀ z, Feasible p z → cost p x ≤ cost p z + gap := by
  intro z hz
  unfold checkCert at h
  simp only [Bool.and_eq_true, decide_eq_true_eq] at h
  have hs := shapedB_sound p x y h.1.1.1
  have := dual_le_cost p y z hs.hy hz
  linarith [h.2]

/-- … in particular against any explicitly exhibited feasible point. -/
theorem cert_vs_witness (p : LP) (x y z : List ℚ) (gap tol : ℚ) (h : checkCert p x y gap tol = true)
    (hz : isFeasible p z = true) : cost p x ≤ cost p z + gap :=
  checkCert_sound p x y gap tol h z (isFeasible_sound p z hz)

/-! ### Relaxation -/

def LeL : List ℚ → List ℚ → Prop
  | a :: as, b :: bs => a ≤ b ∧ LeL as bs
  | [], [] => True
  | _, _ => False

theorem inBox_relax (x l u l' u' : List ℚ) (h : InBox x l u) (hl : LeL l' l) (hu : LeL u u') : InBox x l' u' := by
  induction x generalizing l u l' u' with
  | nil =>
    cases l <;> cases u <;> cases l' <;> cases u' <;> simp_all [InBox, LeL]
  | cons x xs ih =>
    cases l with
    | nil => cases u <;> simp [InBox] at h
    | cons l ls =>
      cases u with
      | nil => simp [InBox] at h
      | cons u us =>
        cases l' with
        | nil => simp [LeL] at hl
        | cons l' ls' =>
          cases u' with
          | nil => simp [LeL] at hu
          | cons u' us' =>
            obtain ⟨h1, h2, h3⟩ := h
            exact ⟨le_trans hl.1 h1, le_trans h2 hu.1, ih ls us ls' us' h3 hl.2 hu.2⟩

theorem leL_length (a b : List ℚ) (h : LeL a b) : a.length = b.length := by
  induction a generalizing b with
  | nil => cases b <;> simp_all [LeL]
  | cons a as ih => cases b with
    | nil => simp [LeL] at h
    | cons b bs => simp [ih bs h.2]

/-- **Relaxing a limit or adding generation keeps every feasible point feasible** (same rows and
costs, wider box) … -/
theorem relax_feasible (p p' : LP) (z : List ℚ) (hA : p'.A = p.A) (hb : p'.b = p.b) (hc : p'.c = p.c) (hn : p'.n = p.n)
    (hlo : LeL p'.lo p.lo) (hhi : LeL p.hi p'.hi) (hz : Feasible p z) : Feasible p' z := by
  obtain ⟨h1, h2, h3, h4, h5, h6, h7, h8⟩ := hz
  refine ⟨by rw [hA, hn]; exact h1, by rw [hc, hn]; exact h2, ?_, ?_, by rw [hn]; exact h5, by rw [hA, hb]; exact h6,
    by rw [hA, hb]; exact h7, inBox_relax z p.lo p.hi p'.lo p'.hi h8 hlo hhi⟩
  · rw [leL_length _ _ hlo, hn]; exact h3
  · rw [← leL_length _ _ hhi, hn]; exact h4

/-- … so a certified solution of the relaxed problem never costs more (beyond the gap) than any
feasible point of the tighter one: relaxing a limit / adding generation never increases the cost. -/
theorem relax_mono (p p' : LP) (x' y' z : List ℚ) (gap tol : ℚ) (hA : p'.A = p.A) (hb : p'.b = p.b) (hc : p'.c = p.c)
    (hn : p'.n = p.n) (hlo : LeL p'.lo p.lo) (hhi : LeL p.hi p'.hi)
    (hcert : checkCert p' x' y' gap tol = true) (hz : Feasible p z) : cost p' x' ≤ cost p z + gap := by
  have := checkCert_sound p' x' y' gap tol hcert z (relax_feasible p p' z hA hb hc hn hlo hhi hz)
  unfold cost at *; rw [hc] at this ⊢; exact this

/-! ### Bounds of the island problem -/

theorem inBox_append_left (xs xr ls lr us ur : List ℚ) (hl : ls.length = xs.length) (hu : us.length = xs.length)
    (h : InBox (xs ++ xr) (ls ++ lr) (us ++ ur)) : InBox xs ls us := by
  induction xs generalizing ls us with
  | nil =>
    cases ls with
    | nil => cases us with
      | nil => trivial
      | cons _ _ => simp at hu
    | cons _ _ => simp at hl
  | cons x xs ih =>
    cases ls with
    | nil => simp at hl
    | cons l ls =>
      cases us with
      | nil => simp at hu
      | cons u us =>
        simp only [List.cons_append, InBox] at h ⊢
        exact ⟨h.1, h.2.1, ih ls us (by simpa using hl) (by simpa using hu) h.2.2⟩

theorem inBox_zero_get (xs us : List ℚ) (h : InBox xs (zeros xs.length) us) :
    ∀ j (hj : j < xs.length) (hj' : j < us.length), 0 ≤ xs[j] ∧ xs[j] ≤ us[j] := by
  induction xs generalizing us with
  | nil => intro j hj; simp at hj
  | cons x xs ih =>
    cases us with
    | nil => simp [zeros, List.replicate, InBox] at h
    | cons u us =>
      simp only [List.length_cons, zeros, List.replicate, InBox] at h
      intro j hj hj'
      cases j with
      | zero => exact ⟨h.1, h.2.1⟩
      | succ j => exact ih us h.2.2 j (by simpa using hj) (by simpa using hj')

/-- **Every feasible point of the island problem sheds between 0 and the load at every bus**
(the first `N_D` variables), for every island. -/
theorem shed_within_bounds (I : Island) (x : List ℚ) (hx : Feasible (build I) x) :
    ∀ j (hj : j < I.buses.length) (hjx : j < (x.take I.buses.length).length),
      0 ≤ (x.take I.buses.length)[j] ∧ (x.take I.buses.length)[j] ≤ (I.buses[j]).load := by
  obtain ⟨_, _, _, _, h5, _, _, h8⟩ := hx
  intro j hj hjx
  have hlen : I.buses.length ≤ x.length := by rw [h5]; simp only [build]; omega
  have hsplit : x = x.take I.buses.length ++ x.drop I.buses.length := (List.take_append_drop _ _).symm
  have htl : (x.take I.buses.length).length = I.buses.length := by simp [List.length_take, hlen]
  have hb : InBox (x.take I.buses.length) (zeros I.buses.length) (I.buses.map (·.load)) := by
    rw [hsplit] at h8
    simp only [build] at h8
    apply inBox_append_left _ (x.drop I.buses.length) _ (I.lines.map (fun l => -l.cap) ++ zeros I.buses.length ++ [-I.alpha]) _
      (I.lines.map (·.cap) ++ I.buses.map (·.genMax) ++ [I.alpha])
    · simp [zeros, htl]
    · simp [htl]
    · simpa [List.append_assoc] using h8
  have := inBox_zero_get (x.take I.buses.length) (I.buses.map (·.load)) (by rw [htl]; exact hb) j hjx (by simp; exact hj)
  simpa using this

/-- Non-vacuity: a two-bus island fed at bus 0 with a line limit of 1/4 and demand 2/5 at bus 1:
shedding 3/20 at cost 3 per MW is certified optimal by the multipliers (0, 3). -/
example : checkCert (build { buses := [⟨0, 5, 100000000⟩, ⟨2/5, 3, 0⟩], lines := [⟨0, 1, 1/4⟩], alpha := 0 })
    [0, 3/20, 1/4, 1/4, 0, 0] [0, 3] 0 0 = true := by decide +kernel

end Relsad.C03
