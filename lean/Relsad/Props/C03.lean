/-
C03  Load shedding is a minimum-cost solution of the documented problem.

The solver (HiGHS via scipy) is not modelled.  What is proved, for every box LP with equality
rows: the Lagrangian bound of *any* multiplier vector is below the cost of *every* feasible
point (weak duality), hence a solution that passes the executable certificate check is optimal
up to the stated gap; relaxing bounds keeps feasible points feasible (so relaxing a line limit
or adding generation cannot increase the optimal cost); feasible points of the island LP shed
between 0 and the load at every bus.  The check runs the certificate check (compiled from these
very definitions) on every LP the implementation solves.
-/
import Relsad.Model.LP
import Relsad.Lemmas.LPL

namespace Relsad.C03
open Relsad.LP

/-- **Weak duality**: for every LP, every multiplier vector and every feasible point. -/
theorem dual_le_cost (p : LP) (y z : List ℚ) (hy : y.length = p.A.length) (hz : Feasible p z) :
    dualBound p y ≤ cost p z := by
  obtain ⟨h1, h2, h3, h4, h5, h6, h7, h8⟩ := hz
  exact lagrangian_bound p z y ⟨h1, h2, h3, h4, h5, h6, hy⟩ h7 h8

/-- **Soundness of the certificate check**: a solution accepted by `checkCert` costs at most `gap`
more than *any* feasible point — i.e. its cost-weighted total equals the true minimum within `gap`. -/
theorem checkCert_sound (p : LP) (x y : List ℚ) (gap tol : ℚ) (h : checkCert p x y gap tol = true) :
    ∀ z, Feasible p z → cost p x ≤ cost p z + gap := by
  intro z hz
  unfold checkCert at h
  simp only [Bool.and_eq_true, decide_eq_true_eq] at h
  have hs := shapedB_sound p x y h.1.1.1
  have := dual_le_cost p y z hs.hy hz
  linarith [h.2]

/-- … in particular against any explicitly exhibited feasible point. -/
theorem cert_vs_witness (p : LP) (x y z : List ℚ) (gap tol : ℚ) (h : checkCert p x y gap tol = true)
    (hz : isFeasible p z = true) : cost p x ≤ cost p z + gap :=
  checkCert_sound p x y gap tol h z (isFeasible_sound p z hz)

/-! ### Relaxation -/

def LeL : List ℚ → List ℚ → Prop
  | a :: as, b :: bs => a ≤ b ∧ LeL as bs
  | [], [] => True
  | _, _ => False

theorem inBox_relax (x l u l' u' : List ℚ) (h : InBox x l u) (hl : LeL l' l) (hu : LeL u u') : InBox x l' u' := by
  induction x generalizing l u l' u' with
  | nil =>
    cases l <;> cases u <;> cases l' <;> cases u' <;> simp_all [InBox, LeL]
  | cons x xs ih =>
    cases l with
    | nil => cases u <;> simp [InBox] at h
    | cons l ls =>
      cases u with
      | nil => simp [InBox] at h
      | cons u us =>
        cases l' with
        | nil => simp [LeL] at hl
        | cons l' ls' =>
          cases u' with
          | nil => simp [LeL] at hu
          | cons u' us' =>
            obtain ⟨h1, h2, h3⟩ := h
            exact ⟨le_trans hl.1 h1, le_trans h2 hu.1, ih ls us ls' us' h3 hl.2 hu.2⟩

theorem leL_length (a b : List ℚ) (h : LeL a b) : a.length = b.length := by
  induction a generalizing b with
  | nil => cases b <;> simp_all [LeL]
  | cons a as ih => cases b with
    | nil => simp [LeL] at h
    | cons b bs => simp [ih bs h.2]

/-- **Relaxing a limit or adding generation keeps every feasible point feasible** (same rows and
costs, wider box) … -/
theorem relax_feasible (p p' : LP) (z : List ℚ) (hA : p'.A = p.A) (hb : p'.b = p.b) (hc : p'.c = p.c) (hn : p'.n = p.n)
    (hlo : LeL p'.lo p.lo) (hhi : LeL p.hi p'.hi) (hz : Feasible p z) : Feasible p' z := by
  obtain ⟨h1, h2, h3, h4, h5, h6, h7, h8⟩ := hz
  refine ⟨by rw [hA, hn]; exact h1, by rw [hc, hn]; exact h2, ?_, ?_, by rw [hn]; exact h5, by rw [hA, hb]; exact h6,
    by rw [hA, hb]; exact h7, inBox_relax z p.lo p.hi p'.lo p'.hi h8 hlo hhi⟩
  · rw [leL_length _ _ hlo, hn]; exact h3
  · rw [← leL_length _ _ hhi, hn]; exact h4

/-- … so a certified solution of the relaxed problem never costs more (beyond the gap) than any
feasible point of the tighter one: relaxing a limit / adding generation never increases the cost. -/
theorem relax_mono (p p' : LP) (x' y' z : List ℚ) (gap tol : ℚ) (hA : p'.A = p.A) (hb : p'.b = p.b) (hc : p'.c = p.c)
    (hn : p'.n = p.n) (hlo : LeL p'.lo p.lo) (hhi : LeL p.hi p'.hi)
    (hcert : checkCert p' x' y' gap tol = true) (hz : Feasible p z) : cost p' x' ≤ cost p z + gap := by
  have := checkCert_sound p' x' y' gap tol hcert z (relax_feasible p p' z hA hb hc hn hlo hhi hz)
  unfold cost at *; rw [hc] at this ⊢; exact this

/-! ### Bounds of the island problem -/

theorem inBox_append_left (xs xr ls lr us ur : List ℚ) (hl : ls.length = xs.length) (hu : us.length = xs.length)
    (h : InBox (xs ++ xr) (ls ++ lr) (us ++ ur)) : InBox xs ls us := by
  induction xs generalizing ls us with
  | nil =>
    cases ls with
    | nil => cases us with
      | nil => trivial
      | cons _ _ => simp at hu
    | cons _ _ => simp at hl
  | cons x xs ih =>
    cases ls with
    | nil => simp at hl
    | cons l ls =>
      cases us with
      | nil => simp at hu
      | cons u us =>
        simp only [List.cons_append, InBox] at h ⊢
        exact ⟨h.1, h.2.1, ih ls us (by simpa using hl) (by simpa using hu) h.2.2⟩

theorem inBox_zero_get (xs us : List ℚ) (h : InBox xs (zeros xs.length) us) :
    ∀ j (hj : j < xs.length) (hj' : j < us.length), 0 ≤ xs[j] ∧ xs[j] ≤ us[j] := by
  induction xs generalizing us with
  | nil => intro j hj; simp at hj
  | cons x xs ih =>
    cases us with
    | nil => simp [zeros, List.replicate, InBox] at h
    | cons u us =>
      simp only [List.length_cons, zeros, List.replicate, InBox] at h
      intro j hj hj'
      cases j with
      | zero => exact ⟨h.1, h.2.1⟩
      | succ j => exact ih us h.2.2 j (by simpa using hj) (by simpa using hj')

/-- **Every feasible point of the island problem sheds between 0 and the load at every bus**
(the first `N_D` variables), for every island. -/
theorem shed_within_bounds (I : Island) (x : List ℚ) (hx : Feasible (build I) x) :
    ∀ j (hj : j < I.buses.length) (hjx : j < (x.take I.buses.length).length),
      0 ≤ (x.take I.buses.length)[j] ∧ (x.take I.buses.length)[j] ≤ (I.buses[j]).load := by
  obtain ⟨_, _, _, _, h5, _, _, h8⟩ := hx
  intro j hj hjx
  have hlen : I.buses.length ≤ x.length := by rw [h5]; simp only [build]; omega
  have hsplit : x = x.take I.buses.length ++ x.drop I.buses.length := (List.take_append_drop _ _).symm
  have htl : (x.take I.buses.length).length = I.buses.length := by simp [List.length_take, hlen]
  have hb : InBox (x.take I.buses.length) (zeros I.buses.length) (I.buses.map (·.load)) := by
    rw [hsplit] at h8
    simp only [build] at h8
    apply inBox_append_left _ (x.drop I.buses.length) _ (I.lines.map (fun l => -l.cap) ++ zeros I.buses.length ++ [-I.alpha]) _
      (I.lines.map (·.cap) ++ I.buses.map (·.genMax) ++ [I.alpha])
    · simp [zeros, htl]
    · simp [htl]
    · simpa [List.append_assoc] using h8
  have := inBox_zero_get (x.take I.buses.length) (I.buses.map (·.load)) (by rw [htl]; exact hb) j hjx (by simp; exact hj)
  simpa using this

/-! ### The island problem always has a feasible point: shedding everything -/

theorem dot_app (a1 a2 x1 x2 : List ℚ) (h : a1.length = x1.length) :
    dot (a1 ++ a2) (x1 ++ x2) = dot a1 x1 + dot a2 x2 := by
  induction a1 generalizing x1 with
  | nil => cases x1 with
    | nil => simp [dot]
    | cons _ _ => simp at h
  | cons a as ih =>
    cases x1 with
    | nil => simp at h
    | cons x xs => simp only [List.cons_append, dot]; rw [ih xs (by simpa using h)]; ring

theorem dot_zeros_right (a : List ℚ) (n : ℕ) : dot a (zeros n) = 0 := by
  induction a generalizing n with
  | nil => simp [dot]
  | cons x xs ih =>
    cases n with
    | zero => simp [zeros, dot]
    | succ n =>
      simp only [zeros, List.replicate, dot]
      have := ih n
      simp only [zeros] at this
      rw [this]; ring

/-- `unitRow` on an index range shifted by `k` (induction helper) -/
theorem dot_unit_map (L : List ℕ) (xs : List ℚ) (j : ℕ) (f : ℕ → ℚ) (hL : L.Nodup) (hlen : L.length = xs.length)
    (hx : ∀ i (hi : i < L.length), xs[i]'(by rw [← hlen]; exact hi) = f L[i]) :
    dot (L.map (fun k => if k = j then (1 : ℚ) else 0)) xs = if j ∈ L then f j else 0 := by
  induction L generalizing xs with
  | nil => simp [dot]
  | cons a as ih =>
    cases xs with
    | nil => simp at hlen
    | cons x xs =>
      simp only [List.map_cons, dot]
      have hnd := List.nodup_cons.mp hL
      have hx0 : x = f a := by
        have := hx 0 (by simp)
        simp only [List.getElem_cons_zero] at this; exact this
      have ih' := ih xs hnd.2 (by simpa using hlen) (fun i hi => by
        have := hx (i + 1) (by simpa using hi)
        simp only [List.getElem_cons_succ] at this; exact this)
      rw [ih']
      by_cases haj : a = j
      · subst haj
        simp [hnd.1, hx0]
      · have : j ∈ a :: as ↔ j ∈ as := by
          simp only [List.mem_cons]
          constructor
          · rintro (h | h)
            · exact absurd h.symm haj
            · exact h
          · exact Or.inr
        simp only [haj, if_false, this]
        ring

theorem dot_unitRow (xs : List ℚ) (j : ℕ) (hj : j < xs.length) : dot (unitRow xs.length j) xs = xs[j] := by
  unfold unitRow
  have := dot_unit_map (List.range xs.length) xs j (fun k => xs.getD k 0) List.nodup_range (by simp)
    (fun i hi => by simp [List.getD_eq_getElem?_getD] ; rw [List.getElem?_eq_getElem (by simpa using hi)]; simp)
  rw [this]
  simp [hj, List.getD_eq_getElem?_getD, List.getElem?_eq_getElem hj]

theorem inBox_append (xs xr ls lr us ur : List ℚ) (h1 : InBox xs ls us) (h2 : InBox xr lr ur) : InBox (xs ++ xr) (ls ++ lr) (us ++ ur) := by
  induction xs generalizing ls us with
  | nil =>
    cases ls with
    | nil => cases us with
      | nil => simpa using h2
      | cons _ _ => simp [InBox] at h1
    | cons _ _ => simp [InBox] at h1
  | cons x xs ih =>
    cases ls with
    | nil => simp [InBox] at h1
    | cons l ls =>
      cases us with
      | nil => simp [InBox] at h1
      | cons u us =>
        simp only [List.cons_append, InBox] at h1 ⊢
        exact ⟨h1.1, h1.2.1, ih ls us h1.2.2⟩

theorem inBox_map {α : Type} (L : List α) (x l u : α → ℚ) (h : ∀ a ∈ L, l a ≤ x a ∧ x a ≤ u a) : InBox (L.map x) (L.map l) (L.map u) := by
  induction L with
  | nil => simp [InBox]
  | cons a as ih =>
    simp only [List.map_cons, InBox]
    exact ⟨(h a List.mem_cons_self).1, (h a List.mem_cons_self).2, ih (fun b hb => h b (List.mem_cons_of_mem _ hb))⟩

theorem zeros_eq_map {α : Type} (L : List α) : zeros L.length = L.map (fun _ => (0 : ℚ)) := by
  induction L with
  | nil => rfl
  | cons a as ih => simp only [List.length_cons, zeros, List.replicate, List.map_cons]; congr 1

theorem eqRows_map (L : List ℕ) (f : ℕ → List ℚ) (g : ℕ → ℚ) (z : List ℚ) (h : ∀ j ∈ L, dot (f j) z = g j) : EqRows (L.map f) (L.map g) z := by
  induction L with
  | nil => simp [EqRows]
  | cons a as ih =>
    simp only [List.map_cons, EqRows]
    exact ⟨h a List.mem_cons_self, ih (fun b hb => h b (List.mem_cons_of_mem _ hb))⟩

/-- **The shedding problem of every island is feasible**: shedding the whole demand, with no flow and no generation,
satisfies every balance row and every bound (non-negative demands, generation limits, line limits and threshold). -/
theorem build_always_feasible (I : Island) (hload : ∀ b ∈ I.buses, 0 ≤ b.load) (hgen : ∀ b ∈ I.buses, 0 ≤ b.genMax)
    (hcap : ∀ l ∈ I.lines, 0 ≤ l.cap) (ha : 0 ≤ I.alpha) : Feasible (build I) (shedAll I) := by
  have hb : I.buses.map (·.load) = (List.range I.buses.length).map (fun j => (I.buses.map (·.load)).getD j 0) := by
    apply List.ext_getElem
    · simp
    · intro i h1 h2
      simp only [List.getElem_map, List.getElem_range, List.getD_eq_getElem?_getD]
      rw [List.getElem?_eq_getElem (by simpa using h1)]; simp
  refine ⟨?_, ?_, ?_, ?_, ?_, ?_, ?_, ?_⟩
  · intro r hr
    simp only [build, List.mem_map, List.mem_range] at hr
    obtain ⟨j, _, rfl⟩ := hr
    show _ = I.buses.length + I.lines.length + I.buses.length + 1
    simp [unitRow]; omega
  · simp [build, zeros]; omega
  · simp [build, zeros]; omega
  · simp [build, zeros]; omega
  · simp [build, shedAll, zeros]; omega
  · simp [build]
  · -- balance rows
    show EqRows (build I).A (build I).b (shedAll I)
    have hA : (build I).A = (List.range I.buses.length).map (fun j =>
      unitRow I.buses.length j ++ I.lines.map (fun l => if l.f = j then (-1 : ℚ) else if l.t = j then 1 else 0) ++ unitRow I.buses.length j ++ [1]) := rfl
    have hbb : (build I).b = I.buses.map (·.load) := rfl
    rw [hA, hbb, hb]
    apply eqRows_map
    intro j hj
    have hj' : j < I.buses.length := List.mem_range.mp hj
    unfold shedAll
    rw [dot_app _ _ _ _ (by simp [unitRow, zeros]), dot_app _ _ _ _ (by simp [unitRow, zeros]),
        dot_app _ _ _ _ (by simp [unitRow])]
    rw [dot_zeros_right, dot_zeros_right]
    have hu : dot (unitRow I.buses.length j) (I.buses.map (·.load)) = (I.buses.map (·.load))[j]'(by simpa using hj') := by
      have := dot_unitRow (I.buses.map (·.load)) j (by simpa using hj')
      simpa using this
    rw [hu]
    simp only [dot, List.getD_eq_getElem?_getD]
    rw [List.getElem?_eq_getElem (by simpa using hj')]
    simp
  · -- bounds
    show InBox (shedAll I) (build I).lo (build I).hi
    simp only [build, shedAll]
    apply inBox_append
    · apply inBox_append
      · apply inBox_append
        · rw [zeros_eq_map]
          exact inBox_map I.buses _ _ _ (fun b hb' => ⟨hload b hb', le_refl _⟩)
        · rw [zeros_eq_map]
          exact inBox_map I.lines _ _ _ (fun l hl => ⟨by have := hcap l hl; linarith, hcap l hl⟩)
      · rw [zeros_eq_map]
        exact inBox_map I.buses _ _ _ (fun b hb' => ⟨le_refl _, hgen b hb'⟩)
    · simp only [InBox]; exact ⟨by linarith, ha, trivial⟩

/-- hence a certified solution never costs more than shedding everything (plus the gap) -/
theorem optimum_le_shed_all (I : Island) (hload : ∀ b ∈ I.buses, 0 ≤ b.load) (hgen : ∀ b ∈ I.buses, 0 ≤ b.genMax)
    (hcap : ∀ l ∈ I.lines, 0 ≤ l.cap) (ha : 0 ≤ I.alpha) (x y : List ℚ) (gap tol : ℚ)
    (h : checkCert (build I) x y gap tol = true) : cost (build I) x ≤ cost (build I) (shedAll I) + gap :=
  checkCert_sound _ x y gap tol h _ (build_always_feasible I hload hgen hcap ha)


/-- Non-vacuity: a two-bus island fed at bus 0 with a line limit of 1/4 and demand 2/5 at bus 1:
shedding 3/20 at cost 3 per MW is certified optimal by the multipliers (0, 3). -/
example : checkCert (build { buses := [⟨0, 5, 100000000⟩, ⟨2/5, 3, 0⟩], lines := [⟨0, 1, 1/4⟩], alpha := 0 })
    [0, 3/20, 1/4, 1/4, 0, 0] [0, 3] 0 0 = true := by decide +kernel

/-! ### What is recorded as shed -/

/-- **What is put on the energy-shed stacks is the solution with amounts up to α dropped** — whatever the optimal cost:
the shortcut "report nothing when the optimal cost is 0 and no bus sheds more than α" changes nothing.  In particular load
shed at zero interruption cost (optimal cost 0) is recorded. -/
theorem reported_eq_threshold (I : Island) (x : List ℚ) (f : ℚ) (hlen : I.buses.length ≤ x.length) :
    reported I x f = (x.take I.buses.length).map (fun s => if s > I.alpha then s else 0) := by
  unfold reported
  split_ifs with h
  · rfl
  · simp only [Bool.or_eq_true, decide_eq_true_eq, not_or, List.any_eq_true, not_exists, not_and] at h
    have hl : (x.take I.buses.length).length = I.buses.length := by simp [List.length_take, hlen]
    have hz : zeros I.buses.length = (x.take I.buses.length).map (fun _ => (0 : ℚ)) := by
      unfold zeros; rw [List.map_const', hl]
    rw [hz]
    apply List.map_congr_left
    intro s hs
    have := h.2 s hs
    simp only [gt_iff_lt] at this ⊢
    rw [if_neg this]

/-- … hence the recorded amount of every bus is within α of the solution's, and never above it (for a solution within its
bounds, `shed_within_bounds`): the recorded amounts satisfy the documented problem within the documented slack. -/
theorem reported_close (I : Island) (x : List ℚ) (f : ℚ) (hlen : I.buses.length ≤ x.length) (ha : 0 ≤ I.alpha)
    (j : ℕ) (hj : j < (x.take I.buses.length).length) (h0 : 0 ≤ (x.take I.buses.length)[j]) :
    ∃ hj' : j < (reported I x f).length,
      (reported I x f)[j] ≤ (x.take I.buses.length)[j] ∧ (x.take I.buses.length)[j] - I.alpha ≤ (reported I x f)[j] ∧
      0 ≤ (reported I x f)[j] := by
  rw [reported_eq_threshold I x f hlen]
  refine ⟨by simpa using hj, ?_⟩
  simp only [List.getElem_map]
  split_ifs with h
  · exact ⟨le_refl _, by linarith, h0⟩
  · exact ⟨h0, by linarith [not_lt.mp h], le_refl _⟩

/-- Non-vacuity: bus 1 has interruption cost 0 and sheds 1/25 behind a line limit; the optimal cost is 0 and the amount is
recorded. -/
example : reported { buses := [⟨0, 1, 100000000⟩, ⟨1/20, 0, 0⟩, ⟨1/50, 3, 0⟩], lines := [⟨0, 1, 3/100⟩, ⟨1, 2, 1⟩], alpha := 1/10000 }
    [0, 1/25, 0, 3/100, 1/50, 3/100, 0, 0, 0] 0 = [0, 1/25, 0] := by decide +kernel

end Relsad.C03
