/-
C04  Islands are exactly the connected pieces of the energised, radial network.

Graph part: vertices are buses, edges are the in-service lines.  The islands computed by the
model (`components`) are proved to be exactly the reachability classes.  Radiality part:
backup closing only ever joins two different islands, so a forest stays a forest.
-/
import Relsad.Model.Graph
import Relsad.Model.Islands
import Relsad.Lemmas.GraphL

namespace Relsad.C04
open Relsad.Graph Relation

/-- every island produced is the reach set of one of the remaining vertices -/
theorem comps_are_reach (V : List Nat) (es : List Edge) (W : List Nat) :
    ∀ c ∈ comps V es W, ∃ v ∈ W, c = reach V es v := by
  fun_induction comps V es W with
  | case1 => intro c hc; cases hc
  | case2 v rest ih =>
    intro c hc
    rcases List.mem_cons.mp hc with rfl | hc'
    · exact ⟨v, List.mem_cons_self, rfl⟩
    · obtain ⟨w, hw, e⟩ := ih c hc'
      unfold removeAll at hw
      exact ⟨w, List.mem_cons_of_mem _ (List.mem_filter.mp hw).1, e⟩

/-- **Every bus belongs to an island.** -/
theorem cover (V : List Nat) (es : List Edge) (hE : Closed V es) (W : List Nat) (hW : ∀ w ∈ W, w ∈ V) :
    ∀ w ∈ W, ∃ c ∈ comps V es W, w ∈ c := by
  fun_induction comps V es W with
  | case1 => intro w hw; cases hw
  | case2 v rest ih =>
    intro w hw
    have hvV := hW v List.mem_cons_self
    by_cases hin : w ∈ reach V es v
    · exact ⟨_, List.mem_cons_self, hin⟩
    · rcases List.mem_cons.mp hw with rfl | hw'
      · exact absurd ((mem_reach_iff V es hE w hvV w).mpr ReflTransGen.refl) hin
      · have hmem : w ∈ removeAll rest (reach V es v) := by
          unfold removeAll; exact List.mem_filter.mpr ⟨hw', by simp [hin]⟩
        obtain ⟨c, hc, hwc⟩ := ih (fun x hx => hW x (List.mem_cons_of_mem _ (by
          unfold removeAll at hx; exact (List.mem_filter.mp hx).1))) w hmem
        exact ⟨c, List.mem_cons_of_mem _ hc, hwc⟩

/-- **An island is the reachability class of each of its members**: two buses share an island
exactly when an in-service path joins them. -/
theorem same_island_iff_path (V : List Nat) (es : List Edge) (hE : Closed V es) (W : List Nat)
    (hW : ∀ w ∈ W, w ∈ V) (c : List Nat) (hc : c ∈ comps V es W) (x : Nat) (hx : x ∈ c) (y : Nat) :
    y ∈ c ↔ ReflTransGen (Adj es) x y := by
  obtain ⟨v, hv, rfl⟩ := comps_are_reach V es W c hc
  have hvV := hW v hv
  rw [mem_reach_iff V es hE v hvV y]
  have hvx := (mem_reach_iff V es hE v hvV x).mp hx
  constructor
  · intro hvy; exact ReflTransGen.trans (rtg_symm hvx) hvy
  · intro hxy; exact ReflTransGen.trans hvx hxy

/-- **Islands are pairwise disjoint** (so every bus belongs to exactly one). -/
theorem disjoint (V : List Nat) (es : List Edge) (hE : Closed V es) (W : List Nat) (hW : ∀ w ∈ W, w ∈ V) :
    (comps V es W).Pairwise (fun c d => ∀ x, x ∈ c → x ∉ d) := by
  fun_induction comps V es W with
  | case1 => exact List.Pairwise.nil
  | case2 v rest ih =>
    have hvV := hW v List.mem_cons_self
    have hrest : ∀ w ∈ removeAll rest (reach V es v), w ∈ V := fun x hx => hW x (List.mem_cons_of_mem _ (by
      unfold removeAll at hx; exact (List.mem_filter.mp hx).1))
    refine List.Pairwise.cons ?_ (ih hrest)
    intro d hd x hxc hxd
    obtain ⟨w, hw, rfl⟩ := comps_are_reach V es _ d hd
    have hwnot : w ∉ reach V es v := by
      unfold removeAll at hw; simpa using (List.mem_filter.mp hw).2
    have hwV := hrest w hw
    apply hwnot
    have h1 := (mem_reach_iff V es hE v hvV x).mp hxc
    have h2 := (mem_reach_iff V es hE w hwV x).mp hxd
    exact (mem_reach_iff V es hE v hvV w).mpr (ReflTransGen.trans h1 (rtg_symm h2))

/-- **An in-service line lies inside one island**: both its ends are in the island of either end.
(Out-of-service lines are not edges of the graph and belong to no island.) -/
theorem line_inside_island (V : List Nat) (es : List Edge) (hE : Closed V es) (W : List Nat)
    (hW : ∀ w ∈ W, w ∈ V) (c : List Nat) (hc : c ∈ comps V es W) (a b : Nat) (hab : (a, b) ∈ es) :
    a ∈ c ↔ b ∈ c := by
  constructor
  · intro ha
    exact (same_island_iff_path V es hE W hW c hc a ha b).mpr (ReflTransGen.single (Or.inl hab))
  · intro hb
    exact (same_island_iff_path V es hE W hW c hc b hb a).mpr (ReflTransGen.single (Or.inr hab))

/-! ### Radiality -/

/-- a forest, built edge by edge between vertices not yet connected -/
inductive Forest : List Edge → Prop where
  | nil : Forest []
  | cons (a b : Nat) (es : List Edge) : Forest es → ¬ ReflTransGen (Adj es) a b → Forest ((a, b) :: es)

theorem closed_cons (V : List Nat) (es : List Edge) (hE : Closed V es) (a b : Nat) (ha : a ∈ V) (hb : b ∈ V) :
    Closed V ((a, b) :: es) := by
  intro x y h hx
  rcases h with h | h
  · rcases List.mem_cons.mp h with h' | h'
    · simp only [Prod.mk.injEq] at h'; rw [h'.2]; exact hb
    · exact hE x y (Or.inl h') hx
  · rcases List.mem_cons.mp h with h' | h'
    · simp only [Prod.mk.injEq] at h'; rw [h'.1]; exact ha
    · exact hE x y (Or.inr h') hx

open Relsad.Islands in
/-- **Backup closing keeps the energised network radial**: every backup the model closes joins
two different islands of the network energised so far, so a forest stays a forest, for every
network and every set of backup lines. -/
theorem closeBackups_forest (V : List Nat) :
    ∀ (n : Nat) (es : List Edge) (bs : List Backup), Closed V es → (∀ b ∈ bs, b.a ∈ V ∧ b.b ∈ V) → Forest es →
      Forest (closeBackups V n es bs).1 := by
  intro n
  induction n with
  | zero => intro es bs _ _ h; simpa [closeBackups] using h
  | succ n ih =>
    intro es bs hE hbs h
    unfold closeBackups
    cases hf : pickBackup V es bs with
    | none => simpa using h
    | some r =>
      obtain ⟨b, rest⟩ := r
      simp only
      have hsp := pickBackup_spec V es bs b rest hf
      obtain ⟨hmem, hrest⟩ := pickBackup_mem V es bs b rest hf
      have hab := hbs b hmem
      apply ih _ _ (closed_cons V es hE b.a b.b hab.1 hab.2) (fun x hx => hbs x (hrest x hx))
      refine Forest.cons _ _ _ h ?_
      intro hpath
      apply hsp
      exact (mem_reach_iff V es hE b.a hab.1 b.b).mpr hpath

open Relsad.Islands in
/-- only eligible backups (healthy, open, no sectioning in progress next to them) are ever closed -/
theorem pick_eligible (V : List Nat) (es : List Edge) (bs : List Backup) (b : Backup) (rest : List Backup)
    (h : pickBackup V es bs = some (b, rest)) : b.eligible = true := by
  induction bs generalizing rest with
  | nil => simp [pickBackup] at h
  | cons c cs ih =>
    unfold pickBackup at h
    by_cases hc : (c.eligible && !decide (c.b ∈ reach V es c.a)) = true
    · simp only [hc, if_true, Option.some.injEq, Prod.mk.injEq] at h
      obtain ⟨rfl, _⟩ := h
      simp only [Bool.and_eq_true] at hc; exact hc.1
    · simp only [hc] at h
      cases hp : pickBackup V es cs with
      | none => simp [hp] at h
      | some r =>
        obtain ⟨d, rest'⟩ := r
        simp only [hp, Option.some.injEq, Prod.mk.injEq] at h
        obtain ⟨rfl, _⟩ := h
        exact ih rest' hp

open Relsad.Islands in
private theorem pickBackup_none (V : List Nat) (es : List Edge) (bs : List Backup) (h : pickBackup V es bs = none) :
    ∀ b ∈ bs, b.eligible = true → b.b ∈ reach V es b.a := by
  induction bs with
  | nil => intro b hb; cases hb
  | cons c cs ih =>
    unfold pickBackup at h
    by_cases hc : (c.eligible && !decide (c.b ∈ reach V es c.a)) = true
    · simp [hc] at h
    · simp only [hc] at h
      cases hp : pickBackup V es cs with
      | some r => simp [hp] at h
      | none =>
        intro b hb he
        rcases List.mem_cons.mp hb with rfl | hb'
        · simp only [Bool.and_eq_true, Bool.not_eq_true', decide_eq_false_iff_not, not_and, not_not] at hc
          exact hc he
        · exact ih hp b hb' he

open Relsad.Islands in
private theorem pickBackup_cover (V : List Nat) (es : List Edge) (bs : List Backup) (b : Backup) (rest : List Backup)
    (h : pickBackup V es bs = some (b, rest)) : (∀ x ∈ bs, x = b ∨ x ∈ rest) ∧ rest.length + 1 = bs.length := by
  induction bs generalizing rest with
  | nil => simp [pickBackup] at h
  | cons c cs ih =>
    unfold pickBackup at h
    by_cases hc : (c.eligible && !decide (c.b ∈ reach V es c.a)) = true
    · simp only [hc, if_true, Option.some.injEq, Prod.mk.injEq] at h
      obtain ⟨rfl, rfl⟩ := h
      refine ⟨fun x hx => ?_, by simp⟩
      rcases List.mem_cons.mp hx with rfl | hx'
      · exact Or.inl rfl
      · exact Or.inr hx'
    · simp only [hc] at h
      cases hp : pickBackup V es cs with
      | none => simp [hp] at h
      | some r =>
        obtain ⟨d, rest'⟩ := r
        simp only [hp, Option.some.injEq, Prod.mk.injEq] at h
        obtain ⟨rfl, rfl⟩ := h
        obtain ⟨h1, h2⟩ := ih rest' hp
        refine ⟨fun x hx => ?_, by simp [h2]⟩
        rcases List.mem_cons.mp hx with rfl | hx'
        · exact Or.inr List.mem_cons_self
        · rcases h1 x hx' with e | e
          · exact Or.inl e
          · exact Or.inr (List.mem_cons_of_mem _ e)

open Relsad.Islands in
/-- closing backups only adds edges -/
private theorem closeBackups_sub (V : List Nat) : ∀ (n : Nat) (es : List Edge) (bs : List Backup),
    ∀ e ∈ es, e ∈ (closeBackups V n es bs).1 := by
  intro n
  induction n with
  | zero => intro es bs e he; simpa [closeBackups] using he
  | succ n ih =>
    intro es bs e he
    unfold closeBackups
    cases hf : pickBackup V es bs with
    | none => simpa using he
    | some r =>
      obtain ⟨b, rest⟩ := r
      exact ih _ _ e (List.mem_cons_of_mem _ he)

private theorem rtg_mono {es es' : List Edge} (h : ∀ e ∈ es, e ∈ es') {a b : Nat} (p : ReflTransGen (Adj es) a b) :
    ReflTransGen (Adj es') a b := by
  induction p with
  | refl => exact ReflTransGen.refl
  | tail _ hab ih =>
    refine ReflTransGen.tail ih ?_
    rcases hab with hab | hab
    · exact Or.inl (h _ hab)
    · exact Or.inr (h _ hab)

open Relsad.Islands in
/-- **Every backup line that may be closed ends up inside one island**: when the closing has finished, the two ends of
every eligible backup (healthy, no sectioning next to it) are joined by an in-service path — either the backup itself was
closed, or it was not needed because its ends were already joined.  Together with `closeBackups_forest` (no loop) and
`pick_eligible` (only eligible ones): the islands after closing are the connected pieces of the in-service lines plus
all eligible backups, whatever the order in which the backups are looked at, so which of several possible backups the
implementation picks does not change the islands. -/
theorem closeBackups_complete (V : List Nat) :
    ∀ (n : Nat) (es : List Edge) (bs : List Backup), Closed V es → (∀ b ∈ bs, b.a ∈ V ∧ b.b ∈ V) → bs.length ≤ n →
      ∀ b ∈ bs, b.eligible = true → ReflTransGen (Adj (closeBackups V n es bs).1) b.a b.b := by
  intro n
  induction n with
  | zero =>
    intro es bs _ _ hlen b hb
    have : bs = [] := List.length_eq_zero_iff.mp (Nat.le_zero.mp hlen)
    rw [this] at hb; cases hb
  | succ n ih =>
    intro es bs hE hbs hlen b hb he
    unfold closeBackups
    cases hf : pickBackup V es bs with
    | none =>
      simp only
      exact (mem_reach_iff V es hE b.a (hbs b hb).1 b.b).mp (pickBackup_none V es bs hf b hb he)
    | some r =>
      obtain ⟨c, rest⟩ := r
      simp only
      obtain ⟨hmem, hrest⟩ := pickBackup_mem V es bs c rest hf
      obtain ⟨hcov, hl⟩ := pickBackup_cover V es bs c rest hf
      have hcab := hbs c hmem
      have hE' := closed_cons V es hE c.a c.b hcab.1 hcab.2
      rcases hcov b hb with rfl | hbr
      · -- the backup that was closed
        apply rtg_mono (closeBackups_sub V n ((b.a, b.b) :: es) rest)
        exact ReflTransGen.single (Or.inl List.mem_cons_self)
      · exact ih _ rest hE' (fun x hx => hbs x (hrest x hx)) (by omega) b hbr he

open Relsad.Islands in
/-- every in-service edge after the closing is an original one or an eligible backup -/
private theorem closeBackups_edges (V : List Nat) : ∀ (n : Nat) (es : List Edge) (bs : List Backup),
    ∀ e ∈ (closeBackups V n es bs).1, e ∈ es ∨ ∃ b ∈ bs, b.eligible = true ∧ e = (b.a, b.b) := by
  intro n
  induction n with
  | zero => intro es bs e he; exact Or.inl (by simpa [closeBackups] using he)
  | succ n ih =>
    intro es bs e he
    unfold closeBackups at he
    cases hf : pickBackup V es bs with
    | none => rw [hf] at he; exact Or.inl (by simpa using he)
    | some r =>
      obtain ⟨c, rest⟩ := r
      rw [hf] at he
      simp only at he
      obtain ⟨hmem, hrest⟩ := pickBackup_mem V es bs c rest hf
      rcases ih _ _ e he with h | ⟨b, hb, hbe, rfl⟩
      · rcases List.mem_cons.mp h with rfl | h'
        · exact Or.inr ⟨c, hmem, pick_eligible V es bs c rest hf, rfl⟩
        · exact Or.inl h'
      · exact Or.inr ⟨b, hrest b hb, hbe, rfl⟩

open Relsad.Islands in
/-- **The islands after closing do not depend on which backup is picked first**: two buses share an island after the
closing exactly when a path of in-service lines and eligible backup lines joins them — a description in which the order
of the backups, and the choice among several that could join the same two islands, does not occur. -/
theorem closeBackups_islands (V : List Nat) (n : Nat) (es : List Edge) (bs : List Backup) (hE : Closed V es)
    (hbs : ∀ b ∈ bs, b.a ∈ V ∧ b.b ∈ V) (hn : bs.length ≤ n) (x y : Nat) :
    ReflTransGen (Adj (closeBackups V n es bs).1) x y ↔
    ReflTransGen (Adj (es ++ (bs.filter (·.eligible)).map (fun b => (b.a, b.b)))) x y := by
  constructor
  · apply rtg_mono
    intro e he
    rcases closeBackups_edges V n es bs e he with h | ⟨b, hb, hbe, rfl⟩
    · exact List.mem_append_left _ h
    · exact List.mem_append_right _ (List.mem_map.mpr ⟨b, List.mem_filter.mpr ⟨hb, hbe⟩, rfl⟩)
  · intro p
    induction p with
    | refl => exact ReflTransGen.refl
    | tail _ hab ih =>
      refine ih.trans ?_
      have step : ∀ u v, (u, v) ∈ es ++ (bs.filter (·.eligible)).map (fun b => (b.a, b.b)) →
          ReflTransGen (Adj (closeBackups V n es bs).1) u v := by
        intro u v huv
        rcases List.mem_append.mp huv with h | h
        · exact ReflTransGen.single (Or.inl (closeBackups_sub V n es bs _ h))
        · obtain ⟨b, hb, hbe⟩ := List.mem_map.mp h
          obtain ⟨hb1, hb2⟩ := List.mem_filter.mp hb
          simp only [Prod.mk.injEq] at hbe
          rw [← hbe.1, ← hbe.2]
          exact closeBackups_complete V n es bs hE hbs hn b hb1 hb2
      rcases hab with hab | hab
      · exact step _ _ hab
      · exact rtg_symm (step _ _ hab)

open Relsad.Islands in
/-- Non-vacuity: islands {0,1} and {2,3}, two eligible backups between them and one that is not: the first is closed,
the second is not needed, the ineligible one stays open; 0 and 3 are joined afterwards. -/
example : (closeBackups [0, 1, 2, 3] 3 [(0, 1), (2, 3)] [⟨7, 1, 3, false⟩, ⟨8, 1, 2, true⟩, ⟨9, 0, 3, true⟩]) =
    ([(1, 2), (0, 1), (2, 3)], [8]) := by decide +kernel

/-- Non-vacuity: the hypotheses of the island theorems are met by a concrete network (two feeders
0-1-2 and 0-3-4 with line 0-1 out of service), on which bus 4 is in the island of bus 0 and bus 1 is not. -/
example : Closed [0, 1, 2, 3, 4] [(1, 2), (0, 3), (3, 4)] ∧
    ReflTransGen (Adj [(1, 2), (0, 3), (3, 4)]) 0 4 := by
  constructor
  · intro x y h _
    rcases h with h | h <;> simp at h <;> rcases h with ⟨rfl, rfl⟩ | ⟨rfl, rfl⟩ | ⟨rfl, rfl⟩ <;> simp
  · exact ReflTransGen.tail (b := 3) (ReflTransGen.single (Or.inl (by simp))) (Or.inl (by simp))

end Relsad.C04
