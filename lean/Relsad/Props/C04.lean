/-
C04  Islands are exactly the connected pieces of the energised, radial network.

Graph part: vertices are buses, edges are the in-service lines.  The islands computed by the
model (`components`) are proved to be exactly the reachability classes.  Radiality part:
backup closing only ever joins two different islands, so a forest stays a forest.
-/
import Relsad.Model.Graph
import Relsad.Model.Islands
import Relsad.Lemmas.GraphL

namespace Relsad.C04
open Relsad.Graph Relation

/-- every island produced is the reach set of one of the remaining vertices -/
theorem comps_are_reach (V : List Nat) (es : List Edge) (W : List Nat) :
    ∀ c ∈ comps V es W, ∃ v ∈ W, c = reach V es v := by
  fun_induction comps V es W with
  | case1 => intro c hc; cases hc
  | case2 v rest ih =>
    intro c hc
    rcases List.mem_cons.mp hc with rfl | hc'
    · exact ⟨v, List.mem_cons_self, rfl⟩
    · obtain ⟨w, hw, e⟩ := ih c hc'
      unfold removeAll at hw
      exact ⟨w, List.mem_cons_of_mem _ (List.mem_filter.mp hw).1, e⟩

/-- **Every bus belongs to an island.** -/
theorem cover (V : List Nat) (es : List Edge) (hE : Closed V es) (W : List Nat) (hW : ∀ w ∈ W, w ∈ V) :
    ∀ w ∈ W, ∃ c ∈ comps V es W, w ∈ c := by
  fun_induction comps V es W with
  | case1 => intro w hw; cases hw
  | case2 v rest ih =>
    intro w hw
    have hvV := hW v List.mem_cons_self
    by_cases hin : w ∈ reach V es v
    · exact ⟨_, List.mem_cons_self, hin⟩
    · rcases List.mem_cons.mp hw with rfl | hw'
      · exact absurd ((mem_reach_iff V es hE w hvV w).mpr ReflTransGen.refl) hin
      · have hmem : w ∈ removeAll rest (reach V es v) := by
          unfold removeAll; exact List.mem_filter.mpr ⟨hw', by simp [hin]⟩
        obtain ⟨c, hc, hwc⟩ := ih (fun x hx => hW x (List.mem_cons_of_mem _ (by
          unfold removeAll at hx; exact (List.mem_filter.mp hx).1))) w hmem
        exact ⟨c, List.mem_cons_of_mem _ hc, hwc⟩

/-- **An island is the reachability class of each of its members**: two buses share an island
exactly when an in-service path joins them. -/
theorem same_island_iff_path (V : List Nat) (es : List Edge) (hE : Closed V es) (W : List Nat)
    (hW : ∀ w ∈ W, w ∈ V) (c : List Nat) (hc : c ∈ comps V es W) (x : Nat) (hx : x ∈ c) (y : Nat) :
    y ∈ c ↔ ReflTransGen (Adj es) x y := by
  obtain ⟨v, hv, rfl⟩ := comps_are_reach V es W c hc
  have hvV := hW v hv
  rw [mem_reach_iff V es hE v hvV y]
  have hvx := (mem_reach_iff V es hE v hvV x).mp hx
  constructor
  · intro hvy; exact ReflTransGen.trans (rtg_symm hvx) hvy
  · intro hxy; exact ReflTransGen.trans hvx hxy

/-- **Islands are pairwise disjoint** (so every bus belongs to exactly one). -/
theorem disjoint (V : List Nat) (es : List Edge) (hE : Closed V es) (W : List Nat) (hW : ∀ w ∈ W, w ∈ V) :
    (comps V es W).Pairwise (fun c d => ∀ x, x ∈ c → x ∉ d) := by
  fun_induction comps V es W with
  | case1 => exact List.Pairwise.nil
  | case2 v rest ih =>
    have hvV := hW v List.mem_cons_self
    have hrest : ∀ w ∈ removeAll rest (reach V es v), w ∈ V := fun x hx => hW x (List.mem_cons_of_mem _ (by
      unfold removeAll at hx; exact (List.mem_filter.mp hx).1))
    refine List.Pairwise.cons ?_ (ih hrest)
    intro d hd x hxc hxd
    obtain ⟨w, hw, rfl⟩ := comps_are_reach V es _ d hd
    have hwnot : w ∉ reach V es v := by
      unfold removeAll at hw; simpa using (List.mem_filter.mp hw).2
    have hwV := hrest w hw
    apply hwnot
    have h1 := (mem_reach_iff V es hE v hvV x).mp hxc
    have h2 := (mem_reach_iff V es hE w hwV x).mp hxd
    exact (mem_reach_iff V es hE v hvV w).mpr (ReflTransGen.trans h1 (rtg_symm h2))

/-- **An in-service line lies inside one island**: both its ends are in the island of either end.
(Out-of-service lines are not edges of the graph and belong to no island.) -/
theorem line_inside_island (V : List Nat) (es : List Edge) (hE : Closed V es) (W : List Nat)
    (hW : ∀ w ∈ W, w ∈ V) (c : List Nat) (hc : c ∈ comps V es W) (a b : Nat) (hab : (a, b) ∈ es) :
    a ∈ c ↔ b ∈ c := by
  constructor
  · intro ha
    exact (same_island_iff_path V es hE W hW c hc a ha b).mpr (ReflTransGen.single (Or.inl hab))
  · intro hb
    exact (same_island_iff_path V es hE W hW c hc b hb a).mpr (ReflTransGen.single (Or.inr hab))

/-! ### Radiality -/

/-- a forest, built edge by edge between vertices not yet connected -/
inductive Forest : List Edge → Prop where
  | nil : Forest []
  | cons (a b : Nat) (es : List Edge) : Forest es → ¬ ReflTransGen (Adj es) a b → Forest ((a, b) :: es)

theorem closed_cons (V : List Nat) (es : List Edge) (hE : Closed V es) (a b : Nat) (ha : a ∈ V) (hb : b ∈ V) :
    Closed V ((a, b) :: es) := by
  intro x y h hx
  rcases h with h | h
  · rcases List.mem_cons.mp h with h' | h'
    · simp only [Prod.mk.injEq] at h'; rw [h'.2]; exact hb
    · exact hE x y (Or.inl h') hx
  · rcases List.mem_cons.mp h with h' | h'
    · simp only [Prod.mk.injEq] at h'; rw [h'.1]; exact ha
    · exact hE x y (Or.inr h') hx

open Relsad.Islands in
/-- **Backup closing keeps the energised network radial**: every backup the model closes joins
two different islands of the network energised so far, so a forest stays a forest, for every
network and every set of backup lines. -/
theorem closeBackups_forest (V : List Nat) :
    ∀ (n : Nat) (es : List Edge) (bs : List Backup), Closed V es → (∀ b ∈ bs, b.a ∈ V ∧ b.b ∈ V) → Forest es →
      Forest (closeBackups V n es bs).1 := by
  intro n
  induction n with
  | zero => intro es bs _ _ h; simpa [closeBackups] using h
  | succ n ih =>
    intro es bs hE hbs h
    unfold closeBackups
    cases hf : pickBackup V es bs with
    | none => simpa using h
    | some r =>
      obtain ⟨b, rest⟩ := r
      simp only
      have hsp := pickBackup_spec V es bs b rest hf
      obtain ⟨hmem, hrest⟩ := pickBackup_mem V es bs b rest hf
      have hab := hbs b hmem
      apply ih _ _ (closed_cons V es hE b.a b.b hab.1 hab.2) (fun x hx => hbs x (hrest x hx))
      refine Forest.cons _ _ _ h ?_
      intro hpath
      apply hsp
      exact (mem_reach_iff V es hE b.a hab.1 b.b).mpr hpath

open Relsad.Islands in
/-- only eligible backups (healthy, open, no sectioning in progress next to them) are ever closed -/
theorem pick_eligible (V : List Nat) (es : List Edge) (bs : List Backup) (b : Backup) (rest : List Backup)
    (h : pickBackup V es bs = some (b, rest)) : b.eligible = true := by
  induction bs generalizing rest with
  | nil => simp [pickBackup] at h
  | cons c cs ih =>
    unfold pickBackup at h
    by_cases hc : (c.eligible && !decide (c.b ∈ reach V es c.a)) = true
    · simp only [hc, if_true, Option.some.injEq, Prod.mk.injEq] at h
      obtain ⟨rfl, _⟩ := h
      simp only [Bool.and_eq_true] at hc; exact hc.1
    · simp only [hc] at h
      cases hp : pickBackup V es cs with
      | none => simp [hp] at h
      | some r =>
        obtain ⟨d, rest'⟩ := r
        simp only [hp, Option.some.injEq, Prod.mk.injEq] at h
        obtain ⟨rfl, _⟩ := h
        exact ih rest' hp

/-- Non-vacuity: the hypotheses of the island theorems are met by a concrete network (two feeders
0-1-2 and 0-3-4 with line 0-1 out of service), on which bus 4 is in the island of bus 0 and bus 1 is not. -/
example : Closed [0, 1, 2, 3, 4] [(1, 2), (0, 3), (3, 4)] ∧
    ReflTransGen (Adj [(1, 2), (0, 3), (3, 4)]) 0 4 := by
  constructor
  · intro x y h _
    rcases h with h | h <;> simp at h <;> rcases h with ⟨rfl, rfl⟩ | ⟨rfl, rfl⟩ | ⟨rfl, rfl⟩ <;> simp
  · exact ReflTransGen.tail (b := 3) (ReflTransGen.single (Or.inl (by simp))) (Or.inl (by simp))

end Relsad.C04
