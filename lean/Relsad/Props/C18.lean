/-
C18  Results do not depend on the unit chosen for reporting time.

Every time-dependent operation of the models consumes a duration through its value in hours
(or years, for failure probabilities), and those values are invariant under a change of unit
(C17).  Hence each step of the failure / repair machines and of the switching state machine is
the same whatever unit the step is written in; repair times are hours by construction.
The implementation is tied to this by paired real runs in different reporting units.
-/
import Relsad.Model.Control
import Relsad.Model.Fail
import Relsad.Props.C17
import Relsad.Props.C13
import Relsad.Model.BusAcct
import Relsad.Model.Battery

namespace Relsad.C18
open Relsad Relsad.Time Relsad.Fail

/-- the number of hours in a duration does not depend on the unit it is written in -/
theorem hours_unit_invariant (t : Time) (u : TimeUnit) : (t.convert u).getHours = t.getHours := by
  have h1 := C17.get_eq_factor (t.convert u) .hour
  have h2 := C17.get_eq_factor t .hour
  have h3 := C17.get_eq_factor t u
  have hu := C17.factor_pos u
  have hh := C17.factor_pos .hour
  simp only [getUnitQuantity] at h1 h2
  rw [h1, h2]; simp only [convert, h3]; field_simp

/-- **Failure / repair of two-state components is unit independent**: same draw, same state,
same step written in another unit ⇒ same next state; in particular a drawn repair time `rep`
(hours) is applied as hours. -/
theorem two_state_unit_invariant (s : Two) (rate : ℚ) (dt : Time) (u : TimeUnit) (x rep : ℚ) :
    s.step rate (dt.convert u) x rep = s.step rate dt x rep := by
  unfold Two.step
  rw [C13.pFail_unit_invariant, hours_unit_invariant]

theorem repair_applied_as_hours (rate : ℚ) (dt : Time) (x rep : ℚ) (rem0 : ℚ) (h : choice x (pFail rate dt) = true) :
    (Two.step ⟨false, rem0⟩ rate dt x rep) = ⟨true, rep⟩ := by
  unfold Two.step; simp [h]

/-- ICT devices likewise -/
theorem device_unit_invariant (s : Dev) (rate : ℚ) (dt : Time) (u : TimeUnit) (x : ℚ) :
    s.update rate (dt.convert u) x = s.update rate dt x := by
  unfold Dev.update
  rw [C13.pFail_unit_invariant, hours_unit_invariant]

theorem controller_unit_invariant (P : CtrlP) (c : Ctrl) (dt : Time) (u : TimeUnit) (u1 u2 u3 u4 : ℚ) :
    ctrlUpdate P c (dt.convert u) u1 u2 u3 u4 = ctrlUpdate P c dt u1 u2 u3 u4 := by
  unfold ctrlUpdate
  rw [C13.pFail_unit_invariant, C13.pFail_unit_invariant, hours_unit_invariant]

/-- **The switching state machine is unit independent**: one increment with the step written in
any unit gives the same switching state. -/
theorem control_step_unit_invariant (C : Control.Cfg) (s : Control.St) (dt : Time) (u : TimeUnit) :
    Control.step C s (dt.convert u).getHours = Control.step C s dt.getHours := by
  rw [hours_unit_invariant]

/-- … and so does any sequence of increments and injected faults (the whole trace). -/
theorem control_run_unit_invariant (C : Control.Cfg) (s : Control.St) (dts : List Time) (u : TimeUnit) :
    (dts.map (fun dt => dt.convert u)).foldl (fun s dt => Control.step C s dt.getHours) s =
      dts.foldl (fun s dt => Control.step C s dt.getHours) s := by
  induction dts generalizing s with
  | nil => rfl
  | cons d ds ih => simp only [List.map_cons, List.foldl_cons]; rw [hours_unit_invariant, ih]

/-- **The energy and outage bookkeeping of a load point is unit independent**: what an increment puts on the shed stack
and what logging adds to the accumulated energy not supplied, outage time and interruptions is the same whatever unit the
step is written in (the code multiplies power by `dt.get_hours()`). -/
theorem accounting_unit_invariant (b : BusAcc) (p q : ℚ) (dt : Time) (u : TimeUnit) :
    b.addToStack p q (dt.convert u).getHours = b.addToStack p q dt.getHours ∧
    b.shedLoad (dt.convert u).getHours = b.shedLoad dt.getHours ∧
    b.log (dt.convert u).getHours = b.log dt.getHours := by
  rw [hours_unit_invariant]; exact ⟨rfl, rfl, rfl⟩

/-- **ASUI / ASAI are unit independent**: they divide the customer-weighted outage hours by the elapsed *hours*, whatever
unit the elapsed time is reported in. -/
theorem availability_unit_invariant (bs : List BusAcc) (t : Time) (u : TimeUnit) :
    Indices.asui? bs (t.convert u).getHours = Indices.asui? bs t.getHours ∧
    Indices.asai? bs (t.convert u).getHours = Indices.asai? bs t.getHours := by
  rw [hours_unit_invariant]; exact ⟨rfl, rfl⟩

/-- Non-vacuity: 30 minutes, 1800 seconds and half an hour put the same energy on the stack. -/
example : (({ pload := 1/20 } : BusAcc).addToStack (1/20) 0 (Time.mk 30 .minute).getHours).pStack = 1/40 ∧
    (({ pload := 1/20 } : BusAcc).addToStack (1/20) 0 (Time.mk 1800 .second).getHours).pStack = 1/40 := by
  constructor <;> decide +kernel

/-- **A battery (and every car of an EV park) exchanges the same power and stores the same energy whatever unit the step
is written in.** -/
theorem battery_unit_invariant (P : BatParams) (s : BatState) (p q : ℚ) (dt : Time) (u : TimeUnit)
    (first : Bool) (x : ℚ) :
    Battery.update P s p q (dt.convert u).getHours first x = Battery.update P s p q dt.getHours first x := by
  rw [hours_unit_invariant]

end Relsad.C18
