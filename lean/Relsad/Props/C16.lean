/-
C16  Automatic sectioning is used only when the controller can reach the device.

Communication part: two ICT nodes can communicate exactly when a path of in-service ICT lines
joins them, symmetrically (node failures do not enter: the implementation walks lines only).
Timing part, on the model of the ICT-based control loops (`Control.checkSensors`, compared state by
state with the real controllers): when a faulted section is located, the sectioning timer grows by
at least the manual sectioning time as soon as one of the section's lines has no sensor the
controller can reach or one of its disconnectors cannot be operated remotely, and by nothing
at all when every device answers (the breaker check of the same pass then recloses at once).
-/
import Relsad.Model.Graph
import Relsad.Lemmas.GraphL
import Relsad.Lemmas.ControlInvL
import Mathlib.Tactic.Linarith
import Relsad.Lemmas.ControlCalmL
import Relsad.Lemmas.ControlDevL

namespace Relsad.C16
open Relsad.Graph Relation

/-- `is_connected(n1, n2)` as the model computes it -/
def ictConnected (V : List Nat) (es : List Edge) (a b : Nat) : Bool := decide (b ∈ reach V es a)

/-- Two ICT nodes are reported as able to communicate exactly when a path of in-service ICT lines joins them. -/
theorem ict_connected_iff_path (V : List Nat) (es : List Edge) (hE : Closed V es) (a b : Nat) (ha : a ∈ V) :
    ictConnected V es a b = true ↔ ReflTransGen (Adj es) a b := by
  unfold ictConnected
  rw [decide_eq_true_iff]
  exact mem_reach_iff V es hE a ha b

/-- … symmetrically. -/
theorem ict_connected_symm (V : List Nat) (es : List Edge) (hE : Closed V es) (a b : Nat) (ha : a ∈ V) (hb : b ∈ V) :
    ictConnected V es a b = ictConnected V es b a := by
  rw [Bool.eq_iff_iff, ict_connected_iff_path V es hE a b ha, ict_connected_iff_path V es hE b a hb]
  exact ⟨rtg_symm, rtg_symm⟩

/-- Taking an ICT line out of service can only break communication, never create it. -/
theorem ict_connected_mono (V : List Nat) (es : List Edge) (e : Edge) (hE : Closed V (e :: es)) (hE' : Closed V es)
    (a b : Nat) (ha : a ∈ V) (h : ictConnected V es a b = true) : ictConnected V (e :: es) a b = true := by
  rw [ict_connected_iff_path V _ hE a b ha]
  rw [ict_connected_iff_path V _ hE' a b ha] at h
  have hmono : ∀ x y, Adj es x y → Adj (e :: es) x y := by
    intro x y hxy
    rcases hxy with h | h
    · exact Or.inl (List.mem_cons_of_mem _ h)
    · exact Or.inr (List.mem_cons_of_mem _ h)
  exact ReflTransGen.mono (fun x y hxy => hmono x y hxy) a b h

/-- A node always reaches itself; with no line in service it reaches nothing else. -/
theorem ict_self (V : List Nat) (es : List Edge) (hE : Closed V es) (a : Nat) (ha : a ∈ V) : ictConnected V es a a = true :=
  (ict_connected_iff_path V es hE a a ha).mpr ReflTransGen.refl

theorem ict_no_lines (V : List Nat) (a b : Nat) (ha : a ∈ V) (hab : a ≠ b) : ictConnected V [] a b = false := by
  rw [Bool.eq_false_iff]
  intro h
  have := (ict_connected_iff_path V [] (fun x y h _ => by rcases h with h | h <;> simp at h) a b ha).mp h
  cases this with
  | refl => exact hab rfl
  | tail _ h2 => rcases h2 with h2 | h2 <;> simp at h2


/-! ### timing -/

open Relsad.Control in
private theorem remFold_timer (T : ℚ) (ls : List Nat) (s : St) :
    (ls.foldl (fun (s : St) l => { s with rem := s.rem.set l (gr s.rem l + T) }) s).timer = s.timer := by
  induction ls generalizing s with
  | nil => rfl
  | cons a as ih => simp only [List.foldl_cons]; exact ih _

open Relsad.Control in
/-- what locating a fault in section `k` does to the sectioning timer of network `n` under ICT-based control -/
theorem flag_timer (C : Cfg) (n : Nat) (cm : Comm) (s : St) (k : Nat) (hn : n < s.timer.length)
    (hf : anyFailed s (C.secs.getD k default).lines = true) :
    gr (flagStepA C n cm s k).timer n =
      gr s.timer n + ((if needSens C cm k then C.T else 0) + (if needSw C cm k then C.T else 0)) := by
  unfold flagStepA
  simp only [hf, if_true]
  rw [remFold_timer]
  show gr (s.timer.set n _) n = _
  unfold gr
  rw [getD_set_self _ _ _ _ hn]
  rfl

open Relsad.Control in
/-- **No automatic isolation without communication**: if the controller cannot reach the sensor of some line of the
faulted section, or cannot operate one of its disconnectors remotely, locating the fault costs at least the manual
sectioning time. -/
theorem unreachable_costs_manual_time (C : Cfg) (n : Nat) (cm : Comm) (s : St) (k : Nat) (hn : n < s.timer.length)
    (hT : 0 ≤ C.T) (hf : anyFailed s (C.secs.getD k default).lines = true)
    (hneed : needSens C cm k = true ∨ needSw C cm k = true) :
    gr s.timer n + C.T ≤ gr (flagStepA C n cm s k).timer n := by
  rw [flag_timer C n cm s k hn hf]
  rcases hneed with h | h
  · rw [h]; simp only [if_true]; split_ifs <;> linarith
  · rw [h]; simp only [if_true]; split_ifs <;> linarith

open Relsad.Control in
/-- **Automatic isolation is immediate when every device answers**: the timer is not touched, so the breaker check of
the same control pass finds it run out. -/
theorem reachable_costs_nothing (C : Cfg) (n : Nat) (cm : Comm) (s : St) (k : Nat) (hn : n < s.timer.length)
    (hf : anyFailed s (C.secs.getD k default).lines = true)
    (h1 : needSens C cm k = false) (h2 : needSw C cm k = false) :
    gr (flagStepA C n cm s k).timer n = gr s.timer n := by
  rw [flag_timer C n cm s k hn hf, h1, h2]; simp

open Relsad.Control in
/-- a section needs manual attention exactly when one of its lines has no reachable sensor -/
theorem needSens_iff (C : Cfg) (cm : Comm) (k : Nat) :
    needSens C cm k = true ↔ ∃ l ∈ (C.secs.getD k default).lines, gb cm.sensor l = false := by
  unfold needSens
  rw [List.any_eq_true]
  constructor
  · rintro ⟨l, hl, h⟩; exact ⟨l, hl, by simpa using h⟩
  · rintro ⟨l, hl, h⟩; exact ⟨l, hl, by simp [h]⟩

open Relsad.Control in
/-- **A software failure of the main controller never shortens a sectioning time that is running**: when its recovery
time `S` is handed to the sub-controllers, every controller whose breaker is open keeps the larger of its own remaining
time and `S`, every other controller keeps its own — so a fault that is being sectioned by hand (unreachable device,
controller under repair when the fault hit) is not restored earlier because the main controller hiccups meanwhile. -/
theorem software_failure_keeps_larger_time (C : Cfg) (s : St) (S : ℚ) (ht : s.timer.length = C.nets.length) (n : Nat) :
    gr (spreadSec C s S).timer n =
      (if n < C.nets.length ∧ gb s.cbOpen (C.nets.getD n default).cb = true then (if gr s.timer n < S then S else gr s.timer n) else gr s.timer n) ∧
    gr s.timer n ≤ gr (spreadSec C s S).timer n :=
  ⟨spreadTimers_get C s.cbOpen S s.timer ht n, spreadSec_timer_ge C s S ht n⟩

open Relsad.Control in
/-- … and it touches nothing else: lines, switches, sections, flags and the microgrids' parent timers are as before. -/
theorem software_failure_touches_timers_only (C : Cfg) (s : St) (S : ℚ) :
    (spreadSec C s S).conn = s.conn ∧ (spreadSec C s S).dOpen = s.dOpen ∧ (spreadSec C s S).cbOpen = s.cbOpen ∧
    (spreadSec C s S).secConn = s.secConn ∧ (spreadSec C s S).failed = s.failed ∧ (spreadSec C s S).failedSecs = s.failedSecs ∧
    (spreadSec C s S).pTimer = s.pTimer ∧ (spreadSec C s S).check = s.check :=
  ⟨rfl, rfl, rfl, rfl, rfl, rfl, rfl, rfl⟩

open Relsad.Control in
/-- Non-vacuity: breaker open with 1 h of manual sectioning left; a software failure cured in 2 s leaves the hour in place,
one that takes 3 h to cure extends it. -/
example :
    let C : Cfg := { lines := [⟨0, some 0, [], 0⟩], disconLine := [], cbLine := [0], secs := [⟨[0], [.breaker 0]⟩],
                     nets := [⟨0, 0, [0], [0], [], none, none⟩], T := 1 }
    let s : St := { St.init C with cbOpen := [true], timer := [1] }
    (spreadSec C s (1/1800)).timer = [1] ∧ (spreadSec C s 3).timer = [3] ∧ (spreadSec C (St.init C) 3).timer = [0] := by
  intro C s
  exact ⟨by decide +kernel, by decide +kernel, by decide +kernel⟩

open Relsad.Control in
/-- **Devices in trouble only add to the healthy behaviour**: when no reachable sensor needs time or is under repair, no
intelligent switch is failed and no sensor has just come back from repair, an increment of the loops that take device
failures into account (`stepD`, compared state by state with the implementation in scenarios where sensors and
intelligent switches fail by themselves) is exactly the increment of `stepA`, about which the invariants are proved. -/
theorem healthy_devices_same_as_automatic (C : Cfg) (s : St) (dt : ℚ) (cd : CommD) (swF : List Bool) (h : Healthy cd swF) :
    stepD C s dt cd swF = stepA C s dt cd.cm := stepD_healthy C s dt cd swF h

open Relsad.Control in
/-- **A device in trouble never hides a fault**: whatever the sensors answer, a section with a failed line is reported
as faulted (a sensor under repair can only add a false alarm). -/
theorem failed_line_always_reported (C : Cfg) (s : St) (cd : CommD) (k : Nat)
    (h : anyFailed s (C.secs.getD k default).lines = true) : reportedFail C s cd k = true := by
  unfold anyFailed at h
  unfold reportedFail
  rw [List.any_eq_true] at h ⊢
  obtain ⟨l, hl, hf⟩ := h
  exact ⟨l, hl, by rw [hf]; rfl⟩

open Relsad.Control in
/-- A failed intelligent switch costs the manual sectioning time exactly once: the first poll sends it to repair. -/
theorem failed_switch_polled_once (C : Cfg) (cd : CommD) (swF : List Bool) (d : Nat) (hr : gb cd.cm.iswitch d = true)
    (hf : gb swF d = true) (hd : d < swF.length) :
    swPoll C cd ((0 : ℚ), swF) (.discon d) = (C.T, swF.set d false) ∧
    swPoll C cd (swPoll C cd ((0 : ℚ), swF) (.discon d)) (.discon d) = (C.T, swF.set d false) := by
  have h1 : swPoll C cd ((0 : ℚ), swF) (.discon d) = (C.T, swF.set d false) := by
    simp only [swPoll, hr, hf, Bool.and_self, if_true, zero_add]
  refine ⟨h1, ?_⟩
  rw [h1]
  have : gb (swF.set d false) d = false := gb_set_self _ _ _ hd
  simp only [swPoll, this, Bool.and_false, Bool.false_eq_true, if_false]

open Relsad.Control in
/-- the breaker check of the manual loops does nothing while the sectioning time runs -/
theorem manual_check_waits (C : Cfg) (s : St) (n : Nat) (ht : 0 < gr s.timer n) : checkBreakerManually C s n = s := by
  unfold checkBreakerManually
  have h : ¬ gr s.timer n ≤ 0 := not_le.mpr ht
  simp only [h, if_false]
  split_ifs <;> rfl

open Relsad.Control in
/-- **With the main controller out of service every network is on its manual loop, and a manual loop never recloses a
breaker before the sectioning time has run out**: a pass of a distribution controller that starts with more than one step
of sectioning time left and nothing to inspect only counts the time down — breakers, switches, lines and sections are as
before.  (The scenarios of the check in which the main controller is under repair are compared with exactly these
loops, `ctl step`.) -/
theorem manual_loop_waits_for_sectioning_time (C : Cfg) (s : St) (n : Nat) (dt : ℚ) (hn : n < s.timer.length)
    (ht : dt < gr s.timer n) (hdt : 0 ≤ dt) (hc : gb s.check n = false) :
    distLoop C s n dt = { s with timer := s.timer.set n (gr s.timer n - dt) } := by
  have hpos : gr s.timer n > 0 := lt_of_le_of_lt hdt ht
  have htick : tick (gr s.timer n) dt = gr s.timer n - dt := by unfold tick; simp only [hpos, if_true]
  have hg : gr (s.timer.set n (gr s.timer n - dt)) n = gr s.timer n - dt := gr_set_self _ _ _ hn
  have hgt : 0 < gr s.timer n - dt := by linarith
  unfold distLoop
  simp only [htick, hg]
  have h1 : ¬ gr s.timer n - dt ≤ 0 := not_le.mpr hgt
  simp only [h1, decide_false, Bool.and_false, Bool.false_eq_true, if_false, hc]
  exact manual_check_waits C _ n (by simpa [hg] using hgt)

open Relsad.Control in
/-- … and the same for a microgrid controller (whose own time is raised to its parent's when that is larger). -/
theorem manual_mg_loop_waits_for_sectioning_time (C : Cfg) (s : St) (n : Nat) (dt : ℚ) (hn : n < s.timer.length)
    (ht : dt < gr s.timer n) (hdt : 0 ≤ dt) (hc : gb s.check n = false) :
    (mgLoop C s n dt).cbOpen = s.cbOpen ∧ (mgLoop C s n dt).conn = s.conn ∧ (mgLoop C s n dt).dOpen = s.dOpen ∧
    gr s.timer n - dt ≤ gr (mgLoop C s n dt).timer n := by
  have hpos : gr s.timer n > 0 := lt_of_le_of_lt hdt ht
  have htick : tick (gr s.timer n) dt = gr s.timer n - dt := by unfold tick; simp only [hpos, if_true]
  have hgt : 0 < gr s.timer n - dt := by linarith
  unfold mgLoop
  simp only [htick]
  set t2 := (if gr s.pTimer n > gr s.timer n - dt then gr s.pTimer n else gr s.timer n - dt) with ht2
  have ht2pos : 0 < t2 ∧ gr s.timer n - dt ≤ t2 := by
    rw [ht2]; split_ifs with h
    · exact ⟨lt_trans hgt h, le_of_lt h⟩
    · exact ⟨hgt, le_refl _⟩
  have hg : gr (s.timer.set n t2) n = t2 := gr_set_self _ _ _ hn
  simp only [hg]
  have h1 : ¬ t2 ≤ 0 := not_le.mpr ht2pos.1
  simp only [h1, decide_false, Bool.and_false, Bool.false_eq_true, if_false, hc]
  rw [manual_check_waits C _ n (by simpa [hg] using ht2pos.1)]
  exact ⟨rfl, rfl, rfl, by simpa [hg] using ht2pos.2⟩

open Relsad.Control in
private theorem flagStepA_timer_ge (C : Cfg) (hT : 0 ≤ C.T) (n : Nat) (cm : Comm) (s : St) (k : Nat) :
    (flagStepA C n cm s k).timer.length = s.timer.length ∧ gr s.timer n ≤ gr (flagStepA C n cm s k).timer n := by
  unfold flagStepA
  by_cases hf : anyFailed s (C.secs.getD k default).lines = true
  · simp only [hf, if_true]
    rw [remFold_timer]
    have ht : 0 ≤ (if needSens C cm k then C.T else 0) + disconnectTime C cm k := by
      unfold disconnectTime; split_ifs <;> linarith
    refine ⟨by simp, ?_⟩
    by_cases hn : n < s.timer.length
    · show gr s.timer n ≤ gr (s.timer.set n _) n
      rw [gr_set_self _ _ _ hn]; linarith
    · show gr s.timer n ≤ gr (s.timer.set n _) n
      have : s.timer.set n (gr s.timer n + ((if needSens C cm k then C.T else 0) + disconnectTime C cm k)) = s.timer :=
        List.set_eq_of_length_le (not_lt.mp hn)
      rw [this]
  · simp only [hf]; exact ⟨rfl, le_refl _⟩

open Relsad.Control in
/-- **A poll never shortens a sectioning time that is running**: whatever makes a controller poll its sensors (its
breaker open with the time run out, or a repair that has just been completed somewhere in its network while a manual
sectioning time is still counting down), the poll can only add to the controller's remaining sectioning time -
sections that are already flagged add nothing, and nothing is taken away.  So load points wait at least for the time
that was started when the fault was located by hand. -/
theorem poll_never_shortens_sectioning_time (C : Cfg) (hT : 0 ≤ C.T) (s : St) (n : Nat) (cm : Comm) :
    gr s.timer n ≤ gr (checkSensors C s n cm).timer n := by
  rw [checkSensors_eq]
  have reco : ∀ (ks : List Nat) (x : St), (ks.foldl (recoStep C n) x).timer = x.timer := by
    intro ks
    induction ks with
    | nil => intro x; rfl
    | cons a as ih => intro x; simp only [List.foldl_cons]; rw [ih, (tm_recoStep C n x a).1]
  rw [reco]
  have flag : ∀ (ks : List Nat) (x : St), gr x.timer n ≤ gr (ks.foldl (flagStepA C n cm) x).timer n := by
    intro ks
    induction ks with
    | nil => intro x; exact le_refl _
    | cons a as ih =>
      intro x
      simp only [List.foldl_cons]
      exact le_trans (flagStepA_timer_ge C hT n cm x a).2 (ih _)
  exact flag _ s

end Relsad.C16
