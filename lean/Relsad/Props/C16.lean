/-
C16  Automatic sectioning is used only when the controller can reach the device.

Communication part: two ICT nodes can communicate exactly when a path of in-service ICT lines
joins them, symmetrically (node failures do not enter: the implementation walks lines only).
The timing part (automatic isolation within one step / manual sectioning time otherwise) is
stated on the switching model in `Relsad/Props/C05.lean` and decided on the real code by the check.
-/
import Relsad.Model.Graph
import Relsad.Lemmas.GraphL

namespace Relsad.C16
open Relsad.Graph Relation

/-- `is_connected(n1, n2)` as the model computes it -/
def ictConnected (V : List Nat) (es : List Edge) (a b : Nat) : Bool := decide (b ∈ reach V es a)

/-- Two ICT nodes are reported as able to communicate exactly when a path of in-service ICT lines joins them. -/
theorem ict_connected_iff_path (V : List Nat) (es : List Edge) (hE : Closed V es) (a b : Nat) (ha : a ∈ V) :
    ictConnected V es a b = true ↔ ReflTransGen (Adj es) a b := by
  unfold ictConnected
  rw [decide_eq_true_iff]
  exact mem_reach_iff V es hE a ha b

/-- … symmetrically. -/
theorem ict_connected_symm (V : List Nat) (es : List Edge) (hE : Closed V es) (a b : Nat) (ha : a ∈ V) (hb : b ∈ V) :
    ictConnected V es a b = ictConnected V es b a := by
  rw [Bool.eq_iff_iff, ict_connected_iff_path V es hE a b ha, ict_connected_iff_path V es hE b a hb]
  exact ⟨rtg_symm, rtg_symm⟩

/-- Taking an ICT line out of service can only break communication, never create it. -/
theorem ict_connected_mono (V : List Nat) (es : List Edge) (e : Edge) (hE : Closed V (e :: es)) (hE' : Closed V es)
    (a b : Nat) (ha : a ∈ V) (h : ictConnected V es a b = true) : ictConnected V (e :: es) a b = true := by
  rw [ict_connected_iff_path V _ hE a b ha]
  rw [ict_connected_iff_path V _ hE' a b ha] at h
  have hmono : ∀ x y, Adj es x y → Adj (e :: es) x y := by
    intro x y hxy
    rcases hxy with h | h
    · exact Or.inl (List.mem_cons_of_mem _ h)
    · exact Or.inr (List.mem_cons_of_mem _ h)
  exact ReflTransGen.mono (fun x y hxy => hmono x y hxy) a b h

/-- A node always reaches itself; with no line in service it reaches nothing else. -/
theorem ict_self (V : List Nat) (es : List Edge) (hE : Closed V es) (a : Nat) (ha : a ∈ V) : ictConnected V es a a = true :=
  (ict_connected_iff_path V es hE a a ha).mpr ReflTransGen.refl

theorem ict_no_lines (V : List Nat) (a b : Nat) (ha : a ∈ V) (hab : a ≠ b) : ictConnected V [] a b = false := by
  rw [Bool.eq_false_iff]
  intro h
  have := (ict_connected_iff_path V [] (fun x y h _ => by rcases h with h | h <;> simp at h) a b ha).mp h
  cases this with
  | refl => exact hab rfl
  | tail _ h2 => rcases h2 with h2 | h2 <;> simp at h2

end Relsad.C16
