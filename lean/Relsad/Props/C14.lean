/-
C14  Microgrids island and reconnect according to their operating mode.

Step theorems (trip with the distribution network, survival hold, support modes reconnect when the
timer has run out, microgrid faults stay local, the microgrid timer tracks its parent) and, over whole
histories: at every reachable state a SURVIVAL microgrid that is separated stays separated through any
increment at whose end its distribution network still has a failed line (`survival_history`,
`survival_history_auto`), using the invariant that every network with a failed line is flagged
(`reach_flagged`).
-/
import Relsad.Model.Control
import Relsad.Lemmas.ControlL
import Relsad.Props.C05
import Relsad.Lemmas.ControlNfL
import Relsad.Lemmas.ControlCalmL
import Relsad.Lemmas.ControlLiveL

namespace Relsad.C14
open Relsad.Control

/-- **A microgrid separates from its distribution network in the operation in which a fault
trips that network.** -/
theorem mg_trips_with_distribution (C : Cfg) (s : St) (l : Nat) (rep : ℚ) (hconn : gb s.conn l = true)
    (hcb : (C.nets.getD (C.lines.getD l default).net default).cb < s.cbOpen.length)
    (hch : ∀ m ∈ (C.nets.getD (C.lines.getD l default).net default).children, (C.nets.getD m default).cb < s.cbOpen.length)
    (m : Nat) (hm : m ∈ (C.nets.getD (C.lines.getD l default).net default).children) :
    gb (lineFail C s l rep).cbOpen (C.nets.getD m default).cb = true :=
  (C05.fail_trips_breaker C s l rep hconn hcb hch).2 m hm

/-- **In survival mode the microgrid stays separated for as long as the distribution network has
a failed line**: the breaker check does nothing at all. -/
theorem survival_stays_islanded (C : Cfg) (s : St) (n : Nat) (h : survivalHold C s n = true) :
    checkBreakerManually C s n = s := by
  unfold checkBreakerManually
  simp only [h, if_true]
  split_ifs <;> rfl

/-- **A fault inside a microgrid operates the microgrid's own breaker only**: every other breaker
(in particular the distribution network's) keeps its position. -/
theorem mg_fault_does_not_trip_distribution (C : Cfg) (s : St) (l : Nat) (rep : ℚ)
    (hleaf : (C.nets.getD (C.lines.getD l default).net default).children = []) (c : Nat)
    (hc : c ≠ (C.nets.getD (C.lines.getD l default).net default).cb) :
    gb (lineFail C s l rep).cbOpen c = gb s.cbOpen c := by
  unfold lineFail
  simp only [hleaf, List.foldl_nil]
  split_ifs
  · rw [cbOpenOp_frame]
    show gb (s.cbOpen.set _ true) c = gb s.cbOpen c
    rw [gb_set, if_neg]
    intro h; exact hc h.1.symm
  · rfl

private theorem cbOpen_length_swOpen (C : Cfg) (s : St) (sw : Sw) : (swOpen C s sw).cbOpen.length = s.cbOpen.length := by
  cases sw with
  | discon d => rfl
  | breaker c => exact cbOpen_length_cbOpenOp C s c

private theorem cbOpen_length_secDisconnect (C : Cfg) (s : St) (k : Nat) : (secDisconnect C s k).cbOpen.length = s.cbOpen.length := by
  unfold secDisconnect
  simp only
  rw [cbOpen_length_foldl _ (fun s' sw => cbOpen_length_swOpen C s' sw), cbOpen_length_foldl lineDisconnect (fun s' l => rfl)]

/-- **In full- and limited-support mode the microgrid reconnects as soon as the sectioning time
has elapsed and its own connection is healthy**: with the timer run out, no survival hold, the
connecting line healthy and in no failed section, the breaker check closes the breaker. -/
theorem support_reconnects (C : Cfg) (s : St) (n : Nat)
    (hopen : gb s.cbOpen (C.nets.getD n default).cb = true)
    (hcb : (C.nets.getD n default).cb < s.cbOpen.length)
    (hhold : survivalHold C s n = false) (ht : gr s.timer n ≤ 0)
    (hline : gb ((s.failedSecs.getD n []).foldl (secDisconnect C) s).failed (C.nets.getD n default).connLine = false)
    (hsec : ((s.failedSecs.getD n []).any (fun k => (C.secs.getD k default).lines.contains (C.nets.getD n default).connLine)) = false) :
    gb (checkBreakerManually C s n).cbOpen (C.nets.getD n default).cb = false := by
  unfold checkBreakerManually
  simp only [hopen, Bool.not_true, Bool.false_eq_true, if_false, hhold, ht, if_true, hline, hsec, Bool.not_false, Bool.and_self]
  show gb (secConnectManually C (cbCloseOp C _ _) _).cbOpen _ = false
  rw [secConnectManually_cbOpen, cbCloseOp_frame, gb_set, if_pos]
  refine ⟨rfl, ?_⟩
  rw [cbOpen_length_foldl _ (fun s' k => cbOpen_length_secDisconnect C s' k)]
  exact hcb

/-- While the parent's timer handed to the microgrid is positive, the microgrid's own timer is at
least that large after its control pass (it cannot reconnect before the distribution network's
sectioning time has elapsed). -/
theorem mg_timer_tracks_parent (s : St) (n : Nat) (dt : ℚ) :
    let t1 := tick (gr s.timer n) dt
    let t2 := if gr s.pTimer n > t1 then gr s.pTimer n else t1
    gr s.pTimer n ≤ t2 := by
  intro t1 t2
  show gr s.pTimer n ≤ (if gr s.pTimer n > t1 then gr s.pTimer n else t1)
  split_ifs with h
  · exact le_refl _
  · exact not_lt.mp h


/-! ### survival mode over whole histories -/

/-- what is carried through an increment: the distribution network `p` is flagged as having a failed line, and the
breaker of the SURVIVAL microgrid `m` is open -/
private def Keep (C : Cfg) (m p : Nat) (x : St) : Prop :=
  gb x.netFailed p = true ∧ gb x.cbOpen (netOf C m).cb = true

private theorem keep_distLoop (C : Cfg) (w : WF C) (m p n : Nat) (hm : m < C.nets.length) (hn : n < C.nets.length) (hnm : n ≠ m)
    (x : St) (dt : ℚ) (h : Keep C m p x) : Keep C m p (distLoop C x n dt) := by
  refine ⟨by rw [(nf_distLoop C x n dt).1]; exact h.1, ?_⟩
  have hc : (netOf C m).cb ≠ (C.nets.getD n default).cb := fun e => hnm (w.cb_inj m n hm hn e.symm)
  unfold distLoop
  simp only []
  exact loopCore_other_open C n { x with timer := x.timer.set n (tick (gr x.timer n) dt) } (fun y => checkLinesManually C y n)
    (fun a => (C.nets.getD n default).children.foldl (fun (s : St) k =>
        if gb s.cbOpen (C.nets.getD k default).cb then { s with pTimer := s.pTimer.set k (gr s.timer n) } else s) a)
    (fun a => checkLinesManually_cbOpen C a n) (fun a => (childFold_fields C n _ a).2.2.1) _ hc h.2

private theorem keep_distLoopA (C : Cfg) (w : WF C) (m p n : Nat) (hm : m < C.nets.length) (hn : n < C.nets.length) (hnm : n ≠ m)
    (x : St) (dt : ℚ) (cm : Comm) (h : Keep C m p x) : Keep C m p (distLoopA C x n dt cm) := by
  refine ⟨by rw [(nf_distLoopA C x n dt cm).1]; exact h.1, ?_⟩
  have hc : (netOf C m).cb ≠ (C.nets.getD n default).cb := fun e => hnm (w.cb_inj m n hm hn e.symm)
  unfold distLoopA
  simp only []
  exact loopCore_other_open C n { x with timer := x.timer.set n (tick (gr x.timer n) dt) } (fun y => checkSensors C y n cm)
    (fun a => (C.nets.getD n default).children.foldl (fun (s : St) k =>
        if gb s.cbOpen (C.nets.getD k default).cb then { s with pTimer := s.pTimer.set k (gr s.timer n) } else s) a)
    (fun a => checkSensors_cbOpen C a n cm) (fun a => (childFold_fields C n _ a).2.2.1) _ hc h.2

private theorem keep_mgLoop (C : Cfg) (w : WF C) (m p n : Nat) (hm : m < C.nets.length) (hn : n < C.nets.length)
    (hmode : (netOf C m).mode = some .survival) (hpar : (netOf C m).parent = some p)
    (x : St) (dt : ℚ) (h : Keep C m p x) : Keep C m p (mgLoop C x n dt) := by
  refine ⟨by rw [(nf_mgLoop C x n dt).1]; exact h.1, ?_⟩
  unfold mgLoop
  simp only []
  by_cases hnm : n = m
  · subst hnm
    exact loopCore_hold C n
      ({ x with timer := x.timer.set n (if gr x.pTimer n > tick (gr x.timer n) dt then gr x.pTimer n else tick (gr x.timer n) dt),
                pTimer := x.pTimer.set n (tick (gr x.pTimer n) dt) } : St)
      (fun y => checkLinesManually C y n) (fun a => a)
      (fun a => ⟨checkLinesManually_cbOpen C a n, (nf_checkLinesManually C a n).1⟩) (fun _ => ⟨rfl, rfl⟩) p hmode hpar h.1 h.2
  · have hc : (netOf C m).cb ≠ (C.nets.getD n default).cb := fun e => hnm (w.cb_inj m n hm hn e.symm)
    exact loopCore_other_open C n
      ({ x with timer := x.timer.set n (if gr x.pTimer n > tick (gr x.timer n) dt then gr x.pTimer n else tick (gr x.timer n) dt),
                pTimer := x.pTimer.set n (tick (gr x.pTimer n) dt) } : St)
      (fun y => checkLinesManually C y n) (fun a => a) (fun a => checkLinesManually_cbOpen C a n) (fun _ => rfl) _ hc h.2

private theorem keep_mgLoopA (C : Cfg) (w : WF C) (m p n : Nat) (hm : m < C.nets.length) (hn : n < C.nets.length)
    (hmode : (netOf C m).mode = some .survival) (hpar : (netOf C m).parent = some p)
    (x : St) (dt : ℚ) (cm : Comm) (h : Keep C m p x) : Keep C m p (mgLoopA C x n dt cm) := by
  refine ⟨by rw [(nf_mgLoopA C x n dt cm).1]; exact h.1, ?_⟩
  unfold mgLoopA
  simp only []
  by_cases hnm : n = m
  · subst hnm
    exact loopCore_hold C n
      ({ x with timer := x.timer.set n (if gr x.pTimer n > tick (gr x.timer n) dt then gr x.pTimer n else tick (gr x.timer n) dt),
                pTimer := x.pTimer.set n (tick (gr x.pTimer n) dt) } : St)
      (fun y => checkSensors C y n cm) (fun a => a)
      (fun a => ⟨checkSensors_cbOpen C a n cm, (nf_checkSensors C a n cm).1⟩) (fun _ => ⟨rfl, rfl⟩) p hmode hpar h.1 h.2
  · have hc : (netOf C m).cb ≠ (C.nets.getD n default).cb := fun e => hnm (w.cb_inj m n hm hn e.symm)
    exact loopCore_other_open C n
      ({ x with timer := x.timer.set n (if gr x.pTimer n > tick (gr x.timer n) dt then gr x.pTimer n else tick (gr x.timer n) dt),
                pTimer := x.pTimer.set n (tick (gr x.pTimer n) dt) } : St)
      (fun y => checkSensors C y n cm) (fun a => a) (fun a => checkSensors_cbOpen C a n cm) (fun _ => rfl) _ hc h.2

private theorem keep_foldl {C : Cfg} {m p : Nat} (f : St → Nat → St) (l : List Nat) (P : Nat → Prop) (hP : ∀ a ∈ l, P a)
    (hf : ∀ x a, P a → Keep C m p x → Keep C m p (f x a)) (x : St) (h : Keep C m p x) : Keep C m p (l.foldl f x) := by
  induction l generalizing x with
  | nil => exact h
  | cons a as ih =>
    simp only [List.foldl_cons]
    exact ih (fun y hy => hP y (List.mem_cons_of_mem _ hy)) _ (hf x a (hP a List.mem_cons_self) h)

/-- every reachable state flags the networks that have a failed line -/
theorem reach_flagged (C : Cfg) (w : WF C) : ∀ s, C05.ReachA C s → Flagged C s ∧ s.netFailed.length = C.nets.length := by
  intro s hs
  induction hs with
  | init => exact ⟨Flagged.init C, by simp [St.init]⟩
  | fail s l rep _ hl _ ih =>
    refine ⟨ih.1.afterFail w ih.2 l hl rep, ?_⟩
    unfold lineFail
    simp only
    split_ifs
    · rw [(nf_foldl_eq (fun s m => cbOpenOp C s (C.nets.getD m default).cb) (fun s' m => nf_cbOpenOp C s' _) _ _).1,
        (nf_cbOpenOp C _ _).1]
      simp [ih.2]
    · simp [ih.2]
  | step s dt _ _ ih =>
    unfold step
    simp only []
    have h1 : Flagged C ((List.range C.lines.length).foldl (fun s l => lineUpdate C s l dt) s) ∧
        ((List.range C.lines.length).foldl (fun s l => lineUpdate C s l dt) s).netFailed.length = C.nets.length := by
      have key : ∀ (ls : List Nat), (∀ l ∈ ls, l < C.lines.length) → ∀ x : St, Flagged C x → x.netFailed.length = C.nets.length →
          Flagged C (ls.foldl (fun s l => lineUpdate C s l dt) x) ∧ (ls.foldl (fun s l => lineUpdate C s l dt) x).netFailed.length = C.nets.length := by
        intro ls
        induction ls with
        | nil => intro _ x hx hl; exact ⟨hx, hl⟩
        | cons a as ih' =>
          intro hin x hx hl
          simp only [List.foldl_cons]
          refine ih' (fun l hl' => hin l (List.mem_cons_of_mem _ hl')) _ (hx.afterUpdate w a (hin a List.mem_cons_self) dt) ?_
          have nfl : ∀ y : St, (lineNotFail C y a).netFailed.length = y.netFailed.length := by
            intro y; unfold lineNotFail; simp only; split_ifs <;> simp
          unfold lineUpdate
          simp only []
          split_ifs
          · show (lineNotFail C _ a).netFailed.length = _
            rw [nfl]; exact hl
          · exact hl
          · rw [nfl]; exact hl
      exact key _ (fun l hl => List.mem_range.mp hl) s ih.1 ih.2
    have h2 := nf_foldl_eq (fun s n => distLoop C s n dt) (fun s' n => nf_distLoop C s' n dt)
      ((List.range C.nets.length).filter (fun n => !isMg C n)) ((List.range C.lines.length).foldl (fun s l => lineUpdate C s l dt) s)
    have h3 := nf_foldl_eq (fun s n => mgLoop C s n dt) (fun s' n => nf_mgLoop C s' n dt)
      ((List.range C.nets.length).filter (fun n => isMg C n))
      (((List.range C.nets.length).filter (fun n => !isMg C n)).foldl (fun s n => distLoop C s n dt) ((List.range C.lines.length).foldl (fun s l => lineUpdate C s l dt) s))
    exact ⟨h1.1.congr (h3.2.trans h2.2) (h3.1.trans h2.1), by rw [h3.1, h2.1]; exact h1.2⟩
  | stepA s dt cm _ _ ih =>
    unfold stepA
    simp only []
    have h1 : Flagged C ((List.range C.lines.length).foldl (fun s l => lineUpdate C s l dt) s) ∧
        ((List.range C.lines.length).foldl (fun s l => lineUpdate C s l dt) s).netFailed.length = C.nets.length := by
      have key : ∀ (ls : List Nat), (∀ l ∈ ls, l < C.lines.length) → ∀ x : St, Flagged C x → x.netFailed.length = C.nets.length →
          Flagged C (ls.foldl (fun s l => lineUpdate C s l dt) x) ∧ (ls.foldl (fun s l => lineUpdate C s l dt) x).netFailed.length = C.nets.length := by
        intro ls
        induction ls with
        | nil => intro _ x hx hl; exact ⟨hx, hl⟩
        | cons a as ih' =>
          intro hin x hx hl
          simp only [List.foldl_cons]
          refine ih' (fun l hl' => hin l (List.mem_cons_of_mem _ hl')) _ (hx.afterUpdate w a (hin a List.mem_cons_self) dt) ?_
          have nfl : ∀ y : St, (lineNotFail C y a).netFailed.length = y.netFailed.length := by
            intro y; unfold lineNotFail; simp only; split_ifs <;> simp
          unfold lineUpdate
          simp only []
          split_ifs
          · show (lineNotFail C _ a).netFailed.length = _
            rw [nfl]; exact hl
          · exact hl
          · rw [nfl]; exact hl
      exact key _ (fun l hl => List.mem_range.mp hl) s ih.1 ih.2
    have h2 := nf_foldl_eq (fun s n => distLoopA C s n dt cm) (fun s' n => nf_distLoopA C s' n dt cm)
      ((List.range C.nets.length).filter (fun n => !isMg C n)) ((List.range C.lines.length).foldl (fun s l => lineUpdate C s l dt) s)
    have h3 := nf_foldl_eq (fun s n => mgLoopA C s n dt cm) (fun s' n => nf_mgLoopA C s' n dt cm)
      ((List.range C.nets.length).filter (fun n => isMg C n))
      (((List.range C.nets.length).filter (fun n => !isMg C n)).foldl (fun s n => distLoopA C s n dt cm) ((List.range C.lines.length).foldl (fun s l => lineUpdate C s l dt) s))
    exact ⟨h1.1.congr (h3.2.trans h2.2) (h3.1.trans h2.1), by rw [h3.1, h2.1]; exact h1.2⟩
  | spread s S _ ih => exact ⟨ih.1.congr rfl rfl, ih.2⟩


private theorem lineUpdates_flagged (C : Cfg) (w : WF C) (dt : ℚ) (ls : List Nat) (hin : ∀ l ∈ ls, l < C.lines.length) (x : St)
    (hx : Flagged C x) : Flagged C (ls.foldl (fun s l => lineUpdate C s l dt) x) := by
  induction ls generalizing x with
  | nil => exact hx
  | cons a as ih =>
    simp only [List.foldl_cons]
    exact ih (fun l hl' => hin l (List.mem_cons_of_mem _ hl')) _ (hx.afterUpdate w a (hin a List.mem_cons_self) dt)

private theorem lineUpdates_cbOpen (C : Cfg) (dt : ℚ) (ls : List Nat) (x : St) :
    (ls.foldl (fun s l => lineUpdate C s l dt) x).cbOpen = x.cbOpen := by
  induction ls generalizing x with
  | nil => rfl
  | cons a as ih => simp only [List.foldl_cons]; rw [ih, (lineUpdate_sw C x a dt).2.1]

/-- **Survival mode, over whole histories** (manual increments): at every reachable state, a SURVIVAL microgrid whose
breaker is open is still separated after the next increment whenever its distribution network still has a failed line
at the end of that increment — whatever else happens in the increment (repairs of other lines, timers running out,
other controllers reclosing). -/
theorem survival_history (C : Cfg) (hC : wfB C = true) (s : St) (hs : C05.ReachA C s) (m p : Nat)
    (hm : m < C.nets.length) (hp : p < C.nets.length)
    (hmode : (netOf C m).mode = some .survival) (hpar : (netOf C m).parent = some p)
    (hopen : gb s.cbOpen (netOf C m).cb = true) (dt : ℚ)
    (hfail : ∃ l ∈ (netOf C p).lines, gb (step C s dt).failed l = true) :
    gb (step C s dt).cbOpen (netOf C m).cb = true := by
  have w := WF.of_wfB C hC
  obtain ⟨l, hl, hfl⟩ := hfail
  have hmg : isMg C m = true := by unfold isMg; rw [show C.nets.getD m default = netOf C m from rfl, hmode]; rfl
  unfold step at hfl ⊢
  simp only [] at hfl ⊢
  set s1 := (List.range C.lines.length).foldl (fun s l => lineUpdate C s l dt) s with hs1
  have h2 := nf_foldl_eq (fun s n => distLoop C s n dt) (fun s' n => nf_distLoop C s' n dt)
    ((List.range C.nets.length).filter (fun n => !isMg C n)) s1
  have h3 := nf_foldl_eq (fun s n => mgLoop C s n dt) (fun s' n => nf_mgLoop C s' n dt)
    ((List.range C.nets.length).filter (fun n => isMg C n))
    (((List.range C.nets.length).filter (fun n => !isMg C n)).foldl (fun s n => distLoop C s n dt) s1)
  rw [h3.2, h2.2] at hfl
  have hfl1 : Flagged C s1 := lineUpdates_flagged C w dt _ (fun l hl => List.mem_range.mp hl) s (reach_flagged C w s hs).1
  have k1 : Keep C m p s1 := ⟨hfl1 p hp l hl hfl, by rw [hs1, lineUpdates_cbOpen]; exact hopen⟩
  have k2 : Keep C m p (((List.range C.nets.length).filter (fun n => !isMg C n)).foldl (fun s n => distLoop C s n dt) s1) := by
    refine keep_foldl _ _ (fun n => n < C.nets.length ∧ n ≠ m) ?_ (fun x n hn hk => keep_distLoop C w m p n hm hn.1 hn.2 x dt hk) s1 k1
    intro n hn
    have := List.mem_filter.mp hn
    refine ⟨List.mem_range.mp this.1, ?_⟩
    intro e; rw [e, hmg] at this; simp at this
  exact (keep_foldl _ _ (fun n => n < C.nets.length) (fun n hn => List.mem_range.mp (List.mem_filter.mp hn).1)
    (fun x n hn hk => keep_mgLoop C w m p n hm hn hmode hpar x dt hk) _ k2).2

/-- … and under ICT-based control, whatever the controllers can reach. -/
theorem survival_history_auto (C : Cfg) (hC : wfB C = true) (s : St) (hs : C05.ReachA C s) (m p : Nat)
    (hm : m < C.nets.length) (hp : p < C.nets.length)
    (hmode : (netOf C m).mode = some .survival) (hpar : (netOf C m).parent = some p)
    (hopen : gb s.cbOpen (netOf C m).cb = true) (dt : ℚ) (cm : Comm)
    (hfail : ∃ l ∈ (netOf C p).lines, gb (stepA C s dt cm).failed l = true) :
    gb (stepA C s dt cm).cbOpen (netOf C m).cb = true := by
  have w := WF.of_wfB C hC
  obtain ⟨l, hl, hfl⟩ := hfail
  have hmg : isMg C m = true := by unfold isMg; rw [show C.nets.getD m default = netOf C m from rfl, hmode]; rfl
  unfold stepA at hfl ⊢
  simp only [] at hfl ⊢
  set s1 := (List.range C.lines.length).foldl (fun s l => lineUpdate C s l dt) s with hs1
  have h2 := nf_foldl_eq (fun s n => distLoopA C s n dt cm) (fun s' n => nf_distLoopA C s' n dt cm)
    ((List.range C.nets.length).filter (fun n => !isMg C n)) s1
  have h3 := nf_foldl_eq (fun s n => mgLoopA C s n dt cm) (fun s' n => nf_mgLoopA C s' n dt cm)
    ((List.range C.nets.length).filter (fun n => isMg C n))
    (((List.range C.nets.length).filter (fun n => !isMg C n)).foldl (fun s n => distLoopA C s n dt cm) s1)
  rw [h3.2, h2.2] at hfl
  have hfl1 : Flagged C s1 := lineUpdates_flagged C w dt _ (fun l hl => List.mem_range.mp hl) s (reach_flagged C w s hs).1
  have k1 : Keep C m p s1 := ⟨hfl1 p hp l hl hfl, by rw [hs1, lineUpdates_cbOpen]; exact hopen⟩
  have k2 : Keep C m p (((List.range C.nets.length).filter (fun n => !isMg C n)).foldl (fun s n => distLoopA C s n dt cm) s1) := by
    refine keep_foldl _ _ (fun n => n < C.nets.length ∧ n ≠ m) ?_ (fun x n hn hk => keep_distLoopA C w m p n hm hn.1 hn.2 x dt cm hk) s1 k1
    intro n hn
    have := List.mem_filter.mp hn
    refine ⟨List.mem_range.mp this.1, ?_⟩
    intro e; rw [e, hmg] at this; simp at this
  exact (keep_foldl _ _ (fun n => n < C.nets.length) (fun n hn => List.mem_range.mp (List.mem_filter.mp hn).1)
    (fun x n hn hk => keep_mgLoopA C w m p n hm hn hmode hpar x dt cm hk) _ k2).2

open Relsad.Control in
/-- **The flag "this network has a failed line" is up only while one of its lines is failed — also over histories in which
sensors and intelligent switches fail by themselves** (increments `stepD`: sensors that need time, false alarms of sensors
under repair, failed switches): the quantity that keeps a SURVIVAL microgrid separated is never stale, so once the last
failed line of the hosting network is repaired the hold ends. -/
theorem failed_line_flag_never_stale_devices (C : Cfg) (hC : wfB C = true) (hC2 : wfB2 C = true) (s : St) (hs : C05.ReachD C s)
    (n : Nat) (hn : n < C.nets.length) (hflag : gb s.netFailed n = true) :
    ∃ l ∈ (netOf C n).lines, gb s.failed l = true := by
  have w := WF.of_wfB C hC
  have w2 := WF2.of_wfB2 C hC2
  have nf : NF C s := by
    clear hflag
    induction hs with
    | init => exact NF.init C
    | fail s l rep _ hl _ ih => exact ih.afterFail w l hl rep
    | step s dt _ _ ih => exact ih.step w w2 dt
    | stepA s dt cm _ _ ih => exact ih.stepA w w2 dt cm
    | spread s S _ ih => exact ih.spread S
    | stepD s dt cd swF _ _ ih => exact ih.afterStepD w w2 dt cd swF
  exact nf.why n hn hflag

open Relsad.Control in
private theorem getD_set_nil (l : List (List Nat)) (n : Nat) (h : l.getD n [] = []) : (l.set n []).getD n [] = [] := by
  by_cases hn : n < l.length
  · simp [List.getD_eq_getElem?_getD, hn]
  · rw [List.set_eq_of_length_le (not_lt.mp hn)]; exact h

open Relsad.Control in
private theorem anyFailed_congr (s r : St) (h : r.failed = s.failed) (ls : List Nat) : anyFailed r ls = anyFailed s ls := by
  unfold anyFailed; rw [h]

open Relsad.Control in
/-- the reconnecting half of a line check on sections none of which holds a failed line: no line status, no timer and no
breaker is touched and nothing is listed as failed afterwards -/
private theorem reco_quiet (C : Cfg) (n : Nat) (ks : List Nat) (s : St)
    (hq : ∀ k ∈ ks, anyFailed s (secOf C k).lines = false) (hfs : s.failedSecs.getD n [] = []) :
    (ks.foldl (recoStep C n) s).failed = s.failed ∧ (ks.foldl (recoStep C n) s).timer = s.timer ∧
    (ks.foldl (recoStep C n) s).failedSecs.getD n [] = [] := by
  induction ks generalizing s with
  | nil => exact ⟨rfl, rfl, hfs⟩
  | cons a as ih =>
    simp only [List.foldl_cons]
    obtain ⟨e1, _, _, e4⟩ := recoStep_fields C n s a
    have ha := hq a List.mem_cons_self
    have hfs' : (recoStep C n s a).failedSecs.getD n [] = [] := by
      rw [e4, ha]; simp only [Bool.false_eq_true, if_false]
      rw [hfs]; exact getD_set_nil _ _ hfs
    have r := ih (recoStep C n s a)
      (fun k hk => by rw [anyFailed_congr s _ e1]; exact hq k (List.mem_cons_of_mem _ hk)) hfs'
    exact ⟨r.1.trans e1, r.2.1.trans (tm_recoStep C n s a).1, r.2.2⟩

open Relsad.Control in
private theorem checkLines_quiet (C : Cfg) (s : St) (n : Nat)
    (hq : ∀ k ∈ (netOf C n).secs, anyFailed s (secOf C k).lines = false) (hfs : s.failedSecs.getD n [] = []) :
    (checkLinesManually C s n).failed = s.failed ∧ (checkLinesManually C s n).timer = s.timer ∧
    (checkLinesManually C s n).failedSecs.getD n [] = [] := by
  rw [checkLinesManually_eq]
  have h1 : ((netOf C n).secs.filter (fun k => gb s.secConn k)).foldl (flagStep C n) s = s := by
    apply foldl_fixed
    intro k hk
    have := hq k (List.mem_filter.mp hk).1
    unfold flagStep
    simp only
    rw [show C.secs.getD k default = secOf C k from rfl, this]
    simp
  rw [h1]
  exact reco_quiet C n _ s (fun k hk => hq k (List.mem_filter.mp hk).1) hfs

open Relsad.Control in
/-- **A full- or limited-support microgrid reconnects in the very pass of its control loop in which the sectioning time
runs out** (whole loop `MicrogridController.run_manual_control_loop`, not only the breaker check): with the breaker
open, the own timer running out in this pass (`tick t dt ≤ 0`), nothing left of the parent's time, no failed line in
any section of the microgrid, nothing listed as failed and the connecting line healthy, the breaker is closed when the
pass ends.  Together with `C16.manual_mg_loop_waits_for_sectioning_time` (the breaker is left alone while more than one
step of the time remains) this is "as soon as the sectioning time has elapsed", for every state and every step. -/
theorem support_reconnects_when_time_runs_out (C : Cfg) (s : St) (n : Nat) (dt : ℚ)
    (hn : n < s.timer.length) (hcb : (C.nets.getD n default).cb < s.cbOpen.length)
    (hopen : gb s.cbOpen (C.nets.getD n default).cb = true)
    (hmode : (C.nets.getD n default).mode ≠ some .survival)
    (ht : tick (gr s.timer n) dt ≤ 0) (hp : gr s.pTimer n ≤ 0)
    (hq : ∀ k ∈ (netOf C n).secs, anyFailed s (secOf C k).lines = false)
    (hfs : s.failedSecs.getD n [] = [])
    (hline : gb s.failed (C.nets.getD n default).connLine = false) :
    gb (mgLoop C s n dt).cbOpen (C.nets.getD n default).cb = false := by
  have hhold : ∀ x : St, survivalHold C x n = false := by
    intro x; unfold survivalHold; split
    · rename_i h _; exact absurd h hmode
    · rfl
  -- whatever the line check does, the breaker check that follows sees: same line status, same breakers, timer run out,
  -- nothing listed
  have key : ∀ x : St, x.failed = s.failed → x.cbOpen = s.cbOpen → gr x.timer n ≤ 0 → x.failedSecs.getD n [] = [] →
      gb (checkBreakerManually C x n).cbOpen (C.nets.getD n default).cb = false := by
    intro x hf hc htm hl
    apply support_reconnects C x n (by rw [hc]; exact hopen) (by rw [hc]; exact hcb) (hhold x) htm
    · rw [hl]; simp only [List.foldl_nil]; rw [hf]; exact hline
    · rw [hl]; rfl
  unfold mgLoop
  simp only
  set t2 := (if gr s.pTimer n > tick (gr s.timer n) dt then gr s.pTimer n else tick (gr s.timer n) dt) with ht2
  have ht2le : t2 ≤ 0 := by rw [ht2]; split_ifs <;> assumption
  have hg : gr (s.timer.set n t2) n = t2 := gr_set_self _ _ _ hn
  simp only [hg, hopen, ht2le, decide_true, Bool.and_self, if_true]
  split_ifs with hck
  · obtain ⟨q1, q2, q3⟩ := checkLines_quiet C
      ({ s with timer := s.timer.set n t2, pTimer := s.pTimer.set n (tick (gr s.pTimer n) dt), check := s.check.set n true }) n hq hfs
    apply key
    · exact q1
    · exact checkLinesManually_cbOpen C _ n
    · show gr (checkLinesManually C _ n).timer n ≤ 0
      rw [q2]; show gr (s.timer.set n t2) n ≤ 0; rw [hg]; exact ht2le
    · exact q3
  · apply key
    · rfl
    · rfl
    · show gr (s.timer.set n t2) n ≤ 0; rw [hg]; exact ht2le
    · exact hfs

open Relsad.Control in
/-- Non-vacuity: feeder L0 (breaker 0) - L1 behind a disconnector, a full-support microgrid (line 2, breaker 1) on the
feeder; sectioning time 1 h, 1 h increments.  One increment after a fault on L1 both breakers are open and the
microgrid's timer stands at 1 h: the state meets every hypothesis of the theorem, and its control pass closes breaker 1. -/
example :
    let C : Cfg :=
      { lines := [⟨0, some 0, [], 0⟩, ⟨0, none, [0], 1⟩, ⟨1, some 1, [], 2⟩], disconLine := [1], cbLine := [0, 2],
        secs := [⟨[0], [.breaker 0, .discon 0]⟩, ⟨[1], [.discon 0]⟩, ⟨[2], [.breaker 1]⟩],
        nets := [⟨0, 0, [0, 1], [0, 1], [1], none, none⟩, ⟨2, 1, [2], [2], [], some .fullSupport, some 0⟩], T := 1 }
    let s := step C (lineFail C (St.init C) 1 3) 1
    wfB C = true ∧ 1 < s.timer.length ∧ (C.nets.getD 1 default).cb < s.cbOpen.length ∧
    gb s.cbOpen (C.nets.getD 1 default).cb = true ∧ (C.nets.getD 1 default).mode ≠ some .survival ∧
    gr s.timer 1 = 1 ∧ tick (gr s.timer 1) 1 ≤ 0 ∧ gr s.pTimer 1 ≤ 0 ∧
    (∀ k ∈ (netOf C 1).secs, anyFailed s (secOf C k).lines = false) ∧ s.failedSecs.getD 1 [] = [] ∧
    gb s.failed (C.nets.getD 1 default).connLine = false ∧
    gb (mgLoop C s 1 1).cbOpen 1 = false := by
  intro C s
  refine ⟨by decide +kernel, by decide +kernel, by decide +kernel, by decide +kernel, by decide +kernel, by decide +kernel,
    by decide +kernel, by decide +kernel, by decide +kernel, by decide +kernel, by decide +kernel, by decide +kernel⟩

open Relsad.Control in
private theorem checkSensors_quiet (C : Cfg) (s : St) (n : Nat) (cm : Comm)
    (hq : ∀ k ∈ (netOf C n).secs, anyFailed s (secOf C k).lines = false) (hfs : s.failedSecs.getD n [] = []) :
    (checkSensors C s n cm).failed = s.failed ∧ (checkSensors C s n cm).timer = s.timer ∧
    (checkSensors C s n cm).failedSecs.getD n [] = [] ∧ (checkSensors C s n cm).cbOpen = s.cbOpen := by
  rw [checkSensors_eq]
  have h1 : ((netOf C n).secs.filter (fun k => gb s.secConn k)).foldl (flagStepA C n cm) s = s := by
    apply foldl_fixed
    intro k hk
    have := hq k (List.mem_filter.mp hk).1
    unfold flagStepA
    simp only
    rw [show C.secs.getD k default = secOf C k from rfl, this]
    simp
  rw [h1]
  obtain ⟨a, b, c⟩ := reco_quiet C n _ s (fun k hk => hq k (List.mem_filter.mp hk).1) hfs
  refine ⟨a, b, c, ?_⟩
  apply cbOpen_foldl_eq
  intro s' k
  unfold recoStep
  simp only
  split_ifs
  · rfl
  · exact secConnectManually_cbOpen C s' k

open Relsad.Control in
/-- **… and the same under ICT-based control** (`MicrogridController.run_control_loop`), whatever the controller can
reach in that increment. -/
theorem support_reconnects_when_time_runs_out_auto (C : Cfg) (s : St) (n : Nat) (dt : ℚ) (cm : Comm)
    (hn : n < s.timer.length) (hcb : (C.nets.getD n default).cb < s.cbOpen.length)
    (hopen : gb s.cbOpen (C.nets.getD n default).cb = true)
    (hmode : (C.nets.getD n default).mode ≠ some .survival)
    (ht : tick (gr s.timer n) dt ≤ 0) (hp : gr s.pTimer n ≤ 0)
    (hq : ∀ k ∈ (netOf C n).secs, anyFailed s (secOf C k).lines = false)
    (hfs : s.failedSecs.getD n [] = [])
    (hline : gb s.failed (C.nets.getD n default).connLine = false) :
    gb (mgLoopA C s n dt cm).cbOpen (C.nets.getD n default).cb = false := by
  have hhold : ∀ x : St, survivalHold C x n = false := by
    intro x; unfold survivalHold; split
    · rename_i h _; exact absurd h hmode
    · rfl
  have key : ∀ x : St, x.failed = s.failed → x.cbOpen = s.cbOpen → gr x.timer n ≤ 0 → x.failedSecs.getD n [] = [] →
      gb (checkBreakerManually C x n).cbOpen (C.nets.getD n default).cb = false := by
    intro x hf hc htm hl
    apply support_reconnects C x n (by rw [hc]; exact hopen) (by rw [hc]; exact hcb) (hhold x) htm
    · rw [hl]; simp only [List.foldl_nil]; rw [hf]; exact hline
    · rw [hl]; rfl
  unfold mgLoopA
  simp only
  set t2 := (if gr s.pTimer n > tick (gr s.timer n) dt then gr s.pTimer n else tick (gr s.timer n) dt) with ht2
  have ht2le : t2 ≤ 0 := by rw [ht2]; split_ifs <;> assumption
  have hg : gr (s.timer.set n t2) n = t2 := gr_set_self _ _ _ hn
  simp only [hg, hopen, ht2le, decide_true, Bool.and_self, if_true]
  split_ifs with hck
  · obtain ⟨q1, q2, q3, q4⟩ := checkSensors_quiet C
      ({ s with timer := s.timer.set n t2, pTimer := s.pTimer.set n (tick (gr s.pTimer n) dt), check := s.check.set n true }) n cm hq hfs
    apply key
    · exact q1
    · exact q4
    · show gr (checkSensors C _ n cm).timer n ≤ 0
      rw [q2]; show gr (s.timer.set n t2) n ≤ 0; rw [hg]; exact ht2le
    · exact q3
  · apply key
    · rfl
    · rfl
    · show gr (s.timer.set n t2) n ≤ 0; rw [hg]; exact ht2le
    · exact hfs

end Relsad.C14
