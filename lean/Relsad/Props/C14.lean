/-
C14  Microgrids island and reconnect according to their operating mode.
-/
import Relsad.Model.Control
import Relsad.Lemmas.ControlL
import Relsad.Props.C05

namespace Relsad.C14
open Relsad.Control

/-- **A microgrid separates from its distribution network in the operation in which a fault
trips that network.** -/
theorem mg_trips_with_distribution (C : Cfg) (s : St) (l : Nat) (rep : ℚ) (hconn : gb s.conn l = true)
    (hcb : (C.nets.getD (C.lines.getD l default).net default).cb < s.cbOpen.length)
    (hch : ∀ m ∈ (C.nets.getD (C.lines.getD l default).net default).children, (C.nets.getD m default).cb < s.cbOpen.length)
    (m : Nat) (hm : m ∈ (C.nets.getD (C.lines.getD l default).net default).children) :
    gb (lineFail C s l rep).cbOpen (C.nets.getD m default).cb = true :=
  (C05.fail_trips_breaker C s l rep hconn hcb hch).2 m hm

/-- **In survival mode the microgrid stays separated for as long as the distribution network has
a failed line**: the breaker check does nothing at all. -/
theorem survival_stays_islanded (C : Cfg) (s : St) (n : Nat) (h : survivalHold C s n = true) :
    checkBreakerManually C s n = s := by
  unfold checkBreakerManually
  simp only [h, if_true]
  split_ifs <;> rfl

/-- **A fault inside a microgrid operates the microgrid's own breaker only**: every other breaker
(in particular the distribution network's) keeps its position. -/
theorem mg_fault_does_not_trip_distribution (C : Cfg) (s : St) (l : Nat) (rep : ℚ)
    (hleaf : (C.nets.getD (C.lines.getD l default).net default).children = []) (c : Nat)
    (hc : c ≠ (C.nets.getD (C.lines.getD l default).net default).cb) :
    gb (lineFail C s l rep).cbOpen c = gb s.cbOpen c := by
  unfold lineFail
  simp only [hleaf, List.foldl_nil]
  split_ifs
  · rw [cbOpenOp_frame]
    show gb (s.cbOpen.set _ true) c = gb s.cbOpen c
    rw [gb_set, if_neg]
    intro h; exact hc h.1.symm
  · rfl

private theorem cbOpen_length_swOpen (C : Cfg) (s : St) (sw : Sw) : (swOpen C s sw).cbOpen.length = s.cbOpen.length := by
  cases sw with
  | discon d => rfl
  | breaker c => exact cbOpen_length_cbOpenOp C s c

private theorem cbOpen_length_secDisconnect (C : Cfg) (s : St) (k : Nat) : (secDisconnect C s k).cbOpen.length = s.cbOpen.length := by
  unfold secDisconnect
  simp only
  rw [cbOpen_length_foldl _ (fun s' sw => cbOpen_length_swOpen C s' sw), cbOpen_length_foldl lineDisconnect (fun s' l => rfl)]

/-- **In full- and limited-support mode the microgrid reconnects as soon as the sectioning time
has elapsed and its own connection is healthy**: with the timer run out, no survival hold, the
connecting line healthy and in no failed section, the breaker check closes the breaker. -/
theorem support_reconnects (C : Cfg) (s : St) (n : Nat)
    (hopen : gb s.cbOpen (C.nets.getD n default).cb = true)
    (hcb : (C.nets.getD n default).cb < s.cbOpen.length)
    (hhold : survivalHold C s n = false) (ht : gr s.timer n ≤ 0)
    (hline : gb ((s.failedSecs.getD n []).foldl (secDisconnect C) s).failed (C.nets.getD n default).connLine = false)
    (hsec : ((s.failedSecs.getD n []).any (fun k => (C.secs.getD k default).lines.contains (C.nets.getD n default).connLine)) = false) :
    gb (checkBreakerManually C s n).cbOpen (C.nets.getD n default).cb = false := by
  unfold checkBreakerManually
  simp only [hopen, Bool.not_true, Bool.false_eq_true, if_false, hhold, ht, if_true, hline, hsec, Bool.not_false, Bool.and_self]
  show gb (secConnectManually C (cbCloseOp C _ _) _).cbOpen _ = false
  rw [secConnectManually_cbOpen, cbCloseOp_frame, gb_set, if_pos]
  refine ⟨rfl, ?_⟩
  rw [cbOpen_length_foldl _ (fun s' k => cbOpen_length_secDisconnect C s' k)]
  exact hcb

/-- While the parent's timer handed to the microgrid is positive, the microgrid's own timer is at
least that large after its control pass (it cannot reconnect before the distribution network's
sectioning time has elapsed). -/
theorem mg_timer_tracks_parent (s : St) (n : Nat) (dt : ℚ) :
    let t1 := tick (gr s.timer n) dt
    let t2 := if gr s.pTimer n > t1 then gr s.pTimer n else t1
    gr s.pTimer n ≤ t2 := by
  intro t1 t2
  show gr s.pTimer n ≤ (if gr s.pTimer n > t1 then gr s.pTimer n else t1)
  split_ifs with h
  · exact le_refl _
  · exact not_lt.mp h

end Relsad.C14
