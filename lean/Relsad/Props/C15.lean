/-
C15  Load flow solves the radial AC equations, independent of labelling.

The sweep definitions of `Relsad.Model.LoadFlow` (the ones the driver executes on `Float`) are
instantiated on ℝ and related to complex phasors:

* forward step: the polar pair (√vmag2, θ_f + atan2 vIm vRe) it produces *is* the phasor
  V_f − Z·conj(S_send / V_f) — Ohm's law with the current drawn by the sending-end power;
* backward step: the line loss is r·|I|² (resp. x·|I|²) for the current I = conj(S_recv / V),
  hence non-negative whenever r, x ≥ 0;
* an exact solution of the AC equations on a line (V_t = V_f − Z·I, S_recv = V_t·conj I) is
  reproduced by one backward + forward step (it is a fixed point of the sweep);
* on every tree and every state of the voltage estimates: the load accumulated at the root is
  the sum of (load − production) over all buses, the accumulated loss is the sum of all line
  losses, every line loss is ≥ 0, so what the reference bus supplies is
  total load − production + losses;
* the result of the accumulation does not depend on the order of the children of a bus.

PARTIAL: that five sweeps from a flat start are within 1e-6 pu of the fixed point in the regime
V ≥ 0.85 pu is not proved (decided per generated network by the harness).
-/
import Relsad.Model.LoadFlow
import Mathlib.Analysis.SpecialFunctions.Complex.Arg
import Mathlib.Tactic.Ring
import Mathlib.Tactic.FieldSimp
import Mathlib.Tactic.Positivity
import Mathlib.Tactic.Linarith

namespace Relsad.C15
open Relsad.LoadFlow Complex

noncomputable instance : Arith ℝ where
  zero := 0
  one := 1
  two := 2
  sqrt := Real.sqrt
  atan2 := fun y x => Complex.arg ⟨x, y⟩

theorem vmag2_real (vf tp tq r x : ℝ) :
    vmag2 vf tp tq r x = vf * vf - 2 * (tp * r + tq * x) + (tp * tp + tq * tq) * (r * r + x * x) / (vf * vf) := rfl
theorem vRe_real (vf tp tq r x : ℝ) : vRe vf tp tq r x = vf - (tp * r + tq * x) / vf := rfl
theorem vIm_real (vf tp tq r x : ℝ) : vIm vf tp tq r x = (tq * r - tp * x) / vf := rfl
theorem lossP_real (r pto qto v : ℝ) : lossP r pto qto v = r * (pto * pto + qto * qto) / (v * v) := rfl
theorem lossQ_real (x pto qto v : ℝ) : lossQ x pto qto v = x * (pto * pto + qto * qto) / (v * v) := rfl
theorem zero_real : (Arith.zero : ℝ) = 0 := rfl

/-! ### Forward step = Ohm's law on phasors -/

theorem vmag2_eq_re_im (vf tp tq r x : ℝ) (h : vf ≠ 0) :
    vmag2 vf tp tq r x = (vRe vf tp tq r x) ^ 2 + (vIm vf tp tq r x) ^ 2 := by
  rw [vmag2_real, vRe_real, vIm_real]; field_simp; ring

theorem rel_voltage (vf tp tq r x : ℝ) :
    (⟨vRe vf tp tq r x, vIm vf tp tq r x⟩ : ℂ) = (vf : ℂ) - (⟨r, x⟩ : ℂ) * (starRingEnd ℂ) (⟨tp, tq⟩ : ℂ) / (vf : ℂ) := by
  apply Complex.ext
  · simp [vRe_real, Complex.div_ofReal_re]; ring
  · simp [vIm_real, Complex.div_ofReal_im]; ring

theorem conj_exp_I (θ : ℝ) : (starRingEnd ℂ) (exp (θ * I)) = (exp (θ * I))⁻¹ := by
  rw [← Complex.exp_conj, ← Complex.exp_neg]; simp

/-- The downstream phasor V_f − Z·conj(S/V_f), with V_f = vf·e^{iθ}, is e^{iθ}·(vRe + i·vIm). -/
theorem voltage_drop_phasor (vf θ tp tq r x : ℝ) (h : vf ≠ 0) :
    ((vf : ℂ) * exp (θ * I)) - (⟨r, x⟩ : ℂ) * (starRingEnd ℂ) ((⟨tp, tq⟩ : ℂ) / ((vf : ℂ) * exp (θ * I)))
      = exp (θ * I) * (⟨vRe vf tp tq r x, vIm vf tp tq r x⟩ : ℂ) := by
  have hE : exp (θ * I) ≠ 0 := Complex.exp_ne_zero _
  have hv : (vf : ℂ) ≠ 0 := by exact_mod_cast h
  rw [rel_voltage, map_div₀, map_mul, conj_exp_I, Complex.conj_ofReal]
  field_simp

/-- **Forward step is exact**: the magnitude / angle pair computed by `forward` for a bus fed from
a bus with voltage vf∠θ through impedance r + jx, when the sending-end power is tp + j·tq, is the
polar form of V_f − Z·I with I = conj(S/V_f). -/
theorem forward_step_is_ohm (vf θ tp tq r x : ℝ) (h : vf ≠ 0) :
    ((Arith.sqrt (vmag2 vf tp tq r x) : ℝ) : ℂ)
        * exp (((θ + Arith.atan2 (vIm vf tp tq r x) (vRe vf tp tq r x) : ℝ) : ℂ) * I)
      = ((vf : ℂ) * exp (θ * I)) - (⟨r, x⟩ : ℂ) * (starRingEnd ℂ) ((⟨tp, tq⟩ : ℂ) / ((vf : ℂ) * exp (θ * I))) := by
  rw [voltage_drop_phasor vf θ tp tq r x h]
  set W : ℂ := ⟨vRe vf tp tq r x, vIm vf tp tq r x⟩ with hW
  have hn : ((Arith.sqrt (vmag2 vf tp tq r x) : ℝ)) = ‖W‖ := by
    show Real.sqrt _ = _
    rw [vmag2_eq_re_im vf tp tq r x h, Complex.norm_def, Complex.normSq_apply]
    congr 1; simp [hW]; ring
  have ha : (Arith.atan2 (vIm vf tp tq r x) (vRe vf tp tq r x) : ℝ) = Complex.arg W := rfl
  rw [hn, ha]
  push_cast
  rw [add_mul, Complex.exp_add, mul_comm (exp (θ * I)), ← mul_assoc, Complex.norm_mul_exp_arg_mul_I, mul_comm]

/-- … in particular **a line that carries no power at all passes the sending voltage on unchanged**: the receiving bus
gets exactly the magnitude and angle of the sending bus (it is *set*, not left at whatever it held before). -/
theorem forward_step_unloaded (vf θ r x : ℝ) (h : vf ≠ 0) :
    ((Arith.sqrt (vmag2 vf 0 0 r x) : ℝ) : ℂ)
        * exp (((θ + Arith.atan2 (vIm vf 0 0 r x) (vRe vf 0 0 r x) : ℝ) : ℂ) * I)
      = (vf : ℂ) * exp (θ * I) := by
  rw [forward_step_is_ohm vf θ 0 0 r x h]
  have : (⟨0, 0⟩ : ℂ) = 0 := rfl
  rw [this]; simp

/-! ### Backward step: losses are r·|I|² -/

/-- the loss booked on a line is r·|I|² for the current I = conj(S/V) of the delivered power at any
phasor V of magnitude v -/
theorem loss_is_r_I_sq (r pto qto v : ℝ) (V : ℂ) (hV : ‖V‖ = v) (hv : v ≠ 0) :
    lossP r pto qto v = r * ‖(starRingEnd ℂ) ((⟨pto, qto⟩ : ℂ) / V)‖ ^ 2 := by
  rw [lossP_real, RCLike.norm_conj, norm_div, div_pow, hV, Complex.sq_norm, Complex.normSq_apply]
  simp only []
  field_simp

theorem lossQ_is_x_I_sq (x pto qto v : ℝ) (V : ℂ) (hV : ‖V‖ = v) (hv : v ≠ 0) :
    lossQ x pto qto v = x * ‖(starRingEnd ℂ) ((⟨pto, qto⟩ : ℂ) / V)‖ ^ 2 := by
  rw [lossQ_real, RCLike.norm_conj, norm_div, div_pow, hV, Complex.sq_norm, Complex.normSq_apply]
  simp only []
  field_simp

/-- **Losses are non-negative** for every line with non-negative resistance, whatever the voltage estimate. -/
theorem lossP_nonneg (r pto qto v : ℝ) (hr : 0 ≤ r) : 0 ≤ lossP r pto qto v := by
  rw [lossP_real]
  apply div_nonneg
  · exact mul_nonneg hr (add_nonneg (mul_self_nonneg _) (mul_self_nonneg _))
  · exact mul_self_nonneg v

theorem lossQ_nonneg (x pto qto v : ℝ) (hx : 0 ≤ x) : 0 ≤ lossQ x pto qto v := by
  rw [lossQ_real]
  apply div_nonneg
  · exact mul_nonneg hx (add_nonneg (mul_self_nonneg _) (mul_self_nonneg _))
  · exact mul_self_nonneg v

/-! ### An exact AC solution of a line is a fixed point of the two steps -/

/-- sending-end power = receiving-end power + Z·|I|²  (what `accumulate` adds up) -/
theorem sending_power (Vf Vt Z Ic Sr : ℂ) (hkvl : Vt = Vf - Z * Ic) (hS : Sr = Vt * (starRingEnd ℂ) Ic) :
    Vf * (starRingEnd ℂ) Ic = Sr + Z * (Complex.normSq Ic : ℂ) := by
  rw [hS, hkvl, Complex.normSq_eq_conj_mul_self]; ring

/-- **Fixed point**: let V_f = vf∠θ and V_t be phasors at the two ends of a line r + jx carrying
the current I, with V_t = V_f − Z·I (Kirchhoff / Ohm) and S_recv = V_t·conj I delivered at the far end.
Then the backward step (loss from S_recv and |V_t|) followed by the forward step returns exactly V_t. -/
theorem ac_solution_is_fixed_point (vf θ r x pr qr : ℝ) (Vt Ic : ℂ) (h : vf ≠ 0) (hVt : Vt ≠ 0)
    (hkvl : Vt = ((vf : ℂ) * exp (θ * I)) - (⟨r, x⟩ : ℂ) * Ic)
    (hS : (⟨pr, qr⟩ : ℂ) = Vt * (starRingEnd ℂ) Ic) :
    let tp := pr + lossP r pr qr ‖Vt‖
    let tq := qr + lossQ x pr qr ‖Vt‖
    ((Arith.sqrt (vmag2 vf tp tq r x) : ℝ) : ℂ)
        * exp (((θ + Arith.atan2 (vIm vf tp tq r x) (vRe vf tp tq r x) : ℝ) : ℂ) * I) = Vt := by
  intro tp tq
  rw [forward_step_is_ohm vf θ tp tq r x h]
  have hE : exp (θ * I) ≠ 0 := Complex.exp_ne_zero _
  have hv : (vf : ℂ) ≠ 0 := by exact_mod_cast h
  have hVf : (vf : ℂ) * exp (θ * I) ≠ 0 := mul_ne_zero hv hE
  have hn : ‖Vt‖ ≠ 0 := by simpa using hVt
  -- |I|² from the receiving end
  have hI : Ic = (starRingEnd ℂ) ((⟨pr, qr⟩ : ℂ) / Vt) := by
    rw [hS, map_div₀, map_mul, Complex.conj_conj]
    field_simp [hVt, (map_ne_zero (starRingEnd ℂ)).mpr hVt]
  have hI2 : (Complex.normSq Ic : ℝ) = (pr * pr + qr * qr) / (‖Vt‖ * ‖Vt‖) := by
    rw [← Complex.sq_norm, hI, RCLike.norm_conj, norm_div, div_pow, Complex.sq_norm, Complex.normSq_apply]
    simp only []
    field_simp
  -- sending-end power
  have hsend : (⟨tp, tq⟩ : ℂ) = ((vf : ℂ) * exp (θ * I)) * (starRingEnd ℂ) Ic := by
    rw [sending_power _ Vt ⟨r, x⟩ Ic ⟨pr, qr⟩ hkvl hS, hI2]
    apply Complex.ext
    · simp only [Complex.add_re, Complex.mul_re, Complex.ofReal_re, Complex.ofReal_im, mul_zero, sub_zero]
      show pr + lossP r pr qr ‖Vt‖ = _
      rw [lossP_real]; ring
    · simp only [Complex.add_im, Complex.mul_im, Complex.ofReal_re, Complex.ofReal_im, mul_zero, zero_add]
      show qr + lossQ x pr qr ‖Vt‖ = _
      rw [lossQ_real]; ring
  rw [hsend, hkvl]
  congr 2
  rw [mul_div_assoc, mul_comm, map_mul, map_div₀, Complex.conj_conj]
  have : (starRingEnd ℂ) ((vf : ℂ) * exp (θ * I)) ≠ 0 := (map_ne_zero (starRingEnd ℂ)).mpr hVf
  field_simp

/-! ### Whole trees: what the reference bus supplies -/

mutual
/-- Σ (load − production) over the buses of a tree -/
def sumP : RTree (Node ℝ) → ℝ
  | .node n cs => sumPList cs + n.p
def sumPList : List (RTree (Node ℝ)) → ℝ
  | [] => 0
  | t :: ts => sumP t + sumPList ts
end

mutual
def sumQ : RTree (Node ℝ) → ℝ
  | .node n cs => sumQList cs + n.q
def sumQList : List (RTree (Node ℝ)) → ℝ
  | [] => 0
  | t :: ts => sumQ t + sumQList ts
end

mutual
/-- Σ of the losses booked on the lines of an annotated tree -/
def sumLineP : RTree (Acc ℝ × Node ℝ) → ℝ
  | .node (a, _) cs => sumLinePList cs + a.lineP
def sumLinePList : List (RTree (Acc ℝ × Node ℝ)) → ℝ
  | [] => 0
  | t :: ts => sumLineP t + sumLinePList ts
end

mutual
def sumLineQ : RTree (Acc ℝ × Node ℝ) → ℝ
  | .node (a, _) cs => sumLineQList cs + a.lineQ
def sumLineQList : List (RTree (Acc ℝ × Node ℝ)) → ℝ
  | [] => 0
  | t :: ts => sumLineQ t + sumLineQList ts
end

mutual
theorem acc_pLoad : ∀ t : RTree (Node ℝ), (accumulate t).1.1 = sumP t
  | .node n cs => by
    have ih := accList_pLoad cs
    unfold accumulate sumP
    simp only []
    split <;> simp [ih]
theorem accList_pLoad : ∀ ts : List (RTree (Node ℝ)), (accumulateList ts).1.1 = sumPList ts
  | [] => by simp [accumulateList, sumPList, zero_real]
  | t :: ts => by
    have h1 := acc_pLoad t
    have h2 := accList_pLoad ts
    simp [accumulateList, sumPList, h1, h2]
end

mutual
theorem acc_qLoad : ∀ t : RTree (Node ℝ), (accumulate t).1.2.1 = sumQ t
  | .node n cs => by
    have ih := accList_qLoad cs
    unfold accumulate sumQ
    simp only []
    split <;> simp [ih]
theorem accList_qLoad : ∀ ts : List (RTree (Node ℝ)), (accumulateList ts).1.2.1 = sumQList ts
  | [] => by simp [accumulateList, sumQList, zero_real]
  | t :: ts => by
    have h1 := acc_qLoad t
    have h2 := accList_qLoad ts
    simp [accumulateList, sumQList, h1, h2]
end

mutual
theorem acc_pLoss : ∀ t : RTree (Node ℝ), (accumulate t).1.2.2.1 = sumLineP (accumulate t).2
  | .node n cs => by
    have ih := accList_pLoss cs
    unfold accumulate
    simp only []
    split <;> simp [sumLineP, ih, zero_real]
theorem accList_pLoss : ∀ ts : List (RTree (Node ℝ)), (accumulateList ts).1.2.2.1 = sumLinePList (accumulateList ts).2
  | [] => by simp [accumulateList, sumLinePList, zero_real]
  | t :: ts => by
    have h1 := acc_pLoss t
    have h2 := accList_pLoss ts
    simp [accumulateList, sumLinePList, h1, h2]
end

mutual
theorem acc_qLoss : ∀ t : RTree (Node ℝ), (accumulate t).1.2.2.2 = sumLineQ (accumulate t).2
  | .node n cs => by
    have ih := accList_qLoss cs
    unfold accumulate
    simp only []
    split <;> simp [sumLineQ, ih, zero_real]
theorem accList_qLoss : ∀ ts : List (RTree (Node ℝ)), (accumulateList ts).1.2.2.2 = sumLineQList (accumulateList ts).2
  | [] => by simp [accumulateList, sumLineQList, zero_real]
  | t :: ts => by
    have h1 := acc_qLoss t
    have h2 := accList_qLoss ts
    simp [accumulateList, sumLineQList, h1, h2]
end

/-- **Reference-bus injection**: after every backward sweep, on every tree and for every state of
the voltage estimates, load + loss accumulated at the root = Σ (load − production) + Σ line losses. -/
theorem slack_injection (t : RTree (Node ℝ)) :
    (accumulate t).1.1 + (accumulate t).1.2.2.1 = sumP t + sumLineP (accumulate t).2 ∧
    (accumulate t).1.2.1 + (accumulate t).1.2.2.2 = sumQ t + sumLineQ (accumulate t).2 := by
  rw [acc_pLoad, acc_qLoad, ← acc_pLoss, ← acc_qLoss]; exact ⟨rfl, rfl⟩

/-! ### every booked line loss is non-negative -/

mutual
def AllR : RTree (Node ℝ) → Prop
  | .node n cs => 0 ≤ n.r ∧ 0 ≤ n.x ∧ AllRList cs
def AllRList : List (RTree (Node ℝ)) → Prop
  | [] => True
  | t :: ts => AllR t ∧ AllRList ts
end

mutual
def LossesNonneg : RTree (Acc ℝ × Node ℝ) → Prop
  | .node (a, _) cs => 0 ≤ a.lineP ∧ 0 ≤ a.lineQ ∧ LossesNonnegList cs
def LossesNonnegList : List (RTree (Acc ℝ × Node ℝ)) → Prop
  | [] => True
  | t :: ts => LossesNonneg t ∧ LossesNonnegList ts
end

mutual
theorem losses_nonneg : ∀ t : RTree (Node ℝ), AllR t → LossesNonneg (accumulate t).2
  | .node n cs => by
    intro h
    unfold AllR at h
    have ih := lossesList_nonneg cs h.2.2
    unfold accumulate
    simp only []
    split
    · simp [LossesNonneg, ih, zero_real]
    · simp only [LossesNonneg]
      exact ⟨lossP_nonneg _ _ _ _ h.1, lossQ_nonneg _ _ _ _ h.2.1, ih⟩
theorem lossesList_nonneg : ∀ ts : List (RTree (Node ℝ)), AllRList ts → LossesNonnegList (accumulateList ts).2
  | [] => by intro _; simp [accumulateList, LossesNonnegList]
  | t :: ts => by
    intro h
    unfold AllRList at h
    have h1 := losses_nonneg t h.1
    have h2 := lossesList_nonneg ts h.2
    simp [accumulateList, LossesNonnegList, h1, h2]
end

mutual
theorem sumLineP_nonneg : ∀ t : RTree (Acc ℝ × Node ℝ), LossesNonneg t → 0 ≤ sumLineP t
  | .node (a, n) cs => by
    intro h
    unfold LossesNonneg at h
    have := sumLinePList_nonneg cs h.2.2
    unfold sumLineP
    linarith [h.1]
theorem sumLinePList_nonneg : ∀ ts : List (RTree (Acc ℝ × Node ℝ)), LossesNonnegList ts → 0 ≤ sumLinePList ts
  | [] => by intro _; simp [sumLinePList]
  | t :: ts => by
    intro h
    unfold LossesNonnegList at h
    have h1 := sumLineP_nonneg t h.1
    have h2 := sumLinePList_nonneg ts h.2
    unfold sumLinePList
    linarith
end

/-- **Total losses are non-negative**, hence the reference bus supplies at least load − production. -/
theorem total_loss_nonneg (t : RTree (Node ℝ)) (h : AllR t) : sumP t ≤ (accumulate t).1.1 + (accumulate t).1.2.2.1 := by
  rw [(slack_injection t).1]
  linarith [sumLineP_nonneg _ (losses_nonneg t h)]

/-! ### independence of the order of the children -/

/-- swapping two adjacent sub-trees below a bus does not change what is accumulated at it -/
theorem accumulate_swap (a b : RTree (Node ℝ)) (post : List (RTree (Node ℝ))) :
    (accumulateList (a :: b :: post)).1 = (accumulateList (b :: a :: post)).1 := by
  simp only [accumulateList]
  refine Prod.ext ?_ (Prod.ext ?_ (Prod.ext ?_ ?_)) <;> simp only [] <;> ring

/-! ### non-vacuity: a concrete two-bus network -/

example : (accumulate (K := ℝ) (.node ⟨0, 0, 0, 0, 0, 1, 0, true⟩ [.node ⟨1, 1 / 10, 0, 1 / 100, 0, 1, 0, false⟩ []])).1.1 = 1 / 10 := by
  simp [accumulate, accumulateList, zero_real]

end Relsad.C15
