/-
C07  Load-point outage durations follow the RELRAD rule for each contingency.

Proved: the executable classification used as the oracle is exactly the RELRAD rule — a load point
of the tripped network is "sectioning only" iff a path of lines outside the faulted section (or
healthy backup lines) joins it to the feed, "until repair" iff no such path exists, and load
points of other networks are unaffected; the sectioning phase lasts exactly the passes `k` with
`k·dt < T` (i.e. ⌈T/dt⌉ passes).  That the implementation's trace realises this classification
is decided per contingency by the check (exhaustively up to the stated bound), not proved.
-/
import Relsad.Model.Relrad
import Relsad.Lemmas.GraphL
import Relsad.Props.C06

namespace Relsad.C07
open Relsad.Graph Relsad.Relrad Relation

/-- Load points of other networks are not interrupted. -/
theorem other_network_unaffected (V : List Nat) (ls : List RLine) (bk : List Edge) (feed k knet b bnet : Nat) (h : bnet ≠ knet) :
    classify V ls bk feed k knet b bnet = .unaffected := by
  unfold classify; simp [h]

/-- **A load point is interrupted only for the sectioning time iff it can still be fed once the
faulted section is isolated** (directly or through a backup line): a path joins it to the feed
that uses only lines outside the faulted section and backup lines. -/
theorem sectioningOnly_iff_path (V : List Nat) (ls : List RLine) (bk : List Edge) (feed k knet b : Nat)
    (hE : Closed V (remaining ls bk k)) (hf : feed ∈ V) :
    classify V ls bk feed k knet b knet = .sectioningOnly ↔ ReflTransGen (Adj (remaining ls bk k)) feed b := by
  unfold classify
  simp only [bne_self_eq_false, Bool.false_eq_true, if_false]
  rw [← mem_reach_iff V _ hE feed hf b]
  by_cases h : b ∈ reach V (remaining ls bk k) feed <;> simp [h]

/-- **… and for as long as the fault persists iff no such path exists.** -/
theorem untilRepair_iff_no_path (V : List Nat) (ls : List RLine) (bk : List Edge) (feed k knet b : Nat)
    (hE : Closed V (remaining ls bk k)) (hf : feed ∈ V) :
    classify V ls bk feed k knet b knet = .untilRepair ↔ ¬ ReflTransGen (Adj (remaining ls bk k)) feed b := by
  unfold classify
  simp only [bne_self_eq_false, Bool.false_eq_true, if_false]
  rw [← mem_reach_iff V _ hE feed hf b]
  by_cases h : b ∈ reach V (remaining ls bk k) feed <;> simp [h]

/-- The sectioning phase: the breaker's timer, armed with `T` in the detection pass, has run out
after `k` further passes iff `T ≤ k·dt`, so the interruption of the load points that remain fed
lasts ⌈T/dt⌉ steps. -/
theorem sectioning_passes (T dt : ℚ) (hdt : 0 < dt) (k : ℕ) :
    ((fun t => Relsad.Control.tick t dt)^[k]) T ≤ 0 ↔ T ≤ (k : ℚ) * dt :=
  C06.timer_out_iff T dt hdt k

end Relsad.C07
