/-
C07  Load-point outage durations follow the RELRAD rule for each contingency.

Proved: the executable classification used as the oracle is exactly the RELRAD rule — a load point
of the tripped network is "sectioning only" iff a path of lines outside the faulted section (or
healthy backup lines) joins it to the feed, "until repair" iff no such path exists, and load
points of other networks are unaffected; the sectioning phase lasts exactly the passes `k` with
`k·dt < T` (i.e. ⌈T/dt⌉ passes).  Proved on the switching model for every reachable state (any number of faults, manual and
ICT-based control): outages are confined to the faulted sections, their boundary switches and
open breakers (`outage_confined`, from the invariant G).  That the implementation's recorded
durations realise the classification is decided per contingency by the check (exhaustively up to the stated bound).
-/
import Relsad.Model.Relrad
import Relsad.Lemmas.GraphL
import Relsad.Props.C06
import Relsad.Props.C14
import Relsad.Lemmas.AcctL
import Relsad.Lemmas.ControlOpenL

namespace Relsad.C07
open Relsad.Graph Relsad.Relrad Relation

/-- Load points of other networks are not interrupted. -/
theorem other_network_unaffected (V : List Nat) (ls : List RLine) (bk : List Edge) (feed k knet b bnet : Nat) (h : bnet ≠ knet) :
    classify V ls bk feed k knet b bnet = .unaffected := by
  unfold classify; simp [h]

/-- **A load point is interrupted only for the sectioning time iff it can still be fed once the
faulted section is isolated** (directly or through a backup line): a path joins it to the feed
that uses only lines outside the faulted section and backup lines. -/
theorem sectioningOnly_iff_path (V : List Nat) (ls : List RLine) (bk : List Edge) (feed k knet b : Nat)
    (hE : Closed V (remaining ls bk k)) (hf : feed ∈ V) :
    classify V ls bk feed k knet b knet = .sectioningOnly ↔ ReflTransGen (Adj (remaining ls bk k)) feed b := by
  unfold classify
  simp only [bne_self_eq_false, Bool.false_eq_true, if_false]
  rw [← mem_reach_iff V _ hE feed hf b]
  by_cases h : b ∈ reach V (remaining ls bk k) feed <;> simp [h]

/-- **… and for as long as the fault persists iff no such path exists.** -/
theorem untilRepair_iff_no_path (V : List Nat) (ls : List RLine) (bk : List Edge) (feed k knet b : Nat)
    (hE : Closed V (remaining ls bk k)) (hf : feed ∈ V) :
    classify V ls bk feed k knet b knet = .untilRepair ↔ ¬ ReflTransGen (Adj (remaining ls bk k)) feed b := by
  unfold classify
  simp only [bne_self_eq_false, Bool.false_eq_true, if_false]
  rw [← mem_reach_iff V _ hE feed hf b]
  by_cases h : b ∈ reach V (remaining ls bk k) feed <;> simp [h]

/-- The sectioning phase: the breaker's timer, armed with `T` in the detection pass, has run out
after `k` further passes iff `T ≤ k·dt`, so the interruption of the load points that remain fed
lasts ⌈T/dt⌉ steps. -/
theorem sectioning_passes (T dt : ℚ) (hdt : 0 < dt) (k : ℕ) :
    ((fun t => Relsad.Control.tick t dt)^[k]) T ≤ 0 ↔ T ≤ (k : ℚ) * dt :=
  C06.timer_out_iff T dt hdt k

/-! ### the isolated zone on the switching model (all reachable states, any number of faults, any control mode) -/

open Relsad.Control in
/-- **Outages are confined to faulted sections and their boundary switches.**  At every reachable state of every
well-formed configuration (any history of faults, repairs, manual and ICT-based increments): a line that is out of
service carries an open breaker, or lies in — or carries a disconnector listed by — a section that is out of service
and contains a failed line.  Every other line is in service; so a load point whose path to the feed avoids the
faulted sections, their boundary switches and open breakers is supplied as soon as the breakers are reclosed (with
`sectioningOnly_iff_path`: it is interrupted for the sectioning time only). -/
theorem outage_confined (C : Cfg) (hC : wfB C = true) (hC2 : wfB2 C = true) (s : St) (hs : C05.ReachA C s)
    (l : Nat) (hl : l < C.lines.length) (hout : gb s.conn l = false) :
    BrOpen C s l ∨ ∃ k, k < C.secs.length ∧ gb s.secConn k = false ∧ HasFailed C s k ∧
      (l ∈ (secOf C k).lines ∨ ∃ d ∈ (lineOf C l).discons, Sw.discon d ∈ (secOf C k).switches ∧ gb s.dOpen d = true) := by
  have w := WF.of_wfB C hC
  have w2 := WF2.of_wfB2 C hC2
  have q := C06.reachA_quad C w w2 s hs
  -- an out-of-service section contains a failed line (check flags are down at every reachable state)
  have faulted : ∀ k, k < C.secs.length → gb s.secConn k = false → HasFailed C s k := by
    intro k hk hko
    obtain ⟨n, hn, hkn⟩ := w2.sec_owned k hk
    rcases q.triple.both.inv2.why n hn k hkn hko with h | h
    · exact h
    · rw [C06.reach_check_down C s hs n hn] at h; exact absurd h (by simp)
  have own : gb s.secConn (lineOf C l).sec = false →
      ∃ k, k < C.secs.length ∧ gb s.secConn k = false ∧ HasFailed C s k ∧
        (l ∈ (secOf C k).lines ∨ ∃ d ∈ (lineOf C l).discons, Sw.discon d ∈ (secOf C k).switches ∧ gb s.dOpen d = true) :=
    fun h => ⟨_, w.line_sec_lt l hl, h, faulted _ (w.line_sec_lt l hl) h, Or.inl (w.line_mem_sec l hl)⟩
  rcases q.g.line l hl hout with h1 | h1 | ⟨d, hd, hdo⟩
  · exact Or.inr (own h1)
  · exact Or.inl h1
  · have hdl := w.line_discons l hl d hd
    rcases q.g.discon d hdl.1 hdo with h2 | h2 | ⟨k, hk, hsw, hko⟩
    · rw [hdl.2] at h2; exact Or.inr (own h2)
    · rw [hdl.2] at h2; exact Or.inl h2
    · exact Or.inr ⟨k, hk, hko, faulted k hk hko, Or.inr ⟨d, hd, hsw, hdo⟩⟩

open Relsad.Control in
/-- … in particular, once every line is repaired and every breaker reclosed nothing is out of service (no load point
stays interrupted beyond the repair). -/
theorem nothing_out_without_fault (C : Cfg) (hC : wfB C = true) (hC2 : wfB2 C = true) (s : St) (hs : C05.ReachA C s)
    (hrep : ∀ l, gb s.failed l = false) (hcb : ∀ c, c < C.cbLine.length → gb s.cbOpen c = false)
    (l : Nat) (hl : l < C.lines.length) : gb s.conn l = true := by
  cases hx : gb s.conn l
  · exfalso
    have w2 := WF2.of_wfB2 C hC2
    rcases outage_confined C hC hC2 s hs l hl hx with ⟨c, hc, ho⟩ | ⟨k, _, _, ⟨l', _, hf⟩, _⟩
    · rw [hcb c (w2.line_cb l hl c hc).1] at ho; exact absurd ho (by simp)
    · rw [hrep l'] at hf; exact absurd hf (by simp)
  · rfl

/-! ### how long a breaker stays open (all reachable states, manual and ICT-based control) -/

open Relsad.Control in
/-- **After every increment a breaker is open only for a reason**: the sectioning time of its network still runs, or
the section of the breaker's own line contains a failed line (the fault cannot be isolated from the feed), or the
network is a SURVIVAL microgrid whose distribution network still has a failed line.  So a load point that can still be
fed is interrupted for the sectioning time only (`sectioning_passes`: ⌈T/dt⌉ passes), every history, every
well-formed configuration. -/
theorem breaker_open_only_while (C : Cfg) (hC : wfB C = true) (s : St) (hs : C05.ReachA C s) (dt : ℚ)
    (n : Nat) (hn : n < C.nets.length) (hopen : gb (step C s dt).cbOpen (netOf C n).cb = true) :
    OpenReason C (step C s dt) n := by
  have w := WF.of_wfB C hC
  have b := C06.reach_both C w s hs
  revert hopen
  unfold Relsad.Control.step
  simp only []
  have b1 : Both C ((List.range C.lines.length).foldl (fun s l => lineUpdate C s l dt) s) :=
    both_foldl _ _ (fun l => l < C.lines.length) (fun l hl => List.mem_range.mp hl)
      (fun s' l hl h' => ⟨h'.inv.lineUpdate l dt, h'.inv2.afterUpdate w h'.inv.sz l hl dt⟩) _ b
  obtain ⟨b2, own2, _, _⟩ := phase_open w (fun s n => distLoop C s n dt) (fun s' m hm h' => h'.distLoop w m hm dt)
    (fun s' m hm h' => distLoop_open w s' h' m hm dt) ((List.range C.nets.length).filter (fun n => !isMg C n))
    (fun m hm => List.mem_range.mp (List.mem_filter.mp hm).1) _ b1
  obtain ⟨_, own3, keep3, _⟩ := phase_open w (fun s n => mgLoop C s n dt) (fun s' m hm h' => h'.mgLoop w m hm dt)
    (fun s' m hm h' => mgLoop_open w s' h' m hm dt) ((List.range C.nets.length).filter (fun n => isMg C n))
    (fun m hm => List.mem_range.mp (List.mem_filter.mp hm).1) _ b2
  cases hmg : isMg C n
  · exact keep3 n hn (own2 n (List.mem_filter.mpr ⟨List.mem_range.mpr hn, by rw [hmg]; rfl⟩))
  · exact own3 n (List.mem_filter.mpr ⟨List.mem_range.mpr hn, hmg⟩)

open Relsad.Control in
/-- the same under ICT-based control, whatever the controllers can reach -/
theorem breaker_open_only_while_auto (C : Cfg) (hC : wfB C = true) (s : St) (hs : C05.ReachA C s) (dt : ℚ) (cm : Comm)
    (n : Nat) (hn : n < C.nets.length) (hopen : gb (stepA C s dt cm).cbOpen (netOf C n).cb = true) :
    OpenReason C (stepA C s dt cm) n := by
  have w := WF.of_wfB C hC
  have b := C06.reach_both C w s hs
  revert hopen
  unfold Relsad.Control.stepA
  simp only []
  have b1 : Both C ((List.range C.lines.length).foldl (fun s l => lineUpdate C s l dt) s) :=
    both_foldl _ _ (fun l => l < C.lines.length) (fun l hl => List.mem_range.mp hl)
      (fun s' l hl h' => ⟨h'.inv.lineUpdate l dt, h'.inv2.afterUpdate w h'.inv.sz l hl dt⟩) _ b
  obtain ⟨b2, own2, _, _⟩ := phase_open w (fun s n => distLoopA C s n dt cm) (fun s' m hm h' => h'.distLoopA w m hm dt cm)
    (fun s' m hm h' => distLoopA_open w s' h' m hm dt cm) ((List.range C.nets.length).filter (fun n => !isMg C n))
    (fun m hm => List.mem_range.mp (List.mem_filter.mp hm).1) _ b1
  obtain ⟨_, own3, keep3, _⟩ := phase_open w (fun s n => mgLoopA C s n dt cm) (fun s' m hm h' => h'.mgLoopA w m hm dt cm)
    (fun s' m hm h' => mgLoopA_open w s' h' m hm dt cm) ((List.range C.nets.length).filter (fun n => isMg C n))
    (fun m hm => List.mem_range.mp (List.mem_filter.mp hm).1) _ b2
  cases hmg : isMg C n
  · exact keep3 n hn (own2 n (List.mem_filter.mpr ⟨List.mem_range.mpr hn, by rw [hmg]; rfl⟩))
  · exact own3 n (List.mem_filter.mpr ⟨List.mem_range.mpr hn, hmg⟩)

open Relsad.Control in
/-- Non-vacuity: on the two-section feeder a fault on L1 (behind the disconnector): after the first pass the breaker is
open because the sectioning time runs; after the second pass the breaker is closed again although L1 is still failed. -/
example :
    let C : Cfg := { lines := [⟨0, some 0, [], 0⟩, ⟨0, none, [0], 1⟩], disconLine := [1], cbLine := [0],
                     secs := [⟨[0], [.breaker 0, .discon 0]⟩, ⟨[1], [.discon 0]⟩], nets := [⟨0, 0, [0, 1], [0, 1], [], none, none⟩], T := 1 }
    let s1 := step C (lineFail C (St.init C) 1 2) 1
    let s2 := step C s1 1
    gb s1.cbOpen 0 = true ∧ gr s1.timer 0 = 1 ∧ gb s2.cbOpen 0 = false ∧ gb s2.failed 1 = true ∧ s2.conn = [true, false] := by
  intro C s1 s2
  exact ⟨by decide +kernel, by decide +kernel, by decide +kernel, by decide +kernel, by decide +kernel⟩

open Relsad.Control in
/-- … and with sensors / intelligent switches failing by themselves the weaker form still holds (a section may then be
out because of a false alarm): a line that is out of service carries an open breaker, or lies in — or carries an open
disconnector listed by — a section that is out of service. -/
theorem outage_has_reason_devices (C : Cfg) (hC : wfB C = true) (hC2 : wfB2 C = true) (s : St) (hs : C05.ReachD C s)
    (l : Nat) (hl : l < C.lines.length) (hout : gb s.conn l = false) :
    BrOpen C s l ∨ ∃ k, k < C.secs.length ∧ gb s.secConn k = false ∧
      (l ∈ (secOf C k).lines ∨ ∃ d ∈ (lineOf C l).discons, Sw.discon d ∈ (secOf C k).switches ∧ gb s.dOpen d = true) := by
  have w := WF.of_wfB C hC
  have w2 := WF2.of_wfB2 C hC2
  have t := C05.reachD_trio C w w2 s hs
  have own : gb s.secConn (lineOf C l).sec = false →
      ∃ k, k < C.secs.length ∧ gb s.secConn k = false ∧
        (l ∈ (secOf C k).lines ∨ ∃ d ∈ (lineOf C l).discons, Sw.discon d ∈ (secOf C k).switches ∧ gb s.dOpen d = true) :=
    fun h => ⟨_, w.line_sec_lt l hl, h, Or.inl (w.line_mem_sec l hl)⟩
  rcases t.g.line l hl hout with h1 | h1 | ⟨d, hd, hdo⟩
  · exact Or.inr (own h1)
  · exact Or.inl h1
  · have hdl := w.line_discons l hl d hd
    rcases t.g.discon d hdl.1 hdo with h2 | h2 | ⟨k, hk, hsw, hko⟩
    · rw [hdl.2] at h2; exact Or.inr (own h2)
    · rw [hdl.2] at h2; exact Or.inl h2
    · exact Or.inr ⟨k, hk, hko, Or.inr ⟨d, hd, hsw, hdo⟩⟩

open Relsad.Control in
private theorem getD_set_filter_sub (l : List (List Nat)) (n : Nat) (p : Nat → Bool) :
    ∀ j ∈ (l.set n ((l.getD n []).filter p)).getD n [], j ∈ l.getD n [] := by
  intro j hj
  by_cases hn : n < l.length
  · rw [show (l.set n ((l.getD n []).filter p)).getD n [] = (l.getD n []).filter p by
      simp [List.getD_eq_getElem?_getD, hn]] at hj
    exact (List.mem_filter.mp hj).1
  · rw [List.set_eq_of_length_le (not_lt.mp hn)] at hj; exact hj

open Relsad.Control in
/-- the reconnecting half of a line check: line status, timers and breakers untouched, and nothing new is listed as failed -/
private theorem reco_sub (C : Cfg) (n : Nat) (ks : List Nat) (s : St) :
    (ks.foldl (recoStep C n) s).failed = s.failed ∧ (ks.foldl (recoStep C n) s).timer = s.timer ∧
    (ks.foldl (recoStep C n) s).cbOpen = s.cbOpen ∧
    ∀ j ∈ (ks.foldl (recoStep C n) s).failedSecs.getD n [], j ∈ s.failedSecs.getD n [] := by
  induction ks generalizing s with
  | nil => exact ⟨rfl, rfl, rfl, fun _ h => h⟩
  | cons a as ih =>
    simp only [List.foldl_cons]
    obtain ⟨e1, _, _, e4⟩ := recoStep_fields C n s a
    have ec : (recoStep C n s a).cbOpen = s.cbOpen := by
      unfold recoStep; simp only; split_ifs
      · rfl
      · exact secConnectManually_cbOpen C s a
    have hsub : ∀ j ∈ (recoStep C n s a).failedSecs.getD n [], j ∈ s.failedSecs.getD n [] := by
      rw [e4]; split_ifs
      · exact fun _ h => h
      · exact getD_set_filter_sub _ _ _
    obtain ⟨r1, r2, r3, r4⟩ := ih (recoStep C n s a)
    exact ⟨r1.trans e1, r2.trans (tm_recoStep C n s a).1, r3.trans ec, fun j hj => hsub j (r4 j hj)⟩

open Relsad.Control in
private theorem childFold_fields (C : Cfg) (n : Nat) (l : List Nat) (a : St) :
    let r := l.foldl (fun s m => if gb s.cbOpen (C.nets.getD m default).cb then { s with pTimer := s.pTimer.set m (gr s.timer n) } else s) a
    r.failed = a.failed ∧ r.cbOpen = a.cbOpen ∧ r.timer = a.timer ∧ r.failedSecs = a.failedSecs := by
  induction l generalizing a with
  | nil => exact ⟨rfl, rfl, rfl, rfl⟩
  | cons m ms ih =>
    simp only [List.foldl_cons]
    split_ifs
    · exact ih _
    · exact ih _

open Relsad.Control in
private theorem failed_secDisconnect_foldl (C : Cfg) (ks : List Nat) (s : St) : (ks.foldl (secDisconnect C) s).failed = s.failed := by
  induction ks generalizing s with
  | nil => rfl
  | cons a as ih => simp only [List.foldl_cons]; rw [ih, secDisconnect_failed]

open Relsad.Control in
/-- **Sectioning time only**: the feeder's breaker recloses in the very pass of the controller's loop
(`DistributionController.run_manual_control_loop`) in which the sectioning time runs out, provided the fault has been
sectioned off: the breaker is open, the timer runs out in this pass, every section that is still connected is free of
failed lines (the failed ones are out of service and listed), the breaker's own line is healthy and lies in no listed
section.  Everything on the feed side of the open disconnectors is then back after the sectioning time, which is what
the classification `sectioningOnly` promises; with `C16.manual_loop_waits_for_sectioning_time` (not earlier) this
fixes the pass exactly, for every state and step. -/
theorem feeder_recloses_when_time_runs_out (C : Cfg) (s : St) (n : Nat) (dt : ℚ)
    (hn : n < s.timer.length) (hcb : (C.nets.getD n default).cb < s.cbOpen.length)
    (hopen : gb s.cbOpen (C.nets.getD n default).cb = true)
    (hmode : (C.nets.getD n default).mode ≠ some .survival)
    (ht : tick (gr s.timer n) dt ≤ 0)
    (hq : ∀ k ∈ (netOf C n).secs, gb s.secConn k = true → anyFailed s (secOf C k).lines = false)
    (hline : gb s.failed (C.nets.getD n default).connLine = false)
    (hsec : ∀ k ∈ s.failedSecs.getD n [], (C.secs.getD k default).lines.contains (C.nets.getD n default).connLine = false) :
    gb (distLoop C s n dt).cbOpen (C.nets.getD n default).cb = false := by
  have hhold : ∀ x : St, survivalHold C x n = false := by
    intro x; unfold survivalHold; split
    · rename_i h _; exact absurd h hmode
    · rfl
  have key : ∀ x : St, x.failed = s.failed → x.cbOpen = s.cbOpen → gr x.timer n ≤ 0 →
      (∀ j ∈ x.failedSecs.getD n [], j ∈ s.failedSecs.getD n []) →
      gb (checkBreakerManually C x n).cbOpen (C.nets.getD n default).cb = false := by
    intro x hf hc htm hl
    apply C14.support_reconnects C x n (by rw [hc]; exact hopen) (by rw [hc]; exact hcb) (hhold x) htm
    · rw [failed_secDisconnect_foldl, hf]; exact hline
    · rw [List.any_eq_false]
      intro k hk; rw [hsec k (hl k hk)]; simp
  unfold distLoop
  simp only
  have hg : gr (s.timer.set n (tick (gr s.timer n) dt)) n = tick (gr s.timer n) dt := gr_set_self _ _ _ hn
  simp only [hg, hopen, ht, decide_true, Bool.and_self, if_true]
  split_ifs with hck
  · set s2 : St := { s with timer := s.timer.set n (tick (gr s.timer n) dt), check := s.check.set n true } with hs2
    have h1 : ((netOf C n).secs.filter (fun k => gb s2.secConn k)).foldl (flagStep C n) s2 = s2 := by
      apply foldl_fixed
      intro k hk
      have hk' := List.mem_filter.mp hk
      have : anyFailed s2 (secOf C k).lines = false := hq k hk'.1 hk'.2
      unfold flagStep
      simp only
      rw [show C.secs.getD k default = secOf C k from rfl, this]
      simp
    obtain ⟨r1, r2, r3, r4⟩ := reco_sub C n ((netOf C n).secs.filter (fun k => !gb s2.secConn k)) s2
    have hcl : checkLinesManually C s2 n = ((netOf C n).secs.filter (fun k => !gb s2.secConn k)).foldl (recoStep C n) s2 := by
      rw [checkLinesManually_eq, h1]
    obtain ⟨c1, c2, c3, c4⟩ := childFold_fields C n (C.nets.getD n default).children (checkLinesManually C s2 n)
    apply key
    · show (List.foldl _ (checkLinesManually C s2 n) _).failed = s.failed
      rw [c1, hcl, r1]
    · show (List.foldl _ (checkLinesManually C s2 n) _).cbOpen = s.cbOpen
      rw [c2, hcl, r3]
    · show gr (List.foldl _ (checkLinesManually C s2 n) _).timer n ≤ 0
      rw [c3, hcl, r2]; show gr (s.timer.set n _) n ≤ 0; rw [hg]; exact ht
    · show ∀ j ∈ (List.foldl _ (checkLinesManually C s2 n) _).failedSecs.getD n [], _
      rw [c4, hcl]; exact r4
  · apply key
    · rfl
    · rfl
    · show gr (s.timer.set n _) n ≤ 0; rw [hg]; exact ht
    · exact fun _ h => h

open Relsad.Control in
/-- **… and under ICT-based control** (`DistributionController.run_control_loop`), whatever the controller reaches. -/
theorem feeder_recloses_when_time_runs_out_auto (C : Cfg) (s : St) (n : Nat) (dt : ℚ) (cm : Comm)
    (hn : n < s.timer.length) (hcb : (C.nets.getD n default).cb < s.cbOpen.length)
    (hopen : gb s.cbOpen (C.nets.getD n default).cb = true)
    (hmode : (C.nets.getD n default).mode ≠ some .survival)
    (ht : tick (gr s.timer n) dt ≤ 0)
    (hq : ∀ k ∈ (netOf C n).secs, gb s.secConn k = true → anyFailed s (secOf C k).lines = false)
    (hline : gb s.failed (C.nets.getD n default).connLine = false)
    (hsec : ∀ k ∈ s.failedSecs.getD n [], (C.secs.getD k default).lines.contains (C.nets.getD n default).connLine = false) :
    gb (distLoopA C s n dt cm).cbOpen (C.nets.getD n default).cb = false := by
  have hhold : ∀ x : St, survivalHold C x n = false := by
    intro x; unfold survivalHold; split
    · rename_i h _; exact absurd h hmode
    · rfl
  have key : ∀ x : St, x.failed = s.failed → x.cbOpen = s.cbOpen → gr x.timer n ≤ 0 →
      (∀ j ∈ x.failedSecs.getD n [], j ∈ s.failedSecs.getD n []) →
      gb (checkBreakerManually C x n).cbOpen (C.nets.getD n default).cb = false := by
    intro x hf hc htm hl
    apply C14.support_reconnects C x n (by rw [hc]; exact hopen) (by rw [hc]; exact hcb) (hhold x) htm
    · rw [failed_secDisconnect_foldl, hf]; exact hline
    · rw [List.any_eq_false]
      intro k hk; rw [hsec k (hl k hk)]; simp
  unfold distLoopA
  simp only
  have hg : gr (s.timer.set n (tick (gr s.timer n) dt)) n = tick (gr s.timer n) dt := gr_set_self _ _ _ hn
  simp only [hg, hopen, ht, decide_true, Bool.and_self, if_true]
  split_ifs with hck
  · set s2 : St := { s with timer := s.timer.set n (tick (gr s.timer n) dt), check := s.check.set n true } with hs2
    have h1 : ((netOf C n).secs.filter (fun k => gb s2.secConn k)).foldl (flagStepA C n cm) s2 = s2 := by
      apply foldl_fixed
      intro k hk
      have hk' := List.mem_filter.mp hk
      have : anyFailed s2 (secOf C k).lines = false := hq k hk'.1 hk'.2
      unfold flagStepA
      simp only
      rw [show C.secs.getD k default = secOf C k from rfl, this]
      simp
    obtain ⟨r1, r2, r3, r4⟩ := reco_sub C n ((netOf C n).secs.filter (fun k => !gb s2.secConn k)) s2
    have hcl : checkSensors C s2 n cm = ((netOf C n).secs.filter (fun k => !gb s2.secConn k)).foldl (recoStep C n) s2 := by
      rw [checkSensors_eq, h1]
    obtain ⟨c1, c2, c3, c4⟩ := childFold_fields C n (C.nets.getD n default).children (checkSensors C s2 n cm)
    apply key
    · show (List.foldl _ (checkSensors C s2 n cm) _).failed = s.failed
      rw [c1, hcl, r1]
    · show (List.foldl _ (checkSensors C s2 n cm) _).cbOpen = s.cbOpen
      rw [c2, hcl, r3]
    · show gr (List.foldl _ (checkSensors C s2 n cm) _).timer n ≤ 0
      rw [c3, hcl, r2]; show gr (s.timer.set n _) n ≤ 0; rw [hg]; exact ht
    · show ∀ j ∈ (List.foldl _ (checkSensors C s2 n cm) _).failedSecs.getD n [], _
      rw [c4, hcl]; exact r4
  · apply key
    · rfl
    · rfl
    · show gr (s.timer.set n _) n ≤ 0; rw [hg]; exact ht
    · exact fun _ h => h

open Relsad.Control in
/-- Non-vacuity: the two-section feeder one pass after a fault on L1 meets every hypothesis (breaker open, 1 h left with
1 h steps, section 1 out of service and listed, section 0 clean), and the loop closes the breaker. -/
example :
    let C : Cfg := { lines := [⟨0, some 0, [], 0⟩, ⟨0, none, [0], 1⟩], disconLine := [1], cbLine := [0],
                     secs := [⟨[0], [.breaker 0, .discon 0]⟩, ⟨[1], [.discon 0]⟩], nets := [⟨0, 0, [0, 1], [0, 1], [], none, none⟩], T := 1 }
    let s := step C (lineFail C (St.init C) 1 2) 1
    0 < s.timer.length ∧ (C.nets.getD 0 default).cb < s.cbOpen.length ∧ gb s.cbOpen (C.nets.getD 0 default).cb = true ∧
    (C.nets.getD 0 default).mode ≠ some .survival ∧ tick (gr s.timer 0) 1 ≤ 0 ∧
    (∀ k ∈ (netOf C 0).secs, gb s.secConn k = true → anyFailed s (secOf C k).lines = false) ∧
    gb s.failed (C.nets.getD 0 default).connLine = false ∧ s.failedSecs.getD 0 [] = [1] ∧
    (∀ k ∈ s.failedSecs.getD 0 [], (C.secs.getD k default).lines.contains (C.nets.getD 0 default).connLine = false) ∧
    gb (distLoop C s 0 1).cbOpen 0 = false ∧ gb (distLoop C s 0 1).failed 1 = true := by
  intro C s
  refine ⟨by decide +kernel, by decide +kernel, by decide +kernel, by decide +kernel, by decide +kernel, by decide +kernel,
    by decide +kernel, by decide +kernel, by decide +kernel, by decide +kernel, by decide +kernel⟩

open Relsad Relsad.BusAcc Relsad.C01 Relsad.Acct in
/-- **What one contingency leaves in the load point's records.**  A load point with constant demand `P` that is without
supply for `k ≥ 1` consecutive increments of length `H` and then fed again has, once the first fed increment is logged:
`k·H` more outage time, `k·P·H` more energy not supplied and exactly one more interruption; its bookkeeping is back in
the state the next contingency starts from (empty stack, no running interruption), so the effects of non-overlapping
contingencies add up.  With `k` the number of passes the classification gives (`sectioning_passes` for "sectioning time
only", the passes until the repair otherwise) this is "durations times demand and customers" of C07, on the accounting
model that C01 / C10 tie to `Bus`. -/
theorem contingency_accounting (P H : ℚ) (hP : eqZero P = false) (hP0 : 0 < P) (hH : 0 < H) (k : ℕ) (hk : 0 < k)
    (b : BusAcc) (h0 : b.pStack = 0) (hn : b.nConsec = 0) (hc : b.curr = 0) :
    let b' := (List.replicate k (deadInc P H) ++ [liveInc P H]).foldl step b
    b'.accOutage = b.accOutage + k * H ∧ b'.accP = b.accP + k * (P * H) ∧ b'.accInt = b.accInt + 1 ∧
    b'.pStack = 0 ∧ b'.nConsec = 0 ∧ b'.curr = 0 ∧ b'.nCust = b.nCust := by
  obtain ⟨r1, r2, r3, r4, r5, r6, r7⟩ := dead_run P H hP hP0 hH k b h0
  obtain ⟨l1, l2, l3, l4, l5, l6, l7⟩ := step_live ((List.replicate k (deadInc P H)).foldl step b) P H r4
  simp only [List.foldl_append, List.foldl_cons, List.foldl_nil]
  refine ⟨l1.trans r1, l2.trans r2, ?_, l4, l5, l6, l7.trans r7⟩
  rw [l3, r5, r6, r3, hn, hc, if_pos (by omega)]
  have : ((0 + k : ℕ) : ℚ) ≠ 0 := by simp; omega
  simp only [zero_add] at *
  rw [div_self this]

open Relsad Relsad.BusAcc Relsad.C01 Relsad.Acct in
/-- Non-vacuity and additivity on numbers: demand 1/20 MW, half-hour steps; out for 3 steps, fed for one, out for 2
steps, fed again: 5/2 h of outage, 1/8 MWh not supplied, two interruptions. -/
example :
    let is := List.replicate 3 (deadInc (1/20) (1/2)) ++ [liveInc (1/20) (1/2)] ++ List.replicate 2 (deadInc (1/20) (1/2)) ++ [liveInc (1/20) (1/2)]
    (is.foldl step {}).accOutage = 5/2 ∧ (is.foldl step {}).accP = 1/8 ∧ (is.foldl step {}).accInt = 2 := by
  decide +kernel


end Relsad.C07
