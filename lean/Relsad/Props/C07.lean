/-
C07  Load-point outage durations follow the RELRAD rule for each contingency.

Proved: the executable classification used as the oracle is exactly the RELRAD rule — a load point
of the tripped network is "sectioning only" iff a path of lines outside the faulted section (or
healthy backup lines) joins it to the feed, "until repair" iff no such path exists, and load
points of other networks are unaffected; the sectioning phase lasts exactly the passes `k` with
`k·dt < T` (i.e. ⌈T/dt⌉ passes).  Proved on the switching model for every reachable state (any number of faults, manual and
ICT-based control): outages are confined to the faulted sections, their boundary switches and
open breakers (`outage_confined`, from the invariant G).  That the implementation's recorded
durations realise the classification is decided per contingency by the check (exhaustively up to the stated bound).
-/
import Relsad.Model.Relrad
import Relsad.Lemmas.GraphL
import Relsad.Props.C06
import Relsad.Lemmas.ControlOpenL

namespace Relsad.C07
open Relsad.Graph Relsad.Relrad Relation

/-- Load points of other networks are not interrupted. -/
theorem other_network_unaffected (V : List Nat) (ls : List RLine) (bk : List Edge) (feed k knet b bnet : Nat) (h : bnet ≠ knet) :
    classify V ls bk feed k knet b bnet = .unaffected := by
  unfold classify; simp [h]

/-- **A load point is interrupted only for the sectioning time iff it can still be fed once the
faulted section is isolated** (directly or through a backup line): a path joins it to the feed
that uses only lines outside the faulted section and backup lines. -/
theorem sectioningOnly_iff_path (V : List Nat) (ls : List RLine) (bk : List Edge) (feed k knet b : Nat)
    (hE : Closed V (remaining ls bk k)) (hf : feed ∈ V) :
    classify V ls bk feed k knet b knet = .sectioningOnly ↔ ReflTransGen (Adj (remaining ls bk k)) feed b := by
  unfold classify
  simp only [bne_self_eq_false, Bool.false_eq_true, if_false]
  rw [← mem_reach_iff V _ hE feed hf b]
  by_cases h : b ∈ reach V (remaining ls bk k) feed <;> simp [h]

/-- **… and for as long as the fault persists iff no such path exists.** -/
theorem untilRepair_iff_no_path (V : List Nat) (ls : List RLine) (bk : List Edge) (feed k knet b : Nat)
    (hE : Closed V (remaining ls bk k)) (hf : feed ∈ V) :
    classify V ls bk feed k knet b knet = .untilRepair ↔ ¬ ReflTransGen (Adj (remaining ls bk k)) feed b := by
  unfold classify
  simp only [bne_self_eq_false, Bool.false_eq_true, if_false]
  rw [← mem_reach_iff V _ hE feed hf b]
  by_cases h : b ∈ reach V (remaining ls bk k) feed <;> simp [h]

/-- The sectioning phase: the breaker's timer, armed with `T` in the detection pass, has run out
after `k` further passes iff `T ≤ k·dt`, so the interruption of the load points that remain fed
lasts ⌈T/dt⌉ steps. -/
theorem sectioning_passes (T dt : ℚ) (hdt : 0 < dt) (k : ℕ) :
    ((fun t => Relsad.Control.tick t dt)^[k]) T ≤ 0 ↔ T ≤ (k : ℚ) * dt :=
  C06.timer_out_iff T dt hdt k

/-! ### the isolated zone on the switching model (all reachable states, any number of faults, any control mode) -/

open Relsad.Control in
/-- **Outages are confined to faulted sections and their boundary switches.**  At every reachable state of every
well-formed configuration (any history of faults, repairs, manual and ICT-based increments): a line that is out of
service carries an open breaker, or lies in — or carries a disconnector listed by — a section that is out of service
and contains a failed line.  Every other line is in service; so a load point whose path to the feed avoids the
faulted sections, their boundary switches and open breakers is supplied as soon as the breakers are reclosed (with
`sectioningOnly_iff_path`: it is interrupted for the sectioning time only). -/
theorem outage_confined (C : Cfg) (hC : wfB C = true) (hC2 : wfB2 C = true) (s : St) (hs : C05.ReachA C s)
    (l : Nat) (hl : l < C.lines.length) (hout : gb s.conn l = false) :
    BrOpen C s l ∨ ∃ k, k < C.secs.length ∧ gb s.secConn k = false ∧ HasFailed C s k ∧
      (l ∈ (secOf C k).lines ∨ ∃ d ∈ (lineOf C l).discons, Sw.discon d ∈ (secOf C k).switches ∧ gb s.dOpen d = true) := by
  have w := WF.of_wfB C hC
  have w2 := WF2.of_wfB2 C hC2
  have q := C06.reachA_quad C w w2 s hs
  -- an out-of-service section contains a failed line (check flags are down at every reachable state)
  have faulted : ∀ k, k < C.secs.length → gb s.secConn k = false → HasFailed C s k := by
    intro k hk hko
    obtain ⟨n, hn, hkn⟩ := w2.sec_owned k hk
    rcases q.triple.both.inv2.why n hn k hkn hko with h | h
    · exact h
    · rw [C06.reach_check_down C s hs n hn] at h; exact absurd h (by simp)
  have own : gb s.secConn (lineOf C l).sec = false →
      ∃ k, k < C.secs.length ∧ gb s.secConn k = false ∧ HasFailed C s k ∧
        (l ∈ (secOf C k).lines ∨ ∃ d ∈ (lineOf C l).discons, Sw.discon d ∈ (secOf C k).switches ∧ gb s.dOpen d = true) :=
    fun h => ⟨_, w.line_sec_lt l hl, h, faulted _ (w.line_sec_lt l hl) h, Or.inl (w.line_mem_sec l hl)⟩
  rcases q.g.line l hl hout with h1 | h1 | ⟨d, hd, hdo⟩
  · exact Or.inr (own h1)
  · exact Or.inl h1
  · have hdl := w.line_discons l hl d hd
    rcases q.g.discon d hdl.1 hdo with h2 | h2 | ⟨k, hk, hsw, hko⟩
    · rw [hdl.2] at h2; exact Or.inr (own h2)
    · rw [hdl.2] at h2; exact Or.inl h2
    · exact Or.inr ⟨k, hk, hko, faulted k hk hko, Or.inr ⟨d, hd, hsw, hdo⟩⟩

open Relsad.Control in
/-- … in particular, once every line is repaired and every breaker reclosed nothing is out of service (no load point
stays interrupted beyond the repair). -/
theorem nothing_out_without_fault (C : Cfg) (hC : wfB C = true) (hC2 : wfB2 C = true) (s : St) (hs : C05.ReachA C s)
    (hrep : ∀ l, gb s.failed l = false) (hcb : ∀ c, c < C.cbLine.length → gb s.cbOpen c = false)
    (l : Nat) (hl : l < C.lines.length) : gb s.conn l = true := by
  cases hx : gb s.conn l
  · exfalso
    have w2 := WF2.of_wfB2 C hC2
    rcases outage_confined C hC hC2 s hs l hl hx with ⟨c, hc, ho⟩ | ⟨k, _, _, ⟨l', _, hf⟩, _⟩
    · rw [hcb c (w2.line_cb l hl c hc).1] at ho; exact absurd ho (by simp)
    · rw [hrep l'] at hf; exact absurd hf (by simp)
  · rfl

/-! ### how long a breaker stays open (all reachable states, manual and ICT-based control) -/

open Relsad.Control in
/-- **After every increment a breaker is open only for a reason**: the sectioning time of its network still runs, or
the section of the breaker's own line contains a failed line (the fault cannot be isolated from the feed), or the
network is a SURVIVAL microgrid whose distribution network still has a failed line.  So a load point that can still be
fed is interrupted for the sectioning time only (`sectioning_passes`: ⌈T/dt⌉ passes), every history, every
well-formed configuration. -/
theorem breaker_open_only_while (C : Cfg) (hC : wfB C = true) (s : St) (hs : C05.ReachA C s) (dt : ℚ)
    (n : Nat) (hn : n < C.nets.length) (hopen : gb (step C s dt).cbOpen (netOf C n).cb = true) :
    OpenReason C (step C s dt) n := by
  have w := WF.of_wfB C hC
  have b := C06.reach_both C w s hs
  revert hopen
  unfold Relsad.Control.step
  simp only []
  have b1 : Both C ((List.range C.lines.length).foldl (fun s l => lineUpdate C s l dt) s) :=
    both_foldl _ _ (fun l => l < C.lines.length) (fun l hl => List.mem_range.mp hl)
      (fun s' l hl h' => ⟨h'.inv.lineUpdate l dt, h'.inv2.afterUpdate w h'.inv.sz l hl dt⟩) _ b
  obtain ⟨b2, own2, _, _⟩ := phase_open w (fun s n => distLoop C s n dt) (fun s' m hm h' => h'.distLoop w m hm dt)
    (fun s' m hm h' => distLoop_open w s' h' m hm dt) ((List.range C.nets.length).filter (fun n => !isMg C n))
    (fun m hm => List.mem_range.mp (List.mem_filter.mp hm).1) _ b1
  obtain ⟨_, own3, keep3, _⟩ := phase_open w (fun s n => mgLoop C s n dt) (fun s' m hm h' => h'.mgLoop w m hm dt)
    (fun s' m hm h' => mgLoop_open w s' h' m hm dt) ((List.range C.nets.length).filter (fun n => isMg C n))
    (fun m hm => List.mem_range.mp (List.mem_filter.mp hm).1) _ b2
  cases hmg : isMg C n
  · exact keep3 n hn (own2 n (List.mem_filter.mpr ⟨List.mem_range.mpr hn, by rw [hmg]; rfl⟩))
  · exact own3 n (List.mem_filter.mpr ⟨List.mem_range.mpr hn, hmg⟩)

open Relsad.Control in
/-- the same under ICT-based control, whatever the controllers can reach -/
theorem breaker_open_only_while_auto (C : Cfg) (hC : wfB C = true) (s : St) (hs : C05.ReachA C s) (dt : ℚ) (cm : Comm)
    (n : Nat) (hn : n < C.nets.length) (hopen : gb (stepA C s dt cm).cbOpen (netOf C n).cb = true) :
    OpenReason C (stepA C s dt cm) n := by
  have w := WF.of_wfB C hC
  have b := C06.reach_both C w s hs
  revert hopen
  unfold Relsad.Control.stepA
  simp only []
  have b1 : Both C ((List.range C.lines.length).foldl (fun s l => lineUpdate C s l dt) s) :=
    both_foldl _ _ (fun l => l < C.lines.length) (fun l hl => List.mem_range.mp hl)
      (fun s' l hl h' => ⟨h'.inv.lineUpdate l dt, h'.inv2.afterUpdate w h'.inv.sz l hl dt⟩) _ b
  obtain ⟨b2, own2, _, _⟩ := phase_open w (fun s n => distLoopA C s n dt cm) (fun s' m hm h' => h'.distLoopA w m hm dt cm)
    (fun s' m hm h' => distLoopA_open w s' h' m hm dt cm) ((List.range C.nets.length).filter (fun n => !isMg C n))
    (fun m hm => List.mem_range.mp (List.mem_filter.mp hm).1) _ b1
  obtain ⟨_, own3, keep3, _⟩ := phase_open w (fun s n => mgLoopA C s n dt cm) (fun s' m hm h' => h'.mgLoopA w m hm dt cm)
    (fun s' m hm h' => mgLoopA_open w s' h' m hm dt cm) ((List.range C.nets.length).filter (fun n => isMg C n))
    (fun m hm => List.mem_range.mp (List.mem_filter.mp hm).1) _ b2
  cases hmg : isMg C n
  · exact keep3 n hn (own2 n (List.mem_filter.mpr ⟨List.mem_range.mpr hn, by rw [hmg]; rfl⟩))
  · exact own3 n (List.mem_filter.mpr ⟨List.mem_range.mpr hn, hmg⟩)

open Relsad.Control in
/-- Non-vacuity: on the two-section feeder a fault on L1 (behind the disconnector): after the first pass the breaker is
open because the sectioning time runs; after the second pass the breaker is closed again although L1 is still failed. -/
example :
    let C : Cfg := { lines := [⟨0, some 0, [], 0⟩, ⟨0, none, [0], 1⟩], disconLine := [1], cbLine := [0],
                     secs := [⟨[0], [.breaker 0, .discon 0]⟩, ⟨[1], [.discon 0]⟩], nets := [⟨0, 0, [0, 1], [0, 1], [], none, none⟩], T := 1 }
    let s1 := step C (lineFail C (St.init C) 1 2) 1
    let s2 := step C s1 1
    gb s1.cbOpen 0 = true ∧ gr s1.timer 0 = 1 ∧ gb s2.cbOpen 0 = false ∧ gb s2.failed 1 = true ∧ s2.conn = [true, false] := by
  intro C s1 s2
  exact ⟨by decide +kernel, by decide +kernel, by decide +kernel, by decide +kernel, by decide +kernel⟩

open Relsad.Control in
/-- … and with sensors / intelligent switches failing by themselves the weaker form still holds (a section may then be
out because of a false alarm): a line that is out of service carries an open breaker, or lies in — or carries an open
disconnector listed by — a section that is out of service. -/
theorem outage_has_reason_devices (C : Cfg) (hC : wfB C = true) (hC2 : wfB2 C = true) (s : St) (hs : C05.ReachD C s)
    (l : Nat) (hl : l < C.lines.length) (hout : gb s.conn l = false) :
    BrOpen C s l ∨ ∃ k, k < C.secs.length ∧ gb s.secConn k = false ∧
      (l ∈ (secOf C k).lines ∨ ∃ d ∈ (lineOf C l).discons, Sw.discon d ∈ (secOf C k).switches ∧ gb s.dOpen d = true) := by
  have w := WF.of_wfB C hC
  have w2 := WF2.of_wfB2 C hC2
  have t := C05.reachD_trio C w w2 s hs
  have own : gb s.secConn (lineOf C l).sec = false →
      ∃ k, k < C.secs.length ∧ gb s.secConn k = false ∧
        (l ∈ (secOf C k).lines ∨ ∃ d ∈ (lineOf C l).discons, Sw.discon d ∈ (secOf C k).switches ∧ gb s.dOpen d = true) :=
    fun h => ⟨_, w.line_sec_lt l hl, h, Or.inl (w.line_mem_sec l hl)⟩
  rcases t.g.line l hl hout with h1 | h1 | ⟨d, hd, hdo⟩
  · exact Or.inr (own h1)
  · exact Or.inl h1
  · have hdl := w.line_discons l hl d hd
    rcases t.g.discon d hdl.1 hdo with h2 | h2 | ⟨k, hk, hsw, hko⟩
    · rw [hdl.2] at h2; exact Or.inr (own h2)
    · rw [hdl.2] at h2; exact Or.inl h2
    · exact Or.inr ⟨k, hk, hko, Or.inr ⟨d, hd, hsw, hdo⟩⟩

end Relsad.C07
