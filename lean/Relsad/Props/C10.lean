/-
C10  Reliability indices obey their definitions and agree across levels/outputs.
-/
import Relsad.Model.BusAcct
import Relsad.Model.EVPark
import Mathlib.Tactic.Linarith
import Mathlib.Tactic.FieldSimp
import Mathlib.Tactic.Ring
import Mathlib.Tactic.Positivity
import Mathlib.Algebra.Order.Field.Rat
import Mathlib.Algebra.BigOperators.Group.List.Basic
import Mathlib.Algebra.Order.BigOperators.Group.List

namespace Relsad.C10
open Relsad Relsad.BusAcc Relsad.Indices

/-! ### Sums over bus lists -/

theorem sumBy_nil (f : BusAcc → ℚ) : sumBy f [] = 0 := by simp [sumBy]
theorem sumBy_cons (f : BusAcc → ℚ) (b : BusAcc) (bs : List BusAcc) : sumBy f (b :: bs) = f b + sumBy f bs := by
  simp [sumBy]
theorem sumBy_append (f : BusAcc → ℚ) (xs ys : List BusAcc) : sumBy f (xs ++ ys) = sumBy f xs + sumBy f ys := by
  simp [sumBy]

theorem sumBy_nonneg (f : BusAcc → ℚ) (bs : List BusAcc) (h : ∀ b ∈ bs, 0 ≤ f b) : 0 ≤ sumBy f bs := by
  induction bs with
  | nil => simp [sumBy]
  | cons b bs ih =>
    rw [sumBy_cons]
    exact add_nonneg (h b List.mem_cons_self) (ih fun b' hb' => h b' (List.mem_cons_of_mem _ hb'))

theorem sumBy_le (f g : BusAcc → ℚ) (bs : List BusAcc) (h : ∀ b ∈ bs, f b ≤ g b) : sumBy f bs ≤ sumBy g bs := by
  induction bs with
  | nil => simp [sumBy]
  | cons b bs ih =>
    rw [sumBy_cons, sumBy_cons]
    exact add_le_add (h b List.mem_cons_self) (ih fun b' hb' => h b' (List.mem_cons_of_mem _ hb'))

/-! ### Definitions -/

/-- ASAI and ASUI sum to one whenever they are defined. -/
theorem asai_add_asui (bs : List BusAcc) (hours u : ℚ) (h : asui? bs hours = some u) :
    ∃ a, asai? bs hours = some a ∧ a + u = 1 := by
  refine ⟨1 - u, ?_, by ring⟩
  simp [asai?, h]

/-- The indices raise (here: are undefined) only at elapsed time zero. -/
theorem asui_defined (bs : List BusAcc) (hours : ℚ) (h : hours ≠ 0) : asui? bs hours = some (saidi bs / hours) := by
  simp [asui?, h]

/-- SAIDI is the customer-weighted average outage time. -/
theorem saidi_weighted (bs : List BusAcc) (hN : totalCust bs ≠ 0) :
    saidi bs * totalCust bs = sumBy (fun b => b.accOutage * b.nCust) bs := by
  unfold saidi; simp only [beq_iff_eq, hN, if_false]; exact div_mul_cancel₀ _ hN

/-- SAIFI is the customer-weighted average number of interruptions. -/
theorem saifi_weighted (bs : List BusAcc) (hN : totalCust bs ≠ 0) :
    saifi bs * totalCust bs = sumBy (fun b => b.accInt * b.nCust) bs := by
  unfold saifi; simp only [beq_iff_eq, hN, if_false]; exact div_mul_cancel₀ _ hN

/-- With no customers at all the averages are 0 (no division by zero). -/
theorem zero_customers (bs : List BusAcc) (hN : totalCust bs = 0) : saidi bs = 0 ∧ saifi bs = 0 ∧ caidi bs = 0 := by
  have h1 : saidi bs = 0 := by simp [saidi, hN]
  have h2 : saifi bs = 0 := by simp [saifi, hN]
  refine ⟨h1, h2, ?_⟩
  unfold caidi; rw [h2]
  have : eqZero (0 : ℚ) = true := by unfold eqZero; simp
  simp [this]

/-- CAIDI is their ratio: CAIDI · SAIFI = SAIDI whenever SAIFI is not (numerically) zero. -/
theorem caidi_mul_saifi (bs : List BusAcc) (h : eqZero (saifi bs) = false) : caidi bs * saifi bs = saidi bs := by
  have hne : saifi bs ≠ 0 := by
    intro h0; rw [h0] at h
    have : eqZero (0 : ℚ) = true := by unfold eqZero; simp
    rw [this] at h; exact Bool.noConfusion h
  unfold caidi; simp only [h, Bool.not_false, if_true]; field_simp

/-- ENS is the total energy shed. -/
theorem ens_eq_sum (bs : List BusAcc) : ens bs = sumBy (·.accP) bs := rfl

/-! ### Levels: system values are the weighted combination / sum of the network values -/

theorem ens_append (xs ys : List BusAcc) : ens (xs ++ ys) = ens xs + ens ys := by
  unfold ens; exact sumBy_append _ _ _

theorem totalCust_append (xs ys : List BusAcc) : totalCust (xs ++ ys) = totalCust xs + totalCust ys := by
  unfold totalCust; exact sumBy_append _ _ _

/-- System SAIDI is the customer-weighted combination of the network SAIDIs. -/
theorem saidi_append (xs ys : List BusAcc) (hx : totalCust xs ≠ 0) (hy : totalCust ys ≠ 0)
    (hxy : totalCust xs + totalCust ys ≠ 0) :
    saidi (xs ++ ys) = (totalCust xs * saidi xs + totalCust ys * saidi ys) / (totalCust xs + totalCust ys) := by
  have h1 := saidi_weighted xs hx
  have h2 := saidi_weighted ys hy
  have h3 := saidi_weighted (xs ++ ys) (by rw [totalCust_append]; exact hxy)
  rw [totalCust_append, sumBy_append] at h3
  rw [eq_div_iff hxy, h3, ← h1, ← h2]; ring

theorem saifi_append (xs ys : List BusAcc) (hx : totalCust xs ≠ 0) (hy : totalCust ys ≠ 0)
    (hxy : totalCust xs + totalCust ys ≠ 0) :
    saifi (xs ++ ys) = (totalCust xs * saifi xs + totalCust ys * saifi ys) / (totalCust xs + totalCust ys) := by
  have h1 := saifi_weighted xs hx
  have h2 := saifi_weighted ys hy
  have h3 := saifi_weighted (xs ++ ys) (by rw [totalCust_append]; exact hxy)
  rw [totalCust_append, sumBy_append] at h3
  rw [eq_div_iff hxy, h3, ← h1, ← h2]; ring

/-- A network without customers contributes nothing to the system average. -/
theorem saidi_append_zero (xs ys : List BusAcc) (hx : totalCust xs = 0)
    (hz : ∀ b ∈ xs, b.accOutage * b.nCust = 0) : saidi (xs ++ ys) = saidi ys := by
  have hs : sumBy (fun b => b.accOutage * b.nCust) xs = 0 := by
    induction xs with
    | nil => simp [sumBy]
    | cons b bs ih =>
      rw [sumBy_cons, hz b List.mem_cons_self, zero_add]
      · have : totalCust bs = totalCust bs := rfl
        clear this
        -- the tail sum vanishes termwise
        have : ∀ b' ∈ bs, b'.accOutage * b'.nCust = 0 := fun b' hb' => hz b' (List.mem_cons_of_mem _ hb')
        clear ih hx
        induction bs with
        | nil => simp [sumBy]
        | cons c cs ih2 =>
          rw [sumBy_cons, this c List.mem_cons_self, zero_add]
          exact ih2 (fun b' hb' => hz b' (by simp at hb' ⊢; tauto)) (fun b' hb' => this b' (List.mem_cons_of_mem _ hb'))
  unfold saidi
  rw [totalCust_append, sumBy_append, hx, hs, zero_add, zero_add]

/-! ### Accumulation: per-increment amounts, levels and elapsed time -/

/-- The network / system accumulators (sum of the stacks taken *before* they are cleared, as the
repaired `update_sequence_history` does) stay equal to the sum of the bus accumulators. -/
theorem levels_agree (bs : List BusAcc) (h : ℚ) :
    sumBy (·.accP) (bs.map (fun b => b.log h)) = sumBy (·.accP) bs + sumBy (·.pStack) bs ∧
    sumBy (·.accQ) (bs.map (fun b => b.log h)) = sumBy (·.accQ) bs + sumBy (·.qStack) bs := by
  induction bs with
  | nil => simp [sumBy]
  | cons b bs ih =>
    simp only [List.map_cons, sumBy_cons]
    have e1 : (b.log h).accP = b.accP + b.pStack := by unfold BusAcc.log; simp only; split_ifs <;> rfl
    have e2 : (b.log h).accQ = b.accQ + b.qStack := by unfold BusAcc.log; simp only; split_ifs <;> rfl
    rw [e1, e2, ih.1, ih.2]; constructor <;> ring

/-- Hence, over any number of logged increments, network accumulated shed energy = ENS of its buses. -/
theorem network_acc_eq_ens (hs : List ℚ) (bs : List BusAcc) (netAcc : ℚ) (h0 : netAcc = ens bs)
    (prep : List BusAcc → List BusAcc) (hprep : ∀ l, ens (prep l) = ens l) :
    let step := fun (st : List BusAcc × ℚ) (h : ℚ) =>
      let l := prep st.1
      (l.map (fun b => b.log h), st.2 + sumBy (·.pStack) l)
    (hs.foldl step (bs, netAcc)).2 = ens (hs.foldl step (bs, netAcc)).1 := by
  intro step
  induction hs generalizing bs netAcc with
  | nil => simpa
  | cons h hs ih =>
    simp only [List.foldl_cons]
    apply ih
    simp only [step, ens]
    rw [(levels_agree (prep bs) h).1, h0]
    have := hprep bs; unfold ens at this ⊢; rw [this]

/-- One log adds the step or nothing to the outage time. -/
theorem log_outage (b : BusAcc) (h : ℚ) (hh : 0 ≤ h) :
    b.accOutage ≤ (b.log h).accOutage ∧ (b.log h).accOutage ≤ b.accOutage + h := by
  have e : (b.log h).accOutage = b.accOutage + (if b.pStack > 0 then h else 0) := by
    unfold BusAcc.log; simp only; split_ifs <;> rfl
  rw [e]; split_ifs <;> constructor <;> linarith

/-- Operations between logs never touch the outage time. -/
inductive Op where
  | setLoad (p q : ℚ) | addLoad (p q : ℚ) | addToStack (p q h : ℚ) | shedLoad (h : ℚ) | log (h : ℚ)

def apply (b : BusAcc) : Op → BusAcc
  | .setLoad p q => b.setLoad p q
  | .addLoad p q => b.addLoad p q
  | .addToStack p q h => b.addToStack p q h
  | .shedLoad h => b.shedLoad h
  | .log h => b.log h

def elapsed : List Op → ℚ
  | [] => 0
  | .log h :: ops => h + elapsed ops
  | _ :: ops => elapsed ops

/-- No load point accumulates more outage time than has elapsed — for every history of operations. -/
theorem outage_le_elapsed (ops : List Op) (b : BusAcc) (hh : ∀ op ∈ ops, ∀ h, op = Op.log h → 0 ≤ h) :
    b.accOutage ≤ (ops.foldl apply b).accOutage ∧ (ops.foldl apply b).accOutage ≤ b.accOutage + elapsed ops := by
  induction ops generalizing b with
  | nil => simp [elapsed]
  | cons op ops ih =>
    simp only [List.foldl_cons]
    have hrest : ∀ op' ∈ ops, ∀ h, op' = Op.log h → 0 ≤ h := fun op' ho h he => hh op' (List.mem_cons_of_mem _ ho) h he
    obtain ⟨i1, i2⟩ := ih (apply b op) hrest
    cases op with
    | log h =>
      have hpos := hh (Op.log h) List.mem_cons_self h rfl
      obtain ⟨l1, l2⟩ := log_outage b h hpos
      simp only [apply, elapsed] at *
      constructor <;> linarith
    | setLoad p q => simp only [apply, elapsed, BusAcc.setLoad] at *; exact ⟨i1, i2⟩
    | addLoad p q => simp only [apply, elapsed, BusAcc.addLoad] at *; exact ⟨i1, i2⟩
    | addToStack p q h => simp only [apply, elapsed, BusAcc.addToStack] at *; exact ⟨i1, i2⟩
    | shedLoad h => simp only [apply, elapsed, BusAcc.shedLoad, BusAcc.addToStack] at *; exact ⟨i1, i2⟩

private theorem sumBy_const_mul (c : ℚ) (bs : List BusAcc) :
    sumBy (fun b => c * b.nCust) bs = c * totalCust bs := by
  unfold totalCust
  induction bs with
  | nil => simp [sumBy]
  | cons b bs ih => rw [sumBy_cons, sumBy_cons, ih]; ring

/-- ASUI (and so ASAI) lies in [0,1] whenever no bus has more outage time than has elapsed. -/
theorem asui_mem_Icc (bs : List BusAcc) (hours : ℚ) (hpos : 0 < hours)
    (hc : ∀ b ∈ bs, 0 ≤ b.nCust) (ho : ∀ b ∈ bs, 0 ≤ b.accOutage ∧ b.accOutage ≤ hours) :
    ∃ u, asui? bs hours = some u ∧ 0 ≤ u ∧ u ≤ 1 := by
  refine ⟨saidi bs / hours, asui_defined bs hours (ne_of_gt hpos), ?_, ?_⟩
  · apply div_nonneg _ (le_of_lt hpos)
    unfold saidi; split_ifs
    · exact le_refl _
    · have hN : 0 ≤ totalCust bs := sumBy_nonneg _ _ hc
      exact div_nonneg (sumBy_nonneg _ _ fun b hb => mul_nonneg (ho b hb).1 (hc b hb)) hN
  · rw [div_le_one hpos]
    unfold saidi; split_ifs with h0
    · exact le_of_lt hpos
    · have hN : 0 ≤ totalCust bs := sumBy_nonneg _ _ hc
      have hN' : 0 < totalCust bs := lt_of_le_of_ne hN (fun h => h0 (by simp [← h]))
      rw [div_le_iff₀ hN']
      have : sumBy (fun b => b.accOutage * b.nCust) bs ≤ sumBy (fun b => hours * b.nCust) bs :=
        sumBy_le _ _ _ fun b hb => mul_le_mul_of_nonneg_right (ho b hb).2 (hc b hb)
      have e := sumBy_const_mul hours bs
      rw [e] at this
      exact this

/-- Non-vacuity: two buses, one with 3 customers out for 2 of 10 hours. -/
example : ∃ u, asui? [{ nCust := 3, accOutage := 2 }, { nCust := 1 }] 10 = some u ∧ u = 3/20 := by
  refine ⟨_, rfl, by decide +kernel⟩

/-! ### EV indices -/

open Relsad.EV in
theorem totalCars_append (xs ys : List ParkStat) : totalCars (xs ++ ys) = totalCars xs + totalCars ys := by
  simp [totalCars]

open Relsad.EV in
/-- `EV_Interruption` times the number of cars is the sum over *all* parks of interruptions × cars. -/
theorem evInterruption_weighted (ps : List ParkStat) (h : totalCars ps ≠ 0) :
    evInterruption ps * totalCars ps = (ps.map (fun k => k.accExp * k.cars)).sum := by
  unfold evInterruption; simp only [h, if_false]; field_simp

open Relsad.EV in
/-- **The system's EV interruption index is the car-weighted combination of the network values** (and so of the parks'
own values: every park counts, whatever its position in the list). -/
theorem evInterruption_append (xs ys : List ParkStat) (hx : totalCars xs ≠ 0) (hy : totalCars ys ≠ 0)
    (hxy : totalCars xs + totalCars ys ≠ 0) :
    evInterruption (xs ++ ys) = (totalCars xs * evInterruption xs + totalCars ys * evInterruption ys) / (totalCars xs + totalCars ys) := by
  have h1 := evInterruption_weighted xs hx
  have h2 := evInterruption_weighted ys hy
  have h3 := evInterruption_weighted (xs ++ ys) (by rw [totalCars_append]; exact hxy)
  rw [totalCars_append, List.map_append, List.sum_append] at h3
  rw [eq_div_iff hxy, h3, ← h1, ← h2]; ring

open Relsad.EV in
/-- One park: the index is the park's own accumulated expected interruptions. -/
theorem evInterruption_single (k : ParkStat) (h : k.cars ≠ 0) : evInterruption [k] = k.accExp := by
  unfold evInterruption totalCars; simp [h]

open Relsad.EV in
/-- Non-vacuity: two parks of 2 and 7 cars with 1/2 and 0 accumulated interruptions: (1/2 · 2 + 0 · 7) / 9 = 1/9 - the first
park counts although it is not the last one. -/
example : evInterruption [⟨2, 1/2, 1, 3⟩, ⟨7, 0, 0, 0⟩] = 1/9 ∧ evDuration [⟨2, 1/2, 1, 3⟩, ⟨7, 0, 0, 0⟩] = 3 := by
  constructor <;> decide +kernel

end Relsad.C10
