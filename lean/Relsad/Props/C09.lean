/-
C09  Every valid configuration simulates to completion on every entry point.

The "no internal error" obligations that can be stated on the models, each for all inputs:
the hour of day handed to an EV availability table is always a key of a table that covers hours
0–23 (whatever the order of its rows); battery and EV-park requests never divide by zero;
the indices are defined whenever time has elapsed; every island problem handed to the LP solver
is feasible on the instances built (checked per instance by the driver), so the solver cannot
legitimately fail.  Totality of the *Python* program (pandas, file system, recursion depth,
solver failures) is outside any model: it is decided by running both entry points, with saving
on and off, on generated valid configurations.
-/
import Relsad.Model.TableM
import Relsad.Props.C17
import Relsad.Props.C11
import Relsad.Props.C12
import Relsad.Props.C10

namespace Relsad.C09
open Relsad Relsad.TableM

/-- a table lookup succeeds for every index the table contains, wherever the row is -/
theorem get_of_mem (xs : List (Int × Rat)) (k : Int) (v : Rat) (h : (k, v) ∈ xs) : (get? xs k).isSome = true := by
  unfold get?
  induction xs with
  | nil => cases h
  | cons e es ih =>
    simp only [List.find?_cons]
    by_cases he : e.1 == k
    · simp [he]
    · simp only [he]
      rcases List.mem_cons.mp h with h' | h'
      · exfalso; apply he; rw [← h']; simp
      · exact ih h'

/-- **The EV availability lookup never misses**: for every start stamp and every elapsed time,
the hour of day is a key of every table that covers hours 0–23, in whatever order its rows are. -/
theorem ev_table_lookup_total (xs : List (Int × Rat)) (hc : coversDay xs) (s : TimeStamp) (p : Time) :
    (get? xs (s.getHourOfDay p)).isSome = true := by
  obtain ⟨h0, h1⟩ := C17.hourOfDay_range s p
  obtain ⟨v, hv⟩ := hc _ h0 h1
  exact get_of_mem xs _ v hv

/-- **Battery requests never raise** (no division by zero) for well-formed batteries inside their limits. -/
theorem battery_request_total (P : BatParams) (wf : BatteryL.WF P) (s : BatState) (p q h : ℚ)
    (hI : C11.Inv P s) (hc : C11.Calm P s) (ha : s.active = true) (hh : 0 ≤ h) :
    (Battery.updateBus P s p q h).isSome = true := by
  obtain ⟨s', x, e, _⟩ := C11.updateBus_envelope P wf s p q h hI hc ha hh
  rw [e]; rfl

/-- **EV park updates never raise**, and the statistics update is total even for an empty park. -/
theorem evpark_update_total (P : EV.ParkP) (wf : BatteryL.WF P.bat) (hm : P.bat.mode = none)
    (k : EV.Park) (p q h : ℚ) (hh : 0 ≤ h) (hk : ∀ c ∈ k.cars, C12.CarOk P c) :
    (EV.update P k p q h false 0 []).isSome = true := by
  obtain ⟨k', p', q', e, _, _⟩ := C12.update_cars_inv P wf hm k p q h hh hk
  rw [e]; rfl

/-- **The availability indices are defined whenever time has elapsed.** -/
theorem indices_defined (bs : List BusAcc) (hours : ℚ) (h : hours ≠ 0) :
    (Indices.asui? bs hours).isSome = true ∧ (Indices.asai? bs hours).isSome = true := by
  simp [Indices.asai?, C10.asui_defined bs hours h]

/-- a horizon of at least one step has at least one increment (so `time_array[-1]` exists) -/
theorem at_least_one_increment (step : ℚ) (n : ℕ) (hs : 0 < step) (hn : 1 ≤ n) :
    1 ≤ increments ((n : ℚ) * step) step := by
  rw [C17.increments_exact step n hs]; exact_mod_cast hn

end Relsad.C09
