/-
C08  Monte Carlo results are reproducible and iterations are independent.

Abstract scheduling theorem: an iteration is "reset the worker's state, then run with the
iteration's seed".  If `reset` forgets the state it is applied to (`reset s = reset s'` for all
states — which is what the `fix:` of reset_system establishes and what the check verifies on the
real objects by comparing a dirty system after reset with a freshly built one, field by field),
then the result of every iteration depends only on its seed, for every chunking of the
iterations onto workers, every order, and every state a worker happens to start from.
numpy's SeedSequence.spawn (independence of the child seeds) and multiprocessing are trusted.
-/
import Relsad.Model.Control
import Mathlib.Tactic.Linarith

namespace Relsad.C08

variable {St Seed Res : Type}

/-- a worker runs its chunk of (iteration number, seed) pairs one after the other, keeping whatever
state the previous iteration left behind -/
def runChunk (reset : St → St) (run : St → Seed → Res × St) : St → List (Nat × Seed) → List (Nat × Res)
  | _, [] => []
  | s, (i, seed) :: rest =>
    let r := run (reset s) seed
    (i, r.1) :: runChunk reset run r.2 rest

/-- the same iteration run alone on a fresh worker -/
def alone (reset : St → St) (run : St → Seed → Res × St) (fresh : St) (seed : Seed) : Res := (run (reset fresh) seed).1

/-- **A chunk gives, for each of its iterations, the result that iteration has when run alone**,
whatever state the worker starts from and whatever the earlier iterations of the chunk left behind. -/
theorem chunk_eq_alone (reset : St → St) (run : St → Seed → Res × St) (hreset : ∀ s s', reset s = reset s')
    (fresh : St) (chunk : List (Nat × Seed)) :
    ∀ s, runChunk reset run s chunk = chunk.map (fun p => (p.1, alone reset run fresh p.2)) := by
  induction chunk with
  | nil => intro s; rfl
  | cons p rest ih =>
    intro s
    obtain ⟨i, seed⟩ := p
    simp only [runChunk, List.map_cons, alone]
    rw [hreset s fresh, ih]
    rfl

/-- **Schedule independence**: for every partition of the iterations into chunks and every
starting state of every worker, the collected results are those of the iterations run alone. -/
theorem schedule_independent (reset : St → St) (run : St → Seed → Res × St) (hreset : ∀ s s', reset s = reset s')
    (fresh : St) (workers : List (St × List (Nat × Seed))) :
    workers.flatMap (fun w => runChunk reset run w.1 w.2) =
      (workers.flatMap (fun w => w.2)).map (fun p => (p.1, alone reset run fresh p.2)) := by
  induction workers with
  | nil => rfl
  | cons w ws ih =>
    simp only [List.flatMap_cons, List.map_append]
    rw [chunk_eq_alone reset run hreset fresh w.2 w.1, ih]

/-- in particular one process (debug mode) and a pool with one iteration per task agree -/
theorem sequential_eq_pool (reset : St → St) (run : St → Seed → Res × St) (hreset : ∀ s s', reset s = reset s')
    (fresh s0 : St) (its : List (Nat × Seed)) (starts : Nat → St) :
    runChunk reset run s0 its = its.flatMap (fun p => runChunk reset run (starts p.1) [p]) := by
  rw [chunk_eq_alone reset run hreset fresh its s0]
  induction its with
  | nil => rfl
  | cons p rest ih =>
    simp only [List.map_cons, List.flatMap_cons]
    rw [chunk_eq_alone reset run hreset fresh [p] (starts p.1), ih]
    rfl

/-- a sequential run with a seed is reproducible: same fresh configuration, same seed, same result -/
theorem sequential_reproducible (reset : St → St) (run : St → Seed → Res × St) (hreset : ∀ s s', reset s = reset s')
    (a b : St) (seed : Seed) : alone reset run a seed = alone reset run b seed := by
  unfold alone; rw [hreset a b]

/-- The model's reset (everything back to the initial configuration) forgets its argument. -/
theorem model_reset_const (C : Relsad.Control.Cfg) (s s' : Relsad.Control.St) :
    (fun _ : Relsad.Control.St => Relsad.Control.St.init C) s = (fun _ => Relsad.Control.St.init C) s' := rfl

/-- Non-vacuity: with a reset that does NOT forget (identity), a chunk and the lone runs differ. -/
example : runChunk (St := Nat) (Seed := Nat) (Res := Nat) id (fun s seed => (s + seed, s + 1)) 0 [(1, 10), (2, 10)] ≠
    [(1, alone id (fun s seed => (s + seed, s + 1)) 0 10), (2, alone id (fun s seed => (s + seed, s + 1)) 0 10)] := by
  decide

end Relsad.C08
