/-
C12  EV parks charge and discharge only as their cars, table and V2G flag allow.
-/
import Relsad.Model.EVPark
import Relsad.Props.C11
import Mathlib.Algebra.BigOperators.Group.List.Basic

namespace Relsad.C12
open Relsad Relsad.Battery Relsad.BatteryL Relsad.EV Relsad.C11

/-- a car: inside its limits, no microgrid mode, active -/
def CarOk (P : ParkP) (c : BatState) : Prop := Inv P.bat c ∧ c.active = true

theorem calm_of_no_mode (P : ParkP) (hm : P.bat.mode = none) (c : BatState) : Calm P.bat c := by
  unfold Calm; rw [hm]; simp

/-- At the start of a disturbance the park holds exactly the number of cars the table
prescribes for that hour (rounded half to even, none if not positive) … -/
theorem draw_count (P : ParkP) (tv : ℚ) (socs : List ℚ) (n : ℤ) (cars : List BatState)
    (h : drawCars P tv socs = some (n, cars)) : n = pyRound tv ∧ cars.length = (pyRound tv).toNat := by
  unfold drawCars at h
  simp only at h
  split_ifs at h with h1 h2
  simp only [Option.some.injEq, Prod.mk.injEq] at h
  obtain ⟨rfl, rfl⟩ := h
  refine ⟨rfl, ?_⟩
  rw [List.length_map]
  have := List.length_take_le (pyRound tv).toNat socs
  omega

/-- … each with a state of charge inside the configured limits. -/
theorem cars_within_limits (P : ParkP) (wf : WF P.bat) (tv : ℚ) (socs : List ℚ) (n : ℤ) (cars : List BatState)
    (h : drawCars P tv socs = some (n, cars)) : ∀ c ∈ cars, CarOk P c := by
  unfold drawCars at h
  simp only at h
  split_ifs at h with h1 h2
  simp only [Option.some.injEq, Prod.mk.injEq] at h
  obtain ⟨_, rfl⟩ := h
  intro c hc
  rw [List.mem_map] at hc
  obtain ⟨s, hs, rfl⟩ := hc
  have hno : ¬ (s < P.bat.socMin0 ∨ s > P.bat.socMax) := by
    intro hbad
    apply h2
    rw [List.any_eq_true]
    exact ⟨s, hs, by simpa using hbad⟩
  have hem := wf.eMax_pos
  push_neg at hno
  exact ⟨⟨mul_le_mul_of_nonneg_right hno.1 (le_of_lt hem), mul_le_mul_of_nonneg_right hno.2 (le_of_lt hem)⟩, rfl⟩

/-- A draw outside the limits is rejected (the implementation raises). -/
theorem draw_outside_rejected (P : ParkP) (tv s : ℚ) (hn : pyRound tv = 1) (hbad : s > P.bat.socMax) :
    drawCars P tv [s] = none := by
  unfold drawCars
  simp [hn, hbad]

/-- **Car loop**: every car obeys the battery limits, the loop never fails, the park's net
exchange is the sum over its cars, and without V2G no car produces active power. -/
theorem carsStep_spec (P : ParkP) (wf : WF P.bat) (hm : P.bat.mode = none) (h : ℚ) (hh : 0 ≤ h) :
    ∀ (cars : List BatState) (p q : ℚ), (∀ c ∈ cars, CarOk P c) →
    ∃ cars' p' q' xs, carsStep P h cars p q = some (cars', p', q', xs) ∧
      (∀ c ∈ cars', CarOk P c) ∧ cars'.length = cars.length ∧
      p - p' = (xs.map (fun x => x.pprod - x.pload)).sum ∧
      (∀ x ∈ xs, 0 ≤ x.pprod ∧ 0 ≤ x.pload ∧ x.pprod ≤ P.bat.pMax ∧ x.pload ≤ P.bat.pMax) ∧
      (P.v2g = false → ∀ x ∈ xs, x.pprod = 0) := by
  intro cars
  induction cars with
  | nil => intro p q _; exact ⟨[], p, q, [], rfl, by simp, rfl, by simp, by simp, by simp⟩
  | cons c cs ih =>
    intro p q hok
    have hc := hok c List.mem_cons_self
    have hcs : ∀ c' ∈ cs, CarOk P c' := fun c' h' => hok c' (List.mem_cons_of_mem _ h')
    unfold carsStep
    by_cases hcond : P.v2g = true ∨ p < 0
    · simp only [hcond, if_true]
      obtain ⟨c', x, e, env⟩ := updateBus_envelope P.bat wf c p q h hc.1 (calm_of_no_mode P hm c) hc.2 hh
      obtain ⟨cs', p', q', xs, e2, ok2, len2, sum2, bnd2, nov2⟩ := ih x.pRem x.qRem hcs
      simp only [e, e2]
      refine ⟨c' :: cs', p', q', x :: xs, rfl, ?_, by simp [len2], ?_, ?_, ?_⟩
      · intro d hd
        rcases List.mem_cons.mp hd with rfl | hd'
        · exact ⟨env.inv, by rw [env.active]; exact hc.2⟩
        · exact ok2 d hd'
      · simp only [List.map_cons, List.sum_cons, ← sum2]
        have := env.prem_eq; linarith
      · intro y hy
        rcases List.mem_cons.mp hy with rfl | hy'
        · exact ⟨env.pprod_nonneg, env.pload_nonneg, env.pprod_le, env.pload_le⟩
        · exact bnd2 y hy'
      · intro hv y hy
        rcases List.mem_cons.mp hy with rfl | hy'
        · have hp : p < 0 := by
            rcases hcond with h1 | h1
            · rw [hv] at h1; exact absurd h1 (by simp)
            · exact h1
          exact env.direction_p.2 hp
        · exact nov2 hv y hy'
    · simp only [hcond, if_false]
      obtain ⟨cs', p', q', xs, e2, ok2, len2, sum2, bnd2, nov2⟩ := ih p q hcs
      simp only [e2]
      refine ⟨c :: cs', p', q', xs, rfl, ?_, by simp [len2], sum2, bnd2, nov2⟩
      intro d hd
      rcases List.mem_cons.mp hd with rfl | hd'
      · exact hc
      · exact ok2 d hd'

private theorem sum_nonpos (xs : List Exchange) (h0 : ∀ x ∈ xs, x.pprod = 0) (hl : ∀ x ∈ xs, 0 ≤ x.pload) :
    (xs.map (fun x => x.pprod - x.pload)).sum ≤ 0 := by
  induction xs with
  | nil => simp
  | cons x xs ih =>
    simp only [List.map_cons, List.sum_cons]
    have := h0 x List.mem_cons_self
    have := hl x List.mem_cons_self
    have := ih (fun y hy => h0 y (List.mem_cons_of_mem _ hy)) (fun y hy => hl y (List.mem_cons_of_mem _ hy))
    linarith

/-- A park with vehicle-to-grid disabled never feeds active power into the grid. -/
theorem no_feed_in_without_v2g (P : ParkP) (wf : WF P.bat) (hm : P.bat.mode = none) (hv : P.v2g = false)
    (k : Park) (p q h : ℚ) (hh : 0 ≤ h) (hk : ∀ c ∈ k.cars, CarOk P c) :
    ∃ k' p' q', EV.update P k p q h false 0 [] = some (k', p', q') ∧ 0 ≤ k'.currPCharge ∧
      (∀ c ∈ k'.cars, CarOk P c) := by
  obtain ⟨cars', p', q', xs, e, ok, _, sum, bnd, nov⟩ := carsStep_spec P wf hm h hh k.cars p q hk
  unfold EV.update
  simp only [Bool.false_eq_true, if_false, e]
  refine ⟨_, _, _, rfl, ?_, ok⟩
  have hle : p - p' ≤ 0 := by
    rw [sum]; exact sum_nonpos xs (nov hv) (fun x hx => (bnd x hx).2.1)
  have h1 : max 0 (p - p') = 0 := max_eq_left hle
  have h2 : min 0 (p - p') = p - p' := min_eq_right hle
  simp only [h1, h2]
  split_ifs <;> linarith

private theorem sum_neg (xs : List Exchange) :
    (xs.map (fun x => x.pload - x.pprod)).sum = -(xs.map (fun x => x.pprod - x.pload)).sum := by
  induction xs with
  | nil => simp
  | cons x xs ih => simp only [List.map_cons, List.sum_cons, ih]; ring

/-- **The park's reported net exchange is what its cars exchanged in this increment**: the charge the park reports after
an update (`curr_p_charge`, positive when charging) equals the sum over the exchanges its cars made in this very
increment, and is what the park took out of the system balance — whatever the park reported before (nothing is carried
over from an earlier increment, also when no car is consulted). -/
theorem reported_charge_is_cars_exchange (P : ParkP) (wf : WF P.bat) (hm : P.bat.mode = none)
    (k : Park) (p q h : ℚ) (hh : 0 ≤ h) (hk : ∀ c ∈ k.cars, CarOk P c) :
    ∃ k' p' q' cars' xs, EV.update P k p q h false 0 [] = some (k', p', q') ∧
      carsStep P h k.cars p q = some (cars', p', q', xs) ∧
      k'.currPCharge = (xs.map (fun x => x.pload - x.pprod)).sum ∧ k'.currPCharge = p' - p := by
  obtain ⟨cars', p', q', xs, e, _, _, sum, _, _⟩ := carsStep_spec P wf hm h hh k.cars p q hk
  unfold EV.update
  simp only [Bool.false_eq_true, if_false, e]
  refine ⟨_, _, _, cars', xs, rfl, rfl, ?_, ?_⟩
  · rw [sum_neg, ← sum]
    show (if min 0 (p - p') < 0 then -(min 0 (p - p')) else min 0 (p - p')) - max 0 (p - p') = -(p - p')
    rcases le_total 0 (p - p') with h1 | h1
    · rw [min_eq_left h1, max_eq_right h1]; simp
    · rw [min_eq_right h1, max_eq_left h1]; split_ifs <;> linarith
  · show (if min 0 (p - p') < 0 then -(min 0 (p - p')) else min 0 (p - p')) - max 0 (p - p') = p' - p
    rcases le_total 0 (p - p') with h1 | h1
    · rw [min_eq_left h1, max_eq_right h1]; simp
    · rw [min_eq_right h1, max_eq_left h1]; split_ifs <;> linarith

/-- Non-vacuity: a charge-only park that charged 1/10 MW in the previous increment and meets no surplus now reports 0. -/
example :
    let P : ParkP := { bat := { pMax := 1/10, qMax := 1/10, eMax := 1, socMin0 := 1/10, socMax := 1, eta := 1, mode := none }, v2g := false, numCars := 1 }
    let k : Park := { cars := [{ e := 1/2, socMin := 1/10 }], availableNum := 1, currPCharge := 1/10 }
    (EV.update P k (1/20) 0 1 false 0 []).map (fun r => r.1.currPCharge) = some 0 := by
  decide +kernel

/-- With V2G the loop still succeeds and keeps every car inside its limits. -/
theorem update_cars_inv (P : ParkP) (wf : WF P.bat) (hm : P.bat.mode = none)
    (k : Park) (p q h : ℚ) (hh : 0 ≤ h) (hk : ∀ c ∈ k.cars, CarOk P c) :
    ∃ k' p' q', EV.update P k p q h false 0 [] = some (k', p', q') ∧ (∀ c ∈ k'.cars, CarOk P c) ∧
      k'.cars.length = k.cars.length := by
  obtain ⟨cars', p', q', xs, e, ok, len, _, _, _⟩ := carsStep_spec P wf hm h hh k.cars p q hk
  unfold EV.update
  simp only [Bool.false_eq_true, if_false, e]
  exact ⟨_, _, _, rfl, ok, len⟩

/-! ### Interruption statistics -/

def StatsNonneg (k : Park) : Prop :=
  0 ≤ k.frac ∧ 0 ≤ k.currExp ∧ 0 ≤ k.accExp ∧ 0 ≤ k.currExpCar ∧ 0 ≤ k.accExpCar ∧ 0 ≤ k.currDur ∧ 0 ≤ k.accDur

def StatsZero (k : Park) : Prop :=
  k.frac = 0 ∧ k.currExp = 0 ∧ k.accExp = 0 ∧ k.currExpCar = 0 ∧ k.accExpCar = 0 ∧ k.currDur = 0 ∧ k.accDur = 0 ∧
  k.nConsec = 0 ∧ k.accNum = 0

private theorem car_nonneg (P : ParkP) (k : Park) :
    0 ≤ (if k.currPCharge < 0 then (let r := k.currPCharge / P.bat.pMax; if r < 0 then -r else r) else 0 : ℚ) := by
  by_cases h1 : k.currPCharge < 0
  · simp only [h1, if_true]
    by_cases h2 : k.currPCharge / P.bat.pMax < 0
    · simp only [h2, if_true]; linarith
    · simp only [h2, if_false]; exact le_of_not_gt h2
  · simp only [h1, if_false]; exact le_refl _

/-- The statistics are non-negative after every log … -/
theorem stats_nonneg (P : ParkP) (k : Park) (dt : ℚ) (hdt : 0 ≤ dt) (hs : StatsNonneg k) :
    StatsNonneg (logStats P k dt) := by
  obtain ⟨a1, a2, a3, a4, a5, a6, a7⟩ := hs
  have hcar := car_nonneg P k
  unfold logStats
  simp only
  set car : ℚ := (if k.currPCharge < 0 then (let r := k.currPCharge / P.bat.pMax; if r < 0 then -r else r) else 0) with hcar_def
  by_cases hn : P.numCars > 0
  · have hnq : (0 : ℚ) < (P.numCars : ℚ) := by exact_mod_cast hn
    simp only [hn, if_true]
    by_cases hf : car / (P.numCars : ℚ) > 0
    · simp only [hf, if_true]
      refine ⟨le_of_lt hf, by linarith [le_of_lt hf], a3, hcar, a5, by linarith, a7⟩
    · simp only [hf, if_false]
      have hfrac : 0 ≤ car / (P.numCars : ℚ) := div_nonneg hcar (le_of_lt hnq)
      by_cases hc : k.nConsec ≥ 1
      · have hcq : (0 : ℚ) < (k.nConsec : ℚ) := by exact_mod_cast hc
        simp only [hc, if_true]
        exact ⟨hfrac, le_refl _, add_nonneg a3 (div_nonneg a2 (le_of_lt hcq)), le_refl _,
          add_nonneg a5 (div_nonneg hcar (le_of_lt hcq)), le_refl _, add_nonneg a7 a6⟩
      · simp only [hc, if_false]
        exact ⟨hfrac, le_refl _, a3, le_refl _, a5, le_refl _, a7⟩
  · simp only [hn, if_false, gt_iff_lt, lt_self_iff_false]
    by_cases hc : k.nConsec ≥ 1
    · have hcq : (0 : ℚ) < (k.nConsec : ℚ) := by exact_mod_cast hc
      simp only [hc, if_true]
      exact ⟨le_refl _, le_refl _, add_nonneg a3 (div_nonneg a2 (le_of_lt hcq)), le_refl _,
        add_nonneg a5 (div_nonneg hcar (le_of_lt hcq)), le_refl _, add_nonneg a7 a6⟩
    · simp only [hc, if_false]
      exact ⟨le_refl _, le_refl _, a3, le_refl _, a5, le_refl _, a7⟩

/-- … and stay zero as long as the park is not discharging (`curr_p_charge ≥ 0`). -/
theorem stats_zero_while_no_discharge (P : ParkP) (k : Park) (dt : ℚ) (hz : StatsZero k) (hc : 0 ≤ k.currPCharge) :
    StatsZero (logStats P k dt) := by
  obtain ⟨z1, z2, z3, z4, z5, z6, z7, z8, z9⟩ := hz
  unfold logStats
  have : ¬ k.currPCharge < 0 := not_lt.mpr hc
  simp only [this, if_false, zero_div]
  have h0 : ¬ ((if P.numCars > 0 then (0 : ℚ) else 0) > 0) := by split_ifs <;> simp
  simp only [h0, if_false, z8, ge_iff_le]
  refine ⟨by split_ifs <;> rfl, rfl, z3, rfl, z5, rfl, z7, rfl, z9⟩

/-- **A reset between iterations clears every interruption statistic, the running ones included**: whatever the park
went through before (an interruption may still be open), after `reset_status` the statistics are zero and the park is
not discharging — so by `stats_zero_while_no_discharge` they stay zero until a car of the new iteration is discharged. -/
theorem reset_clears_statistics (k : Park) : StatsZero (EV.reset k) ∧ 0 ≤ (EV.reset k).currPCharge ∧ (EV.reset k).cars = [] := by
  refine ⟨⟨rfl, rfl, rfl, rfl, rfl, rfl, rfl, rfl, rfl⟩, le_refl _, rfl⟩

/-- Non-vacuity: table value 2.5 rounds (half to even) to 2 cars at 50 % and 80 %. -/
example : (drawCars { bat := { pMax := 9/125, qMax := 9/125, eMax := 7/10, socMin0 := 1/5, socMax := 9/10, eta := 19/20 }, v2g := true, numCars := 3 }
    (5/2) [1/2, 4/5, 3/10]).map (fun r => (r.1, r.2.length)) = some (2, 2) := by decide +kernel

end Relsad.C12
