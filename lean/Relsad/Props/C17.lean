/-
C17  Time arithmetic is unit-consistent; simulated horizon matches the request.

Property theorems only (helper lemmas are local `private` facts about floor).  All
statements are over ℚ and quantify over every quantity / unit / stamp.
-/
import Relsad.Model.TimeM
import Relsad.Model.Increments
import Relsad.Lemmas.Basic
import Mathlib.Tactic.Ring
import Mathlib.Tactic.FieldSimp
import Mathlib.Tactic.NormNum
import Mathlib.Tactic.Linarith
import Mathlib.Algebra.Order.Floor.Ring
import Mathlib.Data.Rat.Floor

namespace Relsad.C17
open Relsad Relsad.Time Relsad.TimeUnit

theorem factor_pos (u : TimeUnit) : 0 < factor u := by
  cases u <;> simp [factor]

private theorem f_second : factor second = 1 := rfl
private theorem f_hour : factor hour = 3600 := rfl
private theorem f_day : factor day = 86400 := rfl

/-- Every one of the 49 conversion chains of Time.py equals `q · f(from) / f(to)`. -/
theorem get_eq_factor (t : Time) (u : TimeUnit) :
    t.getUnitQuantity u = t.quantity * factor t.unit / factor u := by
  obtain ⟨q, tu⟩ := t
  cases tu <;> cases u <;>
    simp only [getUnitQuantity, getSeconds, getMinutes, getHours, getDays, getWeeks, getMonths,
      getYears, factor, SEC_per_MIN, MIN_per_HOUR, HOUR_per_DAY, DAY_per_WEEK, WEEK_per_MONTH,
      MONTH_per_YEAR] <;> ring

/-- The duration in seconds is what every conversion preserves. -/
theorem seconds_convert (t : Time) (u : TimeUnit) : (t.convert u).getSeconds = t.getSeconds := by
  have h1 := get_eq_factor (t.convert u) second
  have h2 := get_eq_factor t second
  have h3 := get_eq_factor t u
  have hu := factor_pos u
  simp only [getUnitQuantity] at h1 h2
  rw [h1, h2]
  simp only [convert, h3, f_second, f_hour]
  field_simp

/-- Round trip: converting to any unit and back gives the same quantity. -/
theorem convert_round_trip (t : Time) (u : TimeUnit) :
    (t.convert u).convert t.unit = t := by
  obtain ⟨q, tu⟩ := t
  have hu := factor_pos u
  have ht := factor_pos tu
  simp only [convert, get_eq_factor]
  congr 1
  field_simp

/-- Conversions compose. -/
theorem convert_convert (t : Time) (u v : TimeUnit) :
    ((t.convert u).convert v).quantity = (t.convert v).quantity := by
  have hu := factor_pos u
  simp only [convert, get_eq_factor]
  field_simp

/-- Sums: the sum measured in any unit is the sum of the operands measured in that unit. -/
theorem add_get (a b : Time) (u : TimeUnit) :
    (a.add b).getUnitQuantity u = a.getUnitQuantity u + b.getUnitQuantity u := by
  have ha := factor_pos a.unit
  have hu := factor_pos u
  simp only [get_eq_factor, Time.add]
  field_simp

/-- Differences likewise. -/
theorem sub_get (a b : Time) (u : TimeUnit) :
    (a.sub b).getUnitQuantity u = a.getUnitQuantity u - b.getUnitQuantity u := by
  have ha := factor_pos a.unit
  have hu := factor_pos u
  simp only [get_eq_factor, Time.sub]
  field_simp

theorem lt_iff_seconds (a b : Time) : a.lt b = true ↔ a.getSeconds < b.getSeconds := by
  have ha := factor_pos a.unit
  have h1 := get_eq_factor a second
  have h2 := get_eq_factor b second
  simp only [getUnitQuantity] at h1 h2
  rw [h1, h2]
  simp only [Time.lt, get_eq_factor, f_second, decide_eq_true_eq, div_one]
  rw [lt_div_iff₀ ha]

theorem le_iff_seconds (a b : Time) : a.le b = true ↔ a.getSeconds ≤ b.getSeconds := by
  have ha := factor_pos a.unit
  have h1 := get_eq_factor a second
  have h2 := get_eq_factor b second
  simp only [getUnitQuantity] at h1 h2
  rw [h1, h2]
  simp only [Time.le, get_eq_factor, f_second, decide_eq_true_eq, div_one]
  rw [le_div_iff₀ ha]

theorem eq_iff_seconds (a b : Time) : a.eq b = true ↔ a.getSeconds = b.getSeconds := by
  have ha := factor_pos a.unit
  have h1 := get_eq_factor a second
  have h2 := get_eq_factor b second
  simp only [getUnitQuantity] at h1 h2
  rw [h1, h2]
  simp only [Time.eq, get_eq_factor, f_second, beq_iff_eq, div_one]
  rw [eq_div_iff (ne_of_gt ha)]

/-- Comparisons give the same answer whatever units the operands are expressed in. -/
theorem lt_unit_invariant (a b : Time) (u v : TimeUnit) :
    (a.convert u).lt (b.convert v) = a.lt b := by
  rw [Bool.eq_iff_iff, lt_iff_seconds, lt_iff_seconds, seconds_convert, seconds_convert]

theorem le_unit_invariant (a b : Time) (u v : TimeUnit) :
    (a.convert u).le (b.convert v) = a.le b := by
  rw [Bool.eq_iff_iff, le_iff_seconds, le_iff_seconds, seconds_convert, seconds_convert]

theorem eq_unit_invariant (a b : Time) (u v : TimeUnit) :
    (a.convert u).eq (b.convert v) = a.eq b := by
  rw [Bool.eq_iff_iff, eq_iff_seconds, eq_iff_seconds, seconds_convert, seconds_convert]

/-- Equal durations compare equal: a time equals each of its conversions. -/
theorem eq_of_same_duration (t : Time) (u : TimeUnit) : t.eq (t.convert u) = true := by
  rw [eq_iff_seconds, seconds_convert]

theorem gt_eq_lt_swap (a b : Time) : a.gt b = true ↔ b.getSeconds < a.getSeconds := by
  have ha := factor_pos a.unit
  have h1 := get_eq_factor a second
  have h2 := get_eq_factor b second
  simp only [getUnitQuantity] at h1 h2
  rw [h1, h2]
  simp only [Time.gt, get_eq_factor, f_second, decide_eq_true_eq, div_one, gt_iff_lt]
  rw [div_lt_iff₀ ha]

theorem ge_iff_seconds (a b : Time) : a.ge b = true ↔ b.getSeconds ≤ a.getSeconds := by
  have ha := factor_pos a.unit
  have h1 := get_eq_factor a second
  have h2 := get_eq_factor b second
  simp only [getUnitQuantity] at h1 h2
  rw [h1, h2]
  simp only [Time.ge, get_eq_factor, f_second, decide_eq_true_eq, div_one, ge_iff_le]
  rw [div_le_iff₀ ha]

/-- Ratios do not depend on the units of the operands. -/
theorem div_unit_invariant (a b : Time) (u v : TimeUnit) :
    (a.convert u).div? (b.convert v) = a.div? b := by
  have e : ∀ t : Time, ∀ w, (t.convert w).getHours = t.getHours := by
    intro t w
    have h1 := get_eq_factor (t.convert w) hour
    have h2 := get_eq_factor t hour
    have h3 := get_eq_factor t w
    have hw := factor_pos w
    simp only [getUnitQuantity] at h1 h2
    rw [h1, h2]; simp only [convert, h3, f_second, f_hour]; field_simp
  simp only [Time.div?, e]

/-- The ratio is the ratio of durations, and is defined exactly when the divisor is non-zero. -/
theorem div_spec (a b : Time) (hb : b.quantity ≠ 0) :
    a.div? b = some (a.getSeconds / b.getSeconds) := by
  have h1 := get_eq_factor a second
  have h2 := get_eq_factor b second
  have h3 := get_eq_factor a hour
  have h4 := get_eq_factor b hour
  have hbu := factor_pos b.unit
  simp only [getUnitQuantity] at h1 h2 h3 h4
  have hne : b.getHours ≠ 0 := by
    rw [h4]; simp only [f_hour]
    have : b.quantity * factor b.unit ≠ 0 := mul_ne_zero hb (ne_of_gt hbu)
    intro h; apply this; field_simp at h; simpa using h
  simp only [Time.div?, beq_iff_eq, hne, if_false, Option.some.injEq]
  rw [h1, h2, h3, h4]; simp only [f_second, f_hour]; field_simp

theorem div_zero_rejected (a b : Time) (hb : b.quantity = 0) : a.div? b = none := by
  have h4 := get_eq_factor b hour
  simp only [getUnitQuantity] at h4
  simp [Time.div?, h4, hb]

/-! ### Hour of day -/

/-- The hour of day is always an integer from 0 to 23, for every stamp and every elapsed time. -/
theorem hourOfDay_range (s : TimeStamp) (p : Time) :
    0 ≤ s.getHourOfDay p ∧ s.getHourOfDay p < 24 := by
  unfold TimeStamp.getHourOfDay
  exact ⟨Int.emod_nonneg _ (by norm_num), Int.emod_lt_of_pos _ (by norm_num)⟩

/-- **The hour of day depends on the start stamp only through its time of day**: the stamp's year, month and day (which
are not whole numbers of days in this calendar: a month is 4.3452 weeks) do not enter. -/
theorem hourOfDay_ignores_date (s s' : TimeStamp) (p : Time)
    (hh : s.hour = s'.hour) (hm : s.minute = s'.minute) (hs : s.second = s'.second) :
    s.getHourOfDay p = s'.getHourOfDay p := by
  unfold TimeStamp.getHourOfDay
  rw [hh, hm, hs]

/-- e.g. a run started on 2019-01-01 07:45 uses the same hours of day as one started at 07:45 of day 0 -/
example : (⟨2019, 1, 1, 7, 45, 0⟩ : TimeStamp).getHourOfDay ⟨33/2, .hour⟩ = 0 ∧
    (⟨0, 0, 0, 7, 45, 0⟩ : TimeStamp).getHourOfDay ⟨33/2, .hour⟩ = 0 := by
  constructor <;> decide +kernel

private theorem whole_sec_frac (J : ℤ) :
    ((J : ℚ) / 3600) ≤ (⌊(J : ℚ) / 3600⌋ : ℚ) + 1 - 1 / 10 ^ 6 := by
  have hf : ⌊(J : ℚ) / 3600⌋ = J / 3600 := by
    have := Rat.floor_intCast_div_natCast J 3600
    simpa using this
  rw [hf]
  have h1 : J = 3600 * (J / 3600) + J % 3600 := (Int.mul_ediv_add_emod J 3600).symm
  have h2 : J % 3600 ≤ 3599 := by omega
  have h3 : (J : ℚ) = 3600 * ((J / 3600 : ℤ) : ℚ) + ((J % 3600 : ℤ) : ℚ) := by exact_mod_cast h1
  have h4 : ((J % 3600 : ℤ) : ℚ) ≤ 3599 := by exact_mod_cast h2
  rw [div_le_iff₀ (by norm_num)]
  nlinarith

/-- Within the first month of a run the hour of day equals start hour (with the stamp's
minutes and seconds) plus the elapsed time, in whole hours, modulo 24 — for every stamp and
every elapsed time that is a whole number of seconds (on such times the 6-decimal rounding
guard of the implementation is provably inert). -/
theorem hourOfDay_spec (s : TimeStamp) (p : Time)
    (hh : 0 ≤ s.hour) (hm : 0 ≤ s.minute) (hs : 0 ≤ s.second)
    (hp : 0 ≤ p.quantity) (hmonth : p.getMonths ≤ 1) (hw : ∃ K : ℤ, p.getSeconds = K) :
    s.getHourOfDay p =
      ⌊(s.hour : ℚ) + (s.minute : ℚ) / 60 + (s.second : ℚ) / 3600 + p.getHours⌋ % 24 := by
  have hpu := factor_pos p.unit
  have hY := get_eq_factor p year
  have hM := get_eq_factor p month
  have hD := get_eq_factor p day
  have hH := get_eq_factor p hour
  have hS := get_eq_factor p second
  simp only [getUnitQuantity] at hY hM hD hH hS
  rw [f_second, div_one] at hS
  rw [f_hour] at hH
  rw [f_day] at hD
  have hM1 : p.quantity * factor p.unit ≤ factor month := by
    rw [hM] at hmonth; rwa [div_le_one (factor_pos month)] at hmonth
  have hy : ¬ (p.getYears > 1) := by
    rw [hY, gt_iff_lt, not_lt, div_le_one (factor_pos year)]
    refine le_trans hM1 ?_; simp only [factor]; norm_num
  have hmo : ¬ (p.getMonths > 1) := not_lt.mpr hmonth
  have hsec0 : 0 ≤ p.quantity * factor p.unit := mul_nonneg hp (le_of_lt hpu)
  have hd0 : 0 ≤ p.getDays := by rw [hD]; exact div_nonneg hsec0 (by norm_num)
  obtain ⟨K, hK⟩ := hw
  have hHK : p.getHours = (K : ℚ) / 3600 := by rw [hH, ← hS, hK]
  -- generic evaluation of the tail of the computation on a time `d` with known hours
  have tail : ∀ d : Time, ∀ k : ℤ, d.getHours = p.getHours - 24 * k →
      0 ≤ d.getHours →
      pyInt (pyRoundN ((((d.add ⟨(s.hour : ℚ), .hour⟩).add ⟨(s.minute : ℚ), .minute⟩).add
        ⟨(s.second : ℚ), .second⟩).getHours) 6) % 24 =
      ⌊(s.hour : ℚ) + (s.minute : ℚ) / 60 + (s.second : ℚ) / 3600 + p.getHours⌋ % 24 := by
    intro d k hd hd0'
    have e : (((d.add ⟨(s.hour : ℚ), .hour⟩).add ⟨(s.minute : ℚ), .minute⟩).add
        ⟨(s.second : ℚ), .second⟩).getHours
        = d.getHours + (s.hour : ℚ) + (s.minute : ℚ) / 60 + (s.second : ℚ) / 3600 := by
      have := add_get ((d.add ⟨(s.hour : ℚ), .hour⟩).add ⟨(s.minute : ℚ), .minute⟩)
        ⟨(s.second : ℚ), .second⟩ hour
      have h2 := add_get (d.add ⟨(s.hour : ℚ), .hour⟩) ⟨(s.minute : ℚ), .minute⟩ hour
      have h3 := add_get d ⟨(s.hour : ℚ), .hour⟩ hour
      simp only [getUnitQuantity] at this h2 h3
      rw [this, h2, h3]
      simp only [getHours, SEC_per_MIN, MIN_per_HOUR]
      ring
    have hh' : (0 : ℚ) ≤ s.hour := by exact_mod_cast hh
    have hm' : (0 : ℚ) ≤ s.minute := by exact_mod_cast hm
    have hs' : (0 : ℚ) ≤ s.second := by exact_mod_cast hs
    rw [e]
    have hx0 : 0 ≤ d.getHours + (s.hour : ℚ) + (s.minute : ℚ) / 60 + (s.second : ℚ) / 3600 := by positivity
    have hJ : d.getHours + (s.hour : ℚ) + (s.minute : ℚ) / 60 + (s.second : ℚ) / 3600
        = ((K + 3600 * s.hour + 60 * s.minute + s.second - 86400 * k : ℤ) : ℚ) / 3600 := by
      rw [hd, hHK]; push_cast; ring
    rw [pyInt_of_nonneg (pyRoundN_nonneg 6 hx0)]
    have hfl := floor_pyRoundN6 (x := d.getHours + (s.hour : ℚ) + (s.minute : ℚ) / 60 + (s.second : ℚ) / 3600)
      (N := ⌊d.getHours + (s.hour : ℚ) + (s.minute : ℚ) / 60 + (s.second : ℚ) / 3600⌋) (Int.floor_le _)
      (by rw [hJ]; exact whole_sec_frac _)
    rw [hfl, hd]
    have : p.getHours - 24 * (k : ℚ) + (s.hour : ℚ) + (s.minute : ℚ) / 60 + (s.second : ℚ) / 3600
        = ((s.hour : ℚ) + (s.minute : ℚ) / 60 + (s.second : ℚ) / 3600 + p.getHours) - ((24 * k : ℤ) : ℚ) := by
      push_cast; ring
    rw [this, Int.floor_sub_intCast, Int.sub_mul_emod_self_left]
  unfold TimeStamp.getHourOfDay
  simp only [hy, hmo, if_false]
  have hHD : p.getHours = p.getDays * 24 := by
    rw [hH, hD]; field_simp; ring
  by_cases hdd : p.getDays > 1
  · simp only [hdd, if_true]
    have hsub := sub_get ⟨p.quantity, p.unit⟩ ⟨((pyInt (Time.getDays ⟨p.quantity, p.unit⟩) : ℤ) : ℚ), .day⟩ hour
    simp only [getUnitQuantity] at hsub
    have eH : Time.getHours ⟨p.quantity, p.unit⟩ = p.getHours := rfl
    have eD : Time.getDays ⟨p.quantity, p.unit⟩ = p.getDays := rfl
    refine tail _ (pyInt p.getDays) ?_ ?_
    · rw [hsub, eH, eD]; simp only [getHours, HOUR_per_DAY]; ring
    · rw [hsub, eH, eD]
      have hfl : ((pyInt p.getDays : ℤ) : ℚ) ≤ p.getDays := by
        rw [pyInt_of_nonneg hd0]; exact Int.floor_le _
      have e2 : Time.getHours ⟨((pyInt p.getDays : ℤ) : ℚ), .day⟩ = ((pyInt p.getDays : ℤ) : ℚ) * 24 := by
        simp only [getHours, HOUR_per_DAY]
      rw [e2, hHD]
      linarith
  · simp only [hdd, if_false]
    refine tail _ 0 ?_ ?_
    · simp
    · have : Time.getHours ⟨p.quantity, p.unit⟩ = p.getHours := rfl
      rw [this, hH]; exact div_nonneg hsec0 (by norm_num)

/-! ### Number of increments and the time axis -/

/-- A whole quotient is reproduced exactly: a period of `n` steps gives `n` increments. -/
theorem increments_exact (step : ℚ) (n : ℕ) (hs : 0 < step) :
    increments ((n : ℚ) * step) step = n := by
  unfold increments
  have : (n : ℚ) * step / step = ((n : ℤ) : ℚ) := by field_simp; simp
  rw [this, pyRoundN_intCast, pyInt_of_nonneg (by positivity)]
  simp

/-- Longer periods never give fewer increments. -/
theorem increments_mono (p q step : ℚ) (hs : 0 < step) (hp : 0 ≤ p) (hpq : p ≤ q) :
    increments p step ≤ increments q step := by
  unfold increments
  have h1 : 0 ≤ p / step := div_nonneg hp (le_of_lt hs)
  have h2 : p / step ≤ q / step := div_le_div_of_nonneg_right hpq (le_of_lt hs)
  rw [pyInt_of_nonneg (pyRoundN_nonneg 6 h1), pyInt_of_nonneg (pyRoundN_nonneg 6 (le_trans h1 h2))]
  exact Int.floor_le_floor (pyRoundN_mono 6 h2)

/-- Between whole quotients the count is the truncated quotient (the rounding guard only acts
within 10⁻⁶ of the next whole number). -/
theorem increments_floor (p step : ℚ) (hs : 0 < step) (hp : 0 ≤ p)
    (hfrac : p / step ≤ (⌊p / step⌋ : ℚ) + 1 - 1 / 10 ^ 6) :
    increments p step = ⌊p / step⌋ := by
  unfold increments
  rw [pyInt_of_nonneg (pyRoundN_nonneg 6 (div_nonneg hp (le_of_lt hs)))]
  exact floor_pyRoundN6 (Int.floor_le _) hfrac

/-- Equal-length periods give equal-length simulations (whatever unit they are written in). -/
theorem increments_unit_invariant (period step : Time) (u v : TimeUnit) :
    incrementsT (period.convert u) (step.convert v) = incrementsT period step := by
  simp only [incrementsT, div_unit_invariant]

/-- The time axis has exactly `n` instants, the k-th being `(k+1)·step`. -/
theorem timeArray_length (n : ℕ) (step : ℚ) : (timeArray n step).length = n := by
  simp [timeArray]

theorem timeArray_get (n : ℕ) (step : ℚ) (k : ℕ) (hk : k < n) :
    (timeArray n step)[k]? = some (((k : ℚ) + 1) * step) := by
  simp [timeArray, hk]

/-- Non-vacuity: the first-month hypothesis of `hourOfDay_spec` is met by e.g. 400 minutes
after 00:30 (the case of tests/test_TimeStamp.py::test_hour_of_day_3), and the answer is 7. -/
example : (⟨400, minute⟩ : Time).getMonths ≤ 1 ∧
    ({ minute := 30 } : TimeStamp).getHourOfDay ⟨400, minute⟩ = 7 ∧
    (∃ K : ℤ, (⟨400, minute⟩ : Time).getSeconds = K) := by
  refine ⟨by simp [getMonths, MIN_per_HOUR, HOUR_per_DAY, DAY_per_WEEK, WEEK_per_MONTH]; norm_num, by decide +kernel, ⟨24000, by simp [getSeconds, SEC_per_MIN]; norm_num⟩⟩

end Relsad.C17
