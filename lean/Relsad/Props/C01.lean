/-
C01  Energy not supplied is bounded by demand and accumulates exactly.

One increment of one load point, in the order `run_increment` issues the operations:
  P1  set_load_and_cost            load := profile·customers  (p0, q0 ≥ 0)
  P2  transformer failed?          whole load onto the stack, load := 0
  P4  batteries / EV parks         charging load added (ep, eq ≥ 0)
      shed_energy (LP)             stack += shed·h with 0 ≤ shed ≤ current load
                                   (bounds of the LP: C03 `reported_within_bounds`, re-checked per call)
      update_history               acc += stack; outage time; stack := 0      (only in logged increments)
-/
import Relsad.Model.BusAcct
import Relsad.Props.C10

namespace Relsad.C01
open Relsad Relsad.BusAcc Relsad.Indices

/-- Inputs of one increment for one bus. -/
structure Inc where
  p0 : ℚ
  q0 : ℚ
  trafoFailed : Bool
  ep : ℚ          -- charging load added by storage on this bus
  eq : ℚ
  sp : ℚ          -- LP shed amounts (after the 1e-4 threshold)
  sq : ℚ
  h : ℚ           -- step length in hours
  logged : Bool   -- whether update_sequence_history runs in this increment

/-- the state just before logging -/
def beforeLog (b : BusAcc) (i : Inc) : BusAcc :=
  let b1 := b.setLoad i.p0 i.q0
  let b2 := if i.trafoFailed then b1.shedLoad i.h else b1
  let b3 := b2.addLoad i.ep i.eq
  b3.addToStack i.sp i.sq i.h

def step (b : BusAcc) (i : Inc) : BusAcc :=
  let b4 := beforeLog b i
  if i.logged then b4.log i.h else b4

/-- Admissible inputs: non-negative demand, charging load and step; shed within the load present. -/
structure Inc.Ok (i : Inc) : Prop where
  p0 : 0 ≤ i.p0
  q0 : 0 ≤ i.q0
  ep : 0 ≤ i.ep
  eq : 0 ≤ i.eq
  h : 0 ≤ i.h
  sp0 : 0 ≤ i.sp
  sq0 : 0 ≤ i.sq
  sp : i.sp ≤ (if i.trafoFailed then 0 else i.p0) + i.ep
  sq : i.sq ≤ (if i.trafoFailed then 0 else i.q0) + i.eq

/-- the demand of the load point over the increment -/
def demandP (i : Inc) : ℚ := (i.p0 + i.ep) * i.h
def demandQ (i : Inc) : ℚ := (i.q0 + i.eq) * i.h

theorem beforeLog_stack (b : BusAcc) (i : Inc) :
    (beforeLog b i).pStack = b.pStack + (if i.trafoFailed then i.p0 else 0) * i.h + i.sp * i.h ∧
    (beforeLog b i).qStack = b.qStack + (if i.trafoFailed then i.q0 else 0) * i.h + i.sq * i.h := by
  unfold beforeLog
  cases i.trafoFailed <;> simp [setLoad, shedLoad, addLoad, addToStack]

/-- **Per increment**: the energy recorded as not supplied is non-negative and never exceeds the
load point's demand over the increment (the stack is empty at the start of every logged increment). -/
theorem stack_bounds (b : BusAcc) (i : Inc) (ok : i.Ok) (h0 : b.pStack = 0) (h0q : b.qStack = 0) :
    0 ≤ (beforeLog b i).pStack ∧ (beforeLog b i).pStack ≤ demandP i ∧
    0 ≤ (beforeLog b i).qStack ∧ (beforeLog b i).qStack ≤ demandQ i := by
  obtain ⟨e1, e2⟩ := beforeLog_stack b i
  rw [e1, e2, h0, h0q]
  unfold demandP demandQ
  have hh := ok.h
  have := ok.sp; have := ok.sq; have := ok.sp0; have := ok.sq0
  have := ok.p0; have := ok.q0; have := ok.ep; have := ok.eq
  cases hf : i.trafoFailed <;> simp only [hf, if_true, if_false, Bool.false_eq_true] at * <;>
    refine ⟨by positivity, ?_, by positivity, ?_⟩ <;> nlinarith

/-- logging moves exactly the stack into the accumulator and empties the stack -/
theorem log_acc (b : BusAcc) (h : ℚ) :
    (b.log h).accP = b.accP + b.pStack ∧ (b.log h).accQ = b.accQ + b.qStack ∧
    (b.log h).pStack = 0 ∧ (b.log h).qStack = 0 := by
  unfold BusAcc.log; simp only; split_ifs <;> exact ⟨rfl, rfl, rfl, rfl⟩

/-- what one increment adds to the accumulator -/
def shedOf (i : Inc) : ℚ := ((if i.trafoFailed then i.p0 else 0) + i.sp) * i.h

theorem beforeLog_acc (b : BusAcc) (i : Inc) : (beforeLog b i).accP = b.accP := by
  unfold beforeLog
  cases i.trafoFailed <;> simp [setLoad, shedLoad, addLoad, addToStack]

/-- **Over a whole history of logged increments** the cumulative energy not supplied never
decreases, equals the sum of the per-increment amounts, and never exceeds the energy demanded. -/
theorem acc_history (is : List Inc) (b : BusAcc) (hok : ∀ i ∈ is, i.Ok) (hlog : ∀ i ∈ is, i.logged = true)
    (h0 : b.pStack = 0) :
    let b' := is.foldl step b
    b'.pStack = 0 ∧
    b'.accP = b.accP + (is.map shedOf).sum ∧
    b.accP ≤ b'.accP ∧
    b'.accP ≤ b.accP + (is.map demandP).sum := by
  induction is generalizing b with
  | nil => simp [h0]
  | cons i is ih =>
    have ok := hok i List.mem_cons_self
    have hl := hlog i List.mem_cons_self
    simp only [List.foldl_cons, List.map_cons, List.sum_cons]
    have e : step b i = (beforeLog b i).log i.h := by unfold step; simp [hl]
    obtain ⟨a1, _, a3, _⟩ := log_acc (beforeLog b i) i.h
    obtain ⟨s1, _⟩ := beforeLog_stack b i
    have hacc : (step b i).accP = b.accP + shedOf i := by
      rw [e, a1, beforeLog_acc, s1, h0]; unfold shedOf; ring
    have hst : (step b i).pStack = 0 := by rw [e]; exact a3
    obtain ⟨r1, r2, r3, r4⟩ := ih (step b i) (fun j hj => hok j (List.mem_cons_of_mem _ hj))
      (fun j hj => hlog j (List.mem_cons_of_mem _ hj)) hst
    have hs0 : 0 ≤ shedOf i := by
      unfold shedOf
      have := ok.h; have := ok.sp0; have := ok.p0
      cases hf : i.trafoFailed <;> simp only [if_true, if_false, Bool.false_eq_true] <;> positivity
    have hsd : shedOf i ≤ demandP i := by
      unfold shedOf demandP
      have := ok.h; have := ok.sp; have := ok.ep; have := ok.p0
      cases hf : i.trafoFailed <;> simp only [hf, if_true, if_false, Bool.false_eq_true] at * <;> nlinarith
    refine ⟨r1, ?_, ?_, ?_⟩
    · rw [r2, hacc]; ring
    · linarith
    · linarith

/-- Network and system level: the accumulated value is the sum over the load points, hence
inherits monotonicity and the demand bound (see `C10.levels_agree`, `C10.network_acc_eq_ens`). -/
theorem network_level (bs : List BusAcc) (h : ℚ) :
    sumBy (·.accP) (bs.map (fun b => b.log h)) = sumBy (·.accP) bs + sumBy (·.pStack) bs :=
  (C10.levels_agree bs h).1

/-- Non-vacuity: a bus with demand 1/20 MW whose feeder is out for an hour sheds it all. -/
example : (step {} { p0 := 1/20, q0 := 0, trafoFailed := false, ep := 0, eq := 0, sp := 1/20, sq := 0, h := 1, logged := true }).accP = 1/20 := by
  decide +kernel

end Relsad.C01
