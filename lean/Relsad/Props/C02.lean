/-
C02  Load is shed only for a reason; unsupplied islands shed everything.

LP-level statements, for every island problem: the balance obtained by summing all bus rows
(any island sheds at least its demand minus the supply available inside it); a certified
solution sheds (cost-weighted) no more than `gap` whenever a zero-shed point is feasible
(a fed load point whose path capacities suffice is supplied in full).
The column-sum pattern of the matrix (each line leaves one bus and enters another) is checked
by the driver on every instance the implementation builds; the adequacy of the capacities is a
numeric fact about the 5-sweep load flow and is likewise decided per instance.
-/
import Relsad.Model.LP
import Relsad.Lemmas.LPL
import Relsad.Props.C03

namespace Relsad.C02
open Relsad.LP

theorem dot_ones (b : List ℚ) : dot (List.replicate b.length 1) b = sumL b := by
  induction b with
  | nil => simp [dot, sumL]
  | cons b bs ih => simp only [List.length_cons, List.replicate_succ, dot, sumL, List.foldr_cons] at *; rw [ih]; ring

/-- **Summing all rows**: for every LP and every point satisfying its rows, the column sums
applied to the point give the sum of the right-hand sides. -/
theorem balance (p : LP) (x : List ℚ) (hx : Feasible p x) : dot (colSums p) x = sumL p.b := by
  obtain ⟨h1, _, _, _, h5, h6, h7, _⟩ := hx
  unfold colSums
  rw [dot_yTA p.n (List.replicate p.A.length 1) p.b p.A x h1 h5 h6 (by simp) h7]
  rw [← h6]; exact dot_ones p.b

theorem dot_append (a1 a2 x1 x2 : List ℚ) (h : a1.length = x1.length) :
    dot (a1 ++ a2) (x1 ++ x2) = dot a1 x1 + dot a2 x2 := by
  induction a1 generalizing x1 with
  | nil => cases x1 with
    | nil => simp [dot]
    | cons _ _ => simp at h
  | cons a as ih =>
    cases x1 with
    | nil => simp at h
    | cons x xs => simp only [List.cons_append, dot]; rw [ih xs (by simpa using h)]; ring

theorem dot_replicate_one (x : List ℚ) (n : ℕ) (h : n = x.length) : dot (List.replicate n 1) x = sumL x := by
  subst h; exact dot_ones x

theorem dot_zeros_left (x : List ℚ) (n : ℕ) : dot (zeros n) x = 0 := dot_zeros n x

/-- **Island balance**: with the column-sum pattern of a network matrix (every line leaves one
bus and enters another, so its column cancels), total shed + total generation + N·slack = total demand. -/
theorem island_balance (p : LP) (nd nl : ℕ) (sh fl ge : List ℚ) (a : ℚ)
    (hpat : colSums p = List.replicate nd 1 ++ zeros nl ++ List.replicate nd 1 ++ [(nd : ℚ)])
    (hsh : sh.length = nd) (hfl : fl.length = nl) (hge : ge.length = nd)
    (hx : Feasible p (sh ++ fl ++ ge ++ [a])) :
    sumL sh + sumL ge + (nd : ℚ) * a = sumL p.b := by
  have := balance p _ hx
  rw [hpat] at this
  rw [dot_append _ _ _ _ (by simp [zeros, hsh, hfl, hge]), dot_append _ _ _ _ (by simp [zeros, hsh, hfl]),
    dot_append _ _ _ _ (by simp [hsh]), dot_replicate_one sh nd hsh.symm, dot_zeros_left, dot_replicate_one ge nd hge.symm] at this
  simp only [dot] at this
  linarith

theorem sumL_le (xs us : List ℚ) (h : InBox xs (zeros xs.length) us) : sumL xs ≤ sumL us := by
  induction xs generalizing us with
  | nil => cases us <;> simp_all [sumL, zeros, InBox]
  | cons x xs ih =>
    cases us with
    | nil => simp [zeros, List.replicate, InBox] at h
    | cons u us =>
      simp only [List.length_cons, zeros, List.replicate, InBox] at h
      simp only [sumL, List.foldr_cons] at *
      have := ih us h.2.2
      linarith [h.2.1]

/-- **Any island sheds at least its demand minus the supply available inside it** (minus N·α). -/
theorem shed_ge_demand_minus_supply (p : LP) (nd nl : ℕ) (sh fl ge genMax : List ℚ) (a alpha : ℚ)
    (hpat : colSums p = List.replicate nd 1 ++ zeros nl ++ List.replicate nd 1 ++ [(nd : ℚ)])
    (hsh : sh.length = nd) (hfl : fl.length = nl) (hge : ge.length = nd)
    (hx : Feasible p (sh ++ fl ++ ge ++ [a]))
    (hgen : InBox ge (zeros ge.length) genMax) (ha : a ≤ alpha) :
    sumL p.b - sumL genMax - (nd : ℚ) * alpha ≤ sumL sh := by
  have hb := island_balance p nd nl sh fl ge a hpat hsh hfl hge hx
  have hg := sumL_le ge genMax hgen
  have : (nd : ℚ) * a ≤ (nd : ℚ) * alpha := mul_le_mul_of_nonneg_left ha (by positivity)
  linarith

/-- **An island without any source sheds its entire demand** (up to N·α in total). -/
theorem sourceless_sheds_all (p : LP) (nd nl : ℕ) (sh fl ge : List ℚ) (a alpha : ℚ)
    (hpat : colSums p = List.replicate nd 1 ++ zeros nl ++ List.replicate nd 1 ++ [(nd : ℚ)])
    (hsh : sh.length = nd) (hfl : fl.length = nl) (hge : ge.length = nd)
    (hx : Feasible p (sh ++ fl ++ ge ++ [a]))
    (hgen : InBox ge (zeros ge.length) (zeros ge.length)) (ha : a ≤ alpha) :
    sumL p.b - (nd : ℚ) * alpha ≤ sumL sh := by
  have := shed_ge_demand_minus_supply p nd nl sh fl ge (zeros ge.length) a alpha hpat hsh hfl hge hx hgen ha
  have hz : sumL (zeros ge.length) = 0 := by
    generalize ge.length = k
    induction k with
    | zero => simp [zeros, sumL]
    | succ k ih => simp only [zeros, List.replicate_succ, sumL, List.foldr_cons] at *; linarith
  linarith

/-- **A supplied load point is supplied in full**: if a point shedding nothing is feasible
(the feed reaches every load through lines whose limits suffice), every certified solution has
cost at most `gap` — with positive costs it sheds nothing beyond the numerical slack. -/
theorem fed_zero_shed (p : LP) (x y z : List ℚ) (gap tol : ℚ) (hcert : checkCert p x y gap tol = true)
    (hz : isFeasible p z = true) (hz0 : cost p z = 0) : cost p x ≤ gap := by
  have := C03.cert_vs_witness p x y z gap tol hcert hz
  linarith

/-- dropping amounts up to α loses at most α per bus -/
theorem threshold_sum (alpha : ℚ) (ha : 0 ≤ alpha) (sh : List ℚ) (h0 : ∀ s ∈ sh, 0 ≤ s) :
    sumL sh - (sh.length : ℚ) * alpha ≤ sumL (sh.map (fun s => if s > alpha then s else 0)) ∧
    sumL (sh.map (fun s => if s > alpha then s else 0)) ≤ sumL sh := by
  induction sh with
  | nil => simp [sumL]
  | cons s t ih =>
    obtain ⟨i1, i2⟩ := ih (fun x hx => h0 x (List.mem_cons_of_mem _ hx))
    have hs := h0 s List.mem_cons_self
    have e1 : sumL (s :: t) = s + sumL t := by simp [sumL]
    have e2 : sumL ((s :: t).map (fun s => if s > alpha then s else 0)) =
        (if s > alpha then s else 0) + sumL (t.map (fun s => if s > alpha then s else 0)) := by simp [sumL]
    rw [e1, e2]
    simp only [List.length_cons, Nat.cast_add, Nat.cast_one]
    split_ifs with h
    · constructor <;> linarith
    · have := not_lt.mp h
      constructor <;> linarith

/-- **What is recorded as shed** (the solution with amounts up to α dropped, `C03.reported_eq_threshold`) **still covers
the island's deficit**: the recorded total is at least demand minus the supply available in the island, up to the
documented slack (α per bus for the balance variable, α per bus for the threshold) — and never more than the solution
sheds.  In an island without sources the recorded shed is the whole demand up to that slack. -/
theorem recorded_ge_demand_minus_supply (p : LP) (nd nl : ℕ) (sh fl ge genMax : List ℚ) (a alpha : ℚ)
    (hpat : colSums p = List.replicate nd 1 ++ zeros nl ++ List.replicate nd 1 ++ [(nd : ℚ)])
    (hsh : sh.length = nd) (hfl : fl.length = nl) (hge : ge.length = nd)
    (hx : Feasible p (sh ++ fl ++ ge ++ [a]))
    (hgen : InBox ge (zeros ge.length) genMax) (ha : a ≤ alpha) (h0 : ∀ s ∈ sh, 0 ≤ s) (hal : 0 ≤ alpha) :
    sumL p.b - sumL genMax - 2 * (nd : ℚ) * alpha ≤ sumL (sh.map (fun s => if s > alpha then s else 0)) ∧
    sumL (sh.map (fun s => if s > alpha then s else 0)) ≤ sumL sh := by
  have h1 := shed_ge_demand_minus_supply p nd nl sh fl ge genMax a alpha hpat hsh hfl hge hx hgen ha
  obtain ⟨t1, t2⟩ := threshold_sum alpha hal sh h0
  rw [hsh] at t1
  exact ⟨by linarith, t2⟩

/-- Non-vacuity of the pattern hypothesis: the island LP of a fed two-bus feeder has it. -/
example : colSums (build { buses := [⟨0, 5, 100000000⟩, ⟨2/5, 3, 0⟩], lines := [⟨0, 1, 1/4⟩], alpha := 0 }) =
    List.replicate 2 1 ++ zeros 1 ++ List.replicate 2 1 ++ [((2 : ℕ) : ℚ)] := by decide +kernel

end Relsad.C02
