/-
C06  After the last repair the network returns to normal and shedding stops.

Proved: the normal configuration is a fixed point of a quiet increment, for every configuration
and step; a running sectioning timer reaches zero after exactly ⌈T/dt⌉ quiet control passes
(closed form), and the parent timer handed to a microgrid elapses in step with it.
NOT proved (stated): `ReturnsToNormal` — from every reachable state without failed lines the
normal configuration is reached within the stated number of quiet increments.  The check
decides it on every generated history (model and implementation) by running the quiet tail.
-/
import Relsad.Model.Control
import Relsad.Lemmas.ControlL
import Relsad.Props.C05
import Mathlib.Algebra.Order.Field.Rat
import Mathlib.Tactic.Linarith
import Mathlib.Tactic.Ring
import Mathlib.Tactic.Positivity

namespace Relsad.C06
open Relsad.Control

/-- full statement (not proved): bounded return to the normal configuration -/
def ReturnsToNormal (C : Cfg) (dt : ℚ) (bound : ℕ) : Prop :=
  ∀ s, C05.Reach C s → s.failed.all (!·) = true → ∃ k, k ≤ bound ∧ ((fun s => step C s dt)^[k] s) = St.init C

private theorem lineUpdate_init (C : Cfg) (l : Nat) (dt : ℚ) : lineUpdate C (St.init C) l dt = St.init C := by
  unfold lineUpdate
  have hf : gb (St.init C).failed l = false := gb_map_const _ _
  rw [hf]
  simp only [Bool.false_eq_true, if_false]
  unfold lineNotFail
  simp only
  have hcnt : (((C.nets.getD (C.lines.getD l default).net default).lines.filter (fun k => gb (St.init C).failed k)).length == 1 && gb (St.init C).failed l) = false := by
    rw [hf]; simp
  rw [hcnt]
  simp only [Bool.false_eq_true, if_false]
  show ({ St.init C with failed := (St.init C).failed.set l false } : St) = St.init C
  have : (St.init C).failed.set l false = (St.init C).failed := by
    simp only [St.init]; exact set_map_const _ _ _
  rw [this]

private theorem tick_zero (dt : ℚ) : tick 0 dt = 0 := by unfold tick; simp

private theorem checkBreaker_init (C : Cfg) (n : Nat) : checkBreakerManually C (St.init C) n = St.init C := by
  unfold checkBreakerManually
  have : gb (St.init C).cbOpen (C.nets.getD n default).cb = false := gb_map_const _ _
  simp only [this, Bool.not_false, if_true]

private theorem init_timer_set (C : Cfg) (n : Nat) : (St.init C).timer.set n 0 = (St.init C).timer := by
  simp only [St.init]; exact set_map_const _ _ _

private theorem init_ptimer_set (C : Cfg) (n : Nat) : (St.init C).pTimer.set n 0 = (St.init C).pTimer := by
  simp only [St.init]; exact set_map_const _ _ _

private theorem distLoop_init (C : Cfg) (n : Nat) (dt : ℚ) : distLoop C (St.init C) n dt = St.init C := by
  have ht : gr (St.init C).timer n = 0 := gr_map_const _ _
  have hcb : gb (St.init C).cbOpen (C.nets.getD n default).cb = false := gb_map_const _ _
  have hck : gb (St.init C).check n = false := gb_map_const _ _
  unfold distLoop
  simp only [ht, tick_zero, init_timer_set, hcb, Bool.false_and, Bool.false_eq_true, if_false, hck]
  exact checkBreaker_init C n

private theorem mgLoop_init (C : Cfg) (n : Nat) (dt : ℚ) : mgLoop C (St.init C) n dt = St.init C := by
  have ht : gr (St.init C).timer n = 0 := gr_map_const _ _
  have hp : gr (St.init C).pTimer n = 0 := gr_map_const _ _
  have hcb : gb (St.init C).cbOpen (C.nets.getD n default).cb = false := gb_map_const _ _
  have hck : gb (St.init C).check n = false := gb_map_const _ _
  unfold mgLoop
  simp only [ht, hp, tick_zero, gt_iff_lt, lt_self_iff_false, if_false, init_timer_set, init_ptimer_set, hcb,
    Bool.false_and, Bool.false_eq_true, hck]
  exact checkBreaker_init C n

private theorem foldl_fix {α : Type} (f : St → α → St) (s0 : St) (hf : ∀ a, f s0 a = s0) (l : List α) : l.foldl f s0 = s0 := by
  induction l with
  | nil => rfl
  | cons a as ih => simp only [List.foldl_cons, hf a, ih]

/-- **The normal configuration is a fixed point**: a quiet increment leaves it unchanged, for every
configuration and every step length — nothing is switched, no timer starts, nothing is flagged. -/
theorem normal_is_fixed_point (C : Cfg) (dt : ℚ) : step C (St.init C) dt = St.init C := by
  unfold step
  simp only
  have h1 : (List.range C.lines.length).foldl (fun s l => lineUpdate C s l dt) (St.init C) = St.init C :=
    foldl_fix _ _ (fun l => lineUpdate_init C l dt) _
  rw [h1]
  have h2 : ((List.range C.nets.length).filter (fun n => !isMg C n)).foldl (fun s n => distLoop C s n dt) (St.init C) = St.init C :=
    foldl_fix _ _ (fun n => distLoop_init C n dt) _
  rw [h2]
  exact foldl_fix _ _ (fun n => mgLoop_init C n dt) _

/-- … and stays so for any number of quiet increments. -/
theorem normal_stays (C : Cfg) (dt : ℚ) (k : ℕ) : ((fun s => step C s dt)^[k]) (St.init C) = St.init C := by
  induction k with
  | zero => rfl
  | succ k ih => rw [Function.iterate_succ_apply', ih, normal_is_fixed_point]

/-- **A sectioning timer always runs out**: while `k·dt < T` the timer started at `T` stands at
exactly `T − k·dt` after `k` quiet passes, and from the first pass with `k·dt ≥ T` on it is `≤ 0`
(the condition under which breakers reclose and sections are reconnected). -/
theorem timer_countdown (T dt : ℚ) (hdt : 0 < dt) (k : ℕ) :
    ((k : ℚ) * dt < T → ((fun t => tick t dt)^[k]) T = T - k * dt) ∧
    (T ≤ (k : ℚ) * dt → ((fun t => tick t dt)^[k]) T ≤ 0) := by
  induction k with
  | zero => constructor
            · intro _; simp
            · intro h; simpa using h
  | succ k ih =>
    rw [Function.iterate_succ_apply']
    push_cast
    by_cases hk : (k : ℚ) * dt < T
    · have hv := ih.1 hk
      rw [hv]
      have hpos : T - k * dt > 0 := by linarith
      unfold tick
      simp only [hpos, if_true]
      constructor
      · intro _; ring
      · intro h; linarith
    · have hle := ih.2 (not_lt.mp hk)
      unfold tick
      have : ¬ ((fun t => if t > 0 then t - dt else 0)^[k] T > 0) := not_lt.mpr hle
      constructor
      · intro h; exfalso; nlinarith [not_lt.mp hk]
      · intro _
        show (if (fun t => tick t dt)^[k] T > 0 then (fun t => tick t dt)^[k] T - dt else 0) ≤ 0
        rw [if_neg (not_lt.mpr hle)]

/-- the number of passes is `⌈T/dt⌉`: it has run out after `k` passes iff `k ≥ T/dt` -/
theorem timer_out_iff (T dt : ℚ) (hdt : 0 < dt) (k : ℕ) :
    ((fun t => tick t dt)^[k]) T ≤ 0 ↔ T ≤ (k : ℚ) * dt := by
  constructor
  · intro h
    by_contra hc
    have := (timer_countdown T dt hdt k).1 (not_le.mp hc)
    rw [this] at h; linarith [not_le.mp hc]
  · exact (timer_countdown T dt hdt k).2

end Relsad.C06
