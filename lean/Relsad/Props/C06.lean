/-
C06  After the last repair the network returns to normal and shedding stops.

Proved, for every reachable state of every well-formed configuration (manual and ICT-based control):
a section is out of service only while it contains a failed line; hence once every line is repaired
every section is back in service and no controller lists a failed section
(`out_of_service_only_with_reason`, `all_repaired_all_in_service`; second inductive invariant,
`Lemmas/ControlLiveL.lean`).  Proved: the normal configuration is a fixed point of a quiet
increment, for every configuration and step; a running sectioning timer reaches zero after exactly ⌈T/dt⌉ quiet control passes
(closed form), and the parent timer handed to a microgrid elapses in step with it.
Proved (`returns_to_normal`): from every reachable state without failed lines (manual control, any
history before) the normal configuration (`isNormal`) is reached within `⌈T/dt⌉ + 2` increments —
fourth invariant `Lemmas/ControlGL.lean` (every outage and open switch has a reason), timer bound and
flag invariants and the analysis of calm increments in `Lemmas/ControlCalmL.lean`.  Under ICT-based
control the bound depends on the communication history and is decided by the check.
(`not_back_to_initial_state`: the stronger "back to the initial state" is false — remaining outage
times of healthy lines of a flagged section keep the added sectioning time.)  The check
decides it on every generated history (model and implementation) by running the quiet tail.
-/
import Relsad.Model.Control
import Relsad.Lemmas.ControlL
import Relsad.Props.C05
import Relsad.Lemmas.ControlLiveL
import Relsad.Lemmas.ControlCalmL
import Mathlib.Data.Rat.Floor
import Mathlib.Algebra.Order.Field.Rat
import Mathlib.Tactic.Linarith
import Mathlib.Tactic.Ring
import Mathlib.Tactic.Positivity

namespace Relsad.C06
open Relsad.Control

/-- full statement (proved below, `returns_to_normal`): bounded return to the normal configuration (`isNormal`: every breaker and
disconnector closed, every line and section in service, nothing failed, timers run out, no failed-section entries) -/
def ReturnsToNormal (C : Cfg) (dt : ℚ) (bound : ℕ) : Prop :=
  ∀ s, C05.Reach C s → s.failed.all (!·) = true → ∃ k, k ≤ bound ∧ isNormal C ((fun s => step C s dt)^[k] s) = true

/-- The stronger reading "returns to the *initial state*" is false, in the model and in the implementation alike: the
sectioning time is added to the remaining outage time of every line of a flagged section, healthy ones included, and a
healthy line never counts it down.  Witness: breaker line L0 and L1 in one section, fault on L1. -/
theorem not_back_to_initial_state :
    let C : Cfg := { lines := [⟨0, some 0, [], 0⟩, ⟨0, none, [], 0⟩], disconLine := [], cbLine := [0],
                     secs := [⟨[0, 1], [.breaker 0]⟩], nets := [⟨0, 0, [0, 1], [0], [], none, none⟩], T := 1 }
    let s := ((fun s => step C s 1)^[6]) (lineFail C (St.init C) 1 2)
    isNormal C s = true ∧ s.rem = [1, 0] ∧ s.rem ≠ (St.init C).rem := by
  intro C s
  refine ⟨by decide +kernel, by decide +kernel, by decide +kernel⟩

private theorem lineUpdate_init (C : Cfg) (l : Nat) (dt : ℚ) : lineUpdate C (St.init C) l dt = St.init C := by
  unfold lineUpdate
  have hf : gb (St.init C).failed l = false := gb_map_const _ _
  rw [hf]
  simp only [Bool.false_eq_true, if_false]
  unfold lineNotFail
  simp only
  have hcnt : (((C.nets.getD (C.lines.getD l default).net default).lines.filter (fun k => gb (St.init C).failed k)).length == 1 && gb (St.init C).failed l) = false := by
    rw [hf]; simp
  rw [hcnt]
  simp only [Bool.false_eq_true, if_false]
  show ({ St.init C with failed := (St.init C).failed.set l false } : St) = St.init C
  have : (St.init C).failed.set l false = (St.init C).failed := by
    simp only [St.init]; exact set_map_const _ _ _
  rw [this]

private theorem tick_zero (dt : ℚ) : tick 0 dt = 0 := by unfold tick; simp

private theorem checkBreaker_init (C : Cfg) (n : Nat) : checkBreakerManually C (St.init C) n = St.init C := by
  unfold checkBreakerManually
  have : gb (St.init C).cbOpen (C.nets.getD n default).cb = false := gb_map_const _ _
  simp only [this, Bool.not_false, if_true]

private theorem init_timer_set (C : Cfg) (n : Nat) : (St.init C).timer.set n 0 = (St.init C).timer := by
  simp only [St.init]; exact set_map_const _ _ _

private theorem init_ptimer_set (C : Cfg) (n : Nat) : (St.init C).pTimer.set n 0 = (St.init C).pTimer := by
  simp only [St.init]; exact set_map_const _ _ _

private theorem distLoop_init (C : Cfg) (n : Nat) (dt : ℚ) : distLoop C (St.init C) n dt = St.init C := by
  have ht : gr (St.init C).timer n = 0 := gr_map_const _ _
  have hcb : gb (St.init C).cbOpen (C.nets.getD n default).cb = false := gb_map_const _ _
  have hck : gb (St.init C).check n = false := gb_map_const _ _
  unfold distLoop
  simp only [ht, tick_zero, init_timer_set, hcb, Bool.false_and, Bool.false_eq_true, if_false, hck]
  exact checkBreaker_init C n

private theorem mgLoop_init (C : Cfg) (n : Nat) (dt : ℚ) : mgLoop C (St.init C) n dt = St.init C := by
  have ht : gr (St.init C).timer n = 0 := gr_map_const _ _
  have hp : gr (St.init C).pTimer n = 0 := gr_map_const _ _
  have hcb : gb (St.init C).cbOpen (C.nets.getD n default).cb = false := gb_map_const _ _
  have hck : gb (St.init C).check n = false := gb_map_const _ _
  unfold mgLoop
  simp only [ht, hp, tick_zero, gt_iff_lt, lt_self_iff_false, if_false, init_timer_set, init_ptimer_set, hcb,
    Bool.false_and, Bool.false_eq_true, hck]
  exact checkBreaker_init C n

private theorem foldl_fix {α : Type} (f : St → α → St) (s0 : St) (hf : ∀ a, f s0 a = s0) (l : List α) : l.foldl f s0 = s0 := by
  induction l with
  | nil => rfl
  | cons a as ih => simp only [List.foldl_cons, hf a, ih]

/-- **The normal configuration is a fixed point**: a quiet increment leaves it unchanged, for every
configuration and every step length — nothing is switched, no timer starts, nothing is flagged. -/
theorem normal_is_fixed_point (C : Cfg) (dt : ℚ) : step C (St.init C) dt = St.init C := by
  unfold step
  simp only
  have h1 : (List.range C.lines.length).foldl (fun s l => lineUpdate C s l dt) (St.init C) = St.init C :=
    foldl_fix _ _ (fun l => lineUpdate_init C l dt) _
  rw [h1]
  have h2 : ((List.range C.nets.length).filter (fun n => !isMg C n)).foldl (fun s n => distLoop C s n dt) (St.init C) = St.init C :=
    foldl_fix _ _ (fun n => distLoop_init C n dt) _
  rw [h2]
  exact foldl_fix _ _ (fun n => mgLoop_init C n dt) _

/-- … and stays so for any number of quiet increments. -/
theorem normal_stays (C : Cfg) (dt : ℚ) (k : ℕ) : ((fun s => step C s dt)^[k]) (St.init C) = St.init C := by
  induction k with
  | zero => rfl
  | succ k ih => rw [Function.iterate_succ_apply', ih, normal_is_fixed_point]

/-- **A sectioning timer always runs out**: while `k·dt < T` the timer started at `T` stands at
exactly `T − k·dt` after `k` quiet passes, and from the first pass with `k·dt ≥ T` on it is `≤ 0`
(the condition under which breakers reclose and sections are reconnected). -/
theorem timer_countdown (T dt : ℚ) (hdt : 0 < dt) (k : ℕ) :
    ((k : ℚ) * dt < T → ((fun t => tick t dt)^[k]) T = T - k * dt) ∧
    (T ≤ (k : ℚ) * dt → ((fun t => tick t dt)^[k]) T ≤ 0) := by
  induction k with
  | zero => constructor
            · intro _; simp
            · intro h; simpa using h
  | succ k ih =>
    rw [Function.iterate_succ_apply']
    push_cast
    by_cases hk : (k : ℚ) * dt < T
    · have hv := ih.1 hk
      rw [hv]
      have hpos : T - k * dt > 0 := by linarith
      unfold tick
      simp only [hpos, if_true]
      constructor
      · intro _; ring
      · intro h; linarith
    · have hle := ih.2 (not_lt.mp hk)
      unfold tick
      have : ¬ ((fun t => if t > 0 then t - dt else 0)^[k] T > 0) := not_lt.mpr hle
      constructor
      · intro h; exfalso; nlinarith [not_lt.mp hk]
      · intro _
        show (if (fun t => tick t dt)^[k] T > 0 then (fun t => tick t dt)^[k] T - dt else 0) ≤ 0
        rw [if_neg (not_lt.mpr hle)]

/-- the number of passes is `⌈T/dt⌉`: it has run out after `k` passes iff `k ≥ T/dt` -/
theorem timer_out_iff (T dt : ℚ) (hdt : 0 < dt) (k : ℕ) :
    ((fun t => tick t dt)^[k]) T ≤ 0 ↔ T ≤ (k : ℚ) * dt := by
  constructor
  · intro h
    by_contra hc
    have := (timer_countdown T dt hdt k).1 (not_le.mp hc)
    rw [this] at h; linarith [not_le.mp hc]
  · exact (timer_countdown T dt hdt k).2


/-! ### sections are out of service only for a reason (all reachable states) -/

theorem reach_both (C : Cfg) (w : WF C) : ∀ s, C05.ReachA C s → Both C s := by
  intro s hs
  induction hs with
  | init => exact Both.init w
  | fail s l rep _ hl _ ih => exact ih.afterFail w l hl rep
  | step s dt _ _ ih => exact ih.step w dt
  | stepA s dt cm _ _ ih => exact ih.stepA w dt cm
  | spread s S _ ih => exact ⟨ih.inv.congr rfl rfl rfl rfl rfl rfl, ih.inv2.congr rfl rfl rfl rfl⟩

theorem reach_check_down (C : Cfg) : ∀ s, C05.ReachA C s → ∀ m, m < C.nets.length → gb s.check m = false := by
  intro s hs
  induction hs with
  | init => intro m _; exact gb_map_const _ _
  | fail s l rep _ _ _ ih => intro m hm; rw [check_lineFail]; exact ih m hm
  | step s dt _ _ _ => intro m hm; exact step_check_down C s dt m hm
  | stepA s dt cm _ _ _ => intro m hm; exact stepA_check_down C s dt cm m hm
  | spread s S _ ih => intro m hm; exact ih m hm

/-- every manual-only history is also a history of the mixed system -/
theorem reach_to_reachA (C : Cfg) : ∀ s, C05.Reach C s → C05.ReachA C s := by
  intro s hs
  induction hs with
  | init => exact .init
  | fail s l rep _ hl hf ih => exact .fail s l rep ih hl hf
  | step s dt _ hdt ih => exact .step s dt ih hdt

/-- **A section is out of service only while it contains a failed line** — at every reachable state (after any
sequence of faults and manual / automatic increments) of every well-formed configuration. -/
theorem out_of_service_only_with_reason (C : Cfg) (hC : wfB C = true) (s : St) (hs : C05.ReachA C s)
    (n : Nat) (hn : n < C.nets.length) (k : Nat) (hk : k ∈ (netOf C n).secs) (hout : gb s.secConn k = false) :
    ∃ l ∈ (secOf C k).lines, gb s.failed l = true := by
  have b := reach_both C (WF.of_wfB C hC) s hs
  rcases b.inv2.why n hn k hk hout with h | h
  · exact h
  · rw [reach_check_down C s hs n hn] at h; exact absurd h (by simp)

/-- **Once every line is repaired, every section is back in service and no controller lists a failed section.** -/
theorem all_repaired_all_in_service (C : Cfg) (hC : wfB C = true) (s : St) (hs : C05.ReachA C s)
    (hrep : ∀ l, gb s.failed l = false) :
    (∀ n, n < C.nets.length → ∀ k ∈ (netOf C n).secs, gb s.secConn k = true) ∧
    (∀ n, n < C.nets.length → s.failedSecs.getD n [] = []) := by
  have b := reach_both C (WF.of_wfB C hC) s hs
  have h1 : ∀ n, n < C.nets.length → ∀ k ∈ (netOf C n).secs, gb s.secConn k = true := by
    intro n hn k hk
    cases hx : gb s.secConn k
    · obtain ⟨l, _, hfl⟩ := out_of_service_only_with_reason C hC s hs n hn k hk hx
      rw [hrep l] at hfl; exact absurd hfl (by simp)
    · rfl
  refine ⟨h1, ?_⟩
  intro n hn
  rw [List.eq_nil_iff_forall_not_mem]
  intro k hk
  have h0 := b.inv2.listed n hn k hk
  rw [h1 n hn k (b.inv.fs n hn k hk)] at h0
  exact absurd h0 (by simp)

/-! ### return to normal within the sectioning time (manual control, all reachable states) -/

theorem reach_quad (C : Cfg) (w : WF C) (w2 : WF2 C) : ∀ s, C05.Reach C s → Quad C s := by
  intro s hs
  induction hs with
  | init => exact Quad.init w
  | fail s l rep _ hl _ ih => exact ih.afterFail w w2 l hl rep
  | step s dt _ _ ih => exact ih.step w w2 dt

theorem reach_tb (C : Cfg) (w2 : WF2 C) (hT : 0 ≤ C.T) : ∀ s, C05.Reach C s → TB C s := by
  intro s hs
  induction hs with
  | init => exact TB.init C hT
  | fail s l rep _ _ _ ih => exact ih.afterFail l rep
  | step s dt _ hdt ih => exact ih.step w2 hT dt (le_of_lt hdt)

theorem reach_nf (C : Cfg) (w : WF C) (w2 : WF2 C) : ∀ s, C05.Reach C s → NF C s := by
  intro s hs
  induction hs with
  | init => exact NF.init C
  | fail s l rep _ hl _ ih => exact ih.afterFail w l hl rep
  | step s dt _ _ ih => exact ih.step w w2 dt

theorem reach_iter (C : Cfg) (s : St) (dt : ℚ) (hdt : 0 < dt) (hs : C05.Reach C s) (k : ℕ) :
    C05.Reach C ((fun s => step C s dt)^[k] s) := by
  induction k with
  | zero => exact hs
  | succ k ih => rw [Function.iterate_succ_apply']; exact .step _ dt ih hdt

/-- a reachable state without failed lines is calm: every section in service, nothing listed, no network flagged,
no check pending, and no timer above the manual sectioning time -/
theorem reach_calm (C : Cfg) (hC : wfB C = true) (hC2 : wfB2 C = true) (hT : 0 ≤ C.T) (s : St) (hs : C05.Reach C s)
    (hrep : s.failed.all (!·) = true) : Run C s C.T C.T := by
  have w := WF.of_wfB C hC
  have w2 := WF2.of_wfB2 C hC2
  have hsA := reach_to_reachA C s hs
  have hf : ∀ l, gb s.failed l = false := gb_false_of_all_not _ hrep
  obtain ⟨a1, a2⟩ := all_repaired_all_in_service C hC s hsA hf
  have tb := reach_tb C w2 hT s hs
  have nf := reach_nf C w w2 s hs
  have q := reach_quad C w w2 s hs
  refine ⟨⟨fun l _ => hf l, ?_, a2, ?_, reach_check_down C s hsA, tb.tlen, tb.plen, q.triple.both.inv.sz⟩, tb.dist, fun m => ⟨tb.pTimer m, tb.timer m⟩⟩
  · intro k hk
    obtain ⟨n, hn, hkn⟩ := w2.sec_owned k hk
    exact a1 n hn k hkn
  · intro n
    by_cases hn : n < C.nets.length
    · cases hx : gb s.netFailed n
      · rfl
      · obtain ⟨l, _, hl⟩ := nf.why n hn hx
        rw [hf l] at hl; exact absurd hl (by simp)
    · unfold gb
      rw [List.getD_eq_getElem?_getD, List.getElem?_eq_none (by rw [nf.nflen]; exact Nat.le_of_not_lt hn)]; rfl

/-- **C06, return to normal.**  From every reachable state of every well-formed configuration under manual control in
which no line is failed (any history of faults, repairs and increments before), the normal configuration — every
breaker and disconnector closed, every line and section in service, timers at rest, nothing listed or flagged — is
reached after at most `⌈T/dt⌉ + 2` further increments of length `dt`. -/
theorem returns_to_normal (C : Cfg) (hC : wfB C = true) (hC2 : wfB2 C = true) (hT : 0 ≤ C.T) (dt : ℚ) (hdt : 0 < dt) :
    ReturnsToNormal C dt (⌈C.T / dt⌉₊ + 2) := by
  intro s hs hrep
  have w := WF.of_wfB C hC
  have w2 := WF2.of_wfB2 C hC2
  refine ⟨⌈C.T / dt⌉₊ + 2, le_refl _, ?_⟩
  set K := ⌈C.T / dt⌉₊ with hK
  have hTK : C.T ≤ (K : ℚ) * dt := by
    have := Nat.le_ceil (C.T / dt)
    rw [div_le_iff₀ hdt] at this
    exact this
  have r0 := reach_calm C hC hC2 hT s hs hrep
  have h0 : Run C s (leftAfter C.T dt 0) (leftAfter C.T dt 0 + dt) := by
    refine r0.weaken ?_ ?_
    · unfold leftAfter; simp
    · unfold leftAfter; simp only [Nat.cast_zero, zero_mul, sub_zero]; have := le_max_left C.T 0; linarith
  have rK := calm_iter w w2 s dt hdt h0 K
  have hq : leftAfter C.T dt K = 0 := by
    unfold leftAfter
    exact max_eq_right (by linarith)
  rw [hq, zero_add] at rK
  obtain ⟨rF, closed⟩ := calm_finish w w2 _ dt hdt rK
  have e : (fun s => step C s dt)^[K + 2] s = step C (step C ((fun s => step C s dt)^[K] s) dt) dt := by
    rw [Function.iterate_succ_apply', Function.iterate_succ_apply']
  rw [e]
  set z := step C (step C ((fun s => step C s dt)^[K] s) dt) dt with hz
  have hzr : C05.Reach C z := by
    have := reach_iter C s dt hdt hs (K + 2)
    rw [e] at this; exact this
  have q := reach_quad C w w2 z hzr
  have nf := reach_nf C w w2 z hzr
  have sz := q.triple.both.inv.sz
  obtain ⟨dcl, lin⟩ := q.g.all_back rF.calm.secs w closed w2
  have h1 : z.cbOpen.all (!·) = true := all_not_of_gb _ (fun i hi => closed i (by rw [← sz.cbOpen]; exact hi))
  have h2 : z.dOpen.all (!·) = true := all_not_of_gb _ (fun i hi => dcl i (by rw [← q.g.dlen]; exact hi))
  have h3 : z.conn.all id = true := all_id_of_gb _ (fun i hi => lin i (by rw [← sz.conn]; exact hi))
  have h4 : z.secConn.all id = true := all_id_of_gb _ (fun i hi => rF.calm.secs i (by rw [← sz.secConn]; exact hi))
  have h5 : z.failed.all (!·) = true := all_not_of_gb _ (fun i hi => rF.calm.nofail i (by rw [← nf.flen]; exact hi))
  have h6 : z.timer.all (· ≤ 0) = true := all_le_of_gr _ (fun i => (rF.bd i).2)
  have h7 : z.pTimer.all (· ≤ 0) = true := all_le_of_gr _ (fun i => (rF.bd i).1)
  have h8 : z.failedSecs.all (·.isEmpty) = true := all_empty_of_getD _ (fun i hi => rF.calm.nofs i (by rw [← sz.failedSecs]; exact hi))
  have h9 : z.netFailed.all (!·) = true := all_not_of_gb _ (fun i _ => rF.calm.nonf i)
  unfold isNormal
  simp only [Bool.and_eq_true]
  exact ⟨⟨⟨⟨⟨⟨⟨⟨h1, h2⟩, h3⟩, h4⟩, h5⟩, h6⟩, h7⟩, h8⟩, h9⟩

/-- the hypotheses are satisfiable on a concrete system: feeder line L0 with the breaker, L1 behind a disconnector in
its own section, a fault on L1 repaired after 2 h, sectioning time 1 h, 1 h increments.  Two increments after the fault
the disconnector is open and L1 still failed (not normal); one increment later the line is repaired and the system is
back to normal, within the bound `⌈1/1⌉ + 2 = 3` of the theorem. -/
example :
    let C : Cfg := { lines := [⟨0, some 0, [], 0⟩, ⟨0, none, [0], 1⟩], disconLine := [1], cbLine := [0],
                     secs := [⟨[0], [.breaker 0, .discon 0]⟩, ⟨[1], [.discon 0]⟩], nets := [⟨0, 0, [0, 1], [0, 1], [], none, none⟩], T := 1 }
    wfB C = true ∧ wfB2 C = true ∧
    isNormal C (((fun s => step C s 1)^[2]) (lineFail C (St.init C) 1 2)) = false ∧
    (((fun s => step C s 1)^[3]) (lineFail C (St.init C) 1 2)).failed.all (!·) = true ∧
    isNormal C (((fun s => step C s 1)^[3]) (lineFail C (St.init C) 1 2)) = true := by
  intro C
  refine ⟨by decide +kernel, by decide +kernel, by decide +kernel, by decide +kernel, by decide +kernel⟩

/-! ### return to normal under any mix of manual and ICT-based increments -/

theorem reachA_quad (C : Cfg) (w : WF C) (w2 : WF2 C) : ∀ s, C05.ReachA C s → Quad C s := by
  intro s hs
  induction hs with
  | init => exact Quad.init w
  | fail s l rep _ hl _ ih => exact ih.afterFail w w2 l hl rep
  | step s dt _ _ ih => exact ih.step w w2 dt
  | stepA s dt cm _ _ ih => exact ih.stepA w w2 dt cm
  | spread s S _ ih => exact ih.spread S

theorem reachA_tl (C : Cfg) (w2 : WF2 C) : ∀ s, C05.ReachA C s → TL C s := by
  intro s hs
  induction hs with
  | init => exact TL.init C
  | fail s l rep _ _ _ ih => exact ih.afterFail l rep
  | step s dt _ _ ih => exact ih.step w2 dt
  | stepA s dt cm _ _ ih => exact ih.stepA w2 dt cm
  | spread s S _ ih => exact ih.spread S

theorem reachA_nf (C : Cfg) (w : WF C) (w2 : WF2 C) : ∀ s, C05.ReachA C s → NF C s := by
  intro s hs
  induction hs with
  | init => exact NF.init C
  | fail s l rep _ hl _ ih => exact ih.afterFail w l hl rep
  | step s dt _ _ ih => exact ih.step w w2 dt
  | stepA s dt cm _ _ ih => exact ih.stepA w w2 dt cm
  | spread s S _ ih => exact ih.spread S

theorem reachA_foldl (C : Cfg) (dt : ℚ) (hdt : 0 < dt) (ins : List (Option Comm)) (s : St) (hs : C05.ReachA C s) :
    C05.ReachA C (ins.foldl (stepM C dt) s) := by
  induction ins generalizing s with
  | nil => exact hs
  | cons i is ih =>
    simp only [List.foldl_cons]
    apply ih
    cases i with
    | none => exact .step s dt hs hdt
    | some cm => exact .stepA s dt cm hs hdt

/-- a reachable state (any control mode) without failed lines is calm -/
theorem reachA_calm (C : Cfg) (hC : wfB C = true) (hC2 : wfB2 C = true) (s : St) (hs : C05.ReachA C s)
    (hrep : s.failed.all (!·) = true) (M : ℚ) (hbd : ∀ m, gr s.timer m ≤ M ∧ gr s.pTimer m ≤ M) : Run C s M M := by
  have w := WF.of_wfB C hC
  have w2 := WF2.of_wfB2 C hC2
  have hf : ∀ l, gb s.failed l = false := gb_false_of_all_not _ hrep
  obtain ⟨a1, a2⟩ := all_repaired_all_in_service C hC s hs hf
  have tl := reachA_tl C w2 s hs
  have nf := reachA_nf C w w2 s hs
  have q := reachA_quad C w w2 s hs
  refine ⟨⟨fun l _ => hf l, ?_, a2, ?_, reach_check_down C s hs, tl.tlen, tl.plen, q.triple.both.inv.sz⟩, tl.dist, fun m => ⟨(hbd m).2, (hbd m).1⟩⟩
  · intro k hk
    obtain ⟨n, hn, hkn⟩ := w2.sec_owned k hk
    exact a1 n hn k hkn
  · intro n
    by_cases hn : n < C.nets.length
    · cases hx : gb s.netFailed n
      · rfl
      · obtain ⟨l, _, hl⟩ := nf.why n hn hx
        rw [hf l] at hl; exact absurd hl (by simp)
    · unfold gb
      rw [List.getD_eq_getElem?_getD, List.getElem?_eq_none (by rw [nf.nflen]; exact Nat.le_of_not_lt hn)]; rfl

/-- **C06, return to normal under any control mode.**  Take any reachable state (any history of faults and of manual
and ICT-based increments, with whatever the controllers could reach) in which no line is failed, and let `M ≥ 0` bound
the sectioning timers still running.  Then after any `⌈M/dt⌉ + 2` or more further increments — each one manual or
ICT-based with arbitrary reachability of sensors and switches — the system is in its normal configuration. -/
theorem returns_to_normal_mixed (C : Cfg) (hC : wfB C = true) (hC2 : wfB2 C = true) (dt : ℚ) (hdt : 0 < dt)
    (s : St) (hs : C05.ReachA C s) (hrep : s.failed.all (!·) = true)
    (M : ℚ) (hM : 0 ≤ M) (hbd : ∀ m, gr s.timer m ≤ M ∧ gr s.pTimer m ≤ M)
    (ins : List (Option Comm)) (hlen : ⌈M / dt⌉₊ + 2 ≤ ins.length) :
    isNormal C (ins.foldl (stepM C dt) s) = true := by
  have w := WF.of_wfB C hC
  have w2 := WF2.of_wfB2 C hC2
  set K := ⌈M / dt⌉₊ with hK
  have hMK : M ≤ (K : ℚ) * dt := by
    have := Nat.le_ceil (M / dt)
    rw [div_le_iff₀ hdt] at this
    exact this
  -- split off the last two increments
  obtain ⟨pre, i1, i2, hins⟩ : ∃ pre i1 i2, ins = pre ++ [i1, i2] := by
    have hrr := List.reverse_reverse ins
    cases hr : ins.reverse with
    | nil => rw [hr] at hrr; rw [← hrr] at hlen; simp at hlen
    | cons b t =>
      cases t with
      | nil => rw [hr] at hrr; rw [← hrr] at hlen; simp at hlen
      | cons a rest =>
        refine ⟨rest.reverse, a, b, ?_⟩
        rw [hr] at hrr
        rw [← hrr]; simp
  have hpre : K ≤ pre.length := by
    rw [hins] at hlen; simp at hlen; omega
  have r0 := reachA_calm C hC hC2 s hs hrep M hbd
  have h0 : Run C s (leftAfter M dt 0) (leftAfter M dt 0 + dt) := by
    refine r0.weaken ?_ ?_
    · unfold leftAfter; simp
    · unfold leftAfter; simp only [Nat.cast_zero, zero_mul, sub_zero]; have := le_max_left M 0; linarith
  have rK := calm_iterM w w2 M dt hdt pre 0 s h0
  have hq : leftAfter M dt (0 + pre.length) = 0 := by
    unfold leftAfter
    apply max_eq_right
    have : (K : ℚ) ≤ ((0 + pre.length : ℕ) : ℚ) := by exact_mod_cast (by omega : K ≤ 0 + pre.length)
    nlinarith
  rw [hq, zero_add] at rK
  obtain ⟨rF, closed⟩ := calm_finishM w w2 _ dt hdt i1 i2 rK
  have e : ins.foldl (stepM C dt) s = stepM C dt (stepM C dt (pre.foldl (stepM C dt) s) i1) i2 := by
    rw [hins, List.foldl_append]; rfl
  rw [e]
  set z := stepM C dt (stepM C dt (pre.foldl (stepM C dt) s) i1) i2 with hz
  have hzr : C05.ReachA C z := by
    have := reachA_foldl C dt hdt ins s hs
    rw [e] at this; exact this
  have q := reachA_quad C w w2 z hzr
  have nf := reachA_nf C w w2 z hzr
  have sz := q.triple.both.inv.sz
  obtain ⟨dcl, lin⟩ := q.g.all_back rF.calm.secs w closed w2
  have h1 : z.cbOpen.all (!·) = true := all_not_of_gb _ (fun i hi => closed i (by rw [← sz.cbOpen]; exact hi))
  have h2 : z.dOpen.all (!·) = true := all_not_of_gb _ (fun i hi => dcl i (by rw [← q.g.dlen]; exact hi))
  have h3 : z.conn.all id = true := all_id_of_gb _ (fun i hi => lin i (by rw [← sz.conn]; exact hi))
  have h4 : z.secConn.all id = true := all_id_of_gb _ (fun i hi => rF.calm.secs i (by rw [← sz.secConn]; exact hi))
  have h5 : z.failed.all (!·) = true := all_not_of_gb _ (fun i hi => rF.calm.nofail i (by rw [← nf.flen]; exact hi))
  have h6 : z.timer.all (· ≤ 0) = true := all_le_of_gr _ (fun i => (rF.bd i).2)
  have h7 : z.pTimer.all (· ≤ 0) = true := all_le_of_gr _ (fun i => (rF.bd i).1)
  have h8 : z.failedSecs.all (·.isEmpty) = true := all_empty_of_getD _ (fun i hi => rF.calm.nofs i (by rw [← sz.failedSecs]; exact hi))
  have h9 : z.netFailed.all (!·) = true := all_not_of_gb _ (fun i _ => rF.calm.nonf i)
  unfold isNormal
  simp only [Bool.and_eq_true]
  exact ⟨⟨⟨⟨⟨⟨⟨⟨h1, h2⟩, h3⟩, h4⟩, h5⟩, h6⟩, h7⟩, h8⟩, h9⟩

end Relsad.C06
