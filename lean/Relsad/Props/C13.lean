/-
C13  Components fail and recover with the configured rates and repair times.
-/
import Relsad.Model.Fail
import Mathlib.Tactic.Linarith
import Relsad.Props.C17
import Mathlib.MeasureTheory.Measure.Lebesgue.Basic

namespace Relsad.C13
open Relsad Relsad.Fail Relsad.Time

/-! ### Failure probability -/

private theorem years_convert (t : Time) (u : TimeUnit) : (t.convert u).getYears = t.getYears := by
  have h1 := C17.get_eq_factor (t.convert u) .year
  have h2 := C17.get_eq_factor t .year
  have h3 := C17.get_eq_factor t u
  have hu := C17.factor_pos u
  have hy := C17.factor_pos .year
  simp only [getUnitQuantity] at h1 h2
  rw [h1, h2]; simp only [convert, h3]; field_simp

/-- The per-step failure probability does not depend on the unit the step is expressed in. -/
theorem pFail_unit_invariant (rate : ℚ) (dt : Time) (u : TimeUnit) :
    pFail rate (dt.convert u) = pFail rate dt := by
  unfold pFail; rw [years_convert]

/-- It is `min (r·dt, 1)` with `dt` in years: linear in the step while below one … -/
theorem pFail_eq (rate : ℚ) (dt : Time) (h : rate * dt.getYears ≤ 1) :
    pFail rate dt = rate * dt.getYears := by
  unfold pFail; exact min_eq_left h

/-- … and always a probability. -/
theorem pFail_mem_Icc (rate : ℚ) (dt : Time) (hr : 0 ≤ rate) (hd : 0 ≤ dt.quantity) :
    0 ≤ pFail rate dt ∧ pFail rate dt ≤ 1 := by
  have hy : 0 ≤ dt.getYears := by
    have := C17.get_eq_factor dt .year
    simp only [getUnitQuantity] at this
    rw [this]
    exact div_nonneg (mul_nonneg hd (le_of_lt (C17.factor_pos _))) (le_of_lt (C17.factor_pos _))
  unfold pFail
  exact ⟨le_min (mul_nonneg hr hy) (by norm_num), min_le_right _ _⟩

/-- Rate zero never fails, whatever the uniform draw. -/
theorem rate_zero_never_fails (dt : Time) (u : ℚ) (hu : 0 ≤ u) (s : Two) (rep : ℚ) (hs : s.failed = false) :
    (s.step 0 dt u rep).failed = false := by
  unfold Two.step choice pFail
  have hm : min (0 * dt.getYears) (1 : ℚ) = 0 := by rw [zero_mul]; exact min_eq_left (by norm_num)
  rw [hm]
  simp [hs, not_lt.mpr hu]

/-- With a uniform source on [0,1) the decision `u < p` is true with probability exactly `p`
(Lebesgue measure of the accepting set), for every probability `p ∈ [0,1]`. -/
theorem choice_probability (p : ℝ) (h1 : p ≤ 1) :
    MeasureTheory.volume {u : ℝ | u ∈ Set.Ico (0 : ℝ) 1 ∧ u < p} = ENNReal.ofReal p := by
  have : {u : ℝ | u ∈ Set.Ico (0 : ℝ) 1 ∧ u < p} = Set.Ico 0 p := by
    ext u; simp only [Set.mem_Ico, Set.mem_ofPred_eq]
    constructor
    · rintro ⟨⟨a, _⟩, c⟩; exact ⟨a, c⟩
    · rintro ⟨a, c⟩; exact ⟨⟨a, lt_of_lt_of_le c h1⟩, c⟩
  rw [this, Real.volume_Ico, sub_zero]

/-! ### Countdown of two-state components -/

/-- One call on a failed component: the remaining time decreases by exactly the step, and the
component returns to service (remaining time reset to 0) in the first call that uses it up. -/
theorem tick_spec (s : Two) (h : ℚ) :
    (s.rem - h ≤ 0 → s.tick h = ⟨false, 0⟩) ∧ (0 < s.rem - h → s.tick h = ⟨true, s.rem - h⟩) := by
  unfold Two.tick
  constructor
  · intro hle; simp [hle]
  · intro hlt; simp [not_le.mpr hlt]

/-- Closed form over a whole outage: after `k` calls the component is still failed with
`rem₀ − k·dt` left iff `k·dt < rem₀`, otherwise it is back in service with 0 left. -/
theorem countdown (r h : ℚ) (hh : 0 < h) (k : ℕ) :
    (fun s => Two.tick s h)^[k] ⟨true, r⟩ =
      if (k : ℚ) * h < r ∨ k = 0 then ⟨true, r - k * h⟩ else ⟨false, 0⟩ := by
  induction k with
  | zero => simp
  | succ n ih =>
    rw [Function.iterate_succ_apply', ih]
    by_cases hn : (n : ℚ) * h < r ∨ n = 0
    · simp only [hn, if_true]
      unfold Two.tick
      simp only [Nat.cast_succ, Nat.succ_ne_zero, or_false]
      by_cases hlt : ((n : ℚ) + 1) * h < r
      · have : ¬ (r - n * h - h ≤ 0) := by nlinarith
        simp only [this, if_false, hlt, if_true]
        congr 1; ring
      · have : r - n * h - h ≤ 0 := by nlinarith [not_lt.mp hlt]
        simp [this, hlt]
    · simp only [hn, if_false]
      have hn' := not_or.mp hn
      have h1 : ¬ (((n + 1 : ℕ) : ℚ) * h < r) := by
        push_cast; have := not_lt.mp hn'.1; nlinarith
      simp only [h1, Nat.succ_ne_zero, or_self, if_false]
      unfold Two.tick; simp; exact le_of_lt hh

/-- The remaining outage time is never negative (invariant of every history of draws). -/
theorem rem_nonneg (rate : ℚ) (dt : Time) (hdt : 0 ≤ dt.getHours) (s : Two) (u rep : ℚ)
    (hs : 0 ≤ s.rem) (hrep : 0 ≤ rep) : 0 ≤ (s.step rate dt u rep).rem := by
  unfold Two.step Two.tick
  by_cases hf : s.failed = true
  · simp only [hf, if_true]
    by_cases hle : s.rem - dt.getHours ≤ 0
    · simp [hle]
    · simp only [hle, if_false]; exact le_of_lt (not_le.mp hle)
  · simp only [hf]
    by_cases hc : choice u (pFail rate dt) = true
    · simp [hc, hrep]
    · simp [hc, hs]

theorem run_rem_nonneg (rate : ℚ) (dt : Time) (hdt : 0 ≤ dt.getHours) (draws : List (ℚ × ℚ))
    (hd : ∀ d ∈ draws, 0 ≤ d.2) (s : Two) (hs : 0 ≤ s.rem) :
    0 ≤ (draws.foldl (fun s d => s.step rate dt d.1 d.2) s).rem := by
  induction draws generalizing s with
  | nil => simpa
  | cons d ds ih =>
    simp only [List.foldl_cons]
    exact ih (fun d' hd' => hd d' (List.mem_cons_of_mem _ hd')) _
      (rem_nonneg rate dt hdt s d.1 d.2 hs (hd d List.mem_cons_self))

/-- While failed, no random number decides anything: the component stays failed exactly as long
as its remaining time is positive. -/
theorem failed_step_is_tick (s : Two) (rate : ℚ) (dt : Time) (u rep : ℚ) (hs : s.failed = true) :
    s.step rate dt u rep = s.tick dt.getHours := by
  unfold Two.step; simp [hs]

/-! ### Staged recovery of ICT devices -/

/-- Sensor: retry first (delay `tNew`), then reboot (`tNew + tReboot`), and only when both fail
does it enter manual repair for `tManual`, reporting the line as failed meanwhile. -/
theorem sensor_staged (P : SensorP) (s : Dev) (u1 u2 : ℚ) (lf : Bool) :
    let r := sensorRepair P s u1 u2 lf
    (¬ (u1 < P.pNew) → r = (⟨.ok, s.rem⟩, P.tNew, lf, 1)) ∧
    (u1 < P.pNew → ¬ (u2 < P.pReboot) → r = (⟨.ok, s.rem⟩, P.tNew + P.tReboot, lf, 2)) ∧
    (u1 < P.pNew → u2 < P.pReboot → r = (⟨.repair, P.tManual⟩, P.tNew + P.tReboot, true, 2)) := by
  unfold sensorRepair choice
  refine ⟨fun h => by simp [h], fun h1 h2 => by simp [h1, h2], fun h1 h2 => by simp [h1, h2]⟩

/-- A healthy sensor reports the true line state at no delay; one under repair reports "failed". -/
theorem sensor_status_simple (P : SensorP) (rem : ℚ) (u1 u2 : ℚ) (lf : Bool) :
    sensorStatus P ⟨.ok, rem⟩ u1 u2 lf = (⟨.ok, rem⟩, 0, lf, 0) ∧
    sensorStatus P ⟨.repair, rem⟩ u1 u2 lf = (⟨.repair, rem⟩, 0, true, 0) := by
  simp [sensorStatus]

/-- Manual repair of a device lasts exactly until the step in which its time is used up. -/
theorem dev_repair_countdown (rate : ℚ) (dt : Time) (u : ℚ) (rem : ℚ) :
    (rem - dt.getHours ≤ 0 → (Dev.update ⟨.repair, rem⟩ rate dt u).state = .ok) ∧
    (0 < rem - dt.getHours → Dev.update ⟨.repair, rem⟩ rate dt u = ⟨.repair, rem - dt.getHours⟩) := by
  unfold Dev.update
  constructor
  · intro h; simp [h]
  · intro h; simp [not_le.mpr h]

/-- The remaining repair time of a device is never negative. -/
theorem dev_rem_nonneg (s : Dev) (rate : ℚ) (dt : Time) (u : ℚ) (hs : 0 ≤ s.rem) :
    0 ≤ (s.update rate dt u).rem := by
  unfold Dev.update
  cases hst : s.state <;> simp only
  · split_ifs <;> exact hs
  · exact hs
  · split_ifs with h
    · exact le_refl _
    · exact le_of_lt (not_le.mp h)

/-- A failed device stays failed until it is consulted (no spontaneous recovery). -/
theorem dev_failed_stays (rate : ℚ) (dt : Time) (u : ℚ) (rem : ℚ) :
    Dev.update ⟨.failed, rem⟩ rate dt u = ⟨.failed, rem⟩ := by
  simp [Dev.update]

/-- Intelligent switch: a failed switch costs the manual sectioning time once and then is under
repair; healthy or already-under-repair switches add nothing. -/
theorem switch_open_time (rem tR tS : ℚ) :
    switchOpenTime ⟨.failed, rem⟩ tR tS = (⟨.repair, tR⟩, tS) ∧
    switchOpenTime ⟨.ok, rem⟩ tR tS = (⟨.ok, rem⟩, 0) ∧
    switchOpenTime ⟨.repair, rem⟩ tR tS = (⟨.repair, rem⟩, 0) := by
  simp [switchOpenTime]

/-- Closing an intelligent switch always closes its disconnector, whatever state the switch is in (a failed one is
closed by hand and sent to repair; one under repair is closed by the crew and stays under repair). -/
theorem switch_close_always_closes (s : Dev) (tR : ℚ) :
    (switchClose s tR).2 = true ∧
    (s.state = .repair → (switchClose s tR).1 = s) ∧ (s.state = .ok → (switchClose s tR).1 = s) ∧
    (s.state = .failed → (switchClose s tR).1 = ⟨.repair, tR⟩) := by
  unfold switchClose
  cases h : s.state <;> simp

/-- Main controller: hardware failure goes straight to manual repair; a software failure is
retried, then rebooted, then repaired manually, in that order with the stated delays. -/
theorem controller_staged (P : CtrlP) (c : Ctrl) (dt : Time) (u1 u2 u3 u4 : ℚ) (hc : c.state = .ok) :
    (u1 < pFail P.hwRate dt → ctrlUpdate P c dt u1 u2 u3 u4 = ({ c with state := .repair, rem := P.tManualHw }, 1)) ∧
    (¬ u1 < pFail P.hwRate dt → ¬ u2 < pFail P.swRate dt → ctrlUpdate P c dt u1 u2 u3 u4 = ({ c with state := .ok }, 2)) ∧
    (¬ u1 < pFail P.hwRate dt → u2 < pFail P.swRate dt → ¬ u3 < P.pNew →
        ctrlUpdate P c dt u1 u2 u3 u4 = ({ c with state := .ok, sectioning := P.tNew }, 3)) ∧
    (¬ u1 < pFail P.hwRate dt → u2 < pFail P.swRate dt → u3 < P.pNew → ¬ u4 < P.pReboot →
        ctrlUpdate P c dt u1 u2 u3 u4 = ({ c with state := .ok, sectioning := P.tNew + P.tReboot }, 4)) ∧
    (¬ u1 < pFail P.hwRate dt → u2 < pFail P.swRate dt → u3 < P.pNew → u4 < P.pReboot →
        ctrlUpdate P c dt u1 u2 u3 u4 =
          ({ c with state := .repair, rem := P.tManualSw, sectioning := P.tNew + P.tReboot }, 4)) := by
  unfold ctrlUpdate ctrlRepairSoftware choice
  rw [hc]
  refine ⟨fun h => by simp [h], fun h1 h2 => by simp [h1, h2], fun h1 h2 h3 => by simp [h1, h2, h3],
    fun h1 h2 h3 h4 => by simp [h1, h2, h3, h4], fun h1 h2 h3 h4 => by simp [h1, h2, h3, h4]⟩

/-- Non-vacuity: a 3 h repair with ½ h steps is failed for calls 1..5 and back at call 6. -/
example : (fun s => Two.tick s (1/2))^[5] ⟨true, 3⟩ = ⟨true, 1/2⟩ ∧
    (fun s => Two.tick s (1/2))^[6] ⟨true, 3⟩ = ⟨false, 0⟩ := by
  constructor <;> decide +kernel

/-! ### Components inside a network that keeps a shared "some line is failed" flag -/

private theorem getD_set_self' (l : List Two) (i : Nat) (v : Two) (h : i < l.length) : (l.set i v).getD i default = v := by
  simp [List.getD_eq_getElem?_getD, List.getElem?_set, h]

private theorem getD_set_ne' (l : List Two) (i j : Nat) (v : Two) (h : i ≠ j) : (l.set i v).getD j default = l.getD j default := by
  simp [List.getD_eq_getElem?_getD, List.getElem?_set, h]

/-- **A component returns to service when its own time is used up, whatever the other components of its network are doing**:
inside a network (which keeps a flag "some line is failed" that `fail` sets and `not_fail` clears), the update of component
`i` changes that component exactly as the stand-alone two-state rule prescribes and leaves every other component as it
was - in particular two overlapping outages in one network each end when their own remaining time runs out. -/
theorem network_component_independent (n : NetTwo) (i : Nat) (hi : i < n.comps.length) (rate : ℚ) (dt : Time) (u rep : ℚ) :
    (n.stepOne i rate dt u rep).comps.getD i default = (n.comps.getD i default).step rate dt u rep ∧
    ∀ j, j ≠ i → (n.stepOne i rate dt u rep).comps.getD j default = n.comps.getD j default := by
  unfold NetTwo.stepOne Two.step Two.tick NetTwo.notFail
  constructor
  · by_cases hf : (n.comps.getD i default).failed = true
    · simp only [hf, if_true]
      split_ifs <;> simp only [getD_set_self' _ _ _ hi]
    · simp only [hf, Bool.false_eq_true, if_false]
      split_ifs <;> simp only [getD_set_self' _ _ _ hi]
  · intro j hj
    by_cases hf : (n.comps.getD i default).failed = true
    · simp only [hf, if_true]
      split_ifs <;> simp only [getD_set_ne' _ _ _ _ (Ne.symm hj)]
    · simp only [hf, Bool.false_eq_true, if_false]
      split_ifs <;> simp only [getD_set_ne' _ _ _ _ (Ne.symm hj)]

private theorem filter_len_zero_iff (l : List Two) : (l.filter (·.failed)).length = 0 ↔ l.any (·.failed) = false := by
  induction l with
  | nil => simp
  | cons c cs ih =>
    by_cases h : c.failed = true
    · simp [List.filter, h]
    · simp only [Bool.not_eq_true] at h
      simp [List.filter, h, ih]

private theorem cnt_one_iff (l : List Two) (r : ℚ) : ∀ i, i < l.length → (l.getD i default).failed = true →
    (((l.filter (·.failed)).length == 1) = !((l.set i ⟨false, r⟩).any (·.failed))) := by
  induction l with
  | nil => intro i hi; simp at hi
  | cons c cs ih =>
    intro i hi hf
    cases i with
    | zero =>
      have hc : c.failed = true := by simpa using hf
      have := filter_len_zero_iff cs
      by_cases ha : cs.any (·.failed) = true
      · have hne : (cs.filter (·.failed)).length ≠ 0 := by
          intro h0; rw [this.mp h0] at ha; exact absurd ha (by simp)
        simp [List.filter, hc, ha, hne]
      · simp only [Bool.not_eq_true] at ha
        simp [List.filter, hc, ha, this.mpr ha]
    | succ k =>
      have hk : k < cs.length := by simpa using hi
      have hf' : (cs.getD k default).failed = true := by simpa using hf
      by_cases hc : c.failed = true
      · have hpos : 0 < (cs.filter (·.failed)).length := by
          apply List.length_pos_of_mem (a := cs.getD k default)
          rw [List.mem_filter]
          refine ⟨?_, hf'⟩
          simp only [List.getD_eq_getElem?_getD, List.getElem?_eq_getElem hk, Option.getD_some]
          exact List.getElem_mem hk
        have hmem : ∃ x ∈ cs, x.failed = true := by
          refine ⟨cs.getD k default, ?_, hf'⟩
          simp only [List.getD_eq_getElem?_getD, List.getElem?_eq_getElem hk, Option.getD_some]
          exact List.getElem_mem hk
        simp [List.filter, hc]
        exact hmem
      · simp only [Bool.not_eq_true] at hc
        have := ih k hk hf'
        simp [List.filter, hc, List.set_cons_succ, this]

private theorem any_of_getD (l : List Two) : ∀ i, i < l.length → (l.getD i default).failed = true → l.any (·.failed) = true := by
  intro i hi h
  rw [List.any_eq_true]
  refine ⟨l.getD i default, ?_, h⟩
  simp only [List.getD_eq_getElem?_getD, List.getElem?_eq_getElem hi, Option.getD_some]
  exact List.getElem_mem hi

private theorem any_set_true (l : List Two) (i : Nat) (r : ℚ) (hi : i < l.length) : (l.set i ⟨true, r⟩).any (·.failed) = true := by
  apply any_of_getD _ i (by simpa using hi)
  simp [List.getD_eq_getElem?_getD, List.getElem?_set, hi]

private theorem any_set_same (l : List Two) (v : Two) : ∀ i, i < l.length → v.failed = (l.getD i default).failed →
    (l.set i v).any (·.failed) = l.any (·.failed) := by
  induction l with
  | nil => intro i hi; simp at hi
  | cons c cs ih =>
    intro i hi h
    cases i with
    | zero => simp at h; simp [h]
    | succ k =>
      have hk : k < cs.length := by simpa using hi
      have := ih k hk (by simpa using h)
      simp [List.set_cons_succ, this]

/-- the network's flag says exactly whether one of its components is failed -/
def FlagOK (n : NetTwo) : Prop := n.flag = n.comps.any (·.failed)

/-- **The network's "some line is failed" flag tracks the components**: set when one fails, cleared when the last failed one
returns - through every update of every component (the flag decides whether controllers bother to search for a
communication path, and whether a SURVIVAL microgrid stays separated). -/
theorem flag_tracks_failures (n : NetTwo) (i : Nat) (hi : i < n.comps.length) (rate : ℚ) (dt : Time) (u rep : ℚ) (h : FlagOK n) :
    FlagOK (n.stepOne i rate dt u rep) := by
  unfold FlagOK at *
  unfold NetTwo.stepOne
  by_cases hf : (n.comps.getD i default).failed = true
  · simp only [hf, if_true]
    have hold : n.comps.any (·.failed) = true := any_of_getD _ i hi hf
    by_cases hr : (n.comps.getD i default).rem - dt.getHours ≤ 0
    · simp only [hr, if_true]
      unfold NetTwo.notFail
      simp only [hf, Bool.and_true]
      have hc := cnt_one_iff n.comps 0 i hi hf
      cases h1 : ((n.comps.filter (·.failed)).length == 1)
      · simp only [Bool.false_eq_true, if_false]
        rw [h1] at hc
        rw [h, hold]
        cases hx : (n.comps.set i ⟨false, 0⟩).any (·.failed)
        · rw [hx] at hc; simp at hc
        · rfl
      · simp only [if_true]
        rw [h1] at hc
        cases hx : (n.comps.set i ⟨false, 0⟩).any (·.failed)
        · rfl
        · rw [hx] at hc; simp at hc
    · simp only [hr, if_false]
      show n.flag = (n.comps.set i _).any _
      rw [any_set_true _ _ _ hi, h, hold]
  · have hf' : (n.comps.getD i default).failed = false := by simpa using hf
    simp only [hf', Bool.false_eq_true, if_false]
    by_cases hch : choice u (pFail rate dt) = true
    · simp only [hch, if_true]
      show true = (n.comps.set i _).any _
      rw [any_set_true _ _ _ hi]
    · simp only [hch, Bool.false_eq_true, if_false]
      unfold NetTwo.notFail
      simp only [hf', Bool.and_false, Bool.false_eq_true, if_false]
      show n.flag = (n.comps.set i _).any _
      rw [any_set_same _ _ i hi (by show false = _; rw [hf']), h]

/-- Non-vacuity: two lines of one network out at the same time (2 h and 5 h left, 1 h steps): after two updates of line 0 it is
back in service while line 1 is still out, and the flag is still up; it goes down when line 1 returns. -/
example :
    let n0 : NetTwo := ⟨[⟨true, 2⟩, ⟨true, 5⟩], true⟩
    let n2 := (n0.stepOne 0 0 ⟨1, .hour⟩ 1 0).stepOne 0 0 ⟨1, .hour⟩ 1 0
    n2.comps = [⟨false, 0⟩, ⟨true, 5⟩] ∧ n2.flag = true ∧
    ((fun m => NetTwo.stepOne m 1 0 ⟨1, .hour⟩ 1 0)^[5] n2).flag = false := by
  intro n0 n2
  refine ⟨by decide +kernel, by decide +kernel, by decide +kernel⟩

end Relsad.C13
