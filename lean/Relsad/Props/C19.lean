/-
C19  Load and production profiles are applied faithfully.
-/
import Relsad.Model.Interp
import Relsad.Model.Increments
import Relsad.Lemmas.Basic
import Mathlib.Tactic.Linarith
import Mathlib.Tactic.FieldSimp
import Mathlib.Tactic.Ring
import Mathlib.Tactic.Positivity
import Mathlib.Algebra.Order.Field.Rat
import Mathlib.Algebra.BigOperators.Group.List.Basic

namespace Relsad.C19
open Relsad Relsad.Interp

/-! ### Resampling -/

private theorem floor_toNat_natCast (k : ℕ) : ((k : ℚ).floor).toNat = k := by
  rw [ratFloor_eq]; simp

private theorem getD_mem {arr : List ℚ} {i : ℕ} (h : i < arr.length) : arr.getD i 0 ∈ arr := by
  simp only [List.getD_eq_getElem?_getD, List.getElem?_eq_getElem h, Option.getD_some]; exact List.getElem_mem h

/-- the grid points lie in `[0, n-1]` -/
theorem linspace_range (n m k : ℕ) (hn : 1 ≤ n) (hk : k < m) :
    0 ≤ linspace n m k ∧ linspace n m k ≤ (n : ℚ) - 1 := by
  unfold linspace
  split_ifs with h
  · exact ⟨le_refl _, by have : (1 : ℚ) ≤ n := by exact_mod_cast hn
                         linarith⟩
  · have hm : (1 : ℚ) < m := by exact_mod_cast (not_le.mp h)
    have hn' : (0 : ℚ) ≤ (n : ℚ) - 1 := by have : (1 : ℚ) ≤ n := by exact_mod_cast hn
                                           linarith
    have hk' : (k : ℚ) ≤ (m : ℚ) - 1 := by
      have : k + 1 ≤ m := hk
      have : ((k + 1 : ℕ) : ℚ) ≤ m := by exact_mod_cast this
      push_cast at this; linarith
    constructor
    · apply div_nonneg (mul_nonneg (by positivity) hn') (by linarith)
    · rw [div_le_iff₀ (by linarith)]
      have : (0 : ℚ) ≤ k := by positivity
      nlinarith

/-- Every resampled value is a convex combination of two profile values … -/
theorem interpAt_between (arr : List ℚ) (x lo hi : ℚ) (hx : 0 ≤ x) (hne : arr ≠ [])
    (hb : ∀ v ∈ arr, lo ≤ v ∧ v ≤ hi) : lo ≤ interpAt arr x ∧ interpAt arr x ≤ hi := by
  unfold interpAt
  have hlen : 0 < arr.length := List.length_pos_iff.mpr hne
  simp only
  split_ifs with h
  · set j := x.floor.toNat with hj
    have ha := hb _ (getD_mem (show j < arr.length by omega))
    have hb' := hb _ (getD_mem h)
    have hfl : (0 : ℤ) ≤ ⌊x⌋ := Int.floor_nonneg.mpr hx
    have hjx : (j : ℚ) = (⌊x⌋ : ℚ) := by
      rw [hj, ratFloor_eq]
      have : ((⌊x⌋.toNat : ℕ) : ℤ) = ⌊x⌋ := Int.toNat_of_nonneg hfl
      exact_mod_cast this
    have t0 : 0 ≤ x - (j : ℚ) := by rw [hjx]; linarith [Int.floor_le x]
    have t1 : x - (j : ℚ) ≤ 1 := by rw [hjx]; linarith [Int.lt_floor_add_one x]
    constructor <;> nlinarith [ha.1, ha.2, hb'.1, hb'.2]
  · exact hb _ (getD_mem (by omega))

/-- … so resampling never leaves the range of the profile. -/
theorem range_preserved (arr : List ℚ) (m : ℕ) (lo hi : ℚ) (hne : arr ≠ [])
    (hb : ∀ v ∈ arr, lo ≤ v ∧ v ≤ hi) : ∀ v ∈ interp arr m, lo ≤ v ∧ v ≤ hi := by
  intro v hv
  unfold interp at hv
  rw [List.mem_map] at hv
  obtain ⟨k, hk, rfl⟩ := hv
  have hn : 1 ≤ arr.length := List.length_pos_iff.mpr hne
  exact interpAt_between arr _ lo hi (linspace_range _ _ _ hn (List.mem_range.mp hk)).1 hne hb

/-- A constant profile stays constant. -/
theorem const_fixed (c : ℚ) (n m : ℕ) (hn : 1 ≤ n) : ∀ v ∈ interp (List.replicate n c) m, v = c := by
  intro v hv
  have := range_preserved (List.replicate n c) m c c (by
    intro h; have := congrArg List.length h; simp at this; omega)
    (fun w hw => by rw [List.eq_of_mem_replicate hw]; exact ⟨le_refl _, le_refl _⟩) v hv
  exact le_antisymm this.2 this.1

theorem interp_length (arr : List ℚ) (m : ℕ) : (interp arr m).length = m := by simp [interp]

theorem interp_get (arr : List ℚ) (m k : ℕ) (hk : k < m) :
    (interp arr m)[k]? = some (interpAt arr (linspace arr.length m k)) := by
  simp [interp, hk]

/-- at a whole grid point the resampled value is the profile value itself -/
theorem interpAt_nat (arr : List ℚ) (k : ℕ) (hk : k < arr.length) : interpAt arr (k : ℚ) = arr.getD k 0 := by
  unfold interpAt
  simp only [floor_toNat_natCast]
  split_ifs with h
  · simp
  · have : k = arr.length - 1 := by omega
    rw [← this]

/-- First and last value are kept (for at least two increments). -/
theorem first_last (arr : List ℚ) (m : ℕ) (hm : 2 ≤ m) (hne : arr ≠ []) :
    (interp arr m)[0]? = some (arr.getD 0 0) ∧
    (interp arr m)[m - 1]? = some (arr.getD (arr.length - 1) 0) := by
  have hlen : 0 < arr.length := List.length_pos_iff.mpr hne
  constructor
  · rw [interp_get arr m 0 (by omega)]
    have : linspace arr.length m 0 = ((0 : ℕ) : ℚ) := by unfold linspace; split_ifs <;> simp
    rw [this, interpAt_nat arr 0 hlen]
  · rw [interp_get arr m (m - 1) (by omega)]
    have : linspace arr.length m (m - 1) = ((arr.length - 1 : ℕ) : ℚ) := by
      unfold linspace
      have h1 : ¬ m ≤ 1 := by omega
      simp only [h1, if_false]
      have e1 : ((m - 1 : ℕ) : ℚ) = (m : ℚ) - 1 := by
        have : 1 ≤ m := by omega
        push_cast [Nat.cast_sub this]; ring
      have e2 : ((arr.length - 1 : ℕ) : ℚ) = (arr.length : ℚ) - 1 := by
        push_cast [Nat.cast_sub hlen]; ring
      rw [e1, e2]
      have : (m : ℚ) - 1 ≠ 0 := by
        have : (2 : ℚ) ≤ m := by exact_mod_cast hm
        linarith
      field_simp
    rw [this, interpAt_nat arr _ (by omega)]

/-- A profile that already has one value per increment is left unchanged. -/
theorem same_length_id (arr : List ℚ) (k : ℕ) (hk : k < arr.length) :
    (interp arr arr.length)[k]? = some (arr.getD k 0) := by
  rw [interp_get arr arr.length k hk]
  have : linspace arr.length arr.length k = (k : ℚ) := by
    unfold linspace
    split_ifs with h
    · have : k = 0 := by omega
      simp [this]
    · have : (arr.length : ℚ) - 1 ≠ 0 := by
        have : (2 : ℚ) ≤ arr.length := by exact_mod_cast (by omega : 2 ≤ arr.length)
        linarith
      field_simp
  rw [this, interpAt_nat arr k hk]

/-- A linear profile `a + b·j` is reproduced exactly at every grid point. -/
theorem linear_exact (a b : ℚ) (arr : List ℚ) (m k : ℕ) (hk : k < m) (hne : arr ≠ [])
    (hlin : ∀ j, j < arr.length → arr.getD j 0 = a + b * j) :
    (interp arr m)[k]? = some (a + b * linspace arr.length m k) := by
  rw [interp_get arr m k hk]
  have hlen : 0 < arr.length := List.length_pos_iff.mpr hne
  obtain ⟨x0, x1⟩ := linspace_range arr.length m k hlen hk
  set x := linspace arr.length m k
  unfold interpAt
  simp only
  have hfl : (0 : ℤ) ≤ ⌊x⌋ := Int.floor_nonneg.mpr x0
  have hjx : ((x.floor.toNat : ℕ) : ℚ) = (⌊x⌋ : ℚ) := by
    rw [ratFloor_eq]
    have : ((⌊x⌋.toNat : ℕ) : ℤ) = ⌊x⌋ := Int.toNat_of_nonneg hfl
    exact_mod_cast this
  split_ifs with h
  · rw [hlin _ (by omega), hlin _ h]
    push_cast; ring
  · -- x ≥ j ≥ n-1 and x ≤ n-1, so x = n-1
    have hj : arr.length - 1 ≤ x.floor.toNat := by omega
    have : ((arr.length - 1 : ℕ) : ℚ) ≤ ((x.floor.toNat : ℕ) : ℚ) := by exact_mod_cast hj
    rw [hjx] at this
    have e2 : ((arr.length - 1 : ℕ) : ℚ) = (arr.length : ℚ) - 1 := by
      push_cast [Nat.cast_sub hlen]; ring
    have hx : x = (arr.length : ℚ) - 1 := by
      have := Int.floor_le x
      linarith
    rw [hlin _ (by omega), e2, hx]

/-! ### Demand, cost and production -/

/-- The demand of a load point is the sum over its categories of profile value × customers. -/
theorem load_eq_sum (cats : List Category) (n : ℚ) (i : ℕ) :
    (setLoadAndCost cats n i).1 = (cats.map (fun c => c.p.getD i 0 * n)).sum ∧
    (setLoadAndCost cats n i).2.1 = (cats.map (fun c => c.q.getD i 0 * n)).sum := ⟨rfl, rfl⟩

private theorem foldl_max_ge (cats : List Category) (acc : ℚ) :
    acc ≤ cats.foldl (fun acc c => max acc (c.costA + c.costB * 1)) acc ∧
    ∀ c ∈ cats, c.costA + c.costB * 1 ≤ cats.foldl (fun acc c => max acc (c.costA + c.costB * 1)) acc := by
  induction cats generalizing acc with
  | nil => simp
  | cons d ds ih =>
    simp only [List.foldl_cons]
    obtain ⟨h1, h2⟩ := ih (max acc (d.costA + d.costB * 1))
    refine ⟨le_trans (le_max_left _ _) h1, ?_⟩
    intro c hc
    rcases List.mem_cons.mp hc with rfl | hc'
    · exact le_trans (le_max_right _ _) h1
    · exact h2 c hc'

/-- The shedding cost is the highest category cost, or the fixed default 1e8 when none is
positive; in every case it is strictly positive. -/
theorem cost_rule (cats : List Category) (n : ℚ) (i : ℕ) :
    0 < (setLoadAndCost cats n i).2.2 ∧
    (∀ c ∈ cats, 0 < c.costA + c.costB → c.costA + c.costB ≤ (setLoadAndCost cats n i).2.2) ∧
    ((∀ c ∈ cats, c.costA + c.costB ≤ 0) → (setLoadAndCost cats n i).2.2 = 100000000) := by
  unfold setLoadAndCost
  simp only
  obtain ⟨h1, h2⟩ := foldl_max_ge cats 0
  refine ⟨?_, ?_, ?_⟩
  · split_ifs with h
    · exact h
    · norm_num
  · intro c hc hpos
    have := h2 c hc
    rw [mul_one] at this
    split_ifs with h
    · exact this
    · exfalso; exact h (lt_of_lt_of_le hpos this)
  · intro hall
    have : cats.foldl (fun acc c => max acc (c.costA + c.costB * 1)) 0 ≤ 0 := by
      clear h1 h2
      suffices ∀ acc : ℚ, acc ≤ 0 → cats.foldl (fun acc c => max acc (c.costA + c.costB * 1)) acc ≤ 0 from this 0 (le_refl _)
      induction cats with
      | nil => intro acc h; simpa
      | cons d ds ih =>
        intro acc h
        simp only [List.foldl_cons]
        apply ih (fun c hc => hall c (List.mem_cons_of_mem _ hc))
        have := hall d List.mem_cons_self
        rw [mul_one]; exact max_le h this
    rw [if_neg (not_lt.mpr this)]

/-- Production is the profile value capped at the unit's rating. -/
theorem prod_capped (pp qp : List ℚ) (pmax qmax : ℚ) (i : ℕ) :
    (setProd pp qp pmax qmax i).1 ≤ pmax ∧ (setProd pp qp pmax qmax i).1 ≤ pp.getD i 0 ∧
    (pp.getD i 0 ≤ pmax → (setProd pp qp pmax qmax i).1 = pp.getD i 0) ∧
    (setProd pp qp pmax qmax i).2 ≤ qmax := by
  unfold setProd
  exact ⟨min_le_right _ _, min_le_left _ _, fun h => min_eq_left h, min_le_right _ _⟩

/-- Non-vacuity: a 24-value linear profile resampled to 12 increments. -/
example : (interp [0, 1, 2, 3, 4, 5] 3) = [0, 5/2, 5] := by decide +kernel

/-! ### The preparation of a run -/

/-- **One value per increment**: whatever the period and the step (whole quotient or not), `prepare_system` resamples
every profile to exactly as many values as the run has increments, and each of them is the resampling of the original
profile onto that grid - so all of the resampling theorems above (first and last value kept, range kept, constant,
matching and linear profiles reproduced) hold for the demand applied in every increment of every run. -/
theorem prepare_one_value_per_increment (period step unitStep : ℚ) (profiles : List (List ℚ)) :
    let r := prepareSystem period step unitStep profiles
    (∀ p ∈ r.2, p.length = r.1.length) ∧ r.2.length = profiles.length ∧
    ∀ k (hk : k < profiles.length), r.2[k]? = some (interp (profiles[k]) r.1.length) := by
  intro r
  have hlen : r.1.length = (increments period step).toNat := by
    show (timeArray _ unitStep).length = _
    simp [timeArray]
  refine ⟨?_, by simp [r, prepareSystem], ?_⟩
  · intro p hp
    simp only [r, prepareSystem, List.mem_map] at hp
    obtain ⟨arr, _, rfl⟩ := hp
    rw [interp_length]; exact hlen.symm
  · intro k hk
    simp only [r, prepareSystem, List.getElem?_map, List.getElem?_eq_getElem hk, Option.map_some]
    congr 2
    simp [timeArray]

/-- Non-vacuity: 4 h 30 min in 1 h steps is 4 increments; a 5-value ramp is resampled to 4 values 0, 4/3, 8/3, 4 (first and
last kept), not stretched over 5. -/
example : prepareSystem (9/2) 1 1 [[0, 1, 2, 3, 4]] = ([1, 2, 3, 4], [[0, 4/3, 8/3, 4]]) := by decide +kernel

end Relsad.C19
