/-
C11  Batteries respect state-of-charge and power limits and conserve energy.

All statements quantify over every well-formed parameter set (`WF`), every state inside the
limits (`Inv`), every request (p, q of either sign, including the `-INF` "unbounded grid"
request) and every step length h ≥ 0; `run_envelope` lifts them to every request sequence.
-/
import Relsad.Model.Battery
import Relsad.Lemmas.BatteryL

namespace Relsad.C11
open Relsad Relsad.Battery Relsad.BatteryL

/-- Stored energy within the configured limits. -/
def Inv (P : BatParams) (s : BatState) : Prop :=
  P.socMin0 * P.eMax ≤ s.e ∧ s.e ≤ P.socMax * P.eMax

/-- The survival reserve is not armed (always true in the simulator: the timer is only ever
started for LIMITED_SUPPORT batteries, while the reserve is only applied in SURVIVAL mode). -/
def Calm (P : BatParams) (s : BatState) : Prop := ¬ (s.remSurv > 0 ∧ P.mode = some MgMode.survival)

/-- Everything the property demands of one request. -/
structure Envelope (P : BatParams) (s : BatState) (p q h : ℚ) (s' : BatState) (x : Exchange) : Prop where
  inv : Inv P s'
  calm : Calm P s'
  active : s'.active = s.active
  pprod_nonneg : 0 ≤ x.pprod
  pprod_le : x.pprod ≤ P.pMax
  qprod_nonneg : 0 ≤ x.qprod
  qprod_le : x.qprod ≤ P.qMax
  pload_nonneg : 0 ≤ x.pload
  pload_le : x.pload ≤ P.pMax
  qload_zero : x.qload = 0
  apparent_le : x.pprod + x.qprod ≤ P.pMax
  /-- a battery never injects active power when asked to absorb, and vice versa -/
  direction_p : (0 ≤ p → x.pload = 0) ∧ (p < 0 → x.pprod = 0)
  direction_q : q < 0 → x.qprod = 0
  /-- conservation: charging power × η, discharged power / η, × step -/
  energy : s'.e - s.e = P.eta * x.pload * h - 1 / P.eta * (x.pprod + x.qprod) * h
  /-- remainder: same sign as the request and no larger -/
  prem_pos : 0 ≤ p → 0 ≤ x.pRem ∧ x.pRem ≤ p
  prem_neg : p < 0 → p ≤ x.pRem ∧ x.pRem ≤ 0
  qrem_pos : 0 ≤ q → 0 ≤ x.qRem ∧ x.qRem ≤ q
  qrem_neg : q < 0 → x.qRem = q
  prem_eq : x.pRem = p + x.pload - x.pprod
  qrem_eq : x.qRem = q + x.qload - x.qprod

private theorem survivalStep_calm (P : BatParams) (s : BatState) (h : ℚ) (hc : Calm P s) :
    survivalStep P s h = { s with socMin := P.socMin0 } := by
  unfold survivalStep; unfold Calm at hc; simp only [hc, if_false]

private theorem discharge_calm (P : BatParams) (wf : WF P) (s : BatState) (p q h : ℚ)
    (hI : Inv P s) (hc : Calm P s) (hp : 0 ≤ p) (hq : 0 ≤ q) (hh : 0 ≤ h) :
    ∃ s' pr qr, discharge P s p q h = some (s', pr, qr) ∧ Inv P s' ∧ Calm P s' ∧ s'.active = s.active ∧
      s'.e ≤ s.e ∧ 0 ≤ pr ∧ pr ≤ p ∧ 0 ≤ qr ∧ qr ≤ q ∧ p - pr ≤ P.pMax ∧ q - qr ≤ P.qMax ∧
      (p - pr) + (q - qr) ≤ P.pMax ∧ s.e - s'.e = 1 / P.eta * ((p - pr) + (q - qr)) * h := by
  obtain ⟨e', pr, qr, h1, h2, h3, h4, h5, h6, h7, h8, h9, h10, h11⟩ :=
    dischargeCore_spec P wf s.e P.socMin0 p q h hI.1 hp hq hh
  refine ⟨{ s with socMin := P.socMin0, e := e' }, pr, qr, ?_, ⟨h2, le_trans h3 hI.2⟩, ?_, rfl, h3, h4, h5, h6, h7,
    h8, h9, h10, h11⟩
  · unfold discharge; rw [survivalStep_calm P s h hc]; simp only [h1, Option.map_some]
  · exact hc

private theorem charge_ok (P : BatParams) (wf : WF P) (s : BatState) (pc h : ℚ)
    (hI : Inv P s) (hc : Calm P s) (hp : 0 ≤ pc) (hh : 0 ≤ h) :
    ∃ s' r, charge P s pc h = some (s', r) ∧ Inv P s' ∧ Calm P s' ∧ s'.active = s.active ∧
      0 ≤ r ∧ r ≤ pc ∧ pc - r ≤ P.pMax ∧ s'.e - s.e = P.eta * (pc - r) * h := by
  obtain ⟨e', r, h1, h2, h3, h4, h5, h6, h7⟩ := chargeCore_spec P wf s.e pc h hI.2 hp hh
  refine ⟨{ s with e := e' }, r, ?_, ⟨le_trans hI.1 h2, h3⟩, hc, rfl, h4, h5, h6, h7⟩
  unfold charge; simp only [h1, Option.map_some]

/-- closes the routine fields of `Envelope` (bounds and sign-split implications). -/
macro "envt" : tactic => `(tactic| first
  | assumption
  | rfl
  | (dsimp only; linarith)
  | (intro h'; first | (exfalso; linarith) | rfl | trivial | (dsimp only; constructor <;> linarith) | (dsimp only; linarith))
  | (dsimp only; constructor <;> intro h' <;> first | (exfalso; linarith) | rfl | linarith))

/-- **Main theorem**: every request to an active battery inside its limits succeeds (no
division by zero) and satisfies the whole envelope. -/
theorem updateBus_envelope (P : BatParams) (wf : WF P) (s : BatState) (p q h : ℚ)
    (hI : Inv P s) (hc : Calm P s) (ha : s.active = true) (hh : 0 ≤ h) :
    ∃ s' x, updateBus P s p q h = some (s', x) ∧ Envelope P s p q h s' x := by
  have hpm := wf.pMax_nonneg
  have hqm := wf.qMax_nonneg
  unfold updateBus
  simp only [ha, Bool.not_true, Bool.false_eq_true, if_false]
  by_cases hp : p ≥ 0 <;> by_cases hq : q ≥ 0
  · -- discharge both
    obtain ⟨s', pr, qr, e1, i1, c1, a1, _, b1, b2, b3, b4, b5, b6, b7, b8⟩ := discharge_calm P wf s p q h hI hc hp hq hh
    rw [if_pos ⟨hp, hq⟩, e1]
    refine ⟨_, _, rfl, ?_⟩
    constructor
    case energy => dsimp only; linarith [b8]
    all_goals envt
  · -- discharge active only
    have hq' : q < 0 := not_le.mp hq
    obtain ⟨s', pr, qr, e1, i1, c1, a1, _, b1, b2, b3, b4, b5, b6, b7, b8⟩ := discharge_calm P wf s p 0 h hI hc hp (le_refl _) hh
    have hnot : ¬ (p < 0 ∧ q ≥ 0) := fun hx => hq hx.2
    have hnot0 : ¬ (p ≥ 0 ∧ q ≥ 0) := fun hx => hq hx.2
    rw [if_neg hnot0, if_neg hnot, if_pos ⟨hp, hq'⟩, e1]
    have hqr : qr = 0 := le_antisymm b4 b3
    rw [hqr] at b8
    refine ⟨_, _, rfl, ?_⟩
    constructor
    case energy => dsimp only; linarith [b8]
    all_goals envt
  · -- charge, and discharge reactive
    have hp' : p < 0 := not_le.mp hp
    obtain ⟨s1, r, e1, i1, c1, a1, r1, r2, r3, r4⟩ := charge_ok P wf s (-p) h hI hc (by linarith) hh
    obtain ⟨s2, pr, qr, e2, i2, c2, a2, _, b1, b2, b3, b4, b5, b6, b7, b8⟩ := discharge_calm P wf s1 0 q h i1 c1 (le_refl _) hq hh
    have hpr : pr = 0 := le_antisymm b2 b1
    rw [hpr] at b8
    have hnot : ¬ (p ≥ 0 ∧ q ≥ 0) := fun hx => hp hx.1
    rw [if_neg hnot, if_pos ⟨hp', hq⟩, e1]; dsimp only; rw [e2]
    refine ⟨_, _, rfl, ?_⟩
    constructor
    case energy =>
      dsimp only
      have e3 : s2.e - s.e = (s1.e - s.e) - (s1.e - s2.e) := by ring
      rw [e3, r4, b8]; ring
    case active => rw [a2, a1]
    all_goals envt
  · -- charge only
    have hp' : p < 0 := not_le.mp hp
    have hq' : q < 0 := not_le.mp hq
    obtain ⟨s1, r, e1, i1, c1, a1, r1, r2, r3, r4⟩ := charge_ok P wf s (-p) h hI hc (by linarith) hh
    have hnot1 : ¬ (p ≥ 0 ∧ q ≥ 0) := fun hx => hp hx.1
    have hnot2 : ¬ (p < 0 ∧ q ≥ 0) := fun hx => hq hx.2
    have hnot3 : ¬ (p ≥ 0 ∧ q < 0) := fun hx => hp hx.1
    rw [if_neg hnot1, if_neg hnot2, if_neg hnot3, e1]
    refine ⟨_, _, rfl, ?_⟩
    constructor
    case energy => dsimp only; rw [r4]; ring
    all_goals envt

/-- State of charge stays within the configured minimum and maximum. -/
theorem soc_within_limits (P : BatParams) (wf : WF P) (s : BatState) (p q h : ℚ)
    (hI : Inv P s) (hc : Calm P s) (ha : s.active = true) (hh : 0 ≤ h) :
    ∃ s' x, updateBus P s p q h = some (s', x) ∧ P.socMin0 ≤ soc P s' ∧ soc P s' ≤ P.socMax := by
  obtain ⟨s', x, e, env⟩ := updateBus_envelope P wf s p q h hI hc ha hh
  refine ⟨s', x, e, ?_, ?_⟩
  · unfold soc; rw [le_div_iff₀ wf.eMax_pos]; exact env.inv.1
  · unfold soc; rw [div_le_iff₀ wf.eMax_pos]; exact env.inv.2

/-- An inactive battery (failed transformer) exchanges nothing and hands the request on. -/
theorem inactive_exchanges_nothing (P : BatParams) (s : BatState) (p q h : ℚ) (ha : s.active = false) :
    updateBus P s p q h = some (s, { pRem := p, qRem := q }) := by
  unfold updateBus; simp [ha]

/-- The "unbounded grid" request (`-INF`) charges at the rating, or as much as fits. -/
theorem inf_request (P : BatParams) (wf : WF P) (s : BatState) (h : ℚ)
    (hI : Inv P s) (hc : Calm P s) (ha : s.active = true) (hh : 0 ≤ h) (hbig : P.pMax < INF)
    (hroom : s.e + P.eta * P.pMax * h ≤ P.socMax * P.eMax) :
    ∃ s' x, updateBus P s (-INF) 0 h = some (s', x) ∧ x.pload = P.pMax ∧ s'.e = s.e + P.eta * P.pMax * h := by
  have hINF : (-INF : ℚ) < 0 := by unfold INF; norm_num
  have hem := wf.eMax_pos
  have h1 : ¬ ((-INF : ℚ) ≥ 0 ∧ (0 : ℚ) ≥ 0) := fun hx => absurd hx.1 (not_le.mpr hINF)
  have hgt : INF > P.pMax := hbig
  have hnot : ¬ ((s.e + P.eta * P.pMax * h) / P.eMax > P.socMax) := by
    rw [gt_iff_lt, not_lt, div_le_iff₀ hem]; exact hroom
  have hch : charge P s (- -INF) h = some ({ s with e := s.e + P.eta * P.pMax * h }, INF - P.pMax) := by
    unfold charge chargeCore
    simp only [neg_neg, hgt, if_true, ge_iff_le, le_refl, hnot, if_false, Option.map_some]
  obtain ⟨s2, pr, qr, e2, i2, c2, a2, _, b1, b2, b3, b4, b5, b6, b7, b8⟩ :=
    discharge_calm P wf { s with e := s.e + P.eta * P.pMax * h } 0 0 h
      ⟨by have := hI.1; have : 0 ≤ P.eta * P.pMax * h := by
            have := wf.eta_pos; have := wf.pMax_nonneg; positivity
          simp only; linarith, hroom⟩ hc (le_refl _) (le_refl _) hh
  unfold updateBus
  simp only [ha, Bool.not_true, Bool.false_eq_true, if_false]
  rw [if_neg h1, if_pos ⟨hINF, le_refl _⟩, hch]; dsimp only; rw [e2]
  refine ⟨_, _, rfl, by dsimp only; ring, ?_⟩
  have hpr : pr = 0 := le_antisymm b2 b1
  have hqr : qr = 0 := le_antisymm b4 b3
  simp only at b8
  rw [hpr, hqr] at b8
  simp only at *
  linarith

/-- `Battery.update` with a drawn start level inside its support. -/
theorem update_envelope (P : BatParams) (wf : WF P) (s : BatState) (p q h x : ℚ) (first : Bool)
    (hI : Inv P s) (hc : Calm P s) (ha : s.active = true) (hh : 0 ≤ h) (hx : drawSupport P x) :
    ∃ s' ex, update P s p q h first x = some (s', ex) ∧ Inv P s' ∧ Calm P s' ∧
      0 ≤ ex.pprod ∧ ex.pprod ≤ P.pMax ∧ 0 ≤ ex.qprod ∧ ex.qprod ≤ P.qMax ∧
      0 ≤ ex.pload ∧ ex.pload ≤ P.pMax ∧ ex.pprod + ex.qprod ≤ P.pMax := by
  unfold update
  by_cases hd : (P.mode = some MgMode.survival ∨ P.mode = some MgMode.fullSupport) ∧ first = true
  · simp only [hd, and_self, if_true]
    have hI' : Inv P (drawSOC s x) := by
      unfold drawSOC Inv; simp only; exact ⟨by rw [mul_comm]; exact hx.1, hx.2⟩
    obtain ⟨s', ex, e, env⟩ := updateBus_envelope P wf (drawSOC s x) p q h hI' hc ha hh
    exact ⟨s', ex, e, env.inv, env.calm, env.pprod_nonneg, env.pprod_le, env.qprod_nonneg, env.qprod_le,
      env.pload_nonneg, env.pload_le, env.apparent_le⟩
  · simp only [hd, if_false]
    obtain ⟨s', ex, e, env⟩ := updateBus_envelope P wf s p q h hI hc ha hh
    exact ⟨s', ex, e, env.inv, env.calm, env.pprod_nonneg, env.pprod_le, env.qprod_nonneg, env.qprod_le,
      env.pload_nonneg, env.pload_le, env.apparent_le⟩

/-- A request: balances, step length, activity of the transformer. -/
structure Req where
  p : ℚ
  q : ℚ
  h : ℚ
  trafoFailed : Bool

/-- Run a whole sequence of increments (update_fail_status, then the request). -/
def run (P : BatParams) : BatState → List Req → Option BatState
  | s, [] => some s
  | s, r :: rs =>
    match updateBus P (setActive s r.trafoFailed) r.p r.q r.h with
    | none => none
    | some (s', _) => run P s' rs

/-- **Every request sequence**: no request ever fails and the limits hold at the end (hence
after every prefix), whatever the mix of surplus/deficit, signs, step lengths and transformer
outages. -/
theorem run_envelope (P : BatParams) (wf : WF P) (rs : List Req) :
    ∀ s, Inv P s → Calm P s → (∀ r ∈ rs, 0 ≤ r.h) → ∃ s', run P s rs = some s' ∧ Inv P s' ∧ Calm P s' := by
  induction rs with
  | nil => intro s hI hc _; exact ⟨s, rfl, hI, hc⟩
  | cons r rs ih =>
    intro s hI hc hh
    have hr := hh r (List.mem_cons_self)
    have hrest : ∀ r' ∈ rs, 0 ≤ r'.h := fun r' hr' => hh r' (List.mem_cons_of_mem _ hr')
    unfold run
    cases hf : r.trafoFailed
    · have ha : (setActive s false).active = true := by simp [setActive]
      have hI' : Inv P (setActive s false) := hI
      have hc' : Calm P (setActive s false) := hc
      obtain ⟨s', x, e, env⟩ := updateBus_envelope P wf (setActive s false) r.p r.q r.h hI' hc' ha hr
      simp only [e]
      exact ih s' env.inv env.calm hrest
    · have ha : (setActive s true).active = false := by simp [setActive]
      rw [inactive_exchanges_nothing P (setActive s true) r.p r.q r.h ha]
      exact ih (setActive s true) hI hc hrest

/-! ### Outside the covered region (witnesses; replayed on the real class by the check) -/

/-- D18: with the survival reserve armed (API only) and the level below the reserve, a
discharge request *raises* the stored energy and reports a remainder larger than the request. -/
theorem survival_reserve_breaks_envelope :
    (updateBus { pMax := 1/2, qMax := 1/2, eMax := 1, socMin0 := 1/10, socMax := 1, eta := 1,
                 mode := some MgMode.survival, maxLoad := 1/5 }
      { e := 1/5, socMin := 1/10, remSurv := 4 } (1/10) 0 1).map
        (fun r => decide (r.1.e > 1/5 ∧ r.2.pRem > 1/10)) = some true := by
  decide +kernel

/-- Non-vacuity: the default battery of the documentation, half full, meets `WF`, `Inv`, `Calm`. -/
example : WF { pMax := 1/2, qMax := 1/2, eMax := 1, socMin0 := 1/10, socMax := 1, eta := 19/20 } ∧
    Inv { pMax := 1/2, qMax := 1/2, eMax := 1, socMin0 := 1/10, socMax := 1, eta := 19/20 } { e := 1/2, socMin := 1/10 } ∧
    Calm { pMax := 1/2, qMax := 1/2, eMax := 1, socMin0 := 1/10, socMax := 1, eta := 19/20 } { e := 1/2, socMin := 1/10 } := by
  refine ⟨⟨by norm_num, by norm_num, by norm_num, by norm_num, by norm_num, by norm_num, by norm_num, by norm_num⟩,
    ⟨by norm_num, by norm_num⟩, ?_⟩
  unfold Calm; simp

end Relsad.C11
