/-
C05  Faulted lines are isolated: never re-energised from the feed while failed.

Proved here, for every configuration, state and input of the switching model (manual control):
  * a fault on an in-service line trips the breaker of its network and the breakers of the
    attached microgrids in the same operation, and never puts any line in service;
  * the only operation that closes a breaker is the controller's breaker check, and it closes an
    open breaker only when the sectioning timer has run out, the breaker's own line is healthy and
    not part of a failed section (and, for a SURVIVAL microgrid, the distribution network has no
    failed line): the breaker stays open while the timer runs and never closes onto its own
    failed line;
  * taking a section out of service takes all of its own lines out of service; the rest of the
    control loop never operates a breaker.
The first state invariant of the property, `IsolatedInv` (whenever a breaker is closed no failed
line of its network is in service), is PROVED for every reachable state of every well-formed
configuration (`isolated_invariant`), by an inductive invariant (`Lemmas/ControlInvL.lean`:
Safe ∧ Out ∧ Head ∧ sizes) preserved by faults, repairs, both control loops and whole increments —
under manual control and under ICT-based control with any pattern of reachable devices
(`isolated_invariant_auto`).
Well-formedness is the executable `wfB`, printed by the driver for every configuration extracted
from a real power system.  The second one (`SwitchesAgreeInv`: an open disconnector / breaker never sits
on a line that is in service) is PROVED as well (`switches_agree_invariant`, `…_auto`), with a third
inductive invariant (`Lemmas/ControlSwL.lean`) and the additional structural clauses `wfB2` (a
section that lists one disconnector of a line lists all of them, …), also evaluated on every real
configuration.
-/
import Relsad.Model.Control
import Relsad.Lemmas.ControlL
import Relsad.Lemmas.ControlInvL
import Relsad.Lemmas.ControlSwL
import Relsad.Lemmas.ControlDevL

namespace Relsad.C05
open Relsad.Control

/-! ### full statements -/

/-- reachable states: from the initial state by faults on arbitrary lines and control steps -/
inductive Reach (C : Cfg) : St → Prop where
  | init : Reach C (St.init C)
  | fail (s : St) (l : Nat) (rep : ℚ) : Reach C s → l < C.lines.length → gb s.failed l = false → Reach C (lineFail C s l rep)
  | step (s : St) (dt : ℚ) : Reach C s → 0 < dt → Reach C (step C s dt)

/-- C05, first invariant: whenever a breaker is closed no failed line of its network is in service. -/
def IsolatedInv (C : Cfg) : Prop := ∀ s, Reach C s → isolatedOK C s = true
/-- C05, second invariant: the reported position of every switch agrees with its line. -/
def SwitchesAgreeInv (C : Cfg) : Prop := ∀ s, Reach C s → switchesAgree C s = true

/-- reachable states when the main controller is in service in some increments (ICT-based loops with whatever the
controllers can reach in that increment) and under repair in others (manual loops) -/
inductive ReachA (C : Cfg) : St → Prop where
  | init : ReachA C (St.init C)
  | fail (s : St) (l : Nat) (rep : ℚ) : ReachA C s → l < C.lines.length → gb s.failed l = false → ReachA C (lineFail C s l rep)
  | step (s : St) (dt : ℚ) : ReachA C s → 0 < dt → ReachA C (step C s dt)
  | stepA (s : St) (dt : ℚ) (cm : Comm) : ReachA C s → 0 < dt → ReachA C (stepA C s dt cm)
  | spread (s : St) (S : ℚ) : ReachA C s → ReachA C (spreadSec C s S)      -- software failure of the main controller

/-! ### proved -/

/-- every reachable state of a well-formed configuration satisfies the inductive invariant -/
theorem reach_inv (C : Cfg) (w : WF C) : ∀ s, Reach C s → Inv C s := by
  intro s hs
  induction hs with
  | init => exact Inv.init w
  | fail s l rep _ hl _ ih => exact ih.lineFail w l hl rep
  | step s dt _ _ ih => exact ih.step w dt

/-- **C05, first invariant, for all reachable states**: in every well-formed configuration, whatever faults
occur and however many increments are simulated, a failed line is never in service behind a closed breaker. -/
theorem isolated_invariant (C : Cfg) (hC : wfB C = true) : IsolatedInv C :=
  fun s hs => (reach_inv C (WF.of_wfB C hC) s hs).isolatedOK


/-- A fault never puts a line in service and never closes a switch. -/
theorem fail_never_energises (C : Cfg) (s : St) (l : Nat) (rep : ℚ) : Opens s (lineFail C s l rep) :=
  opens_lineFail C s l rep

private theorem fold_children_open (C : Cfg) (ms : List Nat) (s : St) (m : Nat) (hm : m ∈ ms)
    (hlen : ∀ m' ∈ ms, (C.nets.getD m' default).cb < s.cbOpen.length) :
    gb (ms.foldl (fun s m => cbOpenOp C s (C.nets.getD m default).cb) s).cbOpen (C.nets.getD m default).cb = true := by
  induction ms generalizing s with
  | nil => cases hm
  | cons a as ih =>
    simp only [List.foldl_cons]
    have hlen' : ∀ m' ∈ as, (C.nets.getD m' default).cb < (cbOpenOp C s (C.nets.getD a default).cb).cbOpen.length := by
      intro m' hm'; rw [cbOpen_length_cbOpenOp]; exact hlen m' (List.mem_cons_of_mem _ hm')
    rcases List.mem_cons.mp hm with rfl | hm'
    · have h1 := cbOpenOp_sets C s (C.nets.getD m default).cb (hlen m List.mem_cons_self)
      exact (opens_foldl _ (fun s' m' => opens_cbOpenOp C s' _) as _).cbOpen _ h1
    · exact ih _ hm' hlen'

/-- **A fault on an in-service line trips the breaker of its network and the breakers of the
attached microgrids, in the same operation.** -/
theorem fail_trips_breaker (C : Cfg) (s : St) (l : Nat) (rep : ℚ) (hconn : gb s.conn l = true)
    (hcb : (C.nets.getD (C.lines.getD l default).net default).cb < s.cbOpen.length)
    (hch : ∀ m ∈ (C.nets.getD (C.lines.getD l default).net default).children, (C.nets.getD m default).cb < s.cbOpen.length) :
    let n := C.nets.getD (C.lines.getD l default).net default
    gb (lineFail C s l rep).cbOpen n.cb = true ∧
    ∀ m ∈ n.children, gb (lineFail C s l rep).cbOpen (C.nets.getD m default).cb = true := by
  intro n
  unfold lineFail
  simp only [hconn, if_true]
  set s1 : St := { s with failed := s.failed.set l true, netFailed := s.netFailed.set (C.lines.getD l default).net true, rem := s.rem.set l rep }
  have h2 : gb (cbOpenOp C s1 n.cb).cbOpen n.cb = true := cbOpenOp_sets C s1 n.cb hcb
  constructor
  · exact (opens_foldl _ (fun s' m' => opens_cbOpenOp C s' _) n.children _).cbOpen _ h2
  · intro m hm
    apply fold_children_open C n.children _ m hm
    intro m' hm'; rw [cbOpen_length_cbOpenOp]; exact hch m' hm'

/-! the breaker check -/

/-- **The breaker closes only when allowed**: if the breaker of network `n` is open before the
controller's breaker check and closed after it, then the sectioning timer has run out, the
breaker's own line is not failed and lies in no failed section, and a SURVIVAL microgrid is not
being held by a failed line in its distribution network. -/
theorem breaker_closes_only_if (C : Cfg) (s : St) (n : Nat)
    (hopen : gb s.cbOpen (C.nets.getD n default).cb = true)
    (hclosed : gb (checkBreakerManually C s n).cbOpen (C.nets.getD n default).cb = false) :
    gr s.timer n ≤ 0 ∧
    gb ((s.failedSecs.getD n []).foldl (secDisconnect C) s).failed (C.nets.getD n default).connLine = false ∧
    ((s.failedSecs.getD n []).any (fun k => (C.secs.getD k default).lines.contains (C.nets.getD n default).connLine)) = false ∧
    survivalHold C s n = false := by
  unfold checkBreakerManually at hclosed
  simp only [hopen, Bool.not_true, Bool.false_eq_true, if_false] at hclosed
  split_ifs at hclosed with h1 h2 h3
  · rw [hopen] at hclosed; exact absurd hclosed (by simp)
  · simp only [Bool.and_eq_true, Bool.not_eq_true'] at h3
    exact ⟨h2, h3.1, h3.2, by simpa using h1⟩
  · have := (opens_foldl _ (fun s' k => opens_secDisconnect C s' k) (s.failedSecs.getD n []) s).cbOpen _ hopen
    rw [this] at hclosed; exact absurd hclosed (by simp)
  · rw [hopen] at hclosed; exact absurd hclosed (by simp)

/-- **The breaker stays open while the sectioning timer runs.** -/
theorem breaker_waits_for_timer (C : Cfg) (s : St) (n : Nat) (ht : 0 < gr s.timer n)
    (hopen : gb s.cbOpen (C.nets.getD n default).cb = true) :
    gb (checkBreakerManually C s n).cbOpen (C.nets.getD n default).cb = true := by
  by_contra hc
  have hc' : gb (checkBreakerManually C s n).cbOpen (C.nets.getD n default).cb = false := by
    cases h : gb (checkBreakerManually C s n).cbOpen (C.nets.getD n default).cb
    · rfl
    · exact absurd h hc
  have := (breaker_closes_only_if C s n hopen hc').1
  linarith

/-- **A breaker never closes onto its own failed line.** -/
theorem never_closes_on_failed_own_line (C : Cfg) (s : St) (n : Nat)
    (hopen : gb s.cbOpen (C.nets.getD n default).cb = true)
    (hfailed : gb ((s.failedSecs.getD n []).foldl (secDisconnect C) s).failed (C.nets.getD n default).connLine = true) :
    gb (checkBreakerManually C s n).cbOpen (C.nets.getD n default).cb = true := by
  by_contra hc
  have hc' : gb (checkBreakerManually C s n).cbOpen (C.nets.getD n default).cb = false := by
    cases h : gb (checkBreakerManually C s n).cbOpen (C.nets.getD n default).cb
    · rfl
    · exact absurd h hc
  have := (breaker_closes_only_if C s n hopen hc').2.1
  rw [this] at hfailed; exact absurd hfailed (by simp)

/-! sections -/

private theorem foldl_disconnect_out (ls : List Nat) (s : St) (l : Nat) (hl : l ∈ ls) (hlen : l < s.conn.length) :
    gb (ls.foldl lineDisconnect s).conn l = false := by
  induction ls generalizing s with
  | nil => cases hl
  | cons a as ih =>
    simp only [List.foldl_cons]
    have hlen' : l < (lineDisconnect s a).conn.length := by simp [lineDisconnect, hlen]
    rcases List.mem_cons.mp hl with rfl | hl'
    · have h0 : gb (lineDisconnect s l).conn l = false := by
        simp only [lineDisconnect]; rw [gb_set, if_pos ⟨rfl, hlen⟩]
      cases h : gb (as.foldl lineDisconnect (lineDisconnect s l)).conn l
      · rfl
      · have := (opens_foldl _ (fun s' x => opens_lineDisconnect s' x) as (lineDisconnect s l)).conn l h
        rw [h0] at this; exact absurd this (by simp)
    · exact ih _ hl' hlen'

/-- **Taking a section out of service takes all of its own lines out of service** (C20, last part). -/
theorem section_disconnect_takes_own_lines_out (C : Cfg) (s : St) (k : Nat) (l : Nat)
    (hl : l ∈ (C.secs.getD k default).lines) (hlen : l < s.conn.length) :
    gb (secDisconnect C s k).conn l = false := by
  unfold secDisconnect
  simp only
  have h1 := foldl_disconnect_out (C.secs.getD k default).lines { s with secConn := s.secConn.set k false } l hl hlen
  cases h : gb (List.foldl (swOpen C) (List.foldl lineDisconnect { s with secConn := s.secConn.set k false } (C.secs.getD k default).lines)
      (C.secs.getD k default).switches).conn l
  · rfl
  · have := (opens_foldl _ (fun s' sw => opens_swOpen C s' sw) (C.secs.getD k default).switches _).conn l h
    rw [h1] at this; exact absurd this (by simp)

/-- Non-vacuity: feeder L0(breaker) - L1(disconnector upstream), fault on L1: the breaker trips. -/
example : let C : Cfg := { lines := [⟨0, some 0, [], 0⟩, ⟨0, none, [0], 1⟩], disconLine := [1], cbLine := [0],
                           secs := [⟨[0], [.breaker 0, .discon 0]⟩, ⟨[1], [.discon 0]⟩],
                           nets := [⟨0, 0, [0, 1], [0, 1], [], none, none⟩], T := 1 }
    gb (lineFail C (St.init C) 1 2).cbOpen 0 = true ∧ isolatedOK C (lineFail C (St.init C) 1 2) = true := by
  decide +kernel

/-- **… and under ICT-based control**: the same holds whatever the controllers can reach in each increment (any
pattern of unreachable sensors and intelligent switches, changing from increment to increment) and however
automatic and manual increments alternate. -/
theorem isolated_invariant_auto (C : Cfg) (hC : wfB C = true) : ∀ s, ReachA C s → isolatedOK C s = true := by
  have w := WF.of_wfB C hC
  intro s hs
  have : Inv C s := by
    induction hs with
    | init => exact Inv.init w
    | fail s l rep _ hl _ ih => exact ih.lineFail w l hl rep
    | step s dt _ _ ih => exact ih.step w dt
    | stepA s dt cm _ _ ih => exact ih.stepA w dt cm
    | spread s S _ ih => exact ih.congr rfl rfl rfl rfl rfl rfl
  exact this.isolatedOK

/-- all three inductive invariants hold at every reachable state -/
theorem reach_triple (C : Cfg) (w : WF C) (w2 : WF2 C) : ∀ s, ReachA C s → Triple C s := by
  intro s hs
  induction hs with
  | init => exact Triple.init w
  | fail s l rep _ hl _ ih => exact ih.afterFail w l hl rep
  | step s dt _ _ ih => exact ih.step w w2 dt
  | stepA s dt cm _ _ ih => exact ih.stepA w w2 dt cm
  | spread s S _ ih => exact ⟨⟨ih.both.inv.congr rfl rfl rfl rfl rfl rfl, ih.both.inv2.congr rfl rfl rfl rfl⟩, ih.sa.congr rfl rfl rfl⟩

/-- **C05, second invariant, for all reachable states** (manual and ICT-based increments in any order): the reported
position of every switch agrees with its line — an open disconnector or breaker never sits on a line in service. -/
theorem switches_agree_invariant_auto (C : Cfg) (hC : wfB C = true) (hC2 : wfB2 C = true) :
    ∀ s, ReachA C s → switchesAgree C s = true :=
  fun s hs => (reach_triple C (WF.of_wfB C hC) (WF2.of_wfB2 C hC2) s hs).sa.switchesAgree

private theorem reach_to_reachA' (C : Cfg) : ∀ s, Reach C s → ReachA C s := by
  intro s hs
  induction hs with
  | init => exact .init
  | fail s l rep _ hl hf ih => exact .fail s l rep ih hl hf
  | step s dt _ hdt ih => exact .step s dt ih hdt

theorem switches_agree_invariant (C : Cfg) (hC : wfB C = true) (hC2 : wfB2 C = true) : SwitchesAgreeInv C :=
  fun s hs => switches_agree_invariant_auto C hC hC2 s (reach_to_reachA' C s hs)

/-- Non-vacuity of `isolated_invariant`: the same feeder is well-formed, and a state reached by a fault and two
increments satisfies the conclusion. -/
example : let C : Cfg := { lines := [⟨0, some 0, [], 0⟩, ⟨0, none, [0], 1⟩], disconLine := [1], cbLine := [0],
                           secs := [⟨[0], [.breaker 0, .discon 0]⟩, ⟨[1], [.discon 0]⟩],
                           nets := [⟨0, 0, [0, 1], [0, 1], [], none, none⟩], T := 1 }
    wfB C = true ∧ wfB2 C = true ∧ isolatedOK C (step C (step C (lineFail C (St.init C) 1 2) 1) 1) = true ∧
    switchesAgree C (step C (step C (lineFail C (St.init C) 1 2) 1) 1) = true := by
  decide +kernel

/-! ### sensors and intelligent switches that fail by themselves -/

/-- reachable states when, in addition, sensors and intelligent switches fail by themselves: in such an increment the
device-aware loops run, with whatever each device answers (`CommD`, `swF`) -/
inductive ReachD (C : Cfg) : St → Prop where
  | init : ReachD C (St.init C)
  | fail (s : St) (l : Nat) (rep : ℚ) : ReachD C s → l < C.lines.length → gb s.failed l = false → ReachD C (lineFail C s l rep)
  | step (s : St) (dt : ℚ) : ReachD C s → 0 < dt → ReachD C (step C s dt)
  | stepA (s : St) (dt : ℚ) (cm : Comm) : ReachD C s → 0 < dt → ReachD C (stepA C s dt cm)
  | spread (s : St) (S : ℚ) : ReachD C s → ReachD C (spreadSec C s S)
  | stepD (s : St) (dt : ℚ) (cd : CommD) (swF : List Bool) : ReachD C s → 0 < dt → ReachD C (stepD C s dt cd swF)

/-- **Faulted lines stay isolated also when the devices of the automatic control fail by themselves**: after any history
of faults, manual / ICT-based increments, software failures of the main controller and increments in which sensors need
time, give false alarms while under repair, or intelligent switches are failed — no failed line is in service behind a
closed breaker. -/
theorem isolated_invariant_devices (C : Cfg) (hC : wfB C = true) : ∀ s, ReachD C s → isolatedOK C s = true := by
  have w := WF.of_wfB C hC
  intro s hs
  have : Inv C s := by
    induction hs with
    | init => exact Inv.init w
    | fail s l rep _ hl _ ih => exact ih.lineFail w l hl rep
    | step s dt _ _ ih => exact ih.step w dt
    | stepA s dt cm _ _ ih => exact ih.stepA w dt cm
    | spread s S _ ih => exact ih.congr rfl rfl rfl rfl rfl rfl
    | stepD s dt cd swF _ _ ih => exact ih.afterStepD w dt cd swF
  exact this.isolatedOK

/-- the three invariants that survive false alarms hold at every state reachable with devices in trouble -/
theorem reachD_trio (C : Cfg) (w : WF C) (w2 : WF2 C) : ∀ s, ReachD C s → Trio C s := by
  intro s hs
  induction hs with
  | init => exact Trio.of_quad (Quad.init w)
  | fail s l rep _ hl _ ih =>
    exact ⟨ih.inv.lineFail w l hl rep, ih.sa.afterFail w ih.inv.sz.conn l hl rep, ih.g.afterFail w w2 ih.inv.sz l hl rep⟩
  | step s dt _ _ ih => exact stepTrio w w2 ih dt
  | stepA s dt cm _ _ ih => exact stepATrio w w2 ih dt cm
  | spread s S _ ih => exact ⟨ih.inv.congr rfl rfl rfl rfl rfl rfl, ih.sa.congr rfl rfl rfl, ih.g.congr rfl rfl rfl rfl⟩
  | stepD s dt cd swF _ _ ih => exact ih.afterStepD w w2 dt cd swF

/-- **Switch positions agree with lines also when devices fail by themselves.** -/
theorem switches_agree_invariant_devices (C : Cfg) (hC : wfB C = true) (hC2 : wfB2 C = true) :
    ∀ s, ReachD C s → switchesAgree C s = true :=
  fun s hs => (reachD_trio C (WF.of_wfB C hC) (WF2.of_wfB2 C hC2) s hs).sa.switchesAgree

end Relsad.C05
