/-
Island formation with backup lines (simulation/system_config.py: find_sub_systems +
update_backup_lines_between_sub_systems): the energised network is the graph of in-service
lines; an open, healthy backup line whose adjoining networks have no sectioning in progress
(`eligible`) is closed when its two ends lie in different islands, one at a time, recomputing
the islands after every closure.
-/
import Relsad.Model.Graph

namespace Relsad.Islands
open Relsad.Graph

structure Backup where
  id : Nat
  a : Nat
  b : Nat
  eligible : Bool
deriving Repr, Inhabited, DecidableEq

/-- first eligible backup joining two different islands, and the list without it -/
def pickBackup (V : List Nat) (es : List Edge) : List Backup → Option (Backup × List Backup)
  | [] => none
  | b :: bs =>
    if b.eligible && !decide (b.b ∈ reach V es b.a) then some (b, bs)
    else match pickBackup V es bs with
      | none => none
      | some (c, rest) => some (c, b :: rest)

theorem pickBackup_spec (V : List Nat) (es : List Edge) (bs : List Backup) (b : Backup) (rest : List Backup)
    (h : pickBackup V es bs = some (b, rest)) : b.b ∉ reach V es b.a := by
  induction bs generalizing rest with
  | nil => simp [pickBackup] at h
  | cons c cs ih =>
    unfold pickBackup at h
    by_cases hc : (c.eligible && !decide (c.b ∈ reach V es c.a)) = true
    · simp only [hc, if_true, Option.some.injEq, Prod.mk.injEq] at h
      obtain ⟨rfl, _⟩ := h
      simp only [Bool.and_eq_true, Bool.not_eq_true', decide_eq_false_iff_not] at hc
      exact hc.2
    · simp only [hc] at h
      cases hp : pickBackup V es cs with
      | none => simp [hp] at h
      | some r =>
        obtain ⟨d, rest'⟩ := r
        simp only [hp, Option.some.injEq, Prod.mk.injEq] at h
        obtain ⟨rfl, _⟩ := h
        exact ih rest' hp

theorem pickBackup_mem (V : List Nat) (es : List Edge) (bs : List Backup) (b : Backup) (rest : List Backup)
    (h : pickBackup V es bs = some (b, rest)) : b ∈ bs ∧ ∀ x ∈ rest, x ∈ bs := by
  induction bs generalizing rest with
  | nil => simp [pickBackup] at h
  | cons c cs ih =>
    unfold pickBackup at h
    by_cases hc : (c.eligible && !decide (c.b ∈ reach V es c.a)) = true
    · simp only [hc, if_true, Option.some.injEq, Prod.mk.injEq] at h
      obtain ⟨rfl, rfl⟩ := h
      exact ⟨List.mem_cons_self, fun x hx => List.mem_cons_of_mem _ hx⟩
    · simp only [hc] at h
      cases hp : pickBackup V es cs with
      | none => simp [hp] at h
      | some r =>
        obtain ⟨d, rest'⟩ := r
        simp only [hp, Option.some.injEq, Prod.mk.injEq] at h
        obtain ⟨rfl, rfl⟩ := h
        obtain ⟨h1, h2⟩ := ih rest' hp
        refine ⟨List.mem_cons_of_mem _ h1, ?_⟩
        intro x hx
        rcases List.mem_cons.mp hx with rfl | hx'
        · exact List.mem_cons_self
        · exact List.mem_cons_of_mem _ (h2 x hx')

/-- close backups one at a time (fuel = number of backups); returns the energised edges and the
ids of the backups closed -/
def closeBackups (V : List Nat) : Nat → List Edge → List Backup → List Edge × List Nat
  | 0, es, _ => (es, [])
  | n + 1, es, bs =>
    match pickBackup V es bs with
    | none => (es, [])
    | some (b, rest) =>
      let r := closeBackups V n ((b.a, b.b) :: es) rest
      (r.1, b.id :: r.2)

end Relsad.Islands
