/-
The RELRAD rule (C07) as an executable specification: for a single fault on a line of a manually
operated radial feeder, each load point is
  * `unaffected`     – its feeder's breaker does not trip (another network),
  * `sectioningOnly` – it can still be fed (from the feed, or through a healthy backup line) once
                       the faulted section has been isolated,
  * `untilRepair`    – no path to a source remains while the faulted section is out.
Buses and lines are numbered; `secOf` gives the section of every (non-backup) line.
-/
import Relsad.Model.Graph

namespace Relsad.Relrad
open Relsad.Graph

inductive Class where
  | unaffected | sectioningOnly | untilRepair
deriving Repr, DecidableEq, Inhabited

structure RLine where
  a : Nat
  b : Nat
  sec : Nat
  net : Nat
deriving Repr, Inhabited

/-- edges that remain in service once the faulted section `k` is isolated, plus the backups -/
def remaining (ls : List RLine) (backups : List Edge) (k : Nat) : List Edge :=
  (ls.filter (fun l => l.sec != k)).map (fun l => (l.a, l.b)) ++ backups

/-- classification of bus `b` (belonging to network `bnet`) for a fault in section `k` of network `knet` -/
def classify (V : List Nat) (ls : List RLine) (backups : List Edge) (feed : Nat) (k knet : Nat) (b bnet : Nat) : Class :=
  if bnet != knet then .unaffected
  else if decide (b ∈ reach V (remaining ls backups k) feed) then .sectioningOnly
  else .untilRepair

end Relsad.Relrad
