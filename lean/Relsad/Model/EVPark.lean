/-
Model of relsad/network/components/EVPark.py over exact rationals: the cars are `Battery`
states (BatteryType.EV, no microgrid mode), the availability table and the uniform SOC draws
are inputs.
-/
import Relsad.Model.Battery
import Relsad.Model.TimeM

namespace Relsad.EV
open Relsad Relsad.Battery

structure ParkP where
  bat : BatParams          -- per-car ratings (mode = none)
  v2g : Bool
  numCars : Int            -- round(max(table.y))
deriving Repr, Inhabited

structure Park where
  cars : List BatState := []
  availableNum : Int := 0
  accAvailable : Int := 0
  currPDemand : Rat := 0
  currPCharge : Rat := 0   -- > 0 charging, < 0 discharging
  currQCharge : Rat := 0
  -- interruption statistics
  nConsec : Nat := 0
  frac : Rat := 0
  currExp : Rat := 0
  accNum : Nat := 0
  accExp : Rat := 0
  currExpCar : Rat := 0
  accExpCar : Rat := 0
  currDur : Rat := 0
  accDur : Rat := 0
deriving Repr, Inhabited

/-- `draw_current_state`: `round(table value)` cars (none if not positive), each at `soc·E_max`.
`none` models the exception of `set_SOC_state` for a start level outside the limits. -/
def drawCars (P : ParkP) (tableVal : Rat) (socs : List Rat) : Option (Int × List BatState) :=
  let n := pyRound tableVal
  let k := n.toNat
  let ss := socs.take k
  if ss.length < k then none else
  if ss.any (fun s => s < P.bat.socMin0 ∨ s > P.bat.socMax) then none else
  some (n, ss.map (fun s => ({ e := s * P.bat.eMax, socMin := P.bat.socMin0 } : BatState)))

/-- the car loop of `EVPark.update`: every car sees the remainder left by the previous one;
without V2G a car is only consulted while there is a surplus (`p < 0`). -/
def carsStep (P : ParkP) (h : Rat) : List BatState → Rat → Rat → Option (List BatState × Rat × Rat × List Exchange)
  | [], p, q => some ([], p, q, [])
  | c :: cs, p, q =>
    if P.v2g ∨ p < 0 then
      match updateBus P.bat c p q h with
      | none => none
      | some (c', x) =>
        match carsStep P h cs x.pRem x.qRem with
        | none => none
        | some (cs', p', q', xs) => some (c' :: cs', p', q', x :: xs)
    else
      match carsStep P h cs p q with
      | none => none
      | some (cs', p', q', xs) => some (c :: cs', p', q', xs)

/-- `get_curr_demand` -/
def currDemand (P : ParkP) (cars : List BatState) (h : Rat) : Rat :=
  (cars.map (fun c => min P.bat.pMax ((P.bat.eMax * P.bat.socMax - c.e) / h))).sum

/-- `EVPark.update`: returns the park and the remainders handed on. -/
def update (P : ParkP) (k : Park) (p q h : Rat) (first : Bool) (tableVal : Rat) (socs : List Rat) :
    Option (Park × Rat × Rat) :=
  let k1? : Option Park :=
    if first then
      match drawCars P tableVal socs with
      | none => none
      | some (n, cars) => some { k with cars := cars, availableNum := n, accAvailable := k.accAvailable + n }
    else some k
  match k1? with
  | none => none
  | some k1 =>
    match carsStep P h k1.cars p q with
    | none => none
    | some (cars', p', q', _) =>
      let pChange := p - p'
      let qChange := q - q'
      let pprod := max 0 pChange
      let qprod := max 0 qChange
      let pload := if min 0 pChange < 0 then -(min 0 pChange) else min 0 pChange
      let qload := if min 0 qChange < 0 then -(min 0 qChange) else min 0 qChange
      some ({ k1 with cars := cars', currPDemand := currDemand P cars' h,
                       currPCharge := pload - pprod, currQCharge := qload - qprod }, p', q')

/-- `EVPark.update_history` (statistics part), with the `fix:` for empty parks. -/
def logStats (P : ParkP) (k : Park) (dt : Rat) : Park :=
  let car : Rat := if k.currPCharge < 0 then
      (let r := k.currPCharge / P.bat.pMax; if r < 0 then -r else r) else 0
  let frac : Rat := if P.numCars > 0 then car / (P.numCars : Rat) else 0
  if frac > 0 then
    { k with currExpCar := car, frac := frac, currExp := k.currExp + frac, nConsec := k.nConsec + 1,
             currDur := k.currDur + dt }
  else
    let k' := if k.nConsec ≥ 1 then
        { k with accNum := k.accNum + 1, accExp := k.accExp + k.currExp / (k.nConsec : Rat),
                 accExpCar := k.accExpCar + car / (k.nConsec : Rat), accDur := k.accDur + k.currDur }
      else k
    { k' with frac := frac, currExp := 0, currExpCar := 0, currDur := 0, nConsec := 0 }

/-! ### Network / system level EV indices (relsad/reliability/indices/ev.py) -/

/-- what the indices read from one park: number of cars, accumulated expected interruptions, number of completed
interruptions, accumulated interruption duration (hours) -/
structure ParkStat where
  cars : Rat
  accExp : Rat
  accNum : Rat
  accDur : Rat
deriving Repr, Inhabited

def totalCars (ps : List ParkStat) : Rat := (ps.map (·.cars)).sum

/-- `EV_Interruption`: the car-weighted average of the parks' accumulated expected interruptions (0 without cars) -/
def evInterruption (ps : List ParkStat) : Rat :=
  if totalCars ps = 0 then 0 else (ps.map (fun k => k.accExp * k.cars)).sum / totalCars ps

/-- `EV_Duration`: accumulated interruption duration per completed interruption (0 without interruptions) -/
def evDuration (ps : List ParkStat) : Rat :=
  if (ps.map (·.accNum)).sum = 0 then 0 else (ps.map (·.accDur)).sum / (ps.map (·.accNum)).sum

/-- `EVPark.reset_status` (between Monte Carlo iterations, saving on or off): no cars, no exchange, every
interruption counter — running and accumulated — back to zero -/
def reset (_k : Park) : Park := {}

end Relsad.EV
