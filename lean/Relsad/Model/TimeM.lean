/-
Model of relsad/Time.py  (Time, TimeUnit, TimeStamp) over exact rationals.

Every getter is written branch-by-branch as in the Python source (Time.py:263-598),
including the order of multiplications/divisions, so that the correspondence check
compares like with like.  `WEEK_per_MONTH = 4.3452` is the rational 43452/10000; the
harness installs the same constant as a `Fraction` in the implementation for exact runs.

No Mathlib import: this file is executed by the driver.
-/

namespace Relsad

inductive TimeUnit where
  | second | minute | hour | day | week | month | year
deriving DecidableEq, Repr, Inhabited

namespace TimeUnit
def all : List TimeUnit := [second, minute, hour, day, week, month, year]

/-- Python enum value (Time.py:27-33). -/
def code : TimeUnit → Nat
  | second => 1 | minute => 2 | hour => 3 | day => 4 | week => 5 | month => 6 | year => 7

def ofCode? : Nat → Option TimeUnit
  | 1 => some second | 2 => some minute | 3 => some hour | 4 => some day
  | 5 => some week | 6 => some month | 7 => some year | _ => none
end TimeUnit

structure Time where
  quantity : Rat
  unit : TimeUnit
deriving Repr, Inhabited

namespace Time

def SEC_per_MIN : Rat := 60
def MIN_per_HOUR : Rat := 60
def HOUR_per_DAY : Rat := 24
def DAY_per_WEEK : Rat := 7
def WEEK_per_MONTH : Rat := (43452 : Rat) / 10000
def MONTH_per_YEAR : Rat := 12

open TimeUnit

/-- Time.py:263-318 -/
def getSeconds (t : Time) : Rat :=
  match t.unit with
  | second => t.quantity
  | minute => t.quantity * SEC_per_MIN
  | hour => t.quantity * SEC_per_MIN * MIN_per_HOUR
  | day => t.quantity * SEC_per_MIN * MIN_per_HOUR * HOUR_per_DAY
  | week => t.quantity * SEC_per_MIN * MIN_per_HOUR * HOUR_per_DAY * DAY_per_WEEK
  | month => t.quantity * SEC_per_MIN * MIN_per_HOUR * HOUR_per_DAY * DAY_per_WEEK * WEEK_per_MONTH
  | year => t.quantity * SEC_per_MIN * MIN_per_HOUR * HOUR_per_DAY * DAY_per_WEEK * WEEK_per_MONTH * MONTH_per_YEAR

/-- Time.py:320-367 -/
def getMinutes (t : Time) : Rat :=
  match t.unit with
  | second => t.quantity / SEC_per_MIN
  | minute => t.quantity
  | hour => t.quantity * MIN_per_HOUR
  | day => t.quantity * MIN_per_HOUR * HOUR_per_DAY
  | week => t.quantity * MIN_per_HOUR * HOUR_per_DAY * DAY_per_WEEK
  | month => t.quantity * MIN_per_HOUR * HOUR_per_DAY * DAY_per_WEEK * WEEK_per_MONTH
  | year => t.quantity * MIN_per_HOUR * HOUR_per_DAY * DAY_per_WEEK * WEEK_per_MONTH * MONTH_per_YEAR

/-- Time.py:369-409 -/
def getHours (t : Time) : Rat :=
  match t.unit with
  | second => t.quantity / SEC_per_MIN / MIN_per_HOUR
  | minute => t.quantity / MIN_per_HOUR
  | hour => t.quantity
  | day => t.quantity * HOUR_per_DAY
  | week => t.quantity * HOUR_per_DAY * DAY_per_WEEK
  | month => t.quantity * HOUR_per_DAY * DAY_per_WEEK * WEEK_per_MONTH
  | year => t.quantity * HOUR_per_DAY * DAY_per_WEEK * WEEK_per_MONTH * MONTH_per_YEAR

/-- Time.py:411-450 -/
def getDays (t : Time) : Rat :=
  match t.unit with
  | second => t.quantity / SEC_per_MIN / MIN_per_HOUR / HOUR_per_DAY
  | minute => t.quantity / MIN_per_HOUR / HOUR_per_DAY
  | hour => t.quantity / HOUR_per_DAY
  | day => t.quantity
  | week => t.quantity * DAY_per_WEEK
  | month => t.quantity * DAY_per_WEEK * WEEK_per_MONTH
  | year => t.quantity * DAY_per_WEEK * WEEK_per_MONTH * MONTH_per_YEAR

/-- Time.py:452-492 -/
def getWeeks (t : Time) : Rat :=
  match t.unit with
  | second => t.quantity / SEC_per_MIN / MIN_per_HOUR / HOUR_per_DAY / DAY_per_WEEK
  | minute => t.quantity / MIN_per_HOUR / HOUR_per_DAY / DAY_per_WEEK
  | hour => t.quantity / HOUR_per_DAY / DAY_per_WEEK
  | day => t.quantity / DAY_per_WEEK
  | week => t.quantity
  | month => t.quantity * WEEK_per_MONTH
  | year => t.quantity * WEEK_per_MONTH * MONTH_per_YEAR

/-- Time.py:494-541 -/
def getMonths (t : Time) : Rat :=
  match t.unit with
  | second => t.quantity / SEC_per_MIN / MIN_per_HOUR / HOUR_per_DAY / DAY_per_WEEK / WEEK_per_MONTH
  | minute => t.quantity / MIN_per_HOUR / HOUR_per_DAY / DAY_per_WEEK / WEEK_per_MONTH
  | hour => t.quantity / HOUR_per_DAY / DAY_per_WEEK / WEEK_per_MONTH
  | day => t.quantity / DAY_per_WEEK / WEEK_per_MONTH
  | week => t.quantity / WEEK_per_MONTH
  | month => t.quantity
  | year => t.quantity * MONTH_per_YEAR

/-- Time.py:543-598 -/
def getYears (t : Time) : Rat :=
  match t.unit with
  | second => t.quantity / SEC_per_MIN / MIN_per_HOUR / HOUR_per_DAY / DAY_per_WEEK / WEEK_per_MONTH / MONTH_per_YEAR
  | minute => t.quantity / MIN_per_HOUR / HOUR_per_DAY / DAY_per_WEEK / WEEK_per_MONTH / MONTH_per_YEAR
  | hour => t.quantity / HOUR_per_DAY / DAY_per_WEEK / WEEK_per_MONTH / MONTH_per_YEAR
  | day => t.quantity / DAY_per_WEEK / WEEK_per_MONTH / MONTH_per_YEAR
  | week => t.quantity / WEEK_per_MONTH / MONTH_per_YEAR
  | month => t.quantity / MONTH_per_YEAR
  | year => t.quantity

/-- Time.py:180-210 -/
def getUnitQuantity (t : Time) (u : TimeUnit) : Rat :=
  match u with
  | second => t.getSeconds
  | minute => t.getMinutes
  | hour => t.getHours
  | day => t.getDays
  | week => t.getWeeks
  | month => t.getMonths
  | year => t.getYears

/-- `convert_unit` (Time.py:144-178), returning the new value instead of mutating. -/
def convert (t : Time) (u : TimeUnit) : Time := ⟨t.getUnitQuantity u, u⟩

/-- Time.py:212-240.  All comparisons are taken in the unit of the *left* operand. -/
def lt (a b : Time) : Bool := a.quantity < b.getUnitQuantity a.unit
def le (a b : Time) : Bool := a.quantity ≤ b.getUnitQuantity a.unit
def gt (a b : Time) : Bool := a.quantity > b.getUnitQuantity a.unit
def ge (a b : Time) : Bool := a.quantity ≥ b.getUnitQuantity a.unit
def eq (a b : Time) : Bool := a.quantity == b.getUnitQuantity a.unit
def ne (a b : Time) : Bool := a.quantity != b.getUnitQuantity a.unit

/-- Time.py:242-254 -/
def add (a b : Time) : Time := ⟨a.quantity + b.getUnitQuantity a.unit, a.unit⟩
def sub (a b : Time) : Time := ⟨a.quantity - b.getUnitQuantity a.unit, a.unit⟩

/-- Time.py:256-261; `none` models the raised "Other time is zero". -/
def div? (a b : Time) : Option Rat :=
  if b.getHours == 0 then none else some (a.getHours / b.getHours)

/-- Seconds in one unit: the abstract view the conversion theorems are stated against. -/
def factor : TimeUnit → Rat
  | second => 1
  | minute => 60
  | hour => 3600
  | day => 86400
  | week => 604800
  | month => 604800 * ((43452 : Rat) / 10000)
  | year => 604800 * ((43452 : Rat) / 10000) * 12

end Time

/-- Python `int(x)`: truncation toward zero. -/
def pyInt (x : Rat) : Int := if 0 ≤ x then x.floor else - (-x).floor

/-- Python `round(x)` on an exact rational: nearest integer, ties to even
(`Fraction.__round__`, and `float.__round__` up to representation error). -/
def pyRound (x : Rat) : Int :=
  let f := x.floor
  let r := x - (f : Rat)
  if r < 1/2 then f else if 1/2 < r then f + 1 else if f % 2 == 0 then f else f + 1

/-- Python `round(x, d)` for `d ≥ 0`: `round(x·10^d) / 10^d`. -/
def pyRoundN (x : Rat) (d : Nat) : Rat := ((pyRound (x * (10 : Rat) ^ d) : Int) : Rat) / (10 : Rat) ^ d

structure TimeStamp where
  year : Int := 0
  month : Int := 0
  day : Int := 0
  hour : Int := 0
  minute : Int := 0
  second : Int := 0
deriving Repr, Inhabited

namespace TimeStamp

/-- `TimeStamp.get_hour_of_day` (Time.py:683-714) as it stands after the `fix:` for D1:
whole years/months/days of the elapsed time are stripped (each only when strictly more
than one is contained, as in the source), the stamp's hour, minute and second are *added*,
and the hour count, rounded to 6 decimals (a guard against float error that is inert on
exact whole-second times) and truncated, is reduced modulo 24 (Python `%`: result in 0..23). -/
def getHourOfDay (s : TimeStamp) (passed : Time) : Int :=
  let dup : Time := ⟨passed.quantity, passed.unit⟩
  let dup := if dup.getYears > 1 then dup.sub ⟨(pyInt dup.getYears : Int), .year⟩ else dup
  let dup := if dup.getMonths > 1 then dup.sub ⟨(pyInt dup.getMonths : Int), .month⟩ else dup
  let dup := if dup.getDays > 1 then dup.sub ⟨(pyInt dup.getDays : Int), .day⟩ else dup
  let dup := dup.add ⟨(s.hour : Int), .hour⟩
  let dup := dup.add ⟨(s.minute : Int), .minute⟩
  let dup := dup.add ⟨(s.second : Int), .second⟩
  (pyInt (pyRoundN dup.getHours 6)) % 24

/-- `TimeStamp.__sub__` (Time.py:716-726): result carried in YEARS (left-most operand). -/
def sub (a b : TimeStamp) : Time :=
  ((((((⟨((a.year - b.year : Int) : Rat), .year⟩ : Time).add ⟨((a.month - b.month : Int) : Rat), .month⟩).add
    ⟨((a.day - b.day : Int) : Rat), .day⟩).add ⟨((a.hour - b.hour : Int) : Rat), .hour⟩).add
    ⟨((a.minute - b.minute : Int) : Rat), .minute⟩).add ⟨((a.second - b.second : Int) : Rat), .second⟩)

end TimeStamp

end Relsad
