/-
Per-bus energy-not-supplied bookkeeping (Bus.py) and the reliability indices
(reliability/indices/system.py), over exact rationals.  Durations in hours.
-/

namespace Relsad

structure BusAcc where
  nCust : Rat := 1          -- n_customers
  pload : Rat := 0
  qload : Rat := 0
  pStack : Rat := 0         -- p_energy_shed_stack
  qStack : Rat := 0
  accP : Rat := 0           -- acc_p_energy_shed
  accQ : Rat := 0
  accOutage : Rat := 0      -- acc_outage_time [h]
  nConsec : Nat := 0        -- num_consecutive_interruptions
  frac : Rat := 0           -- interruption_fraction
  curr : Rat := 0           -- curr_interruptions
  accInt : Rat := 0         -- acc_interruptions
deriving Repr, Inhabited

namespace BusAcc

/-- utils.eq(x, 0): |x| < 1e-6 -/
def eqZero (x : Rat) : Bool := (if x < 0 then -x else x) < 1 / 1000000

/-- set_load_and_cost: reset_load then add the category loads (their sum is passed). -/
def setLoad (b : BusAcc) (p q : Rat) : BusAcc := { b with pload := p, qload := q }

/-- add_load (battery / EV charging). -/
def addLoad (b : BusAcc) (p q : Rat) : BusAcc := { b with pload := b.pload + p, qload := b.qload + q }

/-- add_to_energy_shed_stack -/
def addToStack (b : BusAcc) (p q h : Rat) : BusAcc :=
  { b with pStack := b.pStack + p * h, qStack := b.qStack + q * h }

/-- shed_load (transformer failure): whole load onto the stack, load zeroed. -/
def shedLoad (b : BusAcc) (h : Rat) : BusAcc :=
  let b' := b.addToStack b.pload b.qload h
  { b' with pload := 0, qload := 0 }

/-- Bus.update_history (accumulation part) followed by clear_energy_shed_stack. -/
def log (b : BusAcc) (h : Rat) : BusAcc :=
  let accP := b.accP + b.pStack
  let accQ := b.accQ + b.qStack
  let accOutage := b.accOutage + (if b.pStack > 0 then h else 0)
  let frac : Rat := if !(eqZero b.pload) ∧ h > 0 then b.pStack / (b.pload * h) else 0
  if frac > 0 then
    { b with accP := accP, accQ := accQ, accOutage := accOutage, frac := frac,
             curr := b.curr + frac, nConsec := b.nConsec + 1, pStack := 0, qStack := 0 }
  else
    { b with accP := accP, accQ := accQ, accOutage := accOutage, frac := frac,
             accInt := if b.nConsec ≥ 1 then b.accInt + b.curr / (b.nConsec : Rat) else b.accInt,
             curr := 0, nConsec := 0, pStack := 0, qStack := 0 }

end BusAcc

/-! ### Indices over a list of buses -/

namespace Indices

def sumBy (f : BusAcc → Rat) (bs : List BusAcc) : Rat := (bs.map f).sum

def totalCust (bs : List BusAcc) : Rat := sumBy (·.nCust) bs

def saifi (bs : List BusAcc) : Rat :=
  if totalCust bs == 0 then 0 else sumBy (fun b => b.accInt * b.nCust) bs / totalCust bs

def saidi (bs : List BusAcc) : Rat :=
  if totalCust bs == 0 then 0 else sumBy (fun b => b.accOutage * b.nCust) bs / totalCust bs

def caidi (bs : List BusAcc) : Rat :=
  if !(BusAcc.eqZero (saifi bs)) then saidi bs / saifi bs else 0

/-- ASUI; `none` models the ZeroDivisionError at `current_time = 0`. -/
def asui? (bs : List BusAcc) (hours : Rat) : Option Rat :=
  if hours == 0 then none else some (saidi bs / hours)

def asai? (bs : List BusAcc) (hours : Rat) : Option Rat := (asui? bs hours).map (1 - ·)

def ens (bs : List BusAcc) : Rat := sumBy (·.accP) bs

end Indices
end Relsad
