/-
Sectioning of a radial network (C20): which section every line belongs to.

A network is a list of lines in topological order (line 0 is the connected line carrying the
circuit breaker; `parent` is the index of the upstream line).  `nsw` is the number of switches
on the line (disconnectors + breaker).  Backup lines are not part of the list (they are
disconnected when sections are created and belong to no section).

The specification `secId` is the closed form of `create_downstream_sections` + `refine_sections`
(topology/sectioning.py): the root starts the main section; a line with a switch starts a new
section; with two or more switches and lines below it, it forms a section of its own ("solo")
and the switch-less lines below it form the main section headed by it; a switch-less line
inherits the main section of the nearest upstream line that starts one.
-/

namespace Relsad.Sections

structure LineSpec where
  parent : Option Nat
  nsw : Nat
deriving Repr, Inhabited, DecidableEq

def hasChild (ls : List LineSpec) (i : Nat) : Bool := ls.any (fun l => l.parent == some i)

/-- nearest ancestor-or-self that starts a section (has a switch, or is the root). -/
def headOf (ls : List LineSpec) : Nat → Nat → Nat
  | 0, i => i
  | f + 1, i =>
    match ls[i]? with
    | none => i
    | some l =>
      match l.parent with
      | none => i
      | some p => if l.nsw = 0 then headOf ls f p else i

/-- section identifier: (head line, solo?) -/
def secId (ls : List LineSpec) (i : Nat) : Nat × Bool :=
  match ls[i]? with
  | none => (i, false)
  | some l =>
    match l.parent with
    | none => (i, false)
    | some p =>
      if l.nsw = 0 then (headOf ls ls.length p, false)
      else if 2 ≤ l.nsw ∧ hasChild ls i then (i, true)
      else (i, false)

def secIds (ls : List LineSpec) : List (Nat × Bool) := (List.range ls.length).map (secId ls)

/-- well-formed feeder: parents precede their children, exactly the first line is the root. -/
def WF (ls : List LineSpec) : Prop :=
  ∀ i (l : LineSpec), ls[i]? = some l → (match l.parent with | none => i = 0 | some p => p < i)

end Relsad.Sections
