/-
Model of the horizon computation in `prepare_system` (relsad/simulation/system_config.py):
number of increments and the time axis, over exact rationals.

The implementation computes the quotient in floating point and absorbs rounding error with
a tolerance far below one step (`int(round(q, 6))` after the `fix:` for D2); the model is the
same expression on the exact quotient.  Float and exact evaluation agree whenever the exact
quotient is not within ~1e-9 of a rounding boundary (k + 1 - 5e-7), which the generators avoid.
-/
import Relsad.Model.TimeM
import Relsad.Model.Interp

namespace Relsad

/-- Number of increments for a period and a step, both as durations in one common unit. -/
def increments (period step : Rat) : Int := pyInt (pyRoundN (period / step) 6)

/-- The same on `Time` values (any units); `none` when the step is zero (Python raises). -/
def incrementsT (period step : Time) : Option Int :=
  (period.div? step).map (fun q => pyInt (pyRoundN q 6))

/-- The time axis: instants `step, 2·step, …, n·step` (in the reporting unit). -/
def timeArray (n : Nat) (step : Rat) : List Rat :=
  (List.range n).map (fun (k : Nat) => ((k : Rat) + 1) * step)

/-- `prepare_system`: the time axis of the run and every load / production profile resampled onto it -
one grid (`increments period step` points) for both. -/
def prepareSystem (period step unitStep : Rat) (profiles : List (List Rat)) : List Rat × List (List Rat) :=
  let n := (increments period step).toNat
  (timeArray n unitStep, profiles.map (fun arr => Interp.interp arr n))

end Relsad
