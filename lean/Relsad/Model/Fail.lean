/-
Failure / repair state machines of the components (C13), over exact rationals.
All durations are hours (`Time.getHours`); after the `fix:` for D8 every remaining-time
attribute of the implementation is carried in hours as well.

Random draws are inputs: `u…` are uniforms in [0,1) consumed by `random_choice`
(`u < p`), `rep` is the drawn repair time.

Sources: utils/random.py:52-70, Line.py:429-458, Bus.py:594-624, ICTLine.py:298-322,
ICTNode.py:216-240, Sensor.py:223-363, IntelligentSwitch.py:198-365, MainController.py:207-322.
-/
import Relsad.Model.TimeM

namespace Relsad.Fail
open Relsad

/-- convert_yearly_fail_rate -/
def pFail (rate : Rat) (dt : Time) : Rat := min (rate * dt.getYears) 1

/-- random_choice: `random() < p_true` -/
def choice (u p : Rat) : Bool := u < p

/-! ### Two-state components: line, transformer (bus), ICT line, ICT node -/

structure Two where
  failed : Bool
  rem : Rat            -- remaining_outage_time [h]
deriving Repr, Inhabited, DecidableEq

/-- the `if self.failed:` branch of update_fail_status -/
def Two.tick (s : Two) (h : Rat) : Two :=
  let r := s.rem - h
  if r ≤ 0 then ⟨false, 0⟩ else ⟨true, r⟩

/-- update_fail_status; `u`, `rep` are consumed only in the not-failed branch. -/
def Two.step (s : Two) (rate : Rat) (dt : Time) (u rep : Rat) : Two :=
  if s.failed then s.tick dt.getHours
  else if choice u (pFail rate dt) then ⟨true, rep⟩ else ⟨false, s.rem⟩

/-! ### A network of two-state components with a shared "some line is failed" flag
(ICTNetwork.failed_line with ICTLine.fail / not_fail; the power networks keep the same flag for their lines) -/

structure NetTwo where
  comps : List Two
  flag : Bool          -- parent_network.failed_line
deriving Repr, Inhabited

/-- `not_fail` of component `i`: the flag is cleared when `i` is the only failed component of the network -/
def NetTwo.notFail (n : NetTwo) (i : Nat) (rem' : Rat) : NetTwo :=
  let c := n.comps.getD i default
  let cnt := (n.comps.filter (·.failed)).length
  { comps := n.comps.set i ⟨false, rem'⟩, flag := if cnt == 1 && c.failed then false else n.flag }

/-- `update_fail_status` of component `i` inside its network -/
def NetTwo.stepOne (n : NetTwo) (i : Nat) (rate : Rat) (dt : Time) (u rep : Rat) : NetTwo :=
  let c := n.comps.getD i default
  if c.failed then
    let r := c.rem - dt.getHours
    if r ≤ 0 then n.notFail i 0 else { n with comps := n.comps.set i ⟨true, r⟩ }
  else if choice u (pFail rate dt) then { comps := n.comps.set i ⟨true, rep⟩, flag := true }
  else n.notFail i c.rem

/-! ### Sensor -/

inductive DevState where
  | ok | failed | repair
deriving Repr, Inhabited, DecidableEq

structure Dev where
  state : DevState
  rem : Rat            -- remaining_repair_time [h]
deriving Repr, Inhabited, DecidableEq

structure SensorP where
  rate : Rat
  pNew : Rat           -- p_fail_repair_new_signal
  pReboot : Rat        -- p_fail_repair_reboot
  tNew : Rat           -- new_signal_time [h]
  tReboot : Rat
  tManual : Rat
deriving Repr, Inhabited

/-- Sensor/IntelligentSwitch.update_fail_status (remaining time reset to zero when the repair
ends, after the `fix:`). -/
def Dev.update (s : Dev) (rate : Rat) (dt : Time) (u : Rat) : Dev :=
  match s.state with
  | .repair =>
    let r := s.rem - dt.getHours
    if r ≤ 0 then ⟨.ok, 0⟩ else ⟨.repair, r⟩
  | .ok => if choice u (pFail rate dt) then ⟨.failed, s.rem⟩ else ⟨.ok, s.rem⟩
  | .failed => s

/-- Sensor.repair: returns new state, delay, reported line status and number of draws used. -/
def sensorRepair (P : SensorP) (s : Dev) (u1 u2 : Rat) (lineFailed : Bool) : Dev × Rat × Bool × Nat :=
  if !(choice u1 P.pNew) then (⟨.ok, s.rem⟩, P.tNew, lineFailed, 1)
  else if !(choice u2 P.pReboot) then (⟨.ok, s.rem⟩, P.tNew + P.tReboot, lineFailed, 2)
  else (⟨.repair, P.tManual⟩, P.tNew + P.tReboot, true, 2)

/-- Sensor.get_line_fail_status -/
def sensorStatus (P : SensorP) (s : Dev) (u1 u2 : Rat) (lineFailed : Bool) : Dev × Rat × Bool × Nat :=
  match s.state with
  | .repair => (s, 0, true, 0)
  | .ok => (s, 0, lineFailed, 0)
  | .failed => sensorRepair P s u1 u2 lineFailed

/-! ### Intelligent switch -/

/-- IntelligentSwitch.get_open_time: delay contributed when the section is isolated. -/
def switchOpenTime (s : Dev) (tManualRepair tManualSectioning : Rat) : Dev × Rat :=
  match s.state with
  | .failed => (⟨.repair, tManualRepair⟩, tManualSectioning)
  | _ => (s, 0)

/-- IntelligentSwitch.close: whether the disconnector is closed by this call (always: a switch in service closes it
itself, a failed one is closed by hand and sent to repair, one under repair is closed by the crew that repairs it). -/
def switchClose (s : Dev) (tManualRepair : Rat) : Dev × Bool :=
  match s.state with
  | .repair => (s, true)
  | .ok => (s, true)
  | .failed => (⟨.repair, tManualRepair⟩, true)

/-! ### Main controller -/

inductive CtrlState where
  | ok | softwareFail | hardwareFail | repair
deriving Repr, Inhabited, DecidableEq

structure Ctrl where
  state : CtrlState
  rem : Rat
  sectioning : Rat
deriving Repr, Inhabited, DecidableEq

structure CtrlP where
  hwRate : Rat
  swRate : Rat
  pNew : Rat
  pReboot : Rat
  tNew : Rat
  tReboot : Rat
  tManualSw : Rat
  tManualHw : Rat
deriving Repr, Inhabited

/-- MainController.repair_software_fail (state is SOFTWARE_FAIL on entry). -/
def ctrlRepairSoftware (P : CtrlP) (c : Ctrl) (u3 u4 : Rat) : Ctrl × Rat × Nat :=
  if !(choice u3 P.pNew) then ({ c with state := .ok }, P.tNew, 1)
  else if !(choice u4 P.pReboot) then ({ c with state := .ok }, P.tNew + P.tReboot, 2)
  else ({ c with state := .repair, rem := P.tManualSw }, P.tNew + P.tReboot, 2)

/-- MainController.update_fail_status; returns the new state and the number of draws used
(order of draws: hardware, software, new-signal retry, reboot). -/
def ctrlUpdate (P : CtrlP) (c : Ctrl) (dt : Time) (u1 u2 u3 u4 : Rat) : Ctrl × Nat :=
  match c.state with
  | .repair =>
    let r := c.rem - dt.getHours
    if r ≤ 0 then ({ c with state := .ok, rem := 0 }, 0) else ({ c with rem := r }, 0)
  | .ok =>
    if choice u1 (pFail P.hwRate dt) then ({ c with state := .repair, rem := P.tManualHw }, 1)
    else if choice u2 (pFail P.swRate dt) then
      let (c', t, n) := ctrlRepairSoftware P { c with state := .softwareFail } u3 u4
      ({ c' with sectioning := t }, 2 + n)
    else ({ c with state := .ok }, 2)
  | _ => (c, 0)

end Relsad.Fail
