/-
Executable well-formedness of a switching configuration and the inductive invariant behind C05's
`IsolatedInv` (proved in `Props/C05.lean` via `Lemmas/ControlInvL.lean`).  Both are `Bool`-valued so
that the driver can print them for every configuration the harness extracts from a real power
system and for every model state visited (the hypotheses of the theorem are thereby tied to the
real configurations, not assumed).
-/
import Relsad.Model.Control

namespace Relsad.Control

def lineOf (C : Cfg) (l : Nat) : LineCfg := C.lines.getD l default
def netOf (C : Cfg) (n : Nat) : NetCfg := C.nets.getD n default
def secOf (C : Cfg) (k : Nat) : SecCfg := C.secs.getD k default

def wfLine (C : Cfg) (l : Nat) : Bool :=
  let lc := lineOf C l
  decide (lc.net < C.nets.length) && decide (lc.sec < C.secs.length) &&
  (netOf C lc.net).lines.contains l && (netOf C lc.net).secs.contains lc.sec && (secOf C lc.sec).lines.contains l &&
  lc.discons.all (fun d => decide (d < C.disconLine.length) && C.disconLine.getD d 0 == l)

def wfSw (C : Cfg) (n k : Nat) : Sw → Bool
  | .discon d => decide (d < C.disconLine.length) && (lineOf C (C.disconLine.getD d 0)).net == n
  | .breaker c => c == (netOf C n).cb && (secOf C k).lines.contains (netOf C n).connLine

def wfSec (C : Cfg) (n k : Nat) : Bool :=
  decide (k < C.secs.length) &&
  (secOf C k).lines.all (fun l => decide (l < C.lines.length) && (lineOf C l).sec == k && (lineOf C l).net == n) &&
  (secOf C k).switches.all (wfSw C n k)

def wfNet (C : Cfg) (n : Nat) : Bool :=
  let nc := netOf C n
  decide (nc.cb < C.cbLine.length) && C.cbLine.getD nc.cb 0 == nc.connLine &&
  decide (nc.connLine < C.lines.length) && (lineOf C nc.connLine).net == n &&
  nc.lines.all (fun l => decide (l < C.lines.length) && (lineOf C l).net == n) &&
  nc.children.all (fun m => decide (m < C.nets.length) && m != n) &&
  nc.secs.all (wfSec C n) &&
  -- breakers and sections of different networks are different
  (List.range C.nets.length).all (fun m => m == n || ((netOf C m).cb != nc.cb && nc.secs.all (fun k => !(netOf C m).secs.contains k)))

/-- every index in range, lines / sections / switches of a network belong to it, networks are disjoint -/
def wfB (C : Cfg) : Bool :=
  (List.range C.lines.length).all (wfLine C) &&
  C.disconLine.all (fun l => decide (l < C.lines.length)) &&
  (List.range C.nets.length).all (wfNet C)

/-- no element occurs twice -/
def noDup : List Nat → Bool
  | [] => true
  | a :: as => !as.contains a && noDup as

/-- additional structure of real configurations used for the second invariant of C05 (switch positions agree with lines):
the disconnector list of a line is complete; a line carries exactly the breaker that sits on it; every disconnector on a
line of a section is among the section's switches; a section that lists one disconnector of a line lists all of them;
network line lists are duplicate-free, attached networks are microgrids, every breaker belongs to a network -/
def wfB2 (C : Cfg) : Bool :=
  (List.range C.disconLine.length).all (fun d => (lineOf C (C.disconLine.getD d 0)).discons.contains d) &&
  (List.range C.cbLine.length).all (fun c => decide (C.cbLine.getD c 0 < C.lines.length) && (lineOf C (C.cbLine.getD c 0)).cb == some c) &&
  (List.range C.lines.length).all (fun l =>
    (match (lineOf C l).cb with | some c => decide (c < C.cbLine.length) && C.cbLine.getD c 0 == l | none => true) &&
    (lineOf C l).discons.all (fun d => (secOf C (lineOf C l).sec).switches.contains (.discon d))) &&
  (List.range C.secs.length).all (fun k =>
    (secOf C k).switches.all (fun sw =>
      match sw with
      | .discon d => (lineOf C (C.disconLine.getD d 0)).discons.all (fun d' => (secOf C k).switches.contains (.discon d'))
      | .breaker _ => true)) &&
  -- used for C06 (return to normal): a network lists each of its lines once, the networks attached to a distribution
  -- network are microgrids, every circuit breaker is the breaker of some network and every section a section of some network
  (List.range C.nets.length).all (fun n => noDup (netOf C n).lines && (netOf C n).children.all (fun m => (netOf C m).mode.isSome)) &&
  (List.range C.cbLine.length).all (fun c => (List.range C.nets.length).any (fun n => (netOf C n).cb == c)) &&
  (List.range C.secs.length).all (fun k => (List.range C.nets.length).any (fun n => (netOf C n).secs.contains k))

/-- all state vectors have the length the configuration prescribes -/
def sizeOK (C : Cfg) (s : St) : Bool :=
  s.failed.length == C.lines.length && s.conn.length == C.lines.length && s.rem.length == C.lines.length &&
  s.dOpen.length == C.disconLine.length && s.cbOpen.length == C.cbLine.length && s.secConn.length == C.secs.length &&
  s.netFailed.length == C.nets.length && s.timer.length == C.nets.length && s.pTimer.length == C.nets.length &&
  s.check.length == C.nets.length && s.failedSecs.length == C.nets.length

/-- Safe: breaker closed → no failed line of the network in service -/
def safeNet (C : Cfg) (s : St) (n : Nat) : Bool :=
  gb s.cbOpen (netOf C n).cb || (netOf C n).lines.all (fun l => !(gb s.failed l && gb s.conn l))

/-- J1: a section that is out of service and no longer listed as failed has all its lines out of service -/
def outNet (C : Cfg) (s : St) (n : Nat) : Bool :=
  (netOf C n).secs.all (fun k =>
    gb s.secConn k || (s.failedSecs.getD n []).contains k || (secOf C k).lines.all (fun l => !gb s.conn l))

/-- K2: the section of the breaker's own line is listed as failed whenever it is out of service -/
def headNet (C : Cfg) (s : St) (n : Nat) : Bool :=
  let k0 := (lineOf C (netOf C n).connLine).sec
  gb s.secConn k0 || (s.failedSecs.getD n []).contains k0

/-- entries of a controller's failed-section list are sections of its own network -/
def fsNet (C : Cfg) (s : St) (n : Nat) : Bool :=
  (s.failedSecs.getD n []).all (fun k => (netOf C n).secs.contains k)

def invJ (C : Cfg) (s : St) : Bool :=
  sizeOK C s && (List.range C.nets.length).all (fun n => safeNet C s n && outNet C s n && headNet C s n && fsNet C s n)

end Relsad.Control
