/-
Backward / forward sweep load flow of a radial network (loadflow/ac/bfs.py), written once over
an abstract arithmetic `K` so that the very same definitions are executed on `Float` by the
driver and reasoned about on `ℝ` in `Props/C15.lean`.

The network is a rooted tree: every node carries the bus's relative load (load − production, in
per unit, already corrected by the ZIP model), the impedance of the line feeding it from its
parent (absent at the root) and the current voltage estimate.
-/

namespace Relsad.LoadFlow

class Arith (K : Type) extends Add K, Sub K, Mul K, Div K where
  zero : K
  one : K
  two : K
  sqrt : K → K
  atan2 : K → K → K

variable {K : Type} [Arith K]

structure Node (K : Type) where
  id : Nat
  p : K            -- relative active load  [pu]
  q : K
  r : K            -- impedance of the line from the parent (unused at the root)
  x : K
  vm : K           -- voltage magnitude estimate
  va : K           -- voltage angle estimate
  isRoot : Bool

inductive RTree (α : Type) where
  | node : α → List (RTree α) → RTree α

/-- accumulated quantities at a node after the backward sweep -/
structure Acc (K : Type) where
  pLoad : K        -- p_load_downstream
  qLoad : K
  pLoss : K        -- p_loss_downstream (including the feeding line of this node)
  qLoss : K
  lineP : K        -- loss of the feeding line
  lineQ : K

/-- line loss for the power `pto + j qto` delivered at a bus with voltage magnitude `v` (bfs.py:106-118) -/
def lossP (r pto qto v : K) : K := r * (pto * pto + qto * qto) / (v * v)
def lossQ (x pto qto v : K) : K := x * (pto * pto + qto * qto) / (v * v)

/-- forward step (bfs.py:153-174): voltage magnitude squared, and the real / imaginary part of
the downstream voltage relative to the upstream phasor -/
def vmag2 (vf tp tq r x : K) : K :=
  vf * vf - Arith.two * (tp * r + tq * x) + (tp * tp + tq * tq) * (r * r + x * x) / (vf * vf)
def vRe (vf tp tq r x : K) : K := vf - (tp * r + tq * x) / vf
def vIm (vf tp tq r x : K) : K := (tq * r - tp * x) / vf

mutual
/-- backward sweep: returns (sum of loads, sum of losses) below and including this node, and the
tree annotated with the per-node accumulators -/
def accumulate : RTree (Node K) → (K × K × K × K) × RTree (Acc K × Node K)
  | .node n cs =>
    let (sums, cs') := accumulateList cs
    let (pc, qc, plc, qlc) := sums
    let pLoad := pc + n.p
    let qLoad := qc + n.q
    if n.isRoot then
      ((pLoad, qLoad, plc, qlc), .node (⟨pLoad, qLoad, plc, qlc, Arith.zero, Arith.zero⟩, n) cs')
    else
      let pto := pLoad + plc
      let qto := qLoad + qlc
      let lp := lossP n.r pto qto n.vm
      let lq := lossQ n.x pto qto n.vm
      ((pLoad, qLoad, plc + lp, qlc + lq), .node (⟨pLoad, qLoad, plc + lp, qlc + lq, lp, lq⟩, n) cs')
def accumulateList : List (RTree (Node K)) → (K × K × K × K) × List (RTree (Acc K × Node K))
  | [] => ((Arith.zero, Arith.zero, Arith.zero, Arith.zero), [])
  | t :: ts =>
    let (s1, t') := accumulate t
    let (s2, ts') := accumulateList ts
    ((s1.1 + s2.1, s1.2.1 + s2.2.1, s1.2.2.1 + s2.2.2.1, s1.2.2.2 + s2.2.2.2), t' :: ts')
end

mutual
/-- forward sweep: new voltages from the parent's voltage and the accumulated powers -/
def forward (vfm vfa : K) : RTree (Acc K × Node K) → RTree (Node K)
  | .node (a, n) cs =>
    if n.isRoot then
      .node n (forwardList n.vm n.va cs)
    else
      let tp := a.pLoad + a.pLoss
      let tq := a.qLoad + a.qLoss
      let vm := Arith.sqrt (vmag2 vfm tp tq n.r n.x)
      let va := vfa + Arith.atan2 (vIm vfm tp tq n.r n.x) (vRe vfm tp tq n.r n.x)
      .node { n with vm := vm, va := va } (forwardList vm va cs)
def forwardList (vfm vfa : K) : List (RTree (Acc K × Node K)) → List (RTree (Node K))
  | [] => []
  | t :: ts => forward vfm vfa t :: forwardList vfm vfa ts
end

/-- one backward + forward sweep -/
def sweep (t : RTree (Node K)) : RTree (Node K) := forward Arith.one Arith.zero (accumulate t).2

def sweeps : Nat → RTree (Node K) → RTree (Node K)
  | 0, t => t
  | n + 1, t => sweeps n (sweep t)

mutual
def nodes {α : Type} : RTree α → List α
  | .node n cs => n :: nodesList cs
def nodesList {α : Type} : List (RTree α) → List α
  | [] => []
  | t :: ts => nodes t ++ nodesList ts
end

end Relsad.LoadFlow
