/-
Undirected multigraphs on natural-number vertex ids (C04 islands, C16 ICT reachability):
reachable set by closure under neighbours, connected components.
-/

namespace Relsad.Graph

abbrev Edge := Nat × Nat

/-- neighbours of `x` along the (in-service) edges -/
def nbrs (es : List Edge) (x : Nat) : List Nat :=
  es.filterMap (fun e => if e.1 = x then some e.2 else if e.2 = x then some e.1 else none)

/-- vertices of `V` adjacent to the visited set and not yet visited -/
def newOnes (V : List Nat) (es : List Edge) (vis : List Nat) : List Nat :=
  ((vis.flatMap (nbrs es)).filter (fun y => decide (y ∈ V) && !decide (y ∈ vis))).eraseDups

def unvisited (V vis : List Nat) : Nat := (V.filter (fun v => !decide (v ∈ vis))).length

theorem filter_length_lt (V : List Nat) (p q : Nat → Bool) (hpq : ∀ v, p v = true → q v = true)
    (y : Nat) (hy : y ∈ V) (hq : q y = true) (hp : p y = false) :
    (V.filter p).length < (V.filter q).length := by
  induction V with
  | nil => cases hy
  | cons v vs ih =>
    have hle : (vs.filter p).length ≤ (vs.filter q).length := by
      clear ih hy
      induction vs with
      | nil => simp
      | cons w ws ihw =>
        simp only [List.filter_cons]
        cases hpw : p w with
        | true => simp [hpq w hpw]; exact ihw
        | false =>
          cases hqw : q w with
          | true => simp; omega
          | false => simpa using ihw
    simp only [List.filter_cons]
    rcases List.mem_cons.mp hy with rfl | hy'
    · simp [hp, hq]; omega
    · have := ih hy'
      cases hpv : p v with
      | true => simp [hpq v hpv]; exact this
      | false =>
        cases hqv : q v with
        | true => simp; omega
        | false => simpa using this

theorem mem_newOnes {V : List Nat} {es : List Edge} {vis : List Nat} {y : Nat} :
    y ∈ newOnes V es vis ↔ (∃ x ∈ vis, y ∈ nbrs es x) ∧ y ∈ V ∧ y ∉ vis := by
  unfold newOnes
  rw [List.mem_eraseDups, List.mem_filter, List.mem_flatMap]
  simp [Bool.and_eq_true]

/-- closure of `vis` under neighbours inside `V` -/
def close (V : List Nat) (es : List Edge) (vis : List Nat) : List Nat :=
  if h : newOnes V es vis = [] then vis else close V es (vis ++ newOnes V es vis)
termination_by unvisited V vis
decreasing_by
  obtain ⟨y, hy⟩ := List.exists_mem_of_ne_nil _ h
  have hm := mem_newOnes.mp hy
  unfold unvisited
  apply filter_length_lt V _ _ _ y hm.2.1
  · simp [hm.2.2]
  · simp [List.mem_append, hy]
  · intro v hv
    simp only [Bool.not_eq_true', decide_eq_false_iff_not, List.mem_append, not_or] at hv ⊢
    exact hv.1

/-- the set of vertices reachable from `a` -/
def reach (V : List Nat) (es : List Edge) (a : Nat) : List Nat := close V es [a]

/-- `l` without the members of `c` -/
def removeAll (l c : List Nat) : List Nat := l.filter (fun x => !decide (x ∈ c))

theorem removeAll_length_le (l c : List Nat) : (removeAll l c).length ≤ l.length :=
  List.length_filter_le _ l

/-- connected components of the vertices in `W`: repeatedly take the reach set of the first
vertex not yet assigned. -/
def comps (V : List Nat) (es : List Edge) : List Nat → List (List Nat)
  | [] => []
  | v :: rest => reach V es v :: comps V es (removeAll rest (reach V es v))
termination_by W => W.length
decreasing_by
  simp only [List.length_cons]
  have := removeAll_length_le rest (reach V es v)
  omega

def components (V : List Nat) (es : List Edge) : List (List Nat) := comps V es V

/-- adjacency relation -/
def Adj (es : List Edge) (x y : Nat) : Prop := (x, y) ∈ es ∨ (y, x) ∈ es

/-- cycle test for a forest: #edges = #vertices − #components (only used executable-side). -/
def isForest (V : List Nat) (es : List Edge) : Bool :=
  es.length + (components V es).length == V.length

end Relsad.Graph
