/-
Model of relsad/network/components/Battery.py (charge / discharge / update_bus_load_and_prod /
update / set_SOC_state / draw_SOC_state) over exact rationals.

State passing replaces mutation; the exchange with the bus (pprod, qprod, pload, qload added
to the bus) is returned explicitly.  Step lengths enter as hours (`dt.get_hours()`).
Random draws are inputs (oracle value `x` for the uniform SOC draw).
-/

namespace Relsad

/-- relsad.utils.INF -/
def INF : Rat := 100000000

inductive MgMode where
  | survival | fullSupport | limitedSupport
deriving DecidableEq, Repr, Inhabited

structure BatParams where
  pMax : Rat      -- inj_p_max
  qMax : Rat      -- inj_q_max
  eMax : Rat      -- E_max
  socMin0 : Rat   -- standard_SOC_min
  socMax : Rat
  eta : Rat       -- n_battery
  mode : Option MgMode := none
  maxLoad : Rat := 0   -- bus.parent_network.get_max_load()[0], only read in SURVIVAL mode
deriving Repr, Inhabited

structure BatState where
  e : Rat               -- E_battery
  socMin : Rat          -- SOC_min (dynamic in SURVIVAL mode)
  remSurv : Rat := 0    -- remaining_survival_time in hours
  active : Bool := true
deriving Repr, Inhabited

namespace Battery

/-- `inj_max = inj_p_max` (Battery.py:207). -/
def injMax (P : BatParams) : Rat := P.pMax

/-- Arithmetic of Battery.charge (Battery.py:291-314) on the stored energy `e`: new energy and
unserved remainder.  `none` models the ZeroDivisionError of `(SOC_tr - SOC_max) / dSOC` with
`dSOC = 0`. -/
def chargeCore (P : BatParams) (e pCh h : Rat) : Option (Rat × Rat) :=
  let rem0 : Rat := if pCh > P.pMax then pCh - P.pMax else 0
  let pCh1 : Rat := if pCh > P.pMax then (if pCh ≥ INF then P.pMax else pCh - rem0) else pCh
  let dE := P.eta * pCh1 * h
  let eTr := e + dE
  let socTr := eTr / P.eMax
  let dSOC := dE / P.eMax
  if socTr > P.socMax then
    if dSOC == 0 then none else
    let f := 1 - (socTr - P.socMax) / dSOC
    some (e + f * dE, rem0 + (1 - f) * pCh1)
  else
    some (e + dE, rem0)

/-- Battery.charge (Battery.py:264-316).  Returns the new state and the unserved remainder. -/
def charge (P : BatParams) (s : BatState) (pCh h : Rat) : Option (BatState × Rat) :=
  (chargeCore P s.e pCh h).map (fun r => ({ s with e := r.1 }, r.2))

/-- The survival-mode prologue of `discharge` (Battery.py:348-361).  (The simulator only ever
starts the survival timer for LIMITED_SUPPORT batteries, system_config.py:296-301, so this
branch is reachable through the Battery API only; see known finding D18.) -/
def survivalStep (P : BatParams) (s : BatState) (h : Rat) : BatState :=
  if s.remSurv > 0 ∧ P.mode = some MgMode.survival then
    let r := s.remSurv - h
    { s with remSurv := r, socMin := min (P.maxLoad * r / P.eMax + P.socMin0) P.socMax }
  else
    { s with socMin := P.socMin0 }

/-- Arithmetic of Battery.discharge (Battery.py:363-390) on the stored energy `e` with the
current lower limit `socMin`: new energy, unserved active and reactive remainders.
`none` models a ZeroDivisionError (`1 / n_battery` with zero efficiency, or `p / (p + q)`
with `p + q = 0`). -/
def dischargeCore (P : BatParams) (e socMin pDis qDis h : Rat) : Option (Rat × Rat × Rat) :=
  let pRem0 : Rat := if pDis > P.pMax then pDis - P.pMax else 0
  let p1 := pDis - pRem0
  let qRem0 : Rat := if qDis > P.qMax then qDis - P.qMax else 0
  let q1 := qDis - qRem0
  if P.eta == 0 then none else
  let lim : Option (Rat × Rat × Rat × Rat) :=
    if p1 + q1 > injMax P then
      if p1 + q1 == 0 then none else
      let fp := p1 / (p1 + q1)
      let fq := 1 - fp
      let diff := p1 + q1 - injMax P
      some (pRem0 + diff * fp, qRem0 + diff * fq, p1 - diff * fp, q1 - diff * fq)
    else some (pRem0, qRem0, p1, q1)
  match lim with
  | none => none
  | some (pRem1, qRem1, p2, q2) =>
    let dE := 1 / P.eta * (p2 + q2) * h
    let eTr := e - dE
    let socTr := eTr / P.eMax
    let dSOC := dE / P.eMax
    if socTr < socMin ∧ dSOC > 0 then
      let f := 1 - (socMin - socTr) / dSOC
      some (e - f * dE, pRem1 + (1 - f) * p2, qRem1 + (1 - f) * q2)
    else
      some (e - dE, pRem1, qRem1)

/-- Battery.discharge (Battery.py:318-392). -/
def discharge (P : BatParams) (s0 : BatState) (pDis qDis h : Rat) : Option (BatState × Rat × Rat) :=
  let s := survivalStep P s0 h
  (dischargeCore P s.e s.socMin pDis qDis h).map (fun r => ({ s with e := r.1 }, r.2.1, r.2.2))

/-- What a battery request does to its bus and what it hands on. -/
structure Exchange where
  pprod : Rat := 0
  qprod : Rat := 0
  pload : Rat := 0
  qload : Rat := 0
  pRem : Rat
  qRem : Rat
deriving Repr, Inhabited

/-- Battery.update_bus_load_and_prod (Battery.py:419-489). -/
def updateBus (P : BatParams) (s : BatState) (p q h : Rat) : Option (BatState × Exchange) :=
  if !s.active then some (s, { pRem := p, qRem := q }) else
  if p ≥ 0 ∧ q ≥ 0 then
    match discharge P s p q h with
    | none => none
    | some (s', pr, qr) =>
      let pprod := p - pr; let qprod := q - qr
      some (s', { pprod := pprod, qprod := qprod, pRem := p - pprod, qRem := q - qprod })
  else if p < 0 ∧ q ≥ 0 then
    match charge P s (-p) h with
    | none => none
    | some (s1, pr) =>
      match discharge P s1 0 q h with
      | none => none
      | some (s2, _, qr) =>
        let pload := -p - pr; let qprod := q - qr
        some (s2, { pload := pload, qprod := qprod, pRem := p + pload, qRem := q - qprod })
  else if p ≥ 0 ∧ q < 0 then
    match discharge P s p 0 h with
    | none => none
    | some (s', pr, _) =>
      let pprod := p - pr
      some (s', { pprod := pprod, pRem := p - pprod, qRem := q })
  else
    match charge P s (-p) h with
    | none => none
    | some (s', pr) =>
      let pload := -p - pr
      some (s', { pload := pload, pRem := p + pload, qRem := q })

/-- Battery.set_SOC_state (Battery.py:642-659); `none` = "Not a valid SOC state". -/
def setSOC (P : BatParams) (s : BatState) (soc : Rat) : Option BatState :=
  if soc < s.socMin ∨ soc > P.socMax then none else some { s with e := soc * P.eMax }

/-- Battery.draw_SOC_state with the uniform draw `x` as an input; support after the `fix:` is
`[E_min, SOC_max·E_max]`. -/
def drawSOC (s : BatState) (x : Rat) : BatState := { s with e := x }

def drawSupport (P : BatParams) (x : Rat) : Prop := P.eMax * P.socMin0 ≤ x ∧ x ≤ P.socMax * P.eMax

/-- Battery.update (Battery.py:680-710): a microgrid battery in SURVIVAL or FULL_SUPPORT mode
redraws its level in the first increment of a disturbance (`fail_duration == dt`). -/
def update (P : BatParams) (s : BatState) (p q h : Rat) (firstIncrement : Bool) (x : Rat) :
    Option (BatState × Exchange) :=
  let s1 := if (P.mode = some MgMode.survival ∨ P.mode = some MgMode.fullSupport) ∧ firstIncrement
            then drawSOC s x else s
  updateBus P s1 p q h

/-- update_fail_status: the battery follows its bus transformer. -/
def setActive (s : BatState) (trafoFailed : Bool) : BatState := { s with active := !trafoFailed }

def soc (P : BatParams) (s : BatState) : Rat := s.e / P.eMax

end Battery
end Relsad
