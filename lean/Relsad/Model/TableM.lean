/-
Model of relsad/Table.py: a table is a list of (index, value) pairs with unique indices, in any
order; `get_value` returns the value stored for the index and raises if it is absent.
-/
namespace Relsad.TableM

def get? (xs : List (Int × Rat)) (k : Int) : Option Rat := (xs.find? (fun e => e.1 == k)).map (·.2)

/-- the table covers the hours of a day -/
def coversDay (xs : List (Int × Rat)) : Prop := ∀ h : Int, 0 ≤ h → h < 24 → ∃ v, (h, v) ∈ xs

end Relsad.TableM
