/-
Profile handling (C19): resampling of a profile to the simulation grid
(`utils/array.py: interpolate` = numpy linspace + interp), demand and cost of a load point
(`Bus.set_load_and_cost`), capped production (`Production.set_prod`), over exact rationals.
-/

namespace Relsad.Interp

/-- k-th point of `np.linspace(0, n-1, m)`. -/
def linspace (n m k : Nat) : Rat :=
  if m ≤ 1 then 0 else (k : Rat) * ((n : Rat) - 1) / ((m : Rat) - 1)

/-- `np.interp(x, arange(n), arr)` for `x ≥ 0`: linear between neighbours, clamped to the last
value at and beyond the right end. -/
def interpAt (arr : List Rat) (x : Rat) : Rat :=
  let j := x.floor.toNat
  if j + 1 < arr.length then
    arr.getD j 0 + (x - (j : Rat)) * (arr.getD (j + 1) 0 - arr.getD j 0)
  else arr.getD (arr.length - 1) 0

/-- `interpolate(array, time_indices)` with `m = time_indices.size`. -/
def interp (arr : List Rat) (m : Nat) : List Rat :=
  (List.range m).map (fun k => interpAt arr (linspace arr.length m k))

/-- A customer category: resampled active/reactive profile (per customer) and cost function. -/
structure Category where
  p : List Rat
  q : List Rat
  costA : Rat
  costB : Rat

/-- `Bus.set_load_and_cost(i)`: (pload, qload, cost). -/
def setLoadAndCost (cats : List Category) (nCust : Rat) (i : Nat) : Rat × Rat × Rat :=
  let p := (cats.map (fun c => c.p.getD i 0 * nCust)).sum
  let q := (cats.map (fun c => c.q.getD i 0 * nCust)).sum
  let typeCost := cats.foldl (fun acc c => max acc (c.costA + c.costB * 1)) 0
  (p, q, if typeCost > 0 then typeCost else 100000000)

/-- `Production.set_prod(i)`: profile value capped at the rating. -/
def setProd (pp qp : List Rat) (pmax qmax : Rat) (i : Nat) : Rat × Rat :=
  (min (pp.getD i 0) pmax, min (qp.getD i 0) qmax)

end Relsad.Interp
