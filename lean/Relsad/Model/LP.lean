/-
Box-constrained linear programs with equality rows (the shape of the load-shedding problem in
energy/shedding.py), the Lagrangian dual bound, executable feasibility / certificate checkers,
and the construction of the shedding LP of an island.
-/

namespace Relsad.LP

def dot : List Rat → List Rat → Rat
  | a :: as, b :: bs => a * b + dot as bs
  | _, _ => 0

def vadd : List Rat → List Rat → List Rat
  | a :: as, b :: bs => (a + b) :: vadd as bs
  | _, _ => []

def vsub : List Rat → List Rat → List Rat
  | a :: as, b :: bs => (a - b) :: vsub as bs
  | _, _ => []

def smul (k : Rat) (v : List Rat) : List Rat := v.map (k * ·)
def zeros (n : Nat) : List Rat := List.replicate n 0

/-- yᵀA as a row vector -/
def yTA (n : Nat) : List Rat → List (List Rat) → List Rat
  | y :: ys, r :: rs => vadd (smul y r) (yTA n ys rs)
  | _, _ => zeros n

/-- minimum of `r·x` over the box `lo ≤ x ≤ hi`, coordinate-wise -/
def boxMin : List Rat → List Rat → List Rat → Rat
  | r :: rs, l :: ls, u :: us => min (r * l) (r * u) + boxMin rs ls us
  | _, _, _ => 0

structure LP where
  n : Nat
  A : List (List Rat)
  b : List Rat
  c : List Rat
  lo : List Rat
  hi : List Rat
deriving Repr, Inhabited

def cost (p : LP) (x : List Rat) : Rat := dot p.c x

/-- Lagrangian bound `y·b + min over the box of (c − Aᵀy)·x` -/
def dualBound (p : LP) (y : List Rat) : Rat :=
  dot y p.b + boxMin (vsub p.c (yTA p.n y p.A)) p.lo p.hi

/-! executable checkers -/

def absR (x : Rat) : Rat := if x < 0 then -x else x

def inBoxB (tol : Rat) : List Rat → List Rat → List Rat → Bool
  | x :: xs, l :: ls, u :: us => decide (l - tol ≤ x) && decide (x ≤ u + tol) && inBoxB tol xs ls us
  | [], [], [] => true
  | _, _, _ => false

def eqRowsB (tol : Rat) : List (List Rat) → List Rat → List Rat → Bool
  | r :: rs, b :: bs, x => decide (absR (dot r x - b) ≤ tol) && eqRowsB tol rs bs x
  | [], [], _ => true
  | _, _, _ => false

def shapedB (p : LP) (x y : List Rat) : Bool :=
  p.A.all (fun r => r.length == p.n) && p.c.length == p.n && p.lo.length == p.n && p.hi.length == p.n &&
  x.length == p.n && p.b.length == p.A.length && y.length == p.A.length

/-- exact feasibility -/
def isFeasible (p : LP) (z : List Rat) : Bool :=
  shapedB p z (zeros p.A.length) && eqRowsB 0 p.A p.b z && inBoxB 0 z p.lo p.hi

/-- **Certificate check**: `x` is feasible up to `tol` and its cost is within `gap` of the
Lagrangian bound given by the multipliers `y`. -/
def checkCert (p : LP) (x y : List Rat) (gap tol : Rat) : Bool :=
  shapedB p x y && eqRowsB tol p.A p.b x && inBoxB tol x p.lo p.hi && decide (cost p x ≤ dualBound p y + gap)

/-! ### The shedding problem of an island (shedding.py:62-74, 115-245) -/

structure IBus where
  load : Rat      -- max(0, pload)
  cost : Rat
  genMax : Rat    -- INF at the transmission bus, else max(0, pprod)
deriving Repr, Inhabited

structure ILine where
  f : Nat         -- index of fbus
  t : Nat         -- index of tbus
  cap : Rat       -- min(capacity, |flow from the load flow|)
deriving Repr, Inhabited

structure Island where
  buses : List IBus
  lines : List ILine
  alpha : Rat
deriving Repr, Inhabited

def unitRow (n j : Nat) : List Rat := (List.range n).map (fun k => if k = j then 1 else 0)

/-- variables: shed (per bus), flow (per line), generation (per bus), slack -/
def build (I : Island) : LP :=
  let nd := I.buses.length
  let nl := I.lines.length
  { n := nd + nl + nd + 1
    A := (List.range nd).map (fun j =>
      unitRow nd j ++ I.lines.map (fun l => if l.f = j then (-1 : Rat) else if l.t = j then 1 else 0) ++ unitRow nd j ++ [1])
    b := I.buses.map (·.load)
    c := I.buses.map (·.cost) ++ zeros nl ++ zeros nd ++ [0]
    lo := zeros nd ++ I.lines.map (fun l => -l.cap) ++ zeros nd ++ [-I.alpha]
    hi := I.buses.map (·.load) ++ I.lines.map (·.cap) ++ I.buses.map (·.genMax) ++ [I.alpha] }

/-- the always-feasible point: shed everything, no flow, no generation -/
def shedAll (I : Island) : List Rat :=
  I.buses.map (·.load) ++ zeros I.lines.length ++ zeros I.buses.length ++ [0]

/-- what is reported per bus: the amounts above the threshold α.  The code takes the solution when the optimal cost is
positive or some bus sheds more than α (load can be shed at no cost where the interruption cost is zero), and reports
nothing otherwise. -/
def reported (I : Island) (x : List Rat) (fun_ : Rat) : List Rat :=
  if fun_ > 0 || (x.take I.buses.length).any (fun s => s > I.alpha) then
    (x.take I.buses.length).map (fun s => if s > I.alpha then s else 0)
  else zeros I.buses.length

/-- column sums of A (= 1ᵀA) -/
def colSums (p : LP) : List Rat := yTA p.n (List.replicate p.A.length 1) p.A

def sumL (l : List Rat) : Rat := l.foldr (· + ·) 0

end Relsad.LP
