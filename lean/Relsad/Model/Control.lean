/-
The switching state machine under manual control (C05, C06, C07, C14): lines, disconnectors,
circuit breakers, sections, distribution / microgrid controllers and the manual main controller.
Function by function counterpart of (after the `fix:` commits)
  Line.fail / not_fail / update_fail_status            (network/components/Line.py)
  Disconnector.open / close, CircuitBreaker.open/close (Disconnector.py, CircuitBreaker.py)
  Section.disconnect / connect_manually                (network/containers/Section.py)
  DistributionController / MicrogridController: check_lines_manually, run_manual_control_loop,
  check_circuitbreaker_manually, spread_sectioning_time_to_children
  ManualMainController.run_control_loop
Times are hours.  Backup lines are outside this model (see Model/Islands.lean).
-/

namespace Relsad.Control

inductive Sw where
  | discon (d : Nat)
  | breaker (c : Nat)
deriving Repr, Inhabited, DecidableEq

inductive Mode where
  | survival | fullSupport | limitedSupport
deriving Repr, Inhabited, DecidableEq

structure LineCfg where
  net : Nat
  cb : Option Nat          -- circuit breaker carried by the line
  discons : List Nat
  sec : Nat
deriving Repr, Inhabited

structure SecCfg where
  lines : List Nat
  switches : List Sw
deriving Repr, Inhabited

structure NetCfg where
  connLine : Nat
  cb : Nat
  lines : List Nat
  secs : List Nat
  children : List Nat       -- microgrids attached to a distribution network
  mode : Option Mode        -- some _ for a microgrid
  parent : Option Nat       -- distribution network of a microgrid
deriving Repr, Inhabited

structure Cfg where
  lines : List LineCfg
  disconLine : List Nat     -- line of each disconnector
  cbLine : List Nat         -- line of each circuit breaker
  secs : List SecCfg
  nets : List NetCfg
  T : Rat                   -- manual sectioning time
deriving Repr, Inhabited

structure St where
  failed : List Bool
  conn : List Bool
  rem : List Rat
  dOpen : List Bool
  cbOpen : List Bool
  secConn : List Bool
  netFailed : List Bool     -- network.failed_line
  timer : List Rat          -- controller.sectioning_time
  pTimer : List Rat         -- microgrid controller.parent_sectioning_time
  check : List Bool         -- controller.check_components
  failedSecs : List (List Nat)
deriving Repr, Inhabited

def St.init (C : Cfg) : St :=
  { failed := C.lines.map (fun _ => false), conn := C.lines.map (fun _ => true), rem := C.lines.map (fun _ => 0),
    dOpen := C.disconLine.map (fun _ => false), cbOpen := C.cbLine.map (fun _ => false),
    secConn := C.secs.map (fun _ => true), netFailed := C.nets.map (fun _ => false),
    timer := C.nets.map (fun _ => 0), pTimer := C.nets.map (fun _ => 0), check := C.nets.map (fun _ => false),
    failedSecs := C.nets.map (fun _ => []) }

def gb (l : List Bool) (i : Nat) : Bool := l.getD i false
def gr (l : List Rat) (i : Nat) : Rat := l.getD i 0

/-! ### primitives -/

def lineDisconnect (s : St) (l : Nat) : St := { s with conn := s.conn.set l false }
def lineConnect (s : St) (l : Nat) : St := { s with conn := s.conn.set l true }

/-- Disconnector.open -/
def disconOpen (C : Cfg) (s : St) (d : Nat) : St :=
  lineDisconnect { s with dOpen := s.dOpen.set d true } (C.disconLine.getD d 0)

/-- Disconnector.close -/
def disconClose (C : Cfg) (s : St) (d : Nat) : St :=
  lineConnect { s with dOpen := s.dOpen.set d false } (C.disconLine.getD d 0)

/-- CircuitBreaker.open -/
def cbOpenOp (C : Cfg) (s : St) (c : Nat) : St :=
  let l := C.cbLine.getD c 0
  let s1 := { s with cbOpen := s.cbOpen.set c true }
  let s2 := ((C.lines.getD l default).discons).foldl (fun s d => if gb s.dOpen d then s else disconOpen C s d) s1
  lineDisconnect s2 l

/-- CircuitBreaker.close -/
def cbCloseOp (C : Cfg) (s : St) (c : Nat) : St :=
  let l := C.cbLine.getD c 0
  let lc := C.lines.getD l default
  let s1 := { s with cbOpen := s.cbOpen.set c false }
  let s2 := lc.discons.foldl (fun s d => if gb s.dOpen d && gb s.secConn lc.sec then disconClose C s d else s) s1
  lineConnect s2 l

def swOpen (C : Cfg) (s : St) : Sw → St
  | .discon d => disconOpen C s d
  | .breaker c => cbOpenOp C s c

/-- Line.fail -/
def lineFail (C : Cfg) (s : St) (l : Nat) (rep : Rat) : St :=
  let lc := C.lines.getD l default
  let n := C.nets.getD lc.net default
  let s1 := { s with failed := s.failed.set l true, netFailed := s.netFailed.set lc.net true, rem := s.rem.set l rep }
  if gb s.conn l then
    let s2 := cbOpenOp C s1 n.cb
    n.children.foldl (fun s m => cbOpenOp C s (C.nets.getD m default).cb) s2
  else s1

/-- Line.not_fail -/
def lineNotFail (C : Cfg) (s : St) (l : Nat) : St :=
  let lc := C.lines.getD l default
  let n := C.nets.getD lc.net default
  let cnt := (n.lines.filter (fun k => gb s.failed k)).length
  let s1 := if cnt == 1 && gb s.failed l then { s with netFailed := s.netFailed.set lc.net false } else s
  { s1 with failed := s1.failed.set l false }

/-- Line.update_fail_status (no random failures: rates are zero in the scenarios) -/
def lineUpdate (C : Cfg) (s : St) (l : Nat) (dt : Rat) : St :=
  if gb s.failed l then
    let r := gr s.rem l - dt
    let s1 := { s with rem := s.rem.set l r }
    if r ≤ 0 then
      let s2 := lineNotFail C s1 l
      { s2 with check := s2.check.set (C.lines.getD l default).net true, rem := s2.rem.set l 0 }
    else s1
  else lineNotFail C s l

/-- Section.disconnect -/
def secDisconnect (C : Cfg) (s : St) (k : Nat) : St :=
  let sc := C.secs.getD k default
  let s1 := { s with secConn := s.secConn.set k false }
  let s2 := sc.lines.foldl lineDisconnect s1
  sc.switches.foldl (swOpen C) s2

/-- Section.connect_manually -/
def secConnectManually (C : Cfg) (s : St) (k : Nat) : St :=
  let sc := C.secs.getD k default
  let s1 := { s with secConn := s.secConn.set k true }
  let s2 := sc.lines.foldl (fun s l =>
    match (C.lines.getD l default).cb with
    | some c => if gb s.cbOpen c then s else lineConnect s l
    | none => lineConnect s l) s1
  sc.switches.foldl (fun s sw =>
    match sw with
    | .breaker _ => s
    | .discon d =>
      let lc := C.lines.getD (C.disconLine.getD d 0) default
      if !gb s.secConn lc.sec then s
      else match lc.cb with
        | some c => if gb s.cbOpen c then s else disconClose C s d
        | none => disconClose C s d) s2

/-- the way a section that was taken out on an intact network is put back: the controller recloses its breaker if the
section lists it, then reconnects the section (C20) -/
def putBack (C : Cfg) (n k : Nat) (s : St) : St :=
  let nc := C.nets.getD n default
  secConnectManually C (if (C.secs.getD k default).switches.contains (.breaker nc.cb) then cbCloseOp C s nc.cb else s) k

def anyFailed (s : St) (ls : List Nat) : Bool := ls.any (fun l => gb s.failed l)

def addUnique (l : List Nat) (x : Nat) : List Nat := if l.contains x then l else l ++ [x]

/-- check_lines_manually (flag first, then reconnect) -/
def checkLinesManually (C : Cfg) (s : St) (n : Nat) : St :=
  let nc := C.nets.getD n default
  let connSecs := nc.secs.filter (fun k => gb s.secConn k)
  let discSecs := nc.secs.filter (fun k => !gb s.secConn k)
  let s1 := connSecs.foldl (fun s k =>
    let sc := C.secs.getD k default
    if anyFailed s sc.lines then
      let s' := { s with secConn := s.secConn.set k false,
                         failedSecs := s.failedSecs.set n (addUnique (s.failedSecs.getD n []) k),
                         timer := s.timer.set n C.T }
      sc.lines.foldl (fun s l => { s with rem := s.rem.set l (gr s.rem l + C.T) }) s'
    else s) s
  discSecs.foldl (fun s k =>
    let sc := C.secs.getD k default
    if anyFailed s sc.lines then s
    else
      let s' := secConnectManually C s k
      { s' with failedSecs := s'.failedSecs.set n ((s'.failedSecs.getD n []).filter (· != k)) }) s1

/-- a SURVIVAL microgrid stays separated while its distribution network has a failed line -/
def survivalHold (C : Cfg) (s : St) (n : Nat) : Bool :=
  match (C.nets.getD n default).mode, (C.nets.getD n default).parent with
  | some .survival, some p => gb s.netFailed p
  | _, _ => false

/-- check_circuitbreaker_manually (distribution and microgrid share the body; the microgrid
adds the survival guard) -/
def checkBreakerManually (C : Cfg) (s : St) (n : Nat) : St :=
  let nc := C.nets.getD n default
  if !gb s.cbOpen nc.cb then s else
  if survivalHold C s n then s else
  if gr s.timer n ≤ 0 then
    let fs := s.failedSecs.getD n []
    let s1 := fs.foldl (secDisconnect C) s
    let inFailed := fs.any (fun k => (C.secs.getD k default).lines.contains nc.connLine)
    if !gb s1.failed nc.connLine && !inFailed then
      let s2 := cbCloseOp C s1 nc.cb
      let s3 := secConnectManually C s2 (C.lines.getD nc.connLine default).sec
      { s3 with failedSecs := s3.failedSecs.set n [] }
    else s1
  else s

def tick (t dt : Rat) : Rat := if t > 0 then t - dt else 0

/-- DistributionController.run_manual_control_loop -/
def distLoop (C : Cfg) (s : St) (n : Nat) (dt : Rat) : St :=
  let nc := C.nets.getD n default
  let s1 := { s with timer := s.timer.set n (tick (gr s.timer n) dt) }
  let s2 := if gb s1.cbOpen nc.cb && gr s1.timer n ≤ 0 then { s1 with check := s1.check.set n true } else s1
  let s3 := if gb s2.check n then
      let a := checkLinesManually C s2 n
      let b := nc.children.foldl (fun s m =>
        if gb s.cbOpen (C.nets.getD m default).cb then { s with pTimer := s.pTimer.set m (gr s.timer n) } else s) a
      { b with check := b.check.set n false }
    else s2
  checkBreakerManually C s3 n

/-- MicrogridController.run_manual_control_loop -/
def mgLoop (C : Cfg) (s : St) (n : Nat) (dt : Rat) : St :=
  let nc := C.nets.getD n default
  let t1 := tick (gr s.timer n) dt
  let t2 := if gr s.pTimer n > t1 then gr s.pTimer n else t1
  let s1 := { s with timer := s.timer.set n t2, pTimer := s.pTimer.set n (tick (gr s.pTimer n) dt) }
  let s2 := if gb s1.cbOpen nc.cb && gr s1.timer n ≤ 0 then { s1 with check := s1.check.set n true } else s1
  let s3 := if gb s2.check n then
      let a := checkLinesManually C s2 n
      { a with check := a.check.set n false }
    else s2
  checkBreakerManually C s3 n

def isMg (C : Cfg) (n : Nat) : Bool := (C.nets.getD n default).mode.isSome

/-- one increment: update_fail_status of all lines, then ManualMainController.run_control_loop
(distribution controllers first, then microgrid controllers) -/
def step (C : Cfg) (s : St) (dt : Rat) : St :=
  let s1 := (List.range C.lines.length).foldl (fun s l => lineUpdate C s l dt) s
  let ns := List.range C.nets.length
  let s2 := (ns.filter (fun n => !isMg C n)).foldl (fun s n => distLoop C s n dt) s1
  (ns.filter (fun n => isMg C n)).foldl (fun s n => mgLoop C s n dt) s2

/-! ### ICT-based control (MainController in service, sensors and intelligent switches in service)

The automatic loops have the structure of the manual ones; what differs is how long the sectioning
takes: the manual sectioning time is added (not set) once when some line of the faulted section has
no sensor the controller can reach, and once more when some disconnector of the section cannot be
operated remotely.  What the controller can reach in an increment is an input (`Comm`), computed by
the ICT reachability routine (C16).  Counterpart of
  DistributionController / MicrogridController: check_sensors, run_control_loop, check_circuitbreaker
  Section.connect, Section.get_disconnect_time, MainController.run_control_loop (state OK). -/

structure Comm where
  sensor : List Bool      -- per line: it has a sensor and the sensor answers
  iswitch : List Bool     -- per disconnector: it has an intelligent switch and the switch answers
deriving Repr, Inhabited

def needSens (C : Cfg) (cm : Comm) (k : Nat) : Bool := (C.secs.getD k default).lines.any (fun l => !gb cm.sensor l)

def needSw (C : Cfg) (cm : Comm) (k : Nat) : Bool :=
  (C.secs.getD k default).switches.any (fun sw => match sw with | .discon d => !gb cm.iswitch d | .breaker _ => false)

/-- Section.get_disconnect_time -/
def disconnectTime (C : Cfg) (cm : Comm) (k : Nat) : Rat := if needSw C cm k then C.T else 0

/-- check_sensors (flag first, then reconnect) -/
def checkSensors (C : Cfg) (s : St) (n : Nat) (cm : Comm) : St :=
  let nc := C.nets.getD n default
  let connSecs := nc.secs.filter (fun k => gb s.secConn k)
  let discSecs := nc.secs.filter (fun k => !gb s.secConn k)
  let s1 := connSecs.foldl (fun s k =>
    let sc := C.secs.getD k default
    if anyFailed s sc.lines then
      let t := (if needSens C cm k then C.T else 0) + disconnectTime C cm k
      let s' := { s with secConn := s.secConn.set k false,
                         failedSecs := s.failedSecs.set n (addUnique (s.failedSecs.getD n []) k),
                         timer := s.timer.set n (gr s.timer n + t) }
      sc.lines.foldl (fun s l => { s with rem := s.rem.set l (gr s.rem l + disconnectTime C cm k) }) s'
    else s) s
  discSecs.foldl (fun s k =>
    let sc := C.secs.getD k default
    if anyFailed s sc.lines then s
    else
      let s' := secConnectManually C s k
      { s' with failedSecs := s'.failedSecs.set n ((s'.failedSecs.getD n []).filter (· != k)) }) s1

/-- DistributionController.run_control_loop -/
def distLoopA (C : Cfg) (s : St) (n : Nat) (dt : Rat) (cm : Comm) : St :=
  let nc := C.nets.getD n default
  let s1 := { s with timer := s.timer.set n (tick (gr s.timer n) dt) }
  let s2 := if gb s1.cbOpen nc.cb && gr s1.timer n ≤ 0 then { s1 with check := s1.check.set n true } else s1
  let s3 := if gb s2.check n then
      let a := checkSensors C s2 n cm
      let b := nc.children.foldl (fun s m =>
        if gb s.cbOpen (C.nets.getD m default).cb then { s with pTimer := s.pTimer.set m (gr s.timer n) } else s) a
      { b with check := b.check.set n false }
    else s2
  checkBreakerManually C s3 n

/-- MicrogridController.run_control_loop -/
def mgLoopA (C : Cfg) (s : St) (n : Nat) (dt : Rat) (cm : Comm) : St :=
  let nc := C.nets.getD n default
  let t1 := tick (gr s.timer n) dt
  let t2 := if gr s.pTimer n > t1 then gr s.pTimer n else t1
  let s1 := { s with timer := s.timer.set n t2, pTimer := s.pTimer.set n (tick (gr s.pTimer n) dt) }
  let s2 := if gb s1.cbOpen nc.cb && gr s1.timer n ≤ 0 then { s1 with check := s1.check.set n true } else s1
  let s3 := if gb s2.check n then
      let a := checkSensors C s2 n cm
      { a with check := a.check.set n false }
    else s2
  checkBreakerManually C s3 n

/-- one increment under ICT-based control -/
def stepA (C : Cfg) (s : St) (dt : Rat) (cm : Comm) : St :=
  let s1 := (List.range C.lines.length).foldl (fun s l => lineUpdate C s l dt) s
  let ns := List.range C.nets.length
  let s2 := (ns.filter (fun n => !isMg C n)).foldl (fun s n => distLoopA C s n dt cm) s1
  (ns.filter (fun n => isMg C n)).foldl (fun s n => mgLoopA C s n dt cm) s2


/-! ### ICT-based control with sensors / intelligent switches that have failed by themselves

A sensor that is FAILED when the controller polls it is brought back by a new signal / a reboot (costing `sensExtra`
hours, added to the sectioning time whether or not the section is faulted) or goes to manual repair; a sensor under
repair reports its line as failed (`sensRepair`: a false alarm keeps the section out of service until the sensor is
back).  An intelligent switch that is FAILED when its opening time is asked for is sent to manual repair and costs the
manual sectioning time once (`swFailed`, cleared by the first poll of the increment).  What each device will answer in
an increment is an input, as is reachability; with no device in trouble these loops are the loops of `stepA`
(`Lemmas`: `stepD_healthy`). -/

structure CommD where
  cm : Comm
  sensExtra : List Rat     -- per line: hours a reachable sensor needs before it answers (0 unless FAILED)
  sensRepair : List Bool   -- per line: the sensor is under manual repair and reports "failed"
  recheck : List Bool      -- per network: a sensor of the network came back from repair in this increment (its controller polls again)
deriving Repr, Inhabited

/-- hours spent on getting answers from the reachable sensors of section `k` -/
def sensSum (C : Cfg) (cd : CommD) (k : Nat) : Rat :=
  ((C.secs.getD k default).lines.filter (fun l => gb cd.cm.sensor l)).foldl (fun a l => a + gr cd.sensExtra l) 0

/-- what the controller concludes for section `k`: some line failed, or a reachable sensor under repair says so -/
def reportedFail (C : Cfg) (s : St) (cd : CommD) (k : Nat) : Bool :=
  (C.secs.getD k default).lines.any (fun l => gb s.failed l || (gb cd.cm.sensor l && gb cd.sensRepair l))

/-- asking one switch of a section for its opening time: a reachable intelligent switch that is FAILED costs the manual
sectioning time and goes to repair (cleared in `swF`) -/
def swPoll (C : Cfg) (cd : CommD) (acc : Rat × List Bool) : Sw → Rat × List Bool
  | .discon d => if gb cd.cm.iswitch d && gb acc.2 d then (acc.1 + C.T, acc.2.set d false) else acc
  | .breaker _ => acc

/-- Section.get_disconnect_time with switches that may be FAILED (`swF`, cleared when polled) -/
def disconnectTimeD (C : Cfg) (cd : CommD) (swF : List Bool) (k : Nat) : Rat × List Bool :=
  let r := (C.secs.getD k default).switches.foldl (swPoll C cd) ((0 : Rat), swF)
  (r.1 + (if needSw C cd.cm k then C.T else 0), r.2)

/-- flagging step of `check_sensors` with devices in trouble -/
def flagStepD (C : Cfg) (n : Nat) (cd : CommD) (acc : St × List Bool) (k : Nat) : St × List Bool :=
  let s := acc.1
  let sc := C.secs.getD k default
  let tm := s.timer.set n (gr s.timer n + sensSum C cd k)          -- every reachable sensor of the section has been asked
  if reportedFail C s cd k then
    let dt := disconnectTimeD C cd acc.2 k
    let t := (if needSens C cd.cm k then C.T else 0) + dt.1
    let s' := { s with secConn := s.secConn.set k false,
                       failedSecs := s.failedSecs.set n (addUnique (s.failedSecs.getD n []) k),
                       timer := tm.set n (gr tm n + t) }
    (sc.lines.foldl (fun s l => { s with rem := s.rem.set l (gr s.rem l + dt.1) }) s', dt.2)
  else ({ s with timer := tm }, acc.2)

/-- reconnecting step of `check_sensors` with devices in trouble -/
def recoStepD (C : Cfg) (n : Nat) (cd : CommD) (s : St) (k : Nat) : St :=
  let s0 : St := { s with timer := s.timer.set n (gr s.timer n + sensSum C cd k) }
  if reportedFail C s cd k then s0
  else
    let s' := secConnectManually C s0 k
    { s' with failedSecs := s'.failedSecs.set n ((s'.failedSecs.getD n []).filter (· != k)) }

def checkSensorsD (C : Cfg) (s : St) (n : Nat) (cd : CommD) (swF : List Bool) : St × List Bool :=
  let nc := C.nets.getD n default
  let connSecs := nc.secs.filter (fun k => gb s.secConn k)
  let discSecs := nc.secs.filter (fun k => !gb s.secConn k)
  let r1 := connSecs.foldl (flagStepD C n cd) (s, swF)
  (discSecs.foldl (recoStepD C n cd) r1.1, r1.2)

def distLoopD (C : Cfg) (s : St) (n : Nat) (dt : Rat) (cd : CommD) (swF : List Bool) : St × List Bool :=
  let nc := C.nets.getD n default
  let s1 := { s with timer := s.timer.set n (tick (gr s.timer n) dt) }
  let s2 := if gb s1.cbOpen nc.cb && gr s1.timer n ≤ 0 then { s1 with check := s1.check.set n true } else s1
  let r3 := if gb s2.check n then
      let a := checkSensorsD C s2 n cd swF
      let b := nc.children.foldl (fun s m =>
        if gb s.cbOpen (C.nets.getD m default).cb then { s with pTimer := s.pTimer.set m (gr s.timer n) } else s) a.1
      ({ b with check := b.check.set n false }, a.2)
    else (s2, swF)
  (checkBreakerManually C r3.1 n, r3.2)

def mgLoopD (C : Cfg) (s : St) (n : Nat) (dt : Rat) (cd : CommD) (swF : List Bool) : St × List Bool :=
  let nc := C.nets.getD n default
  let t1 := tick (gr s.timer n) dt
  let t2 := if gr s.pTimer n > t1 then gr s.pTimer n else t1
  let s1 := { s with timer := s.timer.set n t2, pTimer := s.pTimer.set n (tick (gr s.pTimer n) dt) }
  let s2 := if gb s1.cbOpen nc.cb && gr s1.timer n ≤ 0 then { s1 with check := s1.check.set n true } else s1
  let r3 := if gb s2.check n then
      let a := checkSensorsD C s2 n cd swF
      ({ a.1 with check := a.1.check.set n false }, a.2)
    else (s2, swF)
  (checkBreakerManually C r3.1 n, r3.2)

/-- one increment under ICT-based control with devices that may be in trouble (`swF`: intelligent switches FAILED now) -/
def stepD (C : Cfg) (s : St) (dt : Rat) (cd : CommD) (swF : List Bool) : St :=
  let s0 := (List.range C.lines.length).foldl (fun s l => lineUpdate C s l dt) s
  let ns := List.range C.nets.length
  -- Sensor.update_fail_status: back from repair => the controller of the line's network checks its components again
  let s1 := { s0 with check := ns.foldl (fun c n => if gb cd.recheck n then c.set n true else c) s0.check }
  let r2 := (ns.filter (fun n => !isMg C n)).foldl (fun (acc : St × List Bool) n => distLoopD C acc.1 n dt cd acc.2) (s1, swF)
  ((ns.filter (fun n => isMg C n)).foldl (fun (acc : St × List Bool) n => mgLoopD C acc.1 n dt cd acc.2) r2).1

/-- `MainController.spread_sectioning_time_to_sub_controllers` after a software failure of the main controller that
took `S` hours to cure (new signal, reboot): every sub-controller whose breaker is open keeps the larger of its own
sectioning time and `S`.  (Happens at the end of `update_fail_status`, before the control loops of the increment.) -/
def spreadTimers (C : Cfg) (cbOpen : List Bool) (S : Rat) (timer : List Rat) : List Rat :=
  (List.range C.nets.length).foldl
    (fun t n => if gb cbOpen (C.nets.getD n default).cb then t.set n (if gr t n < S then S else gr t n) else t) timer

def spreadSec (C : Cfg) (s : St) (S : Rat) : St :=
  { s with timer := spreadTimers C s.cbOpen S s.timer }

/-! ### the observed properties, as executable predicates -/

/-- C05: whenever a network's breaker is closed, no failed line of that network is in service -/
def isolatedOK (C : Cfg) (s : St) : Bool :=
  (List.range C.nets.length).all (fun n =>
    let nc := C.nets.getD n default
    gb s.cbOpen nc.cb || nc.lines.all (fun l => !(gb s.failed l && gb s.conn l)))

/-- C05: an open switch never sits on an in-service line -/
def switchesAgree (C : Cfg) (s : St) : Bool :=
  (List.range C.disconLine.length).all (fun d => !(gb s.dOpen d && gb s.conn (C.disconLine.getD d 0))) &&
  (List.range C.cbLine.length).all (fun c => !(gb s.cbOpen c && gb s.conn (C.cbLine.getD c 0)))

/-- C06: the normal configuration -/
def isNormal (C : Cfg) (s : St) : Bool :=
  s.cbOpen.all (!·) && s.dOpen.all (!·) && s.conn.all id && s.secConn.all id && s.failed.all (!·) &&
  s.timer.all (· ≤ 0) && s.pTimer.all (· ≤ 0) && s.failedSecs.all (·.isEmpty) && s.netFailed.all (!·)

end Relsad.Control
